package c09

import (
	"fmt"
	"go/ast"
	"go/token"
	"go/types"
	"sort"
	"strings"
)

// Wait-for facts (consumed by C09_handler_locks_disjoint, modelled in Model/WaitFor.lean).
//
// A local call that has sent a request can only be released by the serve goroutine: Serve reads
// the peer's answer and hands it over.  Whatever such a call holds while it waits - a mutex -
// must therefore never be needed by code that runs ON the serve goroutine (a handler), or the
// two wait for each other for ever as soon as the peer sends the handler's stanza before the
// answer.  Per handler package two sets of mutexes are regenerated:
//
//	held   mutexes held across something that waits for the peer: a Session send / request
//	       (directly), a function of the package that (transitively) does so, or a call through a
//	       value that wraps such a function of the package - a struct field or local that was
//	       built by handing a value of a package type with a waiting method (an io.Writer whose
//	       Write sends a stanza and waits for the acknowledgement) to a foreign constructor
//	       (bufio.NewWriter(base64.NewEncoder(…, w))), or a method value of such a wrapper
//	serve  mutexes taken by code reachable from the package's Handle{IQ,Message,Presence,XMPP}
//	       methods (same-package call graph, function values included, goroutines the handler
//	       starts excluded).  The handler's parameters are non-nil (mux contract); a branch
//	       guarded by `p == nil` for a parameter that receives such a value on every call edge
//	       followed is not entered (if/else, early return and tagless switch forms alike).
//
// Mutexes are named <struct type>.<field> from go/types objects, never by the text of the
// receiver; function and local names play no role in the consumed fact (they appear in a comment
// for the reader only).
type waitFact struct {
	Pkg        string
	Held       []string
	Serve      []string
	HeldWhere  []string // "mutex in function" for the reader
	ServeWhere []string
}

type waitAn struct {
	l          *loaded
	decls      map[*types.Func]*ast.FuncDecl
	awaits     map[*types.Func]bool
	taintField map[*types.Var]bool
	changed    bool
	// entries: names of the methods the serve walk starts from (nil = the handler methods)
	entries map[string]bool
}

func (w *waitAn) set(m map[*types.Func]bool, f *types.Func) {
	if !m[f] {
		m[f] = true
		w.changed = true
	}
}

func derefNamed(t types.Type) *types.Named {
	for {
		switch x := t.(type) {
		case *types.Pointer:
			t = x.Elem()
			continue
		case *types.Named:
			return x
		}
		return nil
	}
}

// blockingType: a named type of this package one of whose methods waits for the peer.
func (w *waitAn) blockingType(t types.Type) bool {
	if t == nil {
		return false
	}
	n := derefNamed(t)
	if n == nil || n.Obj().Pkg() != w.l.Pkg {
		return false
	}
	for i := 0; i < n.NumMethods(); i++ {
		if w.awaits[n.Method(i)] {
			return true
		}
	}
	return false
}

func (w *waitAn) fieldOf(e ast.Expr) *types.Var {
	sel, ok := e.(*ast.SelectorExpr)
	if !ok {
		return nil
	}
	if s, ok := w.l.Info.Selections[sel]; ok && s.Kind() == types.FieldVal {
		if v, ok := s.Obj().(*types.Var); ok {
			return v
		}
	}
	return nil
}

func unparen(e ast.Expr) ast.Expr {
	for {
		switch x := e.(type) {
		case *ast.ParenExpr:
			e = x.X
		case *ast.StarExpr:
			e = x.X
		case *ast.UnaryExpr:
			if x.Op != token.AND {
				return e
			}
			e = x.X
		default:
			return e
		}
	}
}

// tainted: the expression denotes a wrapper around a waiting function of the package.
func (w *waitAn) tainted(e ast.Expr, local map[*types.Var]bool) bool {
	e = unparen(e)
	switch x := e.(type) {
	case *ast.Ident:
		if v, ok := w.l.Info.Uses[x].(*types.Var); ok {
			return local[v]
		}
		if v, ok := w.l.Info.Defs[x].(*types.Var); ok {
			return local[v]
		}
	case *ast.SelectorExpr:
		if f := w.fieldOf(x); f != nil {
			return w.taintField[f]
		}
	}
	return false
}

func (w *waitAn) calleeFunc(call *ast.CallExpr) *types.Func {
	switch f := unparenOnly(call.Fun).(type) {
	case *ast.Ident:
		fn, _ := w.l.Info.Uses[f].(*types.Func)
		return fn
	case *ast.SelectorExpr:
		if s, ok := w.l.Info.Selections[f]; ok {
			fn, _ := s.Obj().(*types.Func)
			return fn
		}
		fn, _ := w.l.Info.Uses[f.Sel].(*types.Func)
		return fn
	}
	return nil
}

func unparenOnly(e ast.Expr) ast.Expr {
	for {
		p, ok := e.(*ast.ParenExpr)
		if !ok {
			return e
		}
		e = p.X
	}
}

// taintSource: a value that, handed to a foreign constructor or stored, makes the result a
// wrapper: a tainted value, a value of a blocking package type, a method value of either, or a
// foreign call that wraps one.
func (w *waitAn) taintSource(e ast.Expr, local map[*types.Var]bool) bool {
	if w.tainted(e, local) {
		return true
	}
	if w.blockingType(w.l.Info.TypeOf(e)) {
		return true
	}
	switch x := unparenOnly(e).(type) {
	case *ast.SelectorExpr:
		if s, ok := w.l.Info.Selections[x]; ok && s.Kind() == types.MethodVal {
			if fn, ok := s.Obj().(*types.Func); ok && fn.Pkg() == w.l.Pkg {
				return w.awaits[fn]
			}
			return w.taintSource(x.X, local)
		}
	case *ast.CallExpr:
		fn := w.calleeFunc(x)
		if fn != nil && fn.Pkg() == w.l.Pkg {
			return false // summarised by its own result type / fields
		}
		for _, a := range x.Args {
			if w.taintSource(a, local) {
				return true
			}
		}
	case *ast.FuncLit:
		return w.bodyAwaits(x.Body, local)
	}
	return false
}

// callAwaits: the call may wait for the peer.
func (w *waitAn) callAwaits(call *ast.CallExpr, local map[*types.Var]bool) bool {
	fun := unparenOnly(call.Fun)
	if sel, ok := fun.(*ast.SelectorExpr); ok && sessionSend[sel.Sel.Name] {
		if t := w.l.Info.TypeOf(sel.X); t != nil && isSessionPtr(t) {
			return true
		}
	}
	if fn := w.calleeFunc(call); fn != nil {
		if fn.Pkg() == w.l.Pkg {
			return w.awaits[fn]
		}
		// a foreign method on a wrapper (bufio.Writer.Flush over the package's stanza writer)
		if sel, ok := fun.(*ast.SelectorExpr); ok {
			return w.tainted(sel.X, local)
		}
		return false
	}
	// a function value: field or local
	return w.tainted(fun, local)
}

// localTaint computes the tainted locals of one function body (two passes: order-insensitive
// enough for straight-line constructors) and records tainted fields.
func (w *waitAn) localTaint(body *ast.BlockStmt) map[*types.Var]bool {
	local := map[*types.Var]bool{}
	mark := func(lhs ast.Expr) {
		lhs = unparenOnly(lhs)
		if id, ok := lhs.(*ast.Ident); ok {
			if v, ok := w.l.Info.Defs[id].(*types.Var); ok && v != nil {
				local[v] = true
			} else if v, ok := w.l.Info.Uses[id].(*types.Var); ok {
				local[v] = true
			}
			return
		}
		if f := w.fieldOf(lhs); f != nil && !w.taintField[f] {
			w.taintField[f] = true
			w.changed = true
		}
	}
	for pass := 0; pass < 2; pass++ {
		ast.Inspect(body, func(n ast.Node) bool {
			switch n := n.(type) {
			case *ast.AssignStmt:
				if len(n.Lhs) == len(n.Rhs) {
					for i := range n.Lhs {
						if w.taintSource(n.Rhs[i], local) {
							mark(n.Lhs[i])
						}
					}
				} else if len(n.Rhs) == 1 && w.taintSource(n.Rhs[0], local) {
					for _, l := range n.Lhs {
						mark(l)
					}
				}
			case *ast.ValueSpec:
				for i, v := range n.Values {
					if i < len(n.Names) && w.taintSource(v, local) {
						mark(n.Names[i])
					}
				}
			case *ast.CompositeLit:
				for _, el := range n.Elts {
					kv, ok := el.(*ast.KeyValueExpr)
					if !ok {
						continue
					}
					k, ok := kv.Key.(*ast.Ident)
					if !ok {
						continue
					}
					if f, ok := w.l.Info.Uses[k].(*types.Var); ok && f.IsField() && w.taintSource(kv.Value, local) && !w.taintField[f] {
						w.taintField[f] = true
						w.changed = true
					}
				}
			}
			return true
		})
	}
	return local
}

func (w *waitAn) bodyAwaits(body ast.Node, local map[*types.Var]bool) bool {
	found := false
	ast.Inspect(body, func(n ast.Node) bool {
		if found {
			return false
		}
		switch n := n.(type) {
		case *ast.GoStmt:
			return false
		case *ast.CallExpr:
			if w.callAwaits(n, local) {
				found = true
			}
		}
		return true
	})
	return found
}

// mutexOp recognises X.Lock() / RLock() / Unlock() / RUnlock() of package sync and names X.
func (w *waitAn) mutexOp(call *ast.CallExpr) (key, op string) {
	if call == nil || len(call.Args) != 0 {
		return "", ""
	}
	sel, ok := call.Fun.(*ast.SelectorExpr)
	if !ok {
		return "", ""
	}
	switch sel.Sel.Name {
	case "Lock", "RLock":
		op = "lock"
	case "Unlock", "RUnlock":
		op = "unlock"
	default:
		return "", ""
	}
	s, ok := w.l.Info.Selections[sel]
	if !ok {
		return "", ""
	}
	if f, ok := s.Obj().(*types.Func); !ok || f.Pkg() == nil || f.Pkg().Path() != "sync" {
		return "", ""
	}
	x := unparenOnly(sel.X)
	if f := w.fieldOf(x); f != nil {
		owner := "?"
		if n := derefNamed(w.l.Info.TypeOf(x.(*ast.SelectorExpr).X)); n != nil {
			owner = n.Obj().Name()
		}
		return owner + "." + f.Name(), op
	}
	if id, ok := x.(*ast.Ident); ok {
		if v, ok := w.l.Info.Uses[id].(*types.Var); ok {
			if v.Parent() == w.l.Pkg.Scope() {
				return "var." + v.Name(), op
			}
			if n := derefNamed(v.Type()); n != nil && n.Obj().Pkg() == w.l.Pkg {
				return n.Obj().Name() + ".(embedded)", op // a struct that embeds its mutex
			}
			return fmt.Sprintf("local.%s@%d", v.Name(), v.Pos()), op
		}
	}
	return "expr." + types.ExprString(x), op
}

func (w *waitAn) lockStmt(s ast.Stmt) (key, op string, deferred bool) {
	switch s := s.(type) {
	case *ast.ExprStmt:
		if c, ok := s.X.(*ast.CallExpr); ok {
			key, op = w.mutexOp(c)
		}
	case *ast.DeferStmt:
		key, op = w.mutexOp(s.Call)
		deferred = true
	}
	return
}

// heldAcrossWait: mutexes held (Lock … no Unlock yet; a deferred Unlock holds to the end) across
// a call that may wait for the peer.
func (w *waitAn) heldAcrossWait(fd *ast.FuncDecl, out map[string]map[string]bool, fname string) {
	local := w.localTaint(fd.Body)
	waits := func(n ast.Node, held map[string]bool) {
		if len(held) == 0 || n == nil {
			return
		}
		if w.bodyAwaits(n, local) {
			for x := range held {
				if out[x] == nil {
					out[x] = map[string]bool{}
				}
				out[x][fname] = true
			}
		}
	}
	var walk func(list []ast.Stmt, held map[string]bool)
	walk = func(list []ast.Stmt, held map[string]bool) {
		h := map[string]bool{}
		for k := range held {
			h[k] = true
		}
		for _, st := range list {
			if x, op, deferred := w.lockStmt(st); op != "" {
				switch {
				case op == "lock" && !deferred:
					h[x] = true
				case op == "unlock" && !deferred:
					delete(h, x)
				}
				continue
			}
			switch st := st.(type) {
			case *ast.BlockStmt:
				walk(st.List, h)
			case *ast.LabeledStmt:
				walk([]ast.Stmt{st.Stmt}, h)
			case *ast.IfStmt:
				if st.Init != nil {
					waits(st.Init, h)
				}
				waits(st.Cond, h)
				walk(st.Body.List, h)
				if b, ok := st.Else.(*ast.BlockStmt); ok {
					walk(b.List, h)
				} else if st.Else != nil {
					walk([]ast.Stmt{st.Else}, h)
				}
			case *ast.ForStmt:
				if st.Cond != nil {
					waits(st.Cond, h)
				}
				walk(st.Body.List, h)
			case *ast.RangeStmt:
				waits(st.X, h)
				walk(st.Body.List, h)
			case *ast.SwitchStmt:
				if st.Tag != nil {
					waits(st.Tag, h)
				}
				for _, c := range st.Body.List {
					walk(c.(*ast.CaseClause).Body, h)
				}
			case *ast.TypeSwitchStmt:
				for _, c := range st.Body.List {
					walk(c.(*ast.CaseClause).Body, h)
				}
			case *ast.SelectStmt:
				for _, c := range st.Body.List {
					walk(c.(*ast.CommClause).Body, h)
				}
			case *ast.GoStmt:
			default:
				waits(st, h)
			}
		}
	}
	walk(fd.Body.List, map[string]bool{})
}

var handlerEntry = map[string]bool{"HandleIQ": true, "HandleMessage": true, "HandlePresence": true, "HandleXMPP": true}

type serveKey struct {
	fn   *types.Func
	mask uint64
}

// nilTest: +1 the condition is `p != nil`, -1 it is `p == nil`, for a parameter in nonnil.
func (w *waitAn) nilTest(cond ast.Expr, nonnil map[*types.Var]bool) int {
	cond = unparenOnly(cond)
	if u, ok := cond.(*ast.UnaryExpr); ok && u.Op == token.NOT {
		return -w.nilTest(u.X, nonnil)
	}
	b, ok := cond.(*ast.BinaryExpr)
	if !ok || (b.Op != token.EQL && b.Op != token.NEQ) {
		return 0
	}
	isNil := func(e ast.Expr) bool {
		id, ok := unparenOnly(e).(*ast.Ident)
		if !ok {
			return false
		}
		_, isnil := w.l.Info.Uses[id].(*types.Nil)
		return isnil
	}
	param := func(e ast.Expr) bool {
		id, ok := unparenOnly(e).(*ast.Ident)
		if !ok {
			return false
		}
		v, ok := w.l.Info.Uses[id].(*types.Var)
		return ok && nonnil[v]
	}
	if (isNil(b.X) && param(b.Y)) || (isNil(b.Y) && param(b.X)) {
		if b.Op == token.NEQ {
			return 1
		}
		return -1
	}
	return 0
}

func terminates(list []ast.Stmt) bool {
	if len(list) == 0 {
		return false
	}
	switch s := list[len(list)-1].(type) {
	case *ast.ReturnStmt:
		return true
	case *ast.ExprStmt:
		if c, ok := s.X.(*ast.CallExpr); ok {
			if id, ok := c.Fun.(*ast.Ident); ok && id.Name == "panic" {
				return true
			}
		}
	}
	return false
}

// deadNodes: statements that cannot run when the parameters in nonnil are not nil.
func (w *waitAn) deadNodes(body *ast.BlockStmt, nonnil map[*types.Var]bool) map[ast.Node]bool {
	dead := map[ast.Node]bool{}
	if len(nonnil) == 0 {
		return dead
	}
	var prune func(list []ast.Stmt)
	nested := func(n ast.Node) {
		ast.Inspect(n, func(m ast.Node) bool {
			switch m := m.(type) {
			case *ast.BlockStmt:
				prune(m.List)
				return false
			case *ast.CaseClause:
				prune(m.Body)
				return false
			case *ast.CommClause:
				prune(m.Body)
				return false
			}
			return true
		})
	}
	prune = func(list []ast.Stmt) {
		for i, st := range list {
			switch s := st.(type) {
			case *ast.IfStmt:
				if s.Init != nil {
					nested(s.Init)
				}
				switch w.nilTest(s.Cond, nonnil) {
				case -1:
					dead[s.Body] = true
					if s.Else != nil {
						prune([]ast.Stmt{s.Else})
					}
				case 1:
					if s.Else != nil {
						dead[s.Else] = true
					}
					prune(s.Body.List)
					if terminates(s.Body.List) {
						for _, r := range list[i+1:] {
							dead[r] = true
						}
						return
					}
				default:
					prune(s.Body.List)
					if s.Else != nil {
						prune([]ast.Stmt{s.Else})
					}
				}
			case *ast.SwitchStmt:
				if s.Tag != nil {
					nested(s)
					continue
				}
				decided := false
				for _, c := range s.Body.List {
					cc := c.(*ast.CaseClause)
					if decided {
						dead[cc] = true
						continue
					}
					if len(cc.List) == 1 {
						switch w.nilTest(cc.List[0], nonnil) {
						case -1:
							dead[cc] = true
							continue
						case 1:
							decided = true
						}
					}
					prune(cc.Body)
				}
			case *ast.BlockStmt:
				prune(s.List)
			default:
				nested(st)
			}
		}
	}
	prune(body.List)
	return dead
}

func paramVars(info *types.Info, ft *ast.FuncType) []*types.Var {
	var out []*types.Var
	if ft.Params == nil {
		return nil
	}
	for _, f := range ft.Params.List {
		if len(f.Names) == 0 {
			out = append(out, nil)
			continue
		}
		for _, n := range f.Names {
			v, _ := info.Defs[n].(*types.Var)
			out = append(out, v)
		}
	}
	return out
}

// serveLocks: mutexes taken by code reachable from the handler entry points.
func (w *waitAn) serveLocks(out map[string]map[string]bool, fnName func(*ast.FuncDecl) string) {
	w.serveWalk(fnName, func(name string, n ast.Node) {
		if c, ok := n.(*ast.CallExpr); ok {
			if key, op := w.mutexOp(c); op == "lock" {
				if out[key] == nil {
					out[key] = map[string]bool{}
				}
				out[key][name] = true
			}
		}
	})
}

// serveWalk visits every node that can run on the serve goroutine: the bodies of the functions
// reachable from the handler entry points, minus branches that are dead for non-nil handler
// parameters and minus the goroutines the handler starts.
func (w *waitAn) serveWalk(fnName func(*ast.FuncDecl) string, visit func(fn string, n ast.Node)) {
	seen := map[serveKey]bool{}
	var work []serveKey
	push := func(fn *types.Func, mask uint64) {
		k := serveKey{fn, mask}
		if w.decls[fn] != nil && !seen[k] {
			seen[k] = true
			work = append(work, k)
		}
	}
	for fn, fd := range w.decls {
		entries := w.entries
		if entries == nil {
			entries = handlerEntry
		}
		if fd.Recv != nil && entries[fd.Name.Name] {
			push(fn, ^uint64(0))
		}
	}
	// deterministic order
	sort.Slice(work, func(i, j int) bool { return work[i].fn.FullName() < work[j].fn.FullName() })
	for len(work) > 0 {
		k := work[0]
		work = work[1:]
		fd := w.decls[k.fn]
		params := paramVars(w.l.Info, fd.Type)
		assigned := map[*types.Var]bool{}
		ast.Inspect(fd.Body, func(n ast.Node) bool {
			switch n := n.(type) {
			case *ast.AssignStmt:
				for _, l := range n.Lhs {
					if id, ok := unparenOnly(l).(*ast.Ident); ok {
						if v, ok := w.l.Info.Uses[id].(*types.Var); ok {
							assigned[v] = true
						}
					}
				}
			case *ast.UnaryExpr:
				if n.Op == token.AND {
					if id, ok := unparenOnly(n.X).(*ast.Ident); ok {
						if v, ok := w.l.Info.Uses[id].(*types.Var); ok {
							assigned[v] = true
						}
					}
				}
			}
			return true
		})
		nonnil := map[*types.Var]bool{}
		for i, p := range params {
			if p != nil && i < 64 && k.mask&(1<<uint(i)) != 0 && !assigned[p] {
				nonnil[p] = true
			}
		}
		dead := w.deadNodes(fd.Body, nonnil)
		called := map[*ast.Ident]bool{}
		name := fnName(fd)
		ast.Inspect(fd.Body, func(n ast.Node) bool {
			if n == nil || dead[n] {
				return false
			}
			if _, isGo := n.(*ast.GoStmt); isGo {
				return false
			}
			visit(name, n)
			switch n := n.(type) {
			case *ast.CallExpr:
				if fn := w.calleeFunc(n); fn != nil && fn.Pkg() == w.l.Pkg {
					switch f := unparenOnly(n.Fun).(type) {
					case *ast.Ident:
						called[f] = true
					case *ast.SelectorExpr:
						called[f.Sel] = true
					}
					var mask uint64
					for i, a := range n.Args {
						if i >= 64 {
							break
						}
						switch x := unparenOnly(a).(type) {
						case *ast.Ident:
							if v, ok := w.l.Info.Uses[x].(*types.Var); ok && nonnil[v] {
								mask |= 1 << uint(i)
							}
						case *ast.UnaryExpr:
							if x.Op == token.AND {
								mask |= 1 << uint(i)
							}
						case *ast.FuncLit, *ast.CompositeLit:
							mask |= 1 << uint(i)
						}
					}
					push(fn, mask)
				}
			case *ast.Ident:
				// a function of the package used as a value: it may be called with anything
				if fn, ok := w.l.Info.Uses[n].(*types.Func); ok && fn.Pkg() == w.l.Pkg && !called[n] {
					push(fn, 0)
				}
			}
			return true
		})
	}
}

func sortedKeys(m map[string]map[string]bool) []string {
	var out []string
	for k := range m {
		out = append(out, k)
	}
	sort.Strings(out)
	return out
}

func whereList(m map[string]map[string]bool) []string {
	var out []string
	for _, k := range sortedKeys(m) {
		var fns []string
		for f := range m[k] {
			fns = append(fns, f)
		}
		sort.Strings(fns)
		out = append(out, k+" in "+strings.Join(fns, ", "))
	}
	return out
}

// waitFactsOf analyses one handler package (every non-test file: the call graph does not stop
// at the files a property anchors).
func waitFactsOf(l *loaded) *waitFact {
	wf, _, _ := waitFactsOfX(l, nil)
	return wf
}

// waitFactsOfX also returns the channel operations on the serve goroutine (chanfacts.go; only
// when fset is given) and the exported request helpers of the package.
func waitFactsOfX(l *loaded, fset *token.FileSet) (*waitFact, []chanOp, []string) {
	return waitFactsOfEntries(l, fset, nil)
}

// rootServeEntries: the serve goroutine of the root package starts in the exported method
// (*Session).Serve (an API name).
var rootServeEntries = map[string]bool{"Serve": true}

func waitFactsOfEntries(l *loaded, fset *token.FileSet, entries map[string]bool) (*waitFact, []chanOp, []string) {
	w := &waitAn{l: l, decls: map[*types.Func]*ast.FuncDecl{}, awaits: map[*types.Func]bool{}, taintField: map[*types.Var]bool{}, entries: entries}
	var fds []*ast.FuncDecl
	for _, file := range l.Files {
		if ast.IsGenerated(file) {
			continue
		}
		for _, d := range file.Decls {
			if fd, ok := d.(*ast.FuncDecl); ok && fd.Body != nil {
				if fn, ok := l.Info.Defs[fd.Name].(*types.Func); ok {
					w.decls[fn] = fd
					fds = append(fds, fd)
				}
			}
		}
	}
	// fixpoint: waiting functions <-> wrapper fields
	for round := 0; round < 12; round++ {
		w.changed = false
		for _, fd := range fds {
			fn := l.Info.Defs[fd.Name].(*types.Func)
			local := w.localTaint(fd.Body)
			if !w.awaits[fn] && w.bodyAwaits(fd.Body, local) {
				w.set(w.awaits, fn)
			}
		}
		if !w.changed {
			break
		}
	}
	fnName := func(fd *ast.FuncDecl) string { return l.Pkg.Name() + "." + recvName(fd) + fd.Name.Name }
	held := map[string]map[string]bool{}
	for _, fd := range fds {
		w.heldAcrossWait(fd, held, fnName(fd))
	}
	serve := map[string]map[string]bool{}
	w.serveLocks(serve, fnName)
	var ops []chanOp
	if fset != nil {
		ops = w.chanOps(fset, fnName)
	}
	helpers := w.requestHelpers(fnName)
	if len(held) == 0 && len(serve) == 0 {
		return nil, ops, helpers
	}
	return &waitFact{Pkg: l.Pkg.Name(), Held: sortedKeys(held), Serve: sortedKeys(serve), HeldWhere: whereList(held), ServeWhere: whereList(serve)}, ops, helpers
}

func leanStrList(l []string) string {
	var q []string
	for _, s := range l {
		q = append(q, fmt.Sprintf("%q", s))
	}
	return "[" + strings.Join(q, ", ") + "]"
}

func leanWaitFacts(fs []*waitFact, ok bool) string {
	var b strings.Builder
	b.WriteString("/-- per handler package: (package, mutexes held while the holder waits for the peer,\nmutexes taken on the serve goroutine by code reachable from the package's handlers) -/\n")
	if !ok {
		b.WriteString("def waitLocks : Option (List (String × List String × List String)) := none\n")
		return b.String()
	}
	b.WriteString("def waitLocks : Option (List (String × List String × List String)) := some [")
	for i, f := range fs {
		if i > 0 {
			b.WriteString(",")
		}
		fmt.Fprintf(&b, "\n  (%q, %s, %s)", f.Pkg, leanStrList(f.Held), leanStrList(f.Serve))
	}
	b.WriteString("]\n/-! where (for the reader; not consumed):\n")
	for _, f := range fs {
		for _, s := range f.HeldWhere {
			fmt.Fprintf(&b, "  %s held across a wait: %s\n", f.Pkg, strings.ReplaceAll(s, "-/", "- /"))
		}
		for _, s := range f.ServeWhere {
			fmt.Fprintf(&b, "  %s taken on the serve goroutine: %s\n", f.Pkg, strings.ReplaceAll(s, "-/", "- /"))
		}
	}
	b.WriteString("-/\n")
	return b.String()
}
