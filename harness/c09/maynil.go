package c09

import (
	"go/ast"
	"go/token"
	"go/types"
)

// May-return-nil summaries (inter-procedural, syntactic).
//
// For a function of the code in scope with a pointer- or interface-typed result k, the summary
// says: some `return` can hand the caller a nil result k together with a nil error (or the
// function has no error result at all).  Detected: result k is the literal nil (or the whole
// return is a call of a function whose summary says so), and the error operand is not known to
// be non-nil.  An error operand is known to be non-nil when it is fmt.Errorf(…) / errors.New(…)
// / a composite literal / &T{…} / a package-level variable (io.EOF, ErrX), or a variable that
// the return is dominated by `v != nil` for (the return lies in the then-branch of such an `if`
// and the variable is not assigned in that branch before it), or that was assigned such a value
// by the statement just before.
//
// What this does not see (trusted base): a nil result that travels through a variable.
//
// Use (translate.go): a local variable that receives result k of such a call is tracked in the
// verified IR with kinds {nil, ptr}; every selector / method call on it is a `require {ptr}`,
// `v != nil` refines it.  The error check `if err != nil { return }` does not (that is the
// point: the summary says nil comes with a nil error).

func isNilableType(t types.Type) bool {
	if t == nil {
		return false
	}
	switch t.Underlying().(type) {
	case *types.Pointer, *types.Interface:
		return true
	}
	return false
}

func isErrorType(t types.Type) bool {
	n, ok := t.(*types.Named)
	return ok && n.Obj().Pkg() == nil && n.Obj().Name() == "error"
}

func calleeOf(info *types.Info, call *ast.CallExpr) *types.Func {
	switch f := ast.Unparen(call.Fun).(type) {
	case *ast.Ident:
		fn, _ := info.Uses[f].(*types.Func)
		return fn
	case *ast.SelectorExpr:
		fn, _ := info.Uses[f.Sel].(*types.Func)
		return fn
	}
	return nil
}

func knownNonNilErrExpr(info *types.Info, e ast.Expr) bool {
	e = ast.Unparen(e)
	switch e := e.(type) {
	case *ast.CompositeLit:
		return true
	case *ast.UnaryExpr:
		return e.Op == token.AND
	case *ast.CallExpr:
		if fn := calleeOf(info, e); fn != nil && fn.Pkg() != nil {
			full := fn.Pkg().Path() + "." + fn.Name()
			switch full {
			case "fmt.Errorf", "errors.New":
				return true
			}
		}
		if tv, ok := info.Types[e.Fun]; ok && tv.IsType() && len(e.Args) == 1 {
			return knownNonNilErrExpr(info, e.Args[0]) || isConstString(info, e.Args[0])
		}
	case *ast.SelectorExpr:
		if v, ok := info.Uses[e.Sel].(*types.Var); ok && v.Pkg() != nil && v.Parent() == v.Pkg().Scope() {
			return true
		}
	case *ast.Ident:
		if v, ok := info.Uses[e].(*types.Var); ok && v.Pkg() != nil && v.Parent() == v.Pkg().Scope() {
			return true
		}
	}
	return false
}

func isConstString(info *types.Info, e ast.Expr) bool {
	tv, ok := info.Types[e]
	return ok && tv.Value != nil
}

type nilCtx struct {
	info *types.Info
	// guarded: variables known non-nil on the current path (then-branch of `v != nil`, or just
	// assigned a known non-nil value)
	guarded map[*types.Var]bool
}

func condNonNil(info *types.Info, cond ast.Expr, out map[*types.Var]bool) {
	cond = ast.Unparen(cond)
	be, ok := cond.(*ast.BinaryExpr)
	if !ok {
		return
	}
	switch be.Op {
	case token.LAND:
		condNonNil(info, be.X, out)
		condNonNil(info, be.Y, out)
	case token.NEQ:
		x, y := ast.Unparen(be.X), ast.Unparen(be.Y)
		if tv, ok := info.Types[y]; ok && tv.IsNil() {
			if id, ok := x.(*ast.Ident); ok {
				if v, ok := info.Uses[id].(*types.Var); ok {
					out[v] = true
				}
			}
		}
	}
}

// mayNilSummaries computes, for every function declared in the loaded packages, the result
// positions that may be nil together with a nil error.  Keys are types.Func.FullName().
func mayNilSummaries(pkgs []*loaded, exclude func(fullName string) bool) map[string]map[int]bool {
	sum := map[string]map[int]bool{}
	for changed, round := true, 0; changed && round < 6; round++ {
		changed = false
		for _, l := range pkgs {
			for _, file := range l.Files {
				for _, d := range file.Decls {
					fd, ok := d.(*ast.FuncDecl)
					if !ok || fd.Body == nil {
						continue
					}
					fn, _ := l.Info.Defs[fd.Name].(*types.Func)
					if fn == nil {
						continue
					}
					sig := fn.Type().(*types.Signature)
					res := sig.Results()
					if res.Len() == 0 {
						continue
					}
					errIdx := -1
					if isErrorType(res.At(res.Len() - 1).Type()) {
						errIdx = res.Len() - 1
					}
					var nilable []int
					for k := 0; k < res.Len(); k++ {
						if k != errIdx && isNilableType(res.At(k).Type()) && !isErrorType(res.At(k).Type()) {
							nilable = append(nilable, k)
						}
					}
					if len(nilable) == 0 {
						continue
					}
					mark := func(k int) {
						name := fn.FullName()
						if exclude != nil && exclude(name) {
							return // a reviewed, documented contract (allow.txt, kind maynil-callee)
						}
						if sum[name] == nil {
							sum[name] = map[int]bool{}
						}
						if !sum[name][k] {
							sum[name][k] = true
							changed = true
						}
					}
					var walk func(list []ast.Stmt, guarded map[*types.Var]bool)
					visitRet := func(ret *ast.ReturnStmt, guarded map[*types.Var]bool) {
						if len(ret.Results) == 0 {
							return // named results: their values travel through variables (not seen)
						}
						if len(ret.Results) == 1 && res.Len() > 1 {
							// return g(…): inherit g's summary
							if call, ok := ast.Unparen(ret.Results[0]).(*ast.CallExpr); ok {
								if g := calleeOf(l.Info, call); g != nil {
									for k := range sum[g.FullName()] {
										for _, nk := range nilable {
											if nk == k {
												mark(k)
											}
										}
									}
								}
							}
							return
						}
						if len(ret.Results) != res.Len() {
							return
						}
						errNonNil := false
						if errIdx >= 0 {
							e := ast.Unparen(ret.Results[errIdx])
							if knownNonNilErrExpr(l.Info, e) {
								errNonNil = true
							} else if id, ok := e.(*ast.Ident); ok {
								if v, ok := l.Info.Uses[id].(*types.Var); ok && guarded[v] {
									errNonNil = true
								}
							}
						}
						if errNonNil {
							return
						}
						for _, k := range nilable {
							if tv, ok := l.Info.Types[ast.Unparen(ret.Results[k])]; ok && tv.IsNil() {
								mark(k)
							}
						}
					}
					walk = func(list []ast.Stmt, guarded map[*types.Var]bool) {
						g := map[*types.Var]bool{}
						for v := range guarded {
							g[v] = true
						}
						for _, st := range list {
							switch st := st.(type) {
							case *ast.ReturnStmt:
								visitRet(st, g)
							case *ast.AssignStmt:
								for i, lh := range st.Lhs {
									id, ok := lh.(*ast.Ident)
									if !ok {
										continue
									}
									v, _ := l.Info.ObjectOf(id).(*types.Var)
									if v == nil {
										continue
									}
									if len(st.Lhs) == len(st.Rhs) && knownNonNilErrExpr(l.Info, st.Rhs[i]) {
										g[v] = true
									} else {
										delete(g, v)
									}
								}
							case *ast.BlockStmt:
								walk(st.List, g)
							case *ast.IfStmt:
								if st.Init != nil {
									walk([]ast.Stmt{st.Init}, g)
									if as, ok := st.Init.(*ast.AssignStmt); ok {
										for _, lh := range as.Lhs {
											if id, ok := lh.(*ast.Ident); ok {
												if v, _ := l.Info.ObjectOf(id).(*types.Var); v != nil {
													delete(g, v)
												}
											}
										}
									}
								}
								tg := map[*types.Var]bool{}
								for v := range g {
									tg[v] = true
								}
								condNonNil(l.Info, st.Cond, tg)
								walk(st.Body.List, tg)
								if st.Else != nil {
									walk([]ast.Stmt{st.Else}, g)
								}
							case *ast.ForStmt:
								walk(st.Body.List, map[*types.Var]bool{})
							case *ast.RangeStmt:
								walk(st.Body.List, map[*types.Var]bool{})
							case *ast.SwitchStmt:
								for _, c := range st.Body.List {
									walk(c.(*ast.CaseClause).Body, g)
								}
							case *ast.TypeSwitchStmt:
								for _, c := range st.Body.List {
									walk(c.(*ast.CaseClause).Body, g)
								}
							case *ast.SelectStmt:
								for _, c := range st.Body.List {
									walk(c.(*ast.CommClause).Body, g)
								}
							case *ast.LabeledStmt:
								walk([]ast.Stmt{st.Stmt}, g)
							}
						}
					}
					walk(fd.Body.List, map[*types.Var]bool{})
				}
			}
		}
	}
	return sum
}
