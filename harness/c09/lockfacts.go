package c09

import (
	"fmt"
	"go/ast"
	"go/token"
	"go/types"
	"sort"
	"strings"
)

// Lock discipline of session.go (a regenerated fact consumed by C09_lock_discipline).
//
// Serve, sendError, Close and every transmit entry point serialise on s.in / s.out /
// s.stateMutex.  A path that leaves a function with one of them held wedges the session for
// ever (Serve blocks in sendError / Close).  The code uses only CFG-free patterns, so a
// syntactic classification of every Lock()/RLock() and Unlock()/RUnlock() is enough:
//
//	paired-defer     X.Lock() … defer X.Unlock()   later in the same block, nothing that can
//	                 leave the block in between
//	paired-explicit  X.Lock() … X.Unlock() in the same block; every statement in between that
//	                 can return does so only after its own X.Unlock() (the
//	                 `if cond { X.Unlock(); return … }` idiom), or an if/else whose branches
//	                 both release
//	handoff          X.Lock() that the function does not release (TokenWriter/TokenReader hand
//	                 the lock to the value they return) — the set is fixed in Props/C09.lean
//	release-defer    defer X.Unlock() without a Lock in the function (lockWriteCloser.Close)
//	release-plain n  X.Unlock() without a Lock in the function, n return statements precede it
//	                 (lockReadCloser.Close: n = 1, the "already closed" guard)
//	violation:…      anything else
type lockFact struct {
	Fn   string
	Kind string
	N    int
	Line int
}

func lockCall(info *types.Info, s ast.Stmt) (mutex string, op string, deferred bool) {
	var call *ast.CallExpr
	switch s := s.(type) {
	case *ast.ExprStmt:
		call, _ = s.X.(*ast.CallExpr)
	case *ast.DeferStmt:
		call, deferred = s.Call, true
	case *ast.IfStmt:
		// `if !X.TryLock() { …; return … }`: behind the statement X is held (an acquisition that
		// never waits)
		if s.Init != nil || s.Else != nil || len(s.Body.List) == 0 {
			return "", "", false
		}
		if _, isRet := s.Body.List[len(s.Body.List)-1].(*ast.ReturnStmt); !isRet {
			return "", "", false
		}
		if u, ok := s.Cond.(*ast.UnaryExpr); ok && u.Op == token.NOT {
			call, _ = u.X.(*ast.CallExpr)
		}
		if call != nil {
			if sel, ok := call.Fun.(*ast.SelectorExpr); !ok || (sel.Sel.Name != "TryLock" && sel.Sel.Name != "TryRLock") {
				return "", "", false
			}
		}
	}
	if call == nil || len(call.Args) != 0 {
		return "", "", false
	}
	sel, ok := call.Fun.(*ast.SelectorExpr)
	if !ok {
		return "", "", false
	}
	switch sel.Sel.Name {
	case "Lock", "RLock", "TryLock", "TryRLock":
		if _, isIf := s.(*ast.IfStmt); !isIf && (sel.Sel.Name == "TryLock" || sel.Sel.Name == "TryRLock") {
			return "", "", false // result ignored: not a pattern this classifier knows
		}
		op = "lock"
	case "Unlock", "RUnlock":
		op = "unlock"
	default:
		return "", "", false
	}
	// a sync.Mutex / RWMutex / Locker method (by name of the method's receiver package)
	if s, ok := info.Selections[sel]; ok {
		if f, ok := s.Obj().(*types.Func); ok && f.Pkg() != nil && f.Pkg().Path() != "sync" {
			return "", "", false
		}
	}
	return types.ExprString(sel.X), op, deferred
}

func containsReturn(n ast.Node) bool {
	found := false
	ast.Inspect(n, func(m ast.Node) bool {
		switch m := m.(type) {
		case *ast.FuncLit:
			return false
		case *ast.ReturnStmt:
			found = true
		case *ast.BranchStmt:
			if m.Tok == token.GOTO || m.Label != nil {
				found = true
			}
		case *ast.CallExpr:
			if id, ok := m.Fun.(*ast.Ident); ok && id.Name == "panic" {
				found = true
			}
		}
		return true
	})
	return found
}

// releasesBeforeLeaving: every return inside s is preceded, in its own block, by X.Unlock().
func releasesBeforeLeaving(info *types.Info, s ast.Stmt, x string) bool {
	ok := true
	var visit func(list []ast.Stmt)
	visit = func(list []ast.Stmt) {
		released := false
		for _, st := range list {
			if m, op, d := lockCall(info, st); m == x && op == "unlock" && !d {
				released = true
				continue
			}
			switch st := st.(type) {
			case *ast.ReturnStmt:
				if !released {
					ok = false
				}
			case *ast.BlockStmt:
				visit(st.List)
			case *ast.IfStmt:
				if !released {
					visit(st.Body.List)
					if st.Else != nil {
						if b, isB := st.Else.(*ast.BlockStmt); isB {
							visit(b.List)
						} else {
							visit([]ast.Stmt{st.Else})
						}
					}
				}
			default:
				if !released && containsReturn(st) {
					ok = false
				}
			}
		}
	}
	visit([]ast.Stmt{s})
	return ok
}

// blockReleases: the block releases X on every path that falls out of it or returns from it.
func blockReleases(info *types.Info, list []ast.Stmt, x string) bool {
	for i, st := range list {
		if m, op, d := lockCall(info, st); m == x && op == "unlock" && !d {
			return true
		}
		if is, ok := st.(*ast.IfStmt); ok && is.Else != nil && i == len(list)-1 {
			if eb, ok := is.Else.(*ast.BlockStmt); ok && blockReleases(info, is.Body.List, x) && blockReleases(info, eb.List, x) {
				return true
			}
		}
		if !releasesBeforeLeaving(info, st, x) {
			return false
		}
	}
	return false
}

func lockFactsOf(l *loaded, fileFilter func(string) bool, fset *token.FileSet) []lockFact {
	var out []lockFact
	for i, file := range l.Files {
		if !fileFilter(l.Names[i]) {
			continue
		}
		for _, d := range file.Decls {
			fd, ok := d.(*ast.FuncDecl)
			if !ok || fd.Body == nil {
				continue
			}
			name := l.Pkg.Name() + "." + recvName(fd) + fd.Name.Name
			paired := map[ast.Stmt]bool{}
			locked := map[string]bool{}
			unlocks := map[string]bool{}  // mutexes this function releases somewhere
			deferred := map[string]bool{} // mutexes this function releases by defer
			windowLock := map[ast.Stmt]bool{}
			ast.Inspect(fd.Body, func(m ast.Node) bool {
				if s, ok := m.(ast.Stmt); ok {
					if x, op, d := lockCall(l.Info, s); op == "unlock" {
						unlocks[x] = true
						if d {
							deferred[x] = true
						}
					}
				}
				return true
			})
			var blocks func(list []ast.Stmt)
			blocks = func(list []ast.Stmt) {
				for i, st := range list {
					// a wait window inside a region whose release is deferred (condition-variable
					// style): X.Unlock(); <wait>; X.Lock() in one block with no return in between
					if windowLock[st] {
						out = append(out, lockFact{Fn: name, Kind: "window", Line: fset.Position(st.Pos()).Line})
						continue
					}
					if x, op, d := lockCall(l.Info, st); op == "unlock" && !d && deferred[x] {
						for j := i + 1; j < len(list); j++ {
							if y, op2, d2 := lockCall(l.Info, list[j]); y == x && op2 == "lock" && !d2 {
								paired[st] = true
								windowLock[list[j]] = true
								break
							}
							if containsReturn(list[j]) {
								break
							}
						}
					}
					if x, op, d := lockCall(l.Info, st); op == "lock" && !d {
						locked[x] = true
						line := fset.Position(st.Pos()).Line
						kind := ""
						for j := i + 1; j < len(list); j++ {
							nx := list[j]
							if y, op2, d2 := lockCall(l.Info, nx); y == x && op2 == "unlock" {
								paired[nx] = true
								if d2 {
									kind = "paired-defer"
								} else {
									kind = "paired-explicit"
								}
								break
							}
							if is, ok := nx.(*ast.IfStmt); ok && is.Else != nil {
								if eb, ok := is.Else.(*ast.BlockStmt); ok && blockReleases(l.Info, is.Body.List, x) && blockReleases(l.Info, eb.List, x) {
									ast.Inspect(is, func(m ast.Node) bool {
										if s, ok := m.(ast.Stmt); ok {
											if y, op3, _ := lockCall(l.Info, s); y == x && op3 == "unlock" {
												paired[s] = true
											}
										}
										return true
									})
									kind = "paired-explicit"
									break
								}
							}
							if !releasesBeforeLeaving(l.Info, nx, x) {
								if !unlocks[x] {
									kind = "handoff" // acquired here, released by somebody else
									break
								}
								kind = fmt.Sprintf("violation:a path leaves %s holding %s (line %d)", name, x, fset.Position(nx.Pos()).Line)
								break
							}
							// unlocks inside nx that precede its returns are paired with this lock
							ast.Inspect(nx, func(m ast.Node) bool {
								if s, ok := m.(ast.Stmt); ok {
									if y, op3, _ := lockCall(l.Info, s); y == x && op3 == "unlock" {
										paired[s] = true
									}
								}
								return true
							})
						}
						if kind == "" {
							kind = "handoff"
						}
						out = append(out, lockFact{Fn: name, Kind: kind, Line: line})
					}
					// nested blocks
					switch st := st.(type) {
					case *ast.BlockStmt:
						blocks(st.List)
					case *ast.IfStmt:
						blocks(st.Body.List)
						if b, ok := st.Else.(*ast.BlockStmt); ok {
							blocks(b.List)
						} else if st.Else != nil {
							blocks([]ast.Stmt{st.Else})
						}
					case *ast.ForStmt:
						blocks(st.Body.List)
					case *ast.RangeStmt:
						blocks(st.Body.List)
					case *ast.SwitchStmt:
						for _, c := range st.Body.List {
							blocks(c.(*ast.CaseClause).Body)
						}
					case *ast.TypeSwitchStmt:
						for _, c := range st.Body.List {
							blocks(c.(*ast.CaseClause).Body)
						}
					case *ast.SelectStmt:
						for _, c := range st.Body.List {
							blocks(c.(*ast.CommClause).Body)
						}
					}
				}
			}
			blocks(fd.Body.List)
			// releases without an acquisition in this function
			returnsBefore := 0
			ast.Inspect(fd.Body, func(m ast.Node) bool {
				if _, isLit := m.(*ast.FuncLit); isLit {
					return false
				}
				if _, isRet := m.(*ast.ReturnStmt); isRet {
					returnsBefore++
				}
				s, ok := m.(ast.Stmt)
				if !ok {
					return true
				}
				if x, op, d := lockCall(l.Info, s); op == "unlock" && !paired[s] && !locked[x] {
					line := fset.Position(s.Pos()).Line
					if d {
						out = append(out, lockFact{Fn: name, Kind: "release-defer", Line: line})
					} else {
						out = append(out, lockFact{Fn: name, Kind: "release-plain", N: returnsBefore, Line: line})
					}
				} else if op == "unlock" && !paired[s] && locked[x] && !d {
					out = append(out, lockFact{Fn: name, Kind: fmt.Sprintf("violation:%s.Unlock() at line %d is not matched to a Lock by the recognised patterns", x, fset.Position(s.Pos()).Line), Line: fset.Position(s.Pos()).Line})
				}
				return true
			})
		}
	}
	sort.SliceStable(out, func(i, j int) bool { return out[i].Line < out[j].Line })
	return out
}

func leanLockFacts(facts []lockFact, err error) string {
	var b strings.Builder
	b.WriteString("/-- lock discipline of session.go: (function, classification, n) per Lock / unmatched Unlock -/\n")
	if err != nil {
		b.WriteString("def lockFacts : Option (List (String × String × Nat)) := none\n")
		return b.String()
	}
	b.WriteString("def lockFacts : Option (List (String × String × Nat)) := some [\n")
	for i, f := range facts {
		if i > 0 {
			b.WriteString(",\n")
		}
		fmt.Fprintf(&b, "  (%q, %q, %d)", f.Fn, f.Kind, f.N)
	}
	b.WriteString("]\n")
	return b.String()
}

// leanHandlerLockFacts: every Lock() / unmatched Unlock() of the handler packages, classified as
// above.  The function name is printed for the reader only (second component is what the
// theorem looks at): a Lock that some path leaves without releasing wedges the next stanza
// that needs the mutex.
func leanHandlerLockFacts(facts []lockFact, ok bool) string {
	var b strings.Builder
	b.WriteString("/-- lock discipline of the handler packages: (function, classification, n) per Lock / unmatched Unlock -/\n")
	if !ok {
		b.WriteString("def handlerLockFacts : Option (List (String × String × Nat)) := none\n")
		return b.String()
	}
	b.WriteString("def handlerLockFacts : Option (List (String × String × Nat)) := some [\n")
	for i, f := range facts {
		if i > 0 {
			b.WriteString(",\n")
		}
		fmt.Fprintf(&b, "  (%q, %q, %d)", f.Fn, f.Kind, f.N)
	}
	b.WriteString("]\n")
	return b.String()
}

// heldSend: a mutex of a handler package that is held while a stanza is written to the session.
// The write can block for as long as the peer does not read; a handler that takes the same mutex
// then stops the serve goroutine from reading, and a peer that wants to finish writing before it
// reads again is never drained: a deadlock made of the library's lock and the two transport
// directions.  (Session's own locks in session.go are the transmit path itself and are
// classified separately above.)
type heldSend struct {
	Fn, Mutex, Callee string
}

var sessionSend = map[string]bool{"Send": true, "SendElement": true, "SendIQ": true, "SendIQElement": true, "SendMessage": true,
	"SendMessageElement": true, "SendPresence": true, "SendPresenceElement": true, "Encode": true, "EncodeElement": true,
	"EncodeIQ": true, "EncodeIQElement": true, "EncodeMessage": true, "EncodeMessageElement": true, "UnmarshalIQ": true,
	"UnmarshalIQElement": true, "IterIQ": true, "IterIQElement": true}

func isSessionPtr(t types.Type) bool {
	p, ok := t.(*types.Pointer)
	if !ok {
		return false
	}
	n, ok := p.Elem().(*types.Named)
	return ok && n.Obj().Name() == "Session" && n.Obj().Pkg() != nil && n.Obj().Pkg().Path() == modPath
}

func heldAcrossSend(l *loaded, filter func(string) bool) []heldSend {
	var out []heldSend
	for i, file := range l.Files {
		if filter != nil && !filter(l.Names[i]) {
			continue
		}
		for _, d := range file.Decls {
			fd, ok := d.(*ast.FuncDecl)
			if !ok || fd.Body == nil {
				continue
			}
			name := l.Pkg.Name() + "." + recvName(fd) + fd.Name.Name
			sends := func(n ast.Node, held map[string]bool) {
				ast.Inspect(n, func(m ast.Node) bool {
					switch m := m.(type) {
					case *ast.FuncLit:
						return false
					case *ast.CallExpr:
						if sel, ok := m.Fun.(*ast.SelectorExpr); ok && sessionSend[sel.Sel.Name] {
							if t := l.Info.TypeOf(sel.X); t != nil && isSessionPtr(t) {
								for x := range held {
									out = append(out, heldSend{Fn: name, Mutex: x, Callee: sel.Sel.Name})
								}
							}
						}
					}
					return true
				})
			}
			var walk func(list []ast.Stmt, held map[string]bool)
			walk = func(list []ast.Stmt, held map[string]bool) {
				h := map[string]bool{}
				for k := range held {
					h[k] = true
				}
				for _, st := range list {
					if x, op, deferred := lockCall(l.Info, st); op != "" {
						switch {
						case op == "lock" && !deferred:
							h[x] = true
						case op == "unlock" && !deferred:
							delete(h, x)
						}
						continue // defer X.Unlock(): held to the end of the function
					}
					switch st := st.(type) {
					case *ast.BlockStmt:
						walk(st.List, h)
					case *ast.IfStmt:
						if len(h) > 0 {
							if st.Init != nil {
								sends(st.Init, h)
							}
							sends(st.Cond, h)
						}
						walk(st.Body.List, h)
						if b, ok := st.Else.(*ast.BlockStmt); ok {
							walk(b.List, h)
						} else if st.Else != nil {
							walk([]ast.Stmt{st.Else}, h)
						}
					case *ast.ForStmt:
						walk(st.Body.List, h)
					case *ast.RangeStmt:
						walk(st.Body.List, h)
					case *ast.SwitchStmt:
						for _, c := range st.Body.List {
							walk(c.(*ast.CaseClause).Body, h)
						}
					case *ast.TypeSwitchStmt:
						for _, c := range st.Body.List {
							walk(c.(*ast.CaseClause).Body, h)
						}
					case *ast.SelectStmt:
						for _, c := range st.Body.List {
							walk(c.(*ast.CommClause).Body, h)
						}
					default:
						if len(h) > 0 {
							sends(st, h)
						}
					}
				}
			}
			walk(fd.Body.List, map[string]bool{})
		}
	}
	return out
}

func leanHeldSends(hs []heldSend, ok bool) string {
	var b strings.Builder
	b.WriteString("/-- mutexes of handler packages held across a write to the session: (function, mutex, callee) -/\n")
	if !ok {
		b.WriteString("def locksAcrossSend : Option (List (String × String × String)) := none\n")
		return b.String()
	}
	b.WriteString("def locksAcrossSend : Option (List (String × String × String)) := some [")
	for i, h := range hs {
		if i > 0 {
			b.WriteString(", ")
		}
		fmt.Fprintf(&b, "(%q, %q, %q)", h.Fn, h.Mutex, h.Callee)
	}
	b.WriteString("]\n")
	return b.String()
}
