package c09

import (
	"fmt"
	"go/ast"
	"go/token"
	"go/types"
	"sort"
	"strings"
)

// Exported entry point for other properties that run the panic-skeleton translator with
// their own scope and their own reviewed allow list (C19: the payload files, including
// form/form.go and disco/info.go which the C09 scope leaves out).  Add-only: nothing in
// this file is used by the C09 check itself.

// ExportedSkeleton is the regenerated panic skeleton of one function or function literal.
type ExportedSkeleton struct {
	Name      string // e.g. form.(*Data).Submit, form.newField$1
	File      string
	Line      int
	Lean      string // term of XmppModel.Skeleton.Stmt (with `open Stmt`)
	Code      string // dotted prefix notation understood by Skeleton.decode
	Effectful bool   // has an operation on a tracked value or a hazard
}

// ExportedAnalysis is the result of AnalyseWith.
type ExportedAnalysis struct {
	Funcs []ExportedSkeleton
	// Sites: every program point a skeleton refers to ("<id> <file>:<line> <fn> [<kind>] <desc>")
	Sites []string
	// AllowUsed: number of partial operations accepted through the allow list;
	// AllowUnused: entries that matched nothing (stale entries)
	AllowUsed   int
	AllowUnused []string
	// AllowDetail: every entry with the number of operations it covered
	AllowDetail []AllowUse
	Skipped     []string
}

// AllowUse is one allow-list entry and how many operations it covered.
type AllowUse struct {
	Fn, Kind, Desc, Why string
	Used                int
}

// AnalyseWith regenerates the skeletons of every function of the packages in scope
// (import path relative to the module -> optional file filter on the path relative to the
// repository) with the given allow list text (format of allow.txt).
func AnalyseWith(repo string, scope map[string]func(file string) bool, allowText string) (*ExportedAnalysis, error) {
	return AnalyseDerived(repo, scope, allowText, nil)
}

// LoadedPackage is one type-checked package of the scope as handed to a derive callback.
type LoadedPackage struct {
	Rel   string // import path relative to the module
	Name  string // package name
	Files []*ast.File
	Names []string // file names relative to the repository, parallel to Files
	InUse []bool   // whether the file passes the scope's filter (and is not generated)
	Info  *types.Info
	Pkg   *types.Package
}

// FuncName is the name the translator gives a declared function ("pkg.(*T).M", "pkg.f");
// function literals inside it are "<name>$<n>", n counting in ast.Inspect order from 1.
func FuncName(pkgName string, fd *ast.FuncDecl) string { return pkgName + "." + recvName(fd) + fd.Name.Name }

// AnalyseDerived is AnalyseWith with a callback that sees the type-checked packages first and
// returns further allow-list text (same format): entries *derived from the source on every
// run* by a caller-side recogniser rather than reviewed by hand.
func AnalyseDerived(repo string, scope map[string]func(file string) bool, allowText string,
	derive func(fset *token.FileSet, pkgs []LoadedPackage) (string, error)) (*ExportedAnalysis, error) {
	fset := token.NewFileSet()
	pkgs, err := load(repo, fset, func(path string) bool {
		rel := strings.TrimPrefix(strings.TrimPrefix(path, modPath), "/")
		_, ok := scope[rel]
		return ok && (path == modPath || strings.HasPrefix(path, modPath+"/"))
	})
	if err != nil {
		return nil, err
	}
	if derive != nil {
		var lps []LoadedPackage
		for _, l := range pkgs {
			rel := strings.TrimPrefix(strings.TrimPrefix(l.Path, modPath), "/")
			lp := LoadedPackage{Rel: rel, Name: l.Pkg.Name(), Files: l.Files, Names: l.Names, Info: l.Info, Pkg: l.Pkg}
			for i, file := range l.Files {
				lp.InUse = append(lp.InUse, (scope[rel] == nil || scope[rel](l.Names[i])) && !ast.IsGenerated(file))
			}
			lps = append(lps, lp)
		}
		extra, err := derive(fset, lps)
		if err != nil {
			return nil, err
		}
		allowText += "\n" + extra
	}
	al, err := parseAllow(allowText)
	if err != nil {
		return nil, err
	}
	var sites []siteInfo
	res := &ExportedAnalysis{}
	seen := map[string]bool{}
	for _, l := range pkgs {
		rel := strings.TrimPrefix(strings.TrimPrefix(l.Path, modPath), "/")
		seen[rel] = true
		filter := scope[rel]
		x := &xl{fset: fset, l: l, repo: repo, sites: &sites, allow: al}
		pkgName := l.Pkg.Name()
		for i, file := range l.Files {
			if filter != nil && !filter(l.Names[i]) {
				res.Skipped = append(res.Skipped, l.Names[i])
				continue
			}
			if ast.IsGenerated(file) {
				res.Skipped = append(res.Skipped, l.Names[i]+" (generated)")
				continue
			}
			for _, d := range file.Decls {
				fd, ok := d.(*ast.FuncDecl)
				if !ok || fd.Body == nil {
					continue
				}
				base := pkgName + "." + recvName(fd) + fd.Name.Name
				di := x.declFacts(fd)
				add := func(name string, ft *ast.FuncType, recv *ast.FieldList, body *ast.BlockStmt) {
					sk, _ := x.translateFunc(name, di, ft, recv, body)
					p := fset.Position(body.Pos())
					res.Funcs = append(res.Funcs, ExportedSkeleton{Name: name, File: l.Names[i], Line: p.Line,
						Lean: sk.Lean(), Code: sk.Encode(), Effectful: sk.effectful()})
				}
				add(base, fd.Type, fd.Recv, fd.Body)
				n := 0
				ast.Inspect(fd.Body, func(m ast.Node) bool {
					if fl, ok := m.(*ast.FuncLit); ok {
						n++
						add(fmt.Sprintf("%s$%d", base, n), fl.Type, nil, fl.Body)
					}
					return true
				})
			}
		}
	}
	for rel := range scope {
		if !seen[rel] {
			return nil, fmt.Errorf("package %q of the scope was not found under %s", rel, repo)
		}
	}
	sort.SliceStable(res.Funcs, func(i, j int) bool { return res.Funcs[i].Name < res.Funcs[j].Name })
	for _, s := range sites {
		if s.Kind != "loop" {
			res.Sites = append(res.Sites, fmt.Sprintf("%d %s", s.ID, s.String()))
		}
	}
	for _, e := range al.entries {
		res.AllowUsed += e.used
		res.AllowDetail = append(res.AllowDetail, AllowUse{e.fn, e.kind, e.desc, e.why, e.used})
		if e.used == 0 {
			res.AllowUnused = append(res.AllowUnused, e.fn+" "+e.kind+" "+e.desc)
		}
	}
	return res, nil
}

// Only and Except (file filters for AnalyseWith scopes) are exported in api.go.
