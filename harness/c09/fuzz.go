package c09

import "verifharness/common"

func run(r *common.Run) error { return nil }
