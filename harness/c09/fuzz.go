package c09

import (
	"bytes"
	"context"
	"encoding/xml"
	"errors"
	"fmt"
	"io"
	"os"
	"regexp"
	"runtime/debug"
	"runtime/pprof"
	"strconv"
	"strings"
	"sync"
	"sync/atomic"
	"time"

	"mellium.im/xmlstream"
	"mellium.im/xmpp"
	"mellium.im/xmpp/blocklist"
	"mellium.im/xmpp/bookmarks"
	"mellium.im/xmpp/carbons"
	"mellium.im/xmpp/commands"
	"mellium.im/xmpp/disco"
	"mellium.im/xmpp/disco/items"
	"mellium.im/xmpp/history"
	"mellium.im/xmpp/ibb"
	"mellium.im/xmpp/jid"
	"mellium.im/xmpp/muc"
	"mellium.im/xmpp/mux"
	"mellium.im/xmpp/ping"
	"mellium.im/xmpp/pubsub"
	"mellium.im/xmpp/receipts"
	"mellium.im/xmpp/roster"
	"mellium.im/xmpp/stanza"
	"mellium.im/xmpp/upload"
	"mellium.im/xmpp/version"
	"mellium.im/xmpp/xtime"

	"verifharness/common"
)

// baseWatchdog stands for "blocks for ever".  A case that stalls is run once more, alone, with
// five times the watchdog before the stall is recorded (a loaded machine must not produce
// findings); wd() is the watchdog in force.
const baseWatchdog = 3 * time.Second

var watchdogNs atomic.Int64

func wd() time.Duration {
	if v := watchdogNs.Load(); v > 0 {
		return time.Duration(v)
	}
	return baseWatchdog
}

// retryStalled runs the case; if it stalls, runs it again with a five-fold watchdog and
// reports that second outcome.
func retryStalled(run func() outcome) outcome {
	o := run()
	if !o.stalled {
		return o
	}
	// let the goroutines of the stalled attempt settle (they only matter if the machine is
	// overloaded, which is exactly the case this retry is for)
	time.Sleep(50 * time.Millisecond)
	watchdogNs.Store(int64(5 * baseWatchdog))
	defer watchdogNs.Store(0)
	return run()
}

var (
	local  = jid.MustParse("me@example.net/home")
	remote = jid.MustParse("example.net")
)

// outcome of running a piece of the library under recover + watchdog.
type outcome struct {
	panicMsg string // "" if none
	stack    string
	stalled  bool
	where    string // which part did not return
}

func (o outcome) obs() string {
	switch {
	case o.panicMsg != "":
		return "PANIC"
	case o.stalled:
		return "STALL"
	}
	return "ok"
}

// guard runs f; a panic is recovered together with its stack.
func guard(f func()) (o outcome) {
	defer func() {
		if r := recover(); r != nil {
			o.panicMsg = fmt.Sprint(r)
			o.stack = string(debug.Stack())
		}
	}()
	f()
	return o
}

// newMux builds a multiplexer that carries every extension handler of the library.
func newMux() *mux.ServeMux {
	inner := mux.MessageHandlerFunc(func(stanza.Message, xmlstream.TokenReadEncoder) error { return nil })
	return mux.New("jabber:client",
		ping.Handle(),
		version.Handle(version.Query{Name: "n", Version: "v", OS: "o"}),
		xtime.Handle(xtime.Handler{}),
		disco.Handle(),
		receipts.Handle(&receipts.Handler{Unhandled: func(string) {}}),
		carbons.Handle(carbons.Handler{F: func(m stanza.Message, sent bool, inner xml.TokenReader) error {
			_, err := xmlstream.Copy(xmlstream.Discard(), inner)
			return err
		}}),
		blocklist.Handle(blocklist.Handler{
			Block: func(blocklist.Item) {}, Unblock: func(jid.JID) {}, UnblockAll: func() {},
			List: func(c chan<- jid.JID) { c <- remote },
		}),
		roster.Handle(roster.Handler{Push: func(string, roster.Item) error { return nil }}),
		ibb.Handle(&ibb.Handler{}),
		muc.HandleClient(&muc.Client{HandleInvite: func(muc.Invitation) {}, HandleUserPresence: func(stanza.Presence, muc.Item) {}}),
		muc.HandleInvite(func(muc.Invitation) {}),
		history.Handle(history.NewHandler(inner)),
		disco.HandleCaps(func(stanza.Presence, disco.Caps) {}),
	)
}

// faultWriter is the connection's write side: it records what the session writes and can be
// told to fail from the n-th Write call on (a broken connection), or from now on.
type faultWriter struct {
	mu     sync.Mutex
	out    *common.SafeBuffer
	failAt int // -1 = never
	n      int
	// synchronous transport: while hold is set a Write blocks until the peer "reads"
	// (release), like a net.Pipe whose other end is busy writing
	hold    bool
	blocked int
	wake    chan struct{}
}

var errConnBroken = errors.New("scripted connection failure")

func (w *faultWriter) Write(p []byte) (int, error) {
	w.mu.Lock()
	idx := w.n
	w.n++
	for w.hold {
		if w.wake == nil {
			w.wake = make(chan struct{})
		}
		ch := w.wake
		w.blocked++
		w.mu.Unlock()
		<-ch
		w.mu.Lock()
		w.blocked--
	}
	// decided when the write goes through: a write that was held while the connection broke fails
	fail := w.failAt >= 0 && idx >= w.failAt
	w.mu.Unlock()
	if fail {
		return 0, errConnBroken
	}
	return w.out.Write(p)
}

// holdWrites makes every Write block (the peer does not read) until releaseWrites.
func (w *faultWriter) holdWrites() {
	w.mu.Lock()
	w.hold = true
	w.mu.Unlock()
}

func (w *faultWriter) releaseWrites() {
	w.mu.Lock()
	w.hold = false
	if w.wake != nil {
		close(w.wake)
		w.wake = nil
	}
	w.mu.Unlock()
}

func (w *faultWriter) blockedWriters() int {
	w.mu.Lock()
	defer w.mu.Unlock()
	return w.blocked
}

func (w *faultWriter) failNow() {
	w.mu.Lock()
	w.failAt = 0
	w.mu.Unlock()
}

func (w *faultWriter) writes() int {
	w.mu.Lock()
	defer w.mu.Unlock()
	return w.n
}

// fixture is one served session on an in-memory connection.  The local address is a full
// JID (me@example.net/home), as on a bound client session.
type fixture struct {
	rs   *common.RawSession
	fw   *faultWriter
	done chan outcome
}

func newFixture(h xmpp.Handler) (*fixture, error) { return newFixtureFault(h, -1) }

// newFixtureFault: the connection's Write fails from call failAt on (-1 = never).
func newFixtureFault(h xmpp.Handler, failAt int) (*fixture, error) {
	pr, pw := io.Pipe()
	out := &common.SafeBuffer{}
	fw := &faultWriter{out: out, failAt: failAt}
	s, err := xmpp.NewSession(context.Background(), remote, local, struct {
		io.Reader
		io.Writer
	}{pr, fw}, 0, common.ReadyNegotiator(0, "jabber:client"))
	if err != nil {
		return nil, err
	}
	rs := &common.RawSession{S: s, In: pw, Out: out}
	fx := &fixture{rs: rs, fw: fw, done: make(chan outcome, 1)}
	go func() {
		fx.done <- guard(func() { _ = rs.S.Serve(h) })
	}()
	return fx, nil
}

// finish ends the peer's input and waits for Serve to return.
func (fx *fixture) finish() outcome {
	_ = fx.rs.In.Close()
	select {
	case o := <-fx.done:
		return o
	case <-time.After(wd()):
		if os.Getenv("C09_DEBUG") != "" {
			_ = pprof.Lookup("goroutine").WriteTo(os.Stderr, 2)
		}
		return outcome{stalled: true, where: "Serve did not return after the input ended"}
	}
}

// serveCase feeds input to a served session that carries every handler, then ends the
// input: Serve must neither panic nor still be running after the watchdog.
func serveCase(input []byte) outcome {
	fx, err := newFixture(newMux())
	if err != nil {
		return outcome{panicMsg: "harness: " + err.Error()}
	}
	return serveOn(fx, input)
}

func serveOn(fx *fixture, input []byte) outcome {
	fed := make(chan struct{})
	go func() {
		defer close(fed)
		_ = fx.rs.Feed(input)
	}()
	select {
	case <-fed:
		return fx.finish()
	case o := <-fx.done:
		// Serve returned before the input was consumed (an error ended the session)
		_ = fx.rs.In.Close()
		<-fed
		return o
	case <-time.After(wd()):
		_ = fx.rs.In.Close()
		return outcome{stalled: true, where: "Serve neither consumed the input nor returned"}
	}
}

// servexCase: a served session under a local fault.
//
//	mode "w": the connection's Write fails from call k on (k counts the Write calls of the
//	          whole session); Serve must return once the input has ended
//	mode "c": the application calls Session.Close() after the first k stanzas were processed
//	          (a ping is used to know they were); Close must return, the remaining stanzas are
//	          fed, Serve must return once the input has ended
//
// writes reports the number of Write calls the session made (for the sweep over k).
func servexCase(mode string, k int, stanzas []string) (o outcome, writes int) {
	failAt := -1
	if mode == "w" {
		failAt = k
	}
	fx, err := newFixtureFault(newMux(), failAt)
	if err != nil {
		return outcome{panicMsg: "harness: " + err.Error()}, 0
	}
	defer func() { writes = fx.fw.writes() }()
	if mode == "w" {
		return serveOn(fx, []byte(strings.Join(stanzas, ""))), 0
	}
	if k > len(stanzas) {
		k = len(stanzas)
	}
	if k > 0 {
		pre := strings.Join(stanzas[:k], "") + `<iq xmlns="jabber:client" type="get" id="sync1" from="example.net"><ping xmlns="urn:xmpp:ping"/></iq>`
		fed := make(chan error, 1)
		go func() { fed <- fx.rs.Feed([]byte(pre)) }()
		deadline := time.Now().Add(wd())
		for !strings.Contains(string(fx.rs.Out.Bytes()), `id="sync1"`) {
			select {
			case so := <-fx.done:
				// the first stanzas already ended the session
				_ = fx.rs.In.Close()
				return so, 0
			default:
			}
			if time.Now().After(deadline) {
				_ = fx.rs.In.Close()
				return outcome{stalled: true, where: "Serve did not answer the synchronisation ping"}, 0
			}
			time.Sleep(150 * time.Microsecond)
		}
	}
	closed := make(chan outcome, 1)
	go func() { closed <- guard(func() { _ = fx.rs.S.Close() }) }()
	select {
	case co := <-closed:
		if co.panicMsg != "" {
			_ = fx.rs.In.Close()
			return co, 0
		}
	case <-time.After(wd()):
		_ = fx.rs.In.Close()
		return outcome{stalled: true, where: "Session.Close did not return"}, 0
	}
	return serveOn(fx, []byte(strings.Join(stanzas[k:], ""))), 0
}

var idRe = regexp.MustCompile(`<iq[^>]*\sid="([^"]*)"`)

// helper is one request helper of the library driven against a scripted reply.
type helper struct {
	name string
	// payload elements a well-formed reply would carry (used to seed the generator)
	templates []string
	call      func(ctx context.Context, s *xmpp.Session)
}

// helperCase runs h against a peer that answers the first IQ request with
// <iq type=typ id=…>reply</iq>.
// errorPageMark in front of a page makes the peer send that page as an error reply.
const errorPageMark = "\x00E"

func helperCase(h *helper, typ string, reply []byte) outcome {
	return helperPages(h, typ, [][]byte{reply})
}

// helperPages runs h against a peer that answers the k-th IQ request with pages[k] (the last
// page again for later requests, up to maxReplies requests in all; after that item-not-found:
// a paging helper may go on for ever against a peer that always announces another page).
//
// The helper's context has no deadline: a helper (or Serve) that waits for ever must be seen
// by the watchdog, not rescued by a timeout.  The context is cancelled only when Serve has
// ended, after which the helper has to return.
func helperPages(h *helper, typ string, pages [][]byte) outcome {
	fx, err := newFixture(nil)
	if err != nil {
		return outcome{panicMsg: "harness: " + err.Error()}
	}
	ctx, cancel := context.WithCancel(context.Background())
	defer cancel()
	res := make(chan outcome, 1)
	go func() { res <- guard(func() { h.call(ctx, fx.rs.S) }) }()
	stop := make(chan struct{})
	defer close(stop)
	go func() {
		const maxReplies = 4
		answered := 0
		for {
			select {
			case <-stop:
				return
			default:
			}
			ms := idRe.FindAllSubmatch(fx.rs.Out.Bytes(), -1)
			if len(ms) <= answered {
				time.Sleep(100 * time.Microsecond)
				continue
			}
			id := string(ms[answered][1])
			page := pages[len(pages)-1]
			if answered < len(pages) {
				page = pages[answered]
			}
			answered++
			var b strings.Builder
			if answered <= maxReplies {
				ptyp := typ
				if bytes.HasPrefix(page, []byte(errorPageMark)) {
					// this page is an error reply
					ptyp, page = "error", page[len(errorPageMark):]
				}
				fmt.Fprintf(&b, `<iq xmlns="jabber:client" type="%s" id="%s" from="example.net">`, ptyp, esc(id))
				b.Write(page)
			} else {
				fmt.Fprintf(&b, `<iq xmlns="jabber:client" type="error" id="%s" from="example.net">`, esc(id))
				b.WriteString(errPayload)
			}
			b.WriteString(`</iq>`)
			if fx.rs.Feed([]byte(b.String())) != nil {
				return
			}
		}
	}()
	var o outcome
	select {
	case o = <-res:
	case so := <-fx.done:
		// Serve ended first (malformed reply): the helper must return once its context is
		// cancelled
		cancel()
		select {
		case o = <-res:
		case <-time.After(wd()):
			return outcome{stalled: true, where: "the helper did not return although Serve had ended and its context was cancelled"}
		}
		if so.panicMsg != "" {
			return so
		}
		fx.done <- so
	case <-time.After(wd()):
		_ = fx.rs.In.Close()
		cancel()
		return outcome{stalled: true, where: "neither the helper nor Serve returned"}
	}
	if o.panicMsg != "" {
		_ = fx.rs.In.Close()
		return o
	}
	return fx.finish()
}

func drain(r xml.TokenReader) {
	if r != nil {
		_, _ = xmlstream.Copy(xmlstream.Discard(), r)
	}
}

var iqTo = stanza.IQ{To: remote}

// helpers lists the request helpers that parse a peer's reply.
var helpers = []*helper{
	{name: "UnmarshalIQ", templates: []string{`<query xmlns="jabber:iq:version"><name>n</name><version>1</version></query>`},
		call: func(ctx context.Context, s *xmpp.Session) {
			var q version.Query
			_ = s.UnmarshalIQElement(ctx, version.Query{}.TokenReader(), stanza.IQ{Type: stanza.GetIQ, To: remote}, &q)
		}},
	{name: "IterIQ", templates: []string{`<query xmlns="jabber:iq:roster"><item jid="a@b"/><item jid="c@d"/></query>`},
		call: func(ctx context.Context, s *xmpp.Session) {
			it, start, err := s.IterIQElement(ctx, version.Query{}.TokenReader(), stanza.IQ{Type: stanza.GetIQ, To: remote})
			if err != nil {
				return
			}
			_ = start.Name
			for it.Next() {
				st, r := it.Current()
				_ = st
				drain(r)
			}
			_ = it.Close()
		}},
	{name: "version.Get", templates: []string{`<query xmlns="jabber:iq:version"><name>n</name><version>1</version><os>o</os></query>`},
		call: func(ctx context.Context, s *xmpp.Session) { _, _ = version.GetIQ(ctx, iqTo, s) }},
	{name: "xtime.Get", templates: []string{`<time xmlns="urn:xmpp:time"><tzo>-06:00</tzo><utc>2006-12-19T17:58:35Z</utc></time>`},
		call: func(ctx context.Context, s *xmpp.Session) { _, _ = xtime.Get(ctx, s, remote) }},
	{name: "ping.Send", templates: []string{``},
		call: func(ctx context.Context, s *xmpp.Session) { _ = ping.Send(ctx, s, remote) }},
	{name: "roster.Fetch", templates: []string{`<query xmlns="jabber:iq:roster" ver="v1"><item jid="a@b" name="A" subscription="both"><group>G</group></item><item jid="c@d"/></query>`},
		call: func(ctx context.Context, s *xmpp.Session) {
			it := roster.FetchIQ(ctx, roster.IQ{IQ: iqTo}, s)
			for it.Next() {
				_ = it.Item()
			}
			_ = it.Version()
			_ = it.Err()
			_ = it.Close()
		}},
	{name: "disco.GetInfo", templates: []string{`<query xmlns="http://jabber.org/protocol/disco#info"><identity category="c" type="t" name="n"/><feature var="urn:xmpp:ping"/></query>`},
		call: func(ctx context.Context, s *xmpp.Session) { _, _ = disco.GetInfoIQ(ctx, "", iqTo, s) }},
	{name: "disco.FetchItems", templates: []string{`<query xmlns="http://jabber.org/protocol/disco#items"><item jid="a.example.net" node="n" name="x"/><item jid="b.example.net"/><set xmlns="http://jabber.org/protocol/rsm"><first index="0">a</first><last>b</last><count>2</count></set></query>`},
		call: func(ctx context.Context, s *xmpp.Session) {
			it := disco.FetchItemsIQ(ctx, "", iqTo, s)
			for it.Next() {
				_ = it.Item()
			}
			_ = it.Err()
			_ = it.Close()
		}},
	{name: "disco.WalkItem", templates: []string{`<query xmlns="http://jabber.org/protocol/disco#items"><item jid="a.example.net" node="n"/></query>`},
		call: func(ctx context.Context, s *xmpp.Session) {
			_ = disco.WalkItem(ctx, items.Item{JID: remote}, s, func(level int, item items.Item, err error) error {
				if level > 1 {
					return disco.ErrSkipItem
				}
				return nil
			})
		}},
	{name: "blocklist.Fetch", templates: []string{`<blocklist xmlns="urn:xmpp:blocking"><item jid="romeo@montague.net"/><item jid="iago@shakespeare.lit"/></blocklist>`},
		call: func(ctx context.Context, s *xmpp.Session) {
			it := blocklist.FetchIQ(ctx, iqTo, s)
			for it.Next() {
				_ = it.JID()
			}
			_ = it.Err()
			_ = it.Close()
		}},
	{name: "blocklist.Add", templates: []string{``},
		call: func(ctx context.Context, s *xmpp.Session) { _ = blocklist.AddIQ(ctx, iqTo, s, remote) }},
	{name: "bookmarks.Fetch", templates: []string{`<pubsub xmlns="http://jabber.org/protocol/pubsub"><items node="urn:xmpp:bookmarks:1"><item id="room@conf.example"><conference xmlns="urn:xmpp:bookmarks:1" name="R" autojoin="true"><nick>n</nick></conference></item></items></pubsub>`},
		call: func(ctx context.Context, s *xmpp.Session) {
			it := bookmarks.FetchIQ(ctx, iqTo, s)
			for it.Next() {
				_ = it.Bookmark()
			}
			_ = it.Err()
			_ = it.Close()
		}},
	{name: "pubsub.Fetch", templates: []string{`<pubsub xmlns="http://jabber.org/protocol/pubsub"><items node="n"><item id="i1"><entry xmlns="urn:example"/></item><item id="i2"/></items></pubsub>`},
		call: func(ctx context.Context, s *xmpp.Session) {
			it := pubsub.FetchIQ(ctx, iqTo, s, pubsub.Query{Node: "n"})
			for it.Next() {
				_, r := it.Item()
				drain(r)
			}
			_ = it.Err()
			_ = it.Close()
		}},
	{name: "pubsub.Publish", templates: []string{`<pubsub xmlns="http://jabber.org/protocol/pubsub"><publish node="n"><item id="i1"/></publish></pubsub>`},
		call: func(ctx context.Context, s *xmpp.Session) {
			_, _ = pubsub.PublishIQ(ctx, s, iqTo, "n", "", xmlstream.Wrap(nil, xml.StartElement{Name: xml.Name{Space: "urn:example", Local: "entry"}}))
		}},
	{name: "pubsub.GetConfig", templates: []string{`<pubsub xmlns="http://jabber.org/protocol/pubsub#owner"><configure node="n"><x xmlns="jabber:x:data" type="form"><field var="a" type="text-single"><value>v</value></field></x></configure></pubsub>`},
		call: func(ctx context.Context, s *xmpp.Session) { _, _ = pubsub.GetConfigIQ(ctx, s, iqTo, "n") }},
	{name: "commands.Fetch", templates: []string{`<query xmlns="http://jabber.org/protocol/disco#items" node="http://jabber.org/protocol/commands"><item jid="example.net" node="list" name="List"/></query>`},
		call: func(ctx context.Context, s *xmpp.Session) {
			it := commands.FetchIQ(ctx, iqTo, s)
			for it.Next() {
				_ = it.Command()
			}
			_ = it.Err()
			_ = it.Close()
		}},
	{name: "commands.Execute", templates: []string{`<command xmlns="http://jabber.org/protocol/commands" sessionid="s1" node="list" status="executing"><actions execute="next"><next/></actions><x xmlns="jabber:x:data" type="form"/></command>`},
		call: func(ctx context.Context, s *xmpp.Session) {
			_, r, err := commands.Command{JID: remote, Node: "list"}.ExecuteIQ(ctx, iqTo, nil, s)
			if err == nil && r != nil {
				drain(r)
				_ = r.Close()
			}
		}},
	{name: "upload.GetSlot", templates: []string{`<slot xmlns="urn:xmpp:http:upload:0"><put url="https://u.example/p"><header name="Authorization">Basic x</header></put><get url="https://u.example/g"/></slot>`},
		call: func(ctx context.Context, s *xmpp.Session) {
			_, _ = upload.GetSlotIQ(ctx, upload.File{Name: "f", Size: 1}, iqTo, s)
		}},
	{name: "muc.GetConfig", templates: []string{`<query xmlns="http://jabber.org/protocol/muc#owner"><x xmlns="jabber:x:data" type="form"><field var="muc#roomconfig_roomname" type="text-single"><value>r</value></field></x></query>`},
		call: func(ctx context.Context, s *xmpp.Session) { _, _ = muc.GetConfigIQ(ctx, iqTo, s) }},
	{name: "carbons.Enable", templates: []string{``},
		call: func(ctx context.Context, s *xmpp.Session) { _ = carbons.EnableIQ(ctx, s, iqTo) }},
	// round D: the remaining request helpers of the API (harness/c09/chanfacts.go lists the
	// exported functions that wait for the peer; evidence: request_helpers_not_exercised)
	{name: "blocklist.Remove", templates: []string{``},
		call: func(ctx context.Context, s *xmpp.Session) { _ = blocklist.RemoveIQ(ctx, iqTo, s, remote) }},
	{name: "blocklist.Report", templates: []string{``},
		call: func(ctx context.Context, s *xmpp.Session) {
			_ = blocklist.ReportIQ(ctx, iqTo, s, blocklist.Item{JID: remote, Reason: blocklist.ReasonSpam, Text: "t"})
		}},
	{name: "carbons.Disable", templates: []string{``},
		call: func(ctx context.Context, s *xmpp.Session) { _ = carbons.DisableIQ(ctx, s, iqTo) }},
	{name: "pubsub.CreateNode", templates: []string{`<pubsub xmlns="http://jabber.org/protocol/pubsub"><create node="n"/></pubsub>`},
		call: func(ctx context.Context, s *xmpp.Session) { _ = pubsub.CreateNodeIQ(ctx, s, iqTo, "n", nil) }},
	{name: "pubsub.Delete", templates: []string{``},
		call: func(ctx context.Context, s *xmpp.Session) { _ = pubsub.DeleteIQ(ctx, s, iqTo, "n", "i1", true) }},
	{name: "pubsub.GetDefaultConfig", templates: []string{`<pubsub xmlns="http://jabber.org/protocol/pubsub#owner"><default><x xmlns="jabber:x:data" type="form"><field var="a" type="text-single"><value>v</value></field></x></default></pubsub>`},
		call: func(ctx context.Context, s *xmpp.Session) { _, _ = pubsub.GetDefaultConfigIQ(ctx, s, iqTo) }},
	{name: "pubsub.SetConfig", templates: []string{``},
		call: func(ctx context.Context, s *xmpp.Session) { _ = pubsub.SetConfigIQ(ctx, s, iqTo, "n", nil) }},
	{name: "roster.Set", templates: []string{``},
		call: func(ctx context.Context, s *xmpp.Session) {
			q := roster.IQ{IQ: iqTo}
			q.Query.Item = []roster.Item{{JID: remote, Name: "n", Group: []string{"g"}}}
			_ = roster.SetIQ(ctx, q, s)
		}},
	{name: "roster.Delete", templates: []string{``},
		call: func(ctx context.Context, s *xmpp.Session) {
			q := roster.IQ{IQ: iqTo}
			q.Query.Item = []roster.Item{{JID: remote}}
			_ = roster.DeleteIQ(ctx, q, s)
		}},
	{name: "muc.SetConfig", templates: []string{``},
		call: func(ctx context.Context, s *xmpp.Session) { _ = muc.SetConfigIQ(ctx, iqTo, nil, s) }},
	// round trip: the form the peer sent is handed back by the next request helper (the value
	// decoded from one reply is the argument of the next call)
	{name: "muc.GetConfig>SetConfig", templates: []string{
		`<query xmlns="http://jabber.org/protocol/muc#owner"><x xmlns="jabber:x:data" type="form"><title>t</title><instructions>one</instructions><instructions/><instructions>two&#13;&#10;three</instructions>` +
			`<field var="FORM_TYPE" type="hidden"><value>http://jabber.org/protocol/muc#roomconfig</value></field>` +
			`<field var="muc#roomconfig_roomdesc" type="text-multi"><value>a</value><value/><value>b&#13;&#10;c</value></field>` +
			`<field var="muc#roomconfig_roomadmins" type="jid-multi"><value>a@b</value><value>@@</value></field>` +
			`<field var="muc#roomconfig_publicroom" type="boolean"><required/><value>maybe</value></field>` +
			`<field var="muc#roomconfig_whois" type="list-single"><value>anyone</value><option label="x"><value>anyone</value></option></field>` +
			`<field type="fixed"><value>note</value></field></x></query>`},
		call: func(ctx context.Context, s *xmpp.Session) {
			f, err := muc.GetConfigIQ(ctx, iqTo, s)
			if err == nil {
				_ = muc.SetConfigIQ(ctx, iqTo, f, s)
			}
		}},
	{name: "history.Fetch", templates: []string{`<fin xmlns="urn:xmpp:mam:2" complete="true"><set xmlns="http://jabber.org/protocol/rsm"><first index="0">a</first><last>b</last><count>2</count></set></fin>`},
		call: func(ctx context.Context, s *xmpp.Session) {
			_, _ = history.FetchIQ(ctx, history.Query{ID: "q"}, iqTo, s)
		}},
}

// cmdForEach: an ad-hoc command conversation through Command.ForEach; the callback answers
// every step with the given action.
func cmdForEach(action string) func(ctx context.Context, s *xmpp.Session) {
	return func(ctx context.Context, s *xmpp.Session) {
		steps := 0
		_ = commands.Command{JID: remote, Node: "list"}.ForEach(ctx, nil, s, func(r commands.Response, p xml.TokenReader) (commands.Command, xml.TokenReader, error) {
			steps++
			if action != "nodrain" {
				drain(p)
			}
			if steps > 6 {
				return r.Cancel(), nil, nil
			}
			switch action {
			case "cancel":
				return r.Cancel(), nil, nil
			case "complete":
				return r.Complete(), nil, nil
			case "prev":
				return r.Prev(), nil, nil
			case "err":
				return commands.Command{}, nil, errors.New("application error in the callback")
			case "stop":
				return commands.Command{}, nil, nil
			}
			return r.Next(), nil, nil
		})
	}
}

// cmdExecuteChain: the same conversation step by step through Execute.
func cmdExecuteChain(ctx context.Context, s *xmpp.Session) {
	c := commands.Command{JID: remote, Node: "list"}
	for i := 0; i < 4; i++ {
		resp, r, err := c.Execute(ctx, nil, s)
		if err != nil {
			return
		}
		if r != nil {
			drain(r)
			_ = r.Close()
		}
		if resp.Status != "executing" {
			return
		}
		if i == 2 {
			c = resp.Cancel()
		} else {
			c = resp.Next()
		}
	}
}

func init() {
	for _, a := range []string{"next", "cancel", "complete", "prev", "err", "stop", "nodrain"} {
		helpers = append(helpers, &helper{name: "commands.ForEach." + a, templates: []string{``}, call: cmdForEach(a)})
	}
	helpers = append(helpers, &helper{name: "commands.ExecuteChain", templates: []string{``}, call: cmdExecuteChain})
}

const errPayload = `<error type="cancel"><item-not-found xmlns="urn:ietf:params:xml:ns:xmpp-stanzas"/><text xmlns="urn:ietf:params:xml:ns:xmpp-stanzas" xml:lang="en">gone</text></error>`

// stanzaTemplates: canonical stanzas for every handler on the mux (one sequence per entry;
// later stanzas of a sequence exercise state left by earlier ones).
var stanzaTemplates = [][]string{
	{`<iq type="get" id="p1" from="juliet@example.com/b"><ping xmlns="urn:xmpp:ping"/></iq>`},
	{`<iq type="get" id="v1" from="juliet@example.com/b"><query xmlns="jabber:iq:version"/></iq>`},
	{`<iq type="get" id="t1" from="juliet@example.com/b"><time xmlns="urn:xmpp:time"/></iq>`},
	{`<iq type="get" id="d1" from="juliet@example.com/b"><query xmlns="http://jabber.org/protocol/disco#info" node="n"/></iq>`},
	{`<iq type="get" id="d2" from="juliet@example.com/b"><query xmlns="http://jabber.org/protocol/disco#items"/></iq>`},
	// handlers that produce their reply through a pipe fed by a goroutine (all features / items
	// of the multiplexer, no node filter)
	{`<iq type="get" id="d3" from="juliet@example.com/b"><query xmlns="http://jabber.org/protocol/disco#info"/></iq>`},
	{`<iq type="get" id="d4" from="juliet@example.com/b"><query xmlns="http://jabber.org/protocol/disco#items" node="http://jabber.org/protocol/commands"/></iq>`},
	{`<iq type="set" id="r1"><query xmlns="jabber:iq:roster" ver="v2"><item jid="a@b" name="A" subscription="both"><group>G</group></item></query></iq>`},
	{`<iq type="get" id="b1"><blocklist xmlns="urn:xmpp:blocking"/></iq>`},
	{`<iq type="set" id="b2"><block xmlns="urn:xmpp:blocking"><item jid="romeo@montague.net"/><item jid="iago@shakespeare.lit"/></block></iq>`},
	{`<iq type="set" id="b3"><unblock xmlns="urn:xmpp:blocking"><item jid="romeo@montague.net"/></unblock></iq>`, `<iq type="set" id="b4"><unblock xmlns="urn:xmpp:blocking"/></iq>`},
	{`<message from="a@b/c" id="m1" type="chat"><body>hi</body><request xmlns="urn:xmpp:receipts"/></message>`},
	{`<message from="a@b/c" id="m2"><received xmlns="urn:xmpp:receipts" id="m0"/></message>`},
	{`<message from="me@example.net" type="chat"><received xmlns="urn:xmpp:carbons:2"><forwarded xmlns="urn:xmpp:forward:0"><message from="a@b/c" to="me@example.net/x" type="chat"><body>x</body></message></forwarded></received></message>`},
	{`<message from="me@example.net" type="chat"><sent xmlns="urn:xmpp:carbons:2"><forwarded xmlns="urn:xmpp:forward:0"><message to="a@b/c" type="chat"><body>x</body></message></forwarded></sent></message>`},
	{`<message from="example.net" id="h1"><result xmlns="urn:xmpp:mam:2" queryid="q1" id="28482"><forwarded xmlns="urn:xmpp:forward:0"><delay xmlns="urn:xmpp:delay" stamp="2010-07-10T23:08:25Z"/><message from="a@b/c" type="chat"><body>x</body></message></forwarded></result></message>`},
	{`<iq type="set" id="i1" from="a@b/c" to="me@example.net/home"><open xmlns="http://jabber.org/protocol/ibb" block-size="4096" sid="s1" stanza="iq"/></iq>`,
		`<iq type="set" id="i2" from="a@b/c"><data xmlns="http://jabber.org/protocol/ibb" seq="0" sid="s1">AAAA</data></iq>`,
		`<message from="a@b/c" id="i3"><data xmlns="http://jabber.org/protocol/ibb" seq="1" sid="s1">AAAA</data></message>`,
		`<iq type="set" id="i4" from="a@b/c"><close xmlns="http://jabber.org/protocol/ibb" sid="s1"/></iq>`,
		`<iq type="set" id="i5" from="a@b/c"><data xmlns="http://jabber.org/protocol/ibb" seq="2" sid="s1">AAAA</data></iq>`},
	{`<presence from="room@conf.example/nick"><x xmlns="http://jabber.org/protocol/muc#user"><item affiliation="member" role="participant"/><status code="110"/></x></presence>`,
		`<presence from="room@conf.example/nick" type="unavailable"><x xmlns="http://jabber.org/protocol/muc#user"><item affiliation="none" role="none"/></x></presence>`},
	{`<message from="room@conf.example"><x xmlns="http://jabber.org/protocol/muc#user"><invite from="a@b/c"><reason>r</reason></invite><password>p</password></x></message>`},
	{`<message from="a@b/c"><x xmlns="jabber:x:conference" jid="room@conf.example" password="p" reason="r"/></message>`},
	{`<presence from="a@b/c"><c xmlns="http://jabber.org/protocol/caps" hash="sha-1" node="http://x" ver="QgayPKawpkPSDYmwT/WM94uAlu0="/></presence>`},
	{`<iq type="error" id="e1" from="a@b/c">` + errPayload + `</iq>`},
	{`<iq type="result" id="e2" from="a@b/c"/>`, `<message type="error" from="a@b/c">` + errPayload + `</message>`, `<presence type="error" from="a@b/c">` + errPayload + `</presence>`},
}

// panicLocation extracts the innermost library frame of a recovered stack: function and
// file:line (relative to the module).
var frameRe = regexp.MustCompile(`(?m)^(mellium\.im/xmpp[^\s(]*(?:\([^)]*\))?[^\s(]*)\(.*\n\t(\S+?):(\d+)`)

func panicLocation(stack, repo string) (fn, file string, line int) {
	for _, m := range frameRe.FindAllStringSubmatch(stack, -1) {
		if strings.Contains(m[1], "verifhook") {
			continue
		}
		f := m[2]
		n := 0
		fmt.Sscanf(m[3], "%d", &n)
		return m[1], f, n
	}
	return "?", "?", 0
}

// ---------------------------------------------------------------------------------------------

type ctx struct {
	r    *common.Run
	an   *analysis
	repo string
	// stalls per helper name ("" = serve): after a few, further cases of that kind are
	// skipped so that a systematic wedge is reported in seconds, not after the timeout
	stalls map[string]int
	// child: non-nil in a child process (see child.go)
	child *childOut
}

const maxStalls = 4

// record writes one fuzz case as a protocol line (the model's prediction is the theorem:
// "ok" for every input), counts it, and turns a panic / stall into an oracle failure plus a
// panicsite line that asks the checker whether it had flagged that site.
func (c *ctx) record(line string, o outcome, class string) {
	r := rec{Lines: [][2]string{{line, o.obs()}}, Canon: line, Class: class + ":" + o.obs()}
	switch {
	case o.panicMsg != "":
		fn, file, ln := panicLocation(o.stack, c.repo)
		key := "panic:" + fn
		lines := []string{c.r.Prop + " " + line}
		detail := fmt.Sprintf("panic %q at %s:%d in %s", o.panicMsg, file, ln, fn)
		if len(detail) > 600 {
			detail = detail[:600] + "…"
		}
		if c.an != nil {
			if fs, site := c.an.locate(file, ln); fs != nil {
				pl := fmt.Sprintf("panicsite %s %d", fs.Skel.Encode(), site)
				r.Lines = append(r.Lines, [2]string{pl, "flagged"})
				lines = append(lines, c.r.Prop+" "+pl)
			} else {
				detail += " (outside the skeleton scope)"
			}
		}
		r.Fail = &recFail{Clause: "no-panic", Key: key, Lines: lines, Detail: detail}
	case o.stalled:
		key := "stall:serve"
		f := strings.Fields(line)
		switch f[0] {
		case "servex":
			key = "stall:servex:" + f[1]
		case "helper", "helperp":
			if n, err := common.UnHex(f[1]); err == nil {
				key = "stall:helper:" + string(n)
			}
		case "scen":
			key = "stall:scen:" + f[1]
		}
		r.Fail = &recFail{Clause: "no-wedge", Key: key, Lines: []string{c.r.Prop + " " + line},
			Detail: "still running after " + wd().String() + ": " + o.where}
	}
	c.emit(r)
}

// locate finds the function whose body spans file:line and the id of a site at that line
// (a site id no skeleton uses if the translator produced none there).
func (an *analysis) locate(file string, line int) (*funcSkel, int) {
	var best *funcSkel
	for _, f := range an.Funcs {
		if strings.HasSuffix(file, "/"+f.File) && f.Line <= line && line <= f.End {
			if best == nil || f.Line >= best.Line {
				best = f // innermost (literals start later)
			}
		}
	}
	if best == nil {
		return nil, 0
	}
	for _, s := range an.Sites {
		if s.File == best.File && s.Line == line && s.Kind != "loop" && s.Fn == best.Name {
			return best, s.ID
		}
	}
	return best, 1 << 30
}

func (c *ctx) serve(input string, class string) {
	if c.stalls[""] >= maxStalls || !c.begin("serve "+hexz(input)) {
		return
	}
	t0 := time.Now()
	o := retryStalled(func() outcome { return serveCase([]byte(input)) })
	if d := time.Since(t0); d > 200*time.Millisecond && os.Getenv("C09_DEBUG") != "" {
		fmt.Fprintf(os.Stderr, "slow serve %v %s %s: %s\n", d, class, o.obs(), input)
	}
	if o.stalled {
		c.stalls[""]++
	}
	c.record("serve "+hexz(input), o, class)
}

func (c *ctx) servex(mode string, k int, stanzas []string, class string) int {
	var hx []string
	for _, st := range stanzas {
		hx = append(hx, common.HexS(st))
	}
	line := fmt.Sprintf("servex %s %d %s", mode, k, common.Join(hx, ";"))
	if c.stalls["servex"] >= 2*maxStalls || !c.begin(line) {
		return 0
	}
	var w int
	o := retryStalled(func() outcome {
		var oo outcome
		oo, w = servexCase(mode, k, stanzas)
		return oo
	})
	if o.stalled {
		c.stalls["servex"]++
	}
	c.record(line, o, class)
	return w
}

func (c *ctx) helper(h *helper, typ, reply, class string) {
	if c.stalls[h.name] >= maxStalls || !c.begin("helper "+common.HexS(h.name)+" "+typ+" "+hexz(reply)) {
		return
	}
	t0 := time.Now()
	o := retryStalled(func() outcome { return helperCase(h, typ, []byte(reply)) })
	if d := time.Since(t0); d > 200*time.Millisecond && os.Getenv("C09_DEBUG") != "" {
		fmt.Fprintf(os.Stderr, "slow helper %v %s %s %s %s: %s\n", d, class, o.obs(), h.name, typ, reply)
	}
	if o.stalled {
		c.stalls[h.name]++
	}
	c.record("helper "+common.HexS(h.name)+" "+typ+" "+hexz(reply), o, class)
}

// helperp: a helper against a peer that answers successive requests with successive pages.
func (c *ctx) helperp(h *helper, typ string, pages []string, class string) {
	var hx []string
	var bs [][]byte
	for _, p := range pages {
		hx = append(hx, common.HexS(p))
		bs = append(bs, []byte(p))
	}
	line := "helperp " + common.HexS(h.name) + " " + typ + " " + strings.Join(hx, ";")
	if c.stalls[h.name] >= maxStalls || !c.begin(line) {
		return
	}
	o := retryStalled(func() outcome { return helperPages(h, typ, bs) })
	if o.stalled {
		c.stalls[h.name]++
	}
	c.record(line, o, class)
}

func helperByName(n string) *helper {
	for _, h := range helpers {
		if h.name == n {
			return h
		}
	}
	return nil
}

// replay re-runs the serve / helper lines of a replay file through the oracle.
func (c *ctx) replay(lines []string) error {
	for _, l := range lines {
		f := strings.Fields(l)
		if len(f) < 2 || f[0] != c.r.Prop {
			continue
		}
		switch f[1] {
		case "serve":
			if len(f) != 3 {
				return fmt.Errorf("bad replay line %q", l)
			}
			b, err := unhexz(f[2])
			if err != nil {
				return err
			}
			c.serve(string(b), "replay")
		case "helperp":
			if len(f) != 5 {
				return fmt.Errorf("bad replay line %q", l)
			}
			n, err1 := common.UnHex(f[2])
			h := helperByName(string(n))
			if err1 != nil || h == nil {
				return fmt.Errorf("bad replay line %q", l)
			}
			var pages []string
			for _, hx := range strings.Split(f[4], ";") {
				b, err := common.UnHex(hx)
				if err != nil {
					return err
				}
				pages = append(pages, string(b))
			}
			c.helperp(h, f[3], pages, "replay")
		case "servex":
			if len(f) != 5 {
				return fmt.Errorf("bad replay line %q", l)
			}
			k, err := strconv.Atoi(f[3])
			if err != nil {
				return err
			}
			var stanzas []string
			for _, h := range strings.Split(f[4], ";") {
				b, err := common.UnHex(h)
				if err != nil {
					return err
				}
				stanzas = append(stanzas, string(b))
			}
			c.servex(f[2], k, stanzas, "replay")
		case "nego":
			if len(f) != 6 {
				return fmt.Errorf("bad replay line %q", l)
			}
			var chunks []string
			for _, h := range strings.Split(f[4], ";") {
				b, err := common.UnHex(h)
				if err != nil {
					return err
				}
				chunks = append(chunks, string(b))
			}
			c.nego(negoWitness{role: f[2], mechs: f[3], chunks: chunks}, "replay")
		case "muchand":
			// the three cases are cheap: replaying one runs the whole (deterministic) domain
			c.mucHandover()
		case "formsubmit":
			if len(f) != 4 {
				return fmt.Errorf("bad replay line %q", l)
			}
			ins, err1 := decList(f[2])
			vals, err2 := decList(f[3])
			if err1 != nil || err2 != nil {
				return fmt.Errorf("bad replay line %q", l)
			}
			c.formSubmit(ins, vals, "replay")
		case "scen":
			if len(f) != 4 {
				return fmt.Errorf("bad replay line %q", l)
			}
			c.scen(scenario{name: f[2], steps: strings.Split(f[3], ",")}, "replay")
		case "helper":
			if len(f) != 5 {
				return fmt.Errorf("bad replay line %q", l)
			}
			n, err1 := common.UnHex(f[2])
			b, err2 := unhexz(f[4])
			h := helperByName(string(n))
			if err1 != nil || err2 != nil || h == nil {
				return fmt.Errorf("bad replay line %q", l)
			}
			c.helper(h, f[3], string(b), "replay")
		}
	}
	return nil
}

var _ = io.EOF
