package c09

import (
	"fmt"
	"go/ast"
	"go/token"
	"go/types"
	"strings"
)

// goFact: one `go` statement in the code in scope.  Joined says whether the function that
// starts the goroutine waits for something afterwards (a channel receive, a range over a
// channel, a select with a receive, a WaitGroup-style Wait()): such a function can be wedged
// by its goroutine (if the goroutine blocks, e.g. on a pipe nobody drains after a write error),
// a function that does not wait can leak it.  The list is pinned in Props/C09.lean
// (C09_goroutines_reviewed): starting a new goroutine in handler code, or starting to wait
// for one, has to be reviewed against the error paths.
type goFact struct {
	Fn     string
	File   string
	Line   int
	Joined bool
}

func goFactsOf(l *loaded, filter func(string) bool, fset *token.FileSet) []goFact {
	var out []goFact
	for i, file := range l.Files {
		if filter != nil && !filter(l.Names[i]) {
			continue
		}
		if ast.IsGenerated(file) {
			continue
		}
		for _, d := range file.Decls {
			fd, ok := d.(*ast.FuncDecl)
			if !ok || fd.Body == nil {
				continue
			}
			name := l.Pkg.Name() + "." + recvName(fd) + fd.Name.Name
			var gos []*ast.GoStmt
			ast.Inspect(fd.Body, func(n ast.Node) bool {
				if g, ok := n.(*ast.GoStmt); ok {
					gos = append(gos, g)
				}
				return true
			})
			for _, g := range gos {
				joined := false
				ast.Inspect(fd.Body, func(n ast.Node) bool {
					if n == nil || n == ast.Node(g) {
						return n != ast.Node(g) // do not look inside the goroutine itself
					}
					if n.Pos() < g.End() {
						return true
					}
					switch n := n.(type) {
					case *ast.FuncLit:
						return false
					case *ast.UnaryExpr:
						if n.Op == token.ARROW {
							joined = true
						}
					case *ast.RangeStmt:
						if t := l.Info.TypeOf(n.X); t != nil {
							if _, isChan := t.Underlying().(*types.Chan); isChan {
								joined = true
							}
						}
					case *ast.CallExpr:
						if sel, ok := n.Fun.(*ast.SelectorExpr); ok && sel.Sel.Name == "Wait" && len(n.Args) == 0 {
							joined = true
						}
					}
					return true
				})
				p := fset.Position(g.Pos())
				out = append(out, goFact{Fn: name, File: l.Names[i], Line: p.Line, Joined: joined})
			}
		}
	}
	return out
}

func leanGoFacts(facts []goFact, ok bool) string {
	var b strings.Builder
	b.WriteString("/-- every `go` statement in scope: (function, does the function wait for something afterwards) -/\n")
	if !ok {
		b.WriteString("def goroutines : Option (List (String × Bool)) := none\n")
		return b.String()
	}
	b.WriteString("def goroutines : Option (List (String × Bool)) := some [\n")
	for i, f := range facts {
		if i > 0 {
			b.WriteString(",\n")
		}
		fmt.Fprintf(&b, "  (%q, %v)", f.Fn, f.Joined)
	}
	b.WriteString("]\n")
	return b.String()
}

// pageTurn: an iterator's Next method that sends a further request (turns the page).  Closed
// says whether a Close() on something the iterator holds (the current response) precedes the
// request in the text of Next: Serve waits for the current response to be closed before it
// reads anything else, so requesting the next page first can never be answered.
type pageTurn struct {
	Fn     string
	Callee string
	Closed bool
}

var requestCallee = map[string]bool{"Fetch": true, "FetchIQ": true, "FetchItems": true, "FetchItemsIQ": true, "SendIQ": true,
	"SendIQElement": true, "IterIQ": true, "IterIQElement": true, "UnmarshalIQ": true, "UnmarshalIQElement": true, "EncodeIQ": true, "EncodeIQElement": true}

func pageTurnsOf(l *loaded, filter func(string) bool) []pageTurn {
	var out []pageTurn
	for i, file := range l.Files {
		if filter != nil && !filter(l.Names[i]) {
			continue
		}
		for _, d := range file.Decls {
			fd, ok := d.(*ast.FuncDecl)
			if !ok || fd.Body == nil || fd.Recv == nil || fd.Name.Name != "Next" || len(fd.Recv.List) == 0 || len(fd.Recv.List[0].Names) == 0 {
				continue
			}
			recv := fd.Recv.List[0].Names[0].Name
			name := l.Pkg.Name() + "." + recvName(fd) + fd.Name.Name
			var closes []token.Pos
			ast.Inspect(fd.Body, func(n ast.Node) bool {
				if call, ok := n.(*ast.CallExpr); ok {
					if sel, ok := call.Fun.(*ast.SelectorExpr); ok && sel.Sel.Name == "Close" && strings.HasPrefix(types.ExprString(sel.X), recv+".") {
						closes = append(closes, call.Pos())
					}
				}
				return true
			})
			ast.Inspect(fd.Body, func(n ast.Node) bool {
				call, ok := n.(*ast.CallExpr)
				if !ok {
					return true
				}
				callee := ""
				switch f := call.Fun.(type) {
				case *ast.Ident:
					callee = f.Name
				case *ast.SelectorExpr:
					callee = f.Sel.Name
				}
				if !requestCallee[callee] {
					return true
				}
				closed := false
				for _, p := range closes {
					if p < call.Pos() {
						closed = true
					}
				}
				out = append(out, pageTurn{Fn: name, Callee: callee, Closed: closed})
				return true
			})
		}
	}
	return out
}

func leanPageTurns(pts []pageTurn, ok bool) string {
	var b strings.Builder
	b.WriteString("/-- iterators whose Next sends a further request: (method, callee, is something the iterator holds closed before) -/\n")
	if !ok {
		b.WriteString("def pageTurns : Option (List (String × String × Bool)) := none\n")
		return b.String()
	}
	b.WriteString("def pageTurns : Option (List (String × String × Bool)) := some [")
	for i, p := range pts {
		if i > 0 {
			b.WriteString(", ")
		}
		fmt.Fprintf(&b, "(%q, %q, %v)", p.Fn, p.Callee, p.Closed)
	}
	b.WriteString("]\n")
	return b.String()
}

// cancelFact: a context.WithCancel / WithTimeout / WithDeadline in the code in scope and whether
// the very next statement is `defer cancel()`.  A goroutine started with such a context and
// parked in a Session send stays registered for its request id until the context ends: if the
// function returns without cancelling, a late reply with that id is handed to a goroutine
// nobody listens to any more, which never closes the response (Serve waits for ever).
type cancelFact struct {
	Fn       string
	Deferred bool
}

func cancelFactsOf(l *loaded, filter func(string) bool) []cancelFact {
	var out []cancelFact
	for i, file := range l.Files {
		if filter != nil && !filter(l.Names[i]) {
			continue
		}
		for _, d := range file.Decls {
			fd, ok := d.(*ast.FuncDecl)
			if !ok || fd.Body == nil {
				continue
			}
			name := l.Pkg.Name() + "." + recvName(fd) + fd.Name.Name
			var blocks func(list []ast.Stmt)
			blocks = func(list []ast.Stmt) {
				for j, st := range list {
					if as, ok := st.(*ast.AssignStmt); ok && len(as.Lhs) == 2 && len(as.Rhs) == 1 {
						if call, ok := as.Rhs[0].(*ast.CallExpr); ok {
							if sel, ok := call.Fun.(*ast.SelectorExpr); ok {
								if pk, ok := sel.X.(*ast.Ident); ok && pk.Name == "context" && strings.HasPrefix(sel.Sel.Name, "With") && sel.Sel.Name != "WithValue" {
									cancelName := types.ExprString(as.Lhs[1])
									deferred := false
									if j+1 < len(list) {
										if ds, ok := list[j+1].(*ast.DeferStmt); ok && types.ExprString(ds.Call.Fun) == cancelName {
											deferred = true
										}
									}
									out = append(out, cancelFact{Fn: name, Deferred: deferred})
								}
							}
						}
					}
					ast.Inspect(st, func(n ast.Node) bool {
						switch n := n.(type) {
						case *ast.BlockStmt:
							if n != nil && ast.Node(n) != ast.Node(st) {
								blocks(n.List)
								return false
							}
						case *ast.CaseClause:
							blocks(n.Body)
							return false
						case *ast.CommClause:
							blocks(n.Body)
							return false
						}
						return true
					})
				}
			}
			blocks(fd.Body.List)
		}
	}
	return out
}
