package c09

import (
	"fmt"
	"go/ast"
	"go/token"
	"go/types"
	"strings"
)

// goFact: one `go` statement in the code in scope.  Joined says whether the function that
// starts the goroutine waits for something afterwards (a channel receive, a range over a
// channel, a select with a receive, a WaitGroup-style Wait()): such a function can be wedged
// by its goroutine (if the goroutine blocks, e.g. on a pipe nobody drains after a write error),
// a function that does not wait can leak it.  The list is pinned in Props/C09.lean
// (C09_goroutines_reviewed): starting a new goroutine in handler code, or starting to wait
// for one, has to be reviewed against the error paths.
type goFact struct {
	Fn     string
	File   string
	Line   int
	Joined bool
}

func goFactsOf(l *loaded, filter func(string) bool, fset *token.FileSet) []goFact {
	var out []goFact
	for i, file := range l.Files {
		if filter != nil && !filter(l.Names[i]) {
			continue
		}
		if ast.IsGenerated(file) {
			continue
		}
		for _, d := range file.Decls {
			fd, ok := d.(*ast.FuncDecl)
			if !ok || fd.Body == nil {
				continue
			}
			name := l.Pkg.Name() + "." + recvName(fd) + fd.Name.Name
			var gos []*ast.GoStmt
			ast.Inspect(fd.Body, func(n ast.Node) bool {
				if g, ok := n.(*ast.GoStmt); ok {
					gos = append(gos, g)
				}
				return true
			})
			for _, g := range gos {
				joined := false
				ast.Inspect(fd.Body, func(n ast.Node) bool {
					if n == nil || n == ast.Node(g) {
						return n != ast.Node(g) // do not look inside the goroutine itself
					}
					if n.Pos() < g.End() {
						return true
					}
					switch n := n.(type) {
					case *ast.FuncLit:
						return false
					case *ast.UnaryExpr:
						if n.Op == token.ARROW {
							joined = true
						}
					case *ast.RangeStmt:
						if t := l.Info.TypeOf(n.X); t != nil {
							if _, isChan := t.Underlying().(*types.Chan); isChan {
								joined = true
							}
						}
					case *ast.CallExpr:
						if sel, ok := n.Fun.(*ast.SelectorExpr); ok && sel.Sel.Name == "Wait" && len(n.Args) == 0 {
							joined = true
						}
					}
					return true
				})
				p := fset.Position(g.Pos())
				out = append(out, goFact{Fn: name, File: l.Names[i], Line: p.Line, Joined: joined})
			}
		}
	}
	return out
}

func leanGoFacts(facts []goFact, ok bool) string {
	var b strings.Builder
	b.WriteString("/-- every `go` statement in scope: (function, does the function wait for something afterwards) -/\n")
	if !ok {
		b.WriteString("def goroutines : Option (List (String × Bool)) := none\n")
		return b.String()
	}
	b.WriteString("def goroutines : Option (List (String × Bool)) := some [\n")
	for i, f := range facts {
		if i > 0 {
			b.WriteString(",\n")
		}
		fmt.Fprintf(&b, "  (%q, %v)", f.Fn, f.Joined)
	}
	b.WriteString("]\n")
	return b.String()
}
