package c09

import (
	"context"
	"encoding/base64"
	"encoding/hex"
	"encoding/xml"
	"fmt"
	"net"
	"os"
	"regexp"
	"strconv"
	"strings"
	"sync"
	"time"

	"mellium.im/xmlstream"
	"mellium.im/xmpp"
	"mellium.im/xmpp/blocklist"
	"mellium.im/xmpp/carbons"
	"mellium.im/xmpp/commands"
	"mellium.im/xmpp/disco"
	"mellium.im/xmpp/history"
	"mellium.im/xmpp/ibb"
	"mellium.im/xmpp/jid"
	"mellium.im/xmpp/muc"
	"mellium.im/xmpp/mux"
	"mellium.im/xmpp/ping"
	"mellium.im/xmpp/pubsub"
	"mellium.im/xmpp/receipts"
	"mellium.im/xmpp/roster"
	"mellium.im/xmpp/stanza"
	"mellium.im/xmpp/version"
	"mellium.im/xmpp/xtime"

	"verifharness/common"
)

// Stateful scenarios: local API calls and peer stanzas interleave on one served session.
//
// A scenario is a list of steps, written on one protocol line
//
//	scen <name> <step,step,…>          -> ok | PANIC | STALL
//
// with the steps (arguments hex encoded)
//
//	call:<fn>[.<arg>]   start the local API call fn in its own goroutine (recover + own context)
//	cancel:<fn>[.<arg>] cancel that call's context
//	wait:<fn>[.<arg>]   the call must return within the watchdog
//	await:<text>        the session must have written <text> within the watchdog
//	feed:<bytes>        the peer sends <bytes>
//	replyto:<text>:<type>:<payload>
//	                    the peer answers the first not yet answered <iq/> the session wrote
//	                    whose serialisation contains <text>, with the same id
//	auto:<text>:<type>:<payload>
//	                    from now on the peer answers every such <iq/> that way
//	probe               liveness probe: the peer sends a ping; the pong must appear
//	end                 the peer ends the input; Serve and every call (cancelled) must return
//
// Every scenario ends with `probe,end`.

// parts are the stateful handlers of a scenario's multiplexer.
type parts struct {
	rh *receipts.Handler
	ih *ibb.Handler
	mc *muc.Client
	hh *history.Handler
	l  *ibb.Listener
}

func newMuxParts() (*mux.ServeMux, *parts) {
	inner := mux.MessageHandlerFunc(func(stanza.Message, xmlstream.TokenReadEncoder) error { return nil })
	p := &parts{
		rh: &receipts.Handler{Unhandled: func(string) {}},
		ih: &ibb.Handler{},
		mc: &muc.Client{HandleInvite: func(muc.Invitation) {}, HandleUserPresence: func(stanza.Presence, muc.Item) {}},
		hh: history.NewHandler(inner),
	}
	m := mux.New("jabber:client",
		ping.Handle(),
		version.Handle(version.Query{Name: "n", Version: "v", OS: "o"}),
		xtime.Handle(xtime.Handler{}),
		disco.Handle(),
		receipts.Handle(p.rh),
		carbons.Handle(carbons.Handler{F: func(m stanza.Message, sent bool, inner xml.TokenReader) error {
			_, err := xmlstream.Copy(xmlstream.Discard(), inner)
			return err
		}}),
		blocklist.Handle(blocklist.Handler{
			Block: func(blocklist.Item) {}, Unblock: func(jid.JID) {}, UnblockAll: func() {},
			List: func(c chan<- jid.JID) { c <- remote },
		}),
		roster.Handle(roster.Handler{Push: func(string, roster.Item) error { return nil }}),
		ibb.Handle(p.ih),
		muc.HandleClient(p.mc),
		muc.HandleInvite(func(muc.Invitation) {}),
		history.Handle(p.hh),
		disco.HandleCaps(func(stanza.Presence, disco.Caps) {}),
	)
	return m, p
}

type call struct {
	cancel context.CancelFunc
	done   chan outcome
}

type scenRun struct {
	lclosed  bool // the application closed its ibb listener
	accepted int
	fx       *fixture
	p        *parts
	mu       sync.Mutex
	calls    map[string]*call
	conns    map[string]net.Conn
	answered map[string]bool
	probes   int
	mch      *muc.Channel // the room the application joined (mucjoin)
}

func (sr *scenRun) room() *muc.Channel {
	sr.mu.Lock()
	defer sr.mu.Unlock()
	return sr.mch
}

// acceptLoop accepts every incoming stream of one listener: in, in2, in3, …
func (sr *scenRun) acceptLoop(l *ibb.Listener) {
	for {
		c, err := l.Accept()
		if err != nil {
			return
		}
		sr.mu.Lock()
		sr.accepted++
		n := sr.accepted
		sr.mu.Unlock()
		if n == 1 {
			sr.setConn("in", c)
		} else {
			sr.setConn(fmt.Sprintf("in%d", n), c)
		}
	}
}

func (sr *scenRun) conn(name string) net.Conn {
	sr.mu.Lock()
	defer sr.mu.Unlock()
	return sr.conns[name]
}

func (sr *scenRun) setConn(name string, c net.Conn) {
	if c == nil {
		return
	}
	// far beyond the (retried) watchdog, so that it never hides a wedge: it only frees the
	// goroutines of a scenario that did stall
	_ = c.SetDeadline(time.Now().Add(200 * baseWatchdog))
	sr.mu.Lock()
	sr.conns[name] = c
	sr.mu.Unlock()
}

var room = jid.MustParse("room@conf.example/nick")

// localCalls: the local API calls a scenario can start.
var localCalls = map[string]func(ctx context.Context, sr *scenRun, arg string){
	"uiq": func(ctx context.Context, sr *scenRun, _ string) {
		var q version.Query
		_ = sr.fx.rs.S.UnmarshalIQElement(ctx, version.Query{}.TokenReader(), stanza.IQ{ID: "q1", Type: stanza.GetIQ, To: remote}, &q)
	},
	"roster": func(ctx context.Context, sr *scenRun, arg string) {
		it := roster.FetchIQ(ctx, roster.IQ{IQ: stanza.IQ{ID: "q2", To: remote}}, sr.fx.rs.S)
		for it.Next() {
			_ = it.Item()
			if arg == "1" {
				break
			}
		}
		_ = it.Err()
		_ = it.Close()
	},
	"pubsub": func(ctx context.Context, sr *scenRun, arg string) {
		it := pubsub.FetchIQ(ctx, stanza.IQ{ID: "q3", To: remote}, sr.fx.rs.S, pubsub.Query{Node: "n"})
		for it.Next() {
			if arg == "1" {
				break
			}
			_, r := it.Item()
			drain(r)
		}
		_ = it.Close()
	},
	"cmd": func(ctx context.Context, sr *scenRun, arg string) {
		it := commands.FetchIQ(ctx, stanza.IQ{ID: "q4", To: remote}, sr.fx.rs.S)
		for it.Next() {
			_ = it.Command()
			if arg == "1" {
				break
			}
		}
		_ = it.Close()
	},
	"cmdexec": func(ctx context.Context, sr *scenRun, arg string) {
		_, r, err := commands.Command{JID: remote, Node: "list"}.ExecuteIQ(ctx, stanza.IQ{ID: "q6", To: remote}, nil, sr.fx.rs.S)
		if err == nil && r != nil {
			if arg != "1" {
				drain(r)
			}
			_ = r.Close()
		}
	},
	"disco": func(ctx context.Context, sr *scenRun, arg string) {
		it := disco.FetchItemsIQ(ctx, "", stanza.IQ{ID: "q5", To: remote}, sr.fx.rs.S)
		for it.Next() {
			_ = it.Item()
			if arg == "1" {
				break
			}
		}
		_ = it.Close()
	},
	"rcpt": func(ctx context.Context, sr *scenRun, _ string) {
		_ = sr.p.rh.SendMessageElement(ctx, sr.fx.rs.S, nil, stanza.Message{ID: "r1", To: remote, Type: stanza.ChatMessage})
	},
	"ibbopen": func(ctx context.Context, sr *scenRun, arg string) {
		// the stream's peer is the entity whose stream stanzas the scripts feed (ibbData / ibbClose
		// come from a@b/c): since the library's repair bea89b2 a stream only takes stanzas from the
		// entity it was opened with
		c, err := sr.p.ih.OpenIQ(ctx, stanza.IQ{ID: "o1", To: ibbPeer}, sr.fx.rs.S, true, 4096, "s1")
		if err == nil && c != nil {
			sr.setConn("out", c)
		}
	},
	// the fixture accepts every incoming stream in the background (an application that never
	// accepts makes the ibb handler wait for it: an application rendezvous, not C09's business);
	// this call just waits for the n-th accepted stream
	"ibbaccept": func(ctx context.Context, sr *scenRun, arg string) {
		for sr.conn("in"+arg) == nil {
			select {
			case <-ctx.Done():
				return
			case <-time.After(200 * time.Microsecond):
			}
		}
	},
	"ibbread": func(ctx context.Context, sr *scenRun, arg string) {
		if c := sr.conn(arg); c != nil {
			buf := make([]byte, 64)
			_, _ = c.Read(buf)
		}
	},
	"ibbwrite": func(ctx context.Context, sr *scenRun, arg string) {
		if c := sr.conn(arg); c != nil {
			_, _ = c.Write([]byte("hello"))
			if f, ok := c.(interface{ Flush() error }); ok {
				_ = f.Flush()
			}
		}
	},
	// Write without Flush: arg = <conn>-<n bytes>; the data stays in the stream's buffers
	"ibbwriteraw": func(ctx context.Context, sr *scenRun, arg string) {
		name, ns, _ := strings.Cut(arg, "-")
		n, _ := strconv.Atoi(ns)
		if c := sr.conn(name); c != nil && n > 0 {
			_, _ = c.Write([]byte(strings.Repeat("x", n)))
		}
	},
	"ibbclose": func(ctx context.Context, sr *scenRun, arg string) {
		if c := sr.conn(arg); c != nil {
			_ = c.Close()
		}
	},
	// the application closes its listener / listens again
	"ibblistenclose": func(ctx context.Context, sr *scenRun, _ string) {
		sr.mu.Lock()
		already := sr.lclosed
		sr.lclosed = true
		l := sr.p.l
		sr.mu.Unlock()
		if !already {
			_ = l.Close()
		}
	},
	"ibblisten": func(ctx context.Context, sr *scenRun, _ string) {
		sr.mu.Lock()
		if !sr.lclosed {
			sr.mu.Unlock()
			return
		}
		sr.lclosed = false
		sr.p.l = sr.p.ih.Listen(sr.fx.rs.S)
		l := sr.p.l
		sr.mu.Unlock()
		go sr.acceptLoop(l)
	},
	// the application closes the session's output stream
	"sessclose": func(ctx context.Context, sr *scenRun, _ string) {
		_ = sr.fx.rs.S.Close()
	},
	"mucjoin": func(ctx context.Context, sr *scenRun, _ string) {
		ch, _ := sr.p.mc.Join(ctx, room, sr.fx.rs.S)
		sr.mu.Lock()
		sr.mch = ch
		sr.mu.Unlock()
	},
	// calls on a room the application has joined (or tried to): join again under another
	// nickname (arg) or under the same one (no arg), leave, and the state readers an
	// application polls while it waits
	"mucrenick": func(ctx context.Context, sr *scenRun, arg string) {
		if ch := sr.room(); ch != nil {
			if arg == "" {
				_ = ch.Join(ctx)
			} else {
				_ = ch.Join(ctx, muc.Nick(arg))
			}
		}
	},
	"mucleave": func(ctx context.Context, sr *scenRun, _ string) {
		if ch := sr.room(); ch != nil {
			_ = ch.Leave(ctx, "")
		}
	},
	"mucstate": func(ctx context.Context, sr *scenRun, _ string) {
		if ch := sr.room(); ch != nil {
			_ = ch.Me()
			_ = ch.Joined()
		}
	},
	"hist": func(ctx context.Context, sr *scenRun, arg string) {
		it := sr.p.hh.Fetch(ctx, history.Query{ID: "hq1"}, remote, sr.fx.rs.S)
		for it.Next() {
			drain(it.Current())
			if arg == "1" {
				break
			}
			if arg == "slow" {
				// a consumer that closes the iterator while the next result is already waiting
				time.Sleep(150 * time.Millisecond)
				break
			}
		}
		_ = it.Err()
		_ = it.Close()
	},
}

var anyIDRe = regexp.MustCompile(`<(?:iq|message|presence)[^>]*\sid="([^"]*)"`)

var iqElemRe = regexp.MustCompile(`(?s)<iq[^>]*\sid="([^"]*)"[^>]*?(/>|>.*?</iq>)`)

func (sr *scenRun) awaitOut(pred func(out string) bool) bool {
	return sr.awaitOutFor(wd(), pred)
}

func (sr *scenRun) awaitOutFor(d time.Duration, pred func(out string) bool) bool {
	deadline := time.Now().Add(d)
	for time.Now().Before(deadline) {
		if pred(string(sr.fx.rs.Out.Bytes())) {
			return true
		}
		time.Sleep(150 * time.Microsecond)
	}
	return false
}

// pending returns the id of the first request the session wrote that contains want and has
// not been answered yet (and marks it answered).
func (sr *scenRun) pending(out, want string) (string, bool) {
	sr.mu.Lock()
	defer sr.mu.Unlock()
	for _, m := range iqElemRe.FindAllStringSubmatch(out, -1) {
		if strings.Contains(m[0], want) && !sr.answered[m[1]] && !strings.Contains(m[0], `type="result"`) && !strings.Contains(m[0], `type="error"`) {
			sr.answered[m[1]] = true
			return m[1], true
		}
	}
	return "", false
}

// feed writes peer bytes; false if the session no longer reads (Serve ended).
func (sr *scenRun) feed(b []byte) bool {
	fed := make(chan error, 1)
	go func() { fed <- sr.fx.rs.Feed(b) }()
	select {
	case err := <-fed:
		return err == nil
	case o := <-sr.fx.done:
		// Serve ended while (or before) these bytes were offered: nobody reads any more
		sr.fx.done <- o
		_ = sr.fx.rs.In.Close()
		return false
	case <-time.After(wd()):
		return false
	}
}

func unhexS(s string) (string, error) {
	if s == "-" || s == "" {
		return "", nil
	}
	b, err := hex.DecodeString(s)
	return string(b), err
}

// runScenario executes the steps; the outcome is ok, a recovered panic, or a stall (with the
// step that did not complete).
// lastObserved: what the "observe:<call>" steps of the scenario that ran last have seen
// (scenarios run one at a time in a process).
var lastObserved []string

func runScenario(steps []string) outcome {
	lastObserved = nil
	m, p := newMuxParts()
	fx, err := newFixture(m)
	if err != nil {
		return outcome{panicMsg: "harness: " + err.Error()}
	}
	p.l = p.ih.Listen(fx.rs.S)
	sr := &scenRun{fx: fx, p: p, calls: map[string]*call{}, conns: map[string]net.Conn{}, answered: map[string]bool{}}
	go sr.acceptLoop(p.l)
	serveEnded := false
	var serveOut outcome
	stopAuto := make(chan struct{})
	defer close(stopAuto)
	checkServe := func() bool { // true if Serve has ended
		if serveEnded {
			return true
		}
		select {
		case serveOut = <-fx.done:
			serveEnded = true
		default:
		}
		return serveEnded
	}
	finishCalls := func() outcome {
		for _, c := range sr.calls {
			c.cancel()
		}
		sr.mu.Lock()
		if !sr.lclosed {
			sr.lclosed = true
			_ = sr.p.l.Close()
		}
		sr.mu.Unlock()
		// what an application does when its session has ended: close its streams (this also
		// releases readers of a stream the peer orphaned, e.g. by re-opening its sid; ibb's
		// Read does not honour read deadlines — noted for C15 in DESIGN-notes/C09.md)
		sr.mu.Lock()
		for _, cn := range sr.conns {
			cn := cn
			go func() { _ = cn.Close() }()
		}
		sr.mu.Unlock()
		for name, c := range sr.calls {
			// ibb's Close / Write wait for the peer's reply under the stream's own deadline (they
			// take no context): once the session has ended an unanswered one returns only at that
			// deadline, which these scenarios set far away so that it cannot hide a wedge of Serve
			deadlineBound := strings.HasPrefix(name, "ibbclose") || strings.HasPrefix(name, "ibbwrite")
			select {
			case o := <-c.done:
				if o.panicMsg != "" {
					return o
				}
			case <-time.After(wd()):
				if deadlineBound {
					continue
				}
				return outcome{stalled: true, where: "local call " + name + " did not return after its context was cancelled, its streams closed and the input ended"}
			}
		}
		return outcome{}
	}
	defer fx.fw.releaseWrites()
	abort := func(o outcome) outcome {
		_ = fx.rs.In.Close()
		for _, c := range sr.calls {
			c.cancel()
		}
		return o
	}
	for _, st := range steps {
		f := strings.Split(st, ":")
		switch f[0] {
		case "call", "cancel", "wait":
			if len(f) != 2 {
				return outcome{panicMsg: "harness: bad step " + st}
			}
			name, arg, _ := strings.Cut(f[1], ".")
			fn := localCalls[name]
			if fn == nil {
				return outcome{panicMsg: "harness: unknown call " + st}
			}
			switch f[0] {
			case "call":
				if _, dup := sr.calls[f[1]]; dup {
					continue
				}
				cx, cancel := context.WithCancel(context.Background())
				c := &call{cancel: cancel, done: make(chan outcome, 1)}
				sr.calls[f[1]] = c
				go func() { c.done <- guard(func() { fn(cx, sr, arg) }) }()
			case "cancel":
				if c := sr.calls[f[1]]; c != nil {
					c.cancel()
				}
			case "wait":
				c := sr.calls[f[1]]
				if c == nil {
					continue
				}
				select {
				case o := <-c.done:
					c.done <- o
					if o.panicMsg != "" {
						return abort(o)
					}
				case <-time.After(wd()):
					return abort(outcome{stalled: true, where: "local call " + f[1] + " did not return"})
				}
			}
		case "observe":
			// has the local call returned (it gets a moment: the hand-over wakes its goroutine)?
			if len(f) != 2 {
				return outcome{panicMsg: "harness: bad step " + st}
			}
			seen := "pending"
			if c := sr.calls[f[1]]; c != nil {
				select {
				case o := <-c.done:
					c.done <- o
					seen = "done"
					if o.panicMsg != "" {
						return abort(o)
					}
				case <-time.After(150 * time.Millisecond):
				}
			}
			lastObserved = append(lastObserved, seen)
		case "await":
			want, err := unhexS(f[1])
			if err != nil {
				return outcome{panicMsg: "harness: bad step " + st}
			}
			// "await:<hex>" = the text is on the wire; "await:<hex>:<n>" = at least n times (a
			// second request of the same shape, e.g. a re-join)
			times := 1
			if len(f) > 2 {
				if times, err = strconv.Atoi(f[2]); err != nil {
					return outcome{panicMsg: "harness: bad step " + st}
				}
			}
			if !sr.awaitOut(func(out string) bool { return strings.Count(out, want) >= times }) {
				// a call that panicked explains the silence
				for _, c := range sr.calls {
					select {
					case o := <-c.done:
						c.done <- o
						if o.panicMsg != "" {
							return abort(o)
						}
					default:
					}
				}
				if checkServe() && serveOut.panicMsg != "" {
					return abort(serveOut)
				}
				return abort(outcome{stalled: true, where: fmt.Sprintf("the session never wrote %q", want)})
			}
		case "feed":
			b, err := unhexS(f[1])
			if err != nil {
				return outcome{panicMsg: "harness: bad step " + st}
			}
			if checkServe() {
				continue
			}
			if !sr.feed([]byte(b)) {
				if checkServe() {
					continue
				}
				// Serve is running but has not taken the peer's bytes for a whole watchdog: with
				// every incoming stream accepted in the background nothing legitimate keeps a
				// handler busy that long
				return abort(outcome{stalled: true, where: fmt.Sprintf("Serve is running but did not consume the peer's input (%.60s…)", b)})
			}
		case "replyto":
			if len(f) != 4 {
				return outcome{panicMsg: "harness: bad step " + st}
			}
			want, e1 := unhexS(f[1])
			payload, e2 := unhexS(f[3])
			if e1 != nil || e2 != nil {
				return outcome{panicMsg: "harness: bad step " + st}
			}
			id := ""
			// finding nothing to answer is not a failure, so do not wait the whole watchdog
			ok := sr.awaitOutFor(time.Second, func(out string) bool {
				var found bool
				id, found = sr.pending(out, want)
				return found
			})
			if !ok {
				if checkServe() && serveOut.panicMsg != "" {
					return abort(serveOut)
				}
				if os.Getenv("C09_DEBUG") != "" {
					fmt.Fprintf(os.Stderr, "  replyto %q: no such request; output so far: %s\n", want, sr.fx.rs.Out.Bytes())
				}
				continue // nothing to answer (the call may have failed locally): not a finding by itself
			}
			if !checkServe() {
				sr.feed([]byte(fmt.Sprintf(`<iq xmlns="jabber:client" type="%s" id="%s" from="example.net">%s</iq>`, f[2], esc(id), payload)))
			}
		case "auto":
			if len(f) != 4 {
				return outcome{panicMsg: "harness: bad step " + st}
			}
			want, e1 := unhexS(f[1])
			payload, e2 := unhexS(f[3])
			if e1 != nil || e2 != nil {
				return outcome{panicMsg: "harness: bad step " + st}
			}
			typ := f[2]
			go func() {
				for {
					select {
					case <-stopAuto:
						return
					default:
					}
					if id, ok := sr.pending(string(fx.rs.Out.Bytes()), want); ok {
						if fx.rs.Feed([]byte(fmt.Sprintf(`<iq xmlns="jabber:client" type="%s" id="%s" from="example.net">%s</iq>`, typ, esc(id), payload))) != nil {
							return
						}
						continue
					}
					time.Sleep(200 * time.Microsecond)
				}
			}()
		case "failwrites":
			fx.fw.failNow()
		case "holdwrites":
			// synchronous transport: the peer stops reading, the session's writes block
			fx.fw.holdWrites()
		case "releasewrites":
			fx.fw.releaseWrites()
		case "awaitblocked":
			// a local call (or a handler) is blocked in Write
			deadline := time.Now().Add(wd())
			for fx.fw.blockedWriters() == 0 && time.Now().Before(deadline) {
				time.Sleep(150 * time.Microsecond)
			}
			// not reaching a write is not a finding by itself (the call may have failed early)
		case "late":
			// late stanzas that reuse the id of every stanza the session has written so far
			// (completed requests): result / error IQs, error presences and messages, receipts
			seen := map[string]bool{}
			for _, m := range anyIDRe.FindAllStringSubmatch(string(fx.rs.Out.Bytes()), -1) {
				id := m[1]
				if seen[id] || strings.HasPrefix(id, "probe") {
					continue
				}
				seen[id] = true
				eid := esc(id)
				for _, st := range []string{
					iq("result", eid, ""),
					iq("error", eid, errPayload),
					`<presence xmlns="jabber:client" type="error" id="` + eid + `" from="room@conf.example/nick">` + errPayload + `</presence>`,
					`<presence xmlns="jabber:client" type="error" id="` + eid + `" from="example.net">` + errPayload + `</presence>`,
					`<presence xmlns="jabber:client" id="` + eid + `" from="room@conf.example/nick"/>`,
					`<message xmlns="jabber:client" type="error" id="` + eid + `" from="example.net">` + errPayload + `</message>`,
					receipt(id),
					iq("result", eid, versionPayload),
				} {
					if checkServe() {
						break
					}
					if !sr.feed([]byte(st)) && !checkServe() {
						return abort(outcome{stalled: true, where: fmt.Sprintf("Serve is running but did not consume a late stanza reusing id %q (%.80s…)", id, st)})
					}
				}
			}
		case "probe":
			if checkServe() {
				if serveOut.panicMsg != "" {
					return abort(serveOut)
				}
				continue // Serve returned an error and ended the session: allowed ("returns an error")
			}
			sr.probes++
			id := fmt.Sprintf("probe%d", sr.probes)
			if !sr.feed([]byte(`<iq xmlns="jabber:client" type="get" id="`+id+`" from="example.net"><ping xmlns="urn:xmpp:ping"/></iq>`)) && !checkServe() {
				return abort(outcome{stalled: true, where: "Serve is running but did not even read the liveness probe"})
			}
			if !sr.awaitOut(func(out string) bool { return strings.Contains(out, `id="`+id+`"`) }) {
				if checkServe() {
					if serveOut.panicMsg != "" {
						return abort(serveOut)
					}
					continue
				}
				return abort(outcome{stalled: true, where: "Serve is running but did not answer the liveness probe"})
			}
		case "end":
			_ = fx.rs.In.Close()
			if !serveEnded {
				select {
				case serveOut = <-fx.done:
					serveEnded = true
				case <-time.After(wd()):
					for _, c := range sr.calls {
						c.cancel()
					}
					return outcome{stalled: true, where: "Serve did not return after the input ended"}
				}
			}
			if serveOut.panicMsg != "" {
				return serveOut
			}
			if os.Getenv("C09_DEBUG") == "2" {
				fmt.Fprintf(os.Stderr, "  session wrote: %s\n", fx.rs.Out.Bytes())
			}
			return finishCalls()
		default:
			return outcome{panicMsg: "harness: unknown step " + st}
		}
	}
	return abort(outcome{panicMsg: "harness: scenario without end"})
}

// ------------------------------------------------------------------------------ the scenarios

func hx(s string) string { return hex.EncodeToString([]byte(s)) }

func feed(s string) string  { return "feed:" + hx(s) }
func await(s string) string { return "await:" + hx(s) }

func awaitN(s string, n int) string { return "await:" + hx(s) + ":" + strconv.Itoa(n) }
func auto(text, typ, payload string) string {
	return "auto:" + replyto(text, typ, payload)[len("replyto:"):]
}

func replyto(text, typ, payload string) string {
	p := "-"
	if payload != "" {
		p = hx(payload)
	}
	return "replyto:" + hx(text) + ":" + typ + ":" + p
}

func iq(typ, id, payload string) string {
	return `<iq xmlns="jabber:client" type="` + typ + `" id="` + id + `" from="example.net">` + payload + `</iq>`
}

const (
	versionPayload = `<query xmlns="jabber:iq:version"><name>n</name><version>1</version></query>`
	rosterPayload  = `<query xmlns="jabber:iq:roster" ver="v1"><item jid="a@b"/><item jid="c@d"/><item jid="e@f"/></query>`
	pubsubPayload  = `<pubsub xmlns="http://jabber.org/protocol/pubsub"><items node="n"><item id="i1"><e xmlns="urn:example"/></item><item id="i2"/><item id="i3"/></items></pubsub>`
	itemsPayload   = `<query xmlns="http://jabber.org/protocol/disco#items"><item jid="a.example.net" node="x"/><item jid="b.example.net"/><item jid="c.example.net"/></query>`
	commandPayload = `<command xmlns="http://jabber.org/protocol/commands" sessionid="s1" node="list" status="executing"><x xmlns="jabber:x:data" type="form"/></command>`
	finPayload     = `<fin xmlns="urn:xmpp:mam:2" complete="true"><set xmlns="http://jabber.org/protocol/rsm"><count>1</count></set></fin>`
)

func receipt(id string) string {
	return `<message xmlns="jabber:client" from="example.net" id="x` + id + `"><received xmlns="urn:xmpp:receipts" id="` + id + `"/></message>`
}

// ibbPeer: the entity every ibb stream of the scripts is opened with / by.
var ibbPeer = jid.MustParse("a@b/c")

// stranger: the same stream stanza sent by an entity the stream was not opened with.
func stranger(stanza string) string {
	return strings.Replace(stanza, `from="a@b/c"`, `from="x@y/z"`, 1)
}

func ibbOpen(id, sid string) string {
	return `<iq xmlns="jabber:client" type="set" id="` + id + `" from="a@b/c" to="me@example.net/home"><open xmlns="http://jabber.org/protocol/ibb" block-size="4096" sid="` + sid + `" stanza="iq"/></iq>`
}

func ibbData(id, sid string, seq int) string {
	return fmt.Sprintf(`<iq xmlns="jabber:client" type="set" id="%s" from="a@b/c" to="me@example.net/home"><data xmlns="http://jabber.org/protocol/ibb" seq="%d" sid="%s">aGVsbG8=</data></iq>`, id, seq, sid)
}

func ibbDataMsg(sid string, seq int) string {
	return fmt.Sprintf(`<message xmlns="jabber:client" from="a@b/c" to="me@example.net/home"><data xmlns="http://jabber.org/protocol/ibb" seq="%d" sid="%s">aGVsbG8=</data></message>`, seq, sid)
}

func ibbClose(id, sid string) string {
	return `<iq xmlns="jabber:client" type="set" id="` + id + `" from="a@b/c" to="me@example.net/home"><close xmlns="http://jabber.org/protocol/ibb" sid="` + sid + `"/></iq>`
}

func mucPresence(from, typ string, self bool) string {
	t := ""
	if typ != "" {
		t = ` type="` + typ + `"`
	}
	st := ""
	if self {
		st = `<status code="110"/>`
	}
	return `<presence xmlns="jabber:client" from="` + from + `"` + t + `><x xmlns="http://jabber.org/protocol/muc#user"><item affiliation="member" role="participant"/>` + st + `</x></presence>`
}

func mamResult(qid string) string {
	return `<message xmlns="jabber:client" from="example.net" id="m` + qid + `"><result xmlns="urn:xmpp:mam:2" queryid="` + qid + `" id="1"><forwarded xmlns="urn:xmpp:forward:0"><delay xmlns="urn:xmpp:delay" stamp="2010-07-10T23:08:25Z"/><message xmlns="jabber:client" from="a@b/c" type="chat"><body>x</body></message></forwarded></result></message>`
}

type scenario struct {
	name  string
	steps []string
	// noProbe: the scenario breaks the output (local close / write failure), so a liveness
	// probe cannot be answered; only Serve's return at the end of the input is checked
	noProbe bool
}

func scNoProbe(name string, steps ...string) scenario {
	return scenario{name: name, steps: append(steps, "end"), noProbe: true}
}

func sc(name string, steps ...string) scenario {
	return scenario{name: name, steps: append(steps, "probe", "end")}
}

// scenarioList: the hand-written interleavings (task list in DESIGN-notes/C09.md).
func scenarioList() []scenario {
	var l []scenario
	// --- helper-initiated requests ---------------------------------------------------------
	l = append(l,
		sc("iq-answered-twice", "call:uiq", await(`id="q1"`), feed(iq("result", "q1", versionPayload)), "wait:uiq", feed(iq("result", "q1", versionPayload)), "probe", feed(iq("error", "q1", errPayload))),
		sc("iq-answered-after-cancel", "call:uiq", await(`id="q1"`), "cancel:uiq", "wait:uiq", feed(iq("result", "q1", versionPayload)), feed(iq("error", "q1", errPayload))),
		sc("iq-answered-wrong-kind", "call:uiq", await(`id="q1"`),
			feed(`<message xmlns="jabber:client" id="q1" type="chat" from="example.net"><body>x</body></message>`),
			feed(`<presence xmlns="jabber:client" id="q1" from="example.net"/>`),
			feed(iq("get", "q1", `<ping xmlns="urn:xmpp:ping"/>`)),
			feed(iq("set", "q1", versionPayload)),
			"probe", feed(iq("result", "q1", versionPayload)), "wait:uiq"),
		sc("iq-error-then-result", "call:uiq", await(`id="q1"`), feed(iq("error", "q1", errPayload)), "wait:uiq", feed(iq("result", "q1", versionPayload))),
		sc("iq-answer-before-request", feed(iq("result", "q1", versionPayload)), "call:uiq", await(`id="q1"`), feed(iq("result", "q1", versionPayload)), "wait:uiq"),
		sc("iq-empty-result", "call:uiq", await(`id="q1"`), feed(iq("result", "q1", "")), "wait:uiq"),
	)
	// --- iterators abandoned half way, answered twice --------------------------------------
	for _, it := range [][3]string{{"roster", "q2", rosterPayload}, {"pubsub", "q3", pubsubPayload}, {"cmd", "q4", itemsPayload}, {"disco", "q5", itemsPayload}} {
		l = append(l,
			sc(it[0]+"-abandoned", "call:"+it[0]+".1", await(`id="`+it[1]+`"`), feed(iq("result", it[1], it[2])), "wait:"+it[0]+".1", "probe", feed(iq("result", it[1], it[2]))),
			sc(it[0]+"-answered-twice", "call:"+it[0], await(`id="`+it[1]+`"`), feed(iq("result", it[1], it[2])), feed(iq("result", it[1], it[2])), "wait:"+it[0]),
			sc(it[0]+"-cancelled-then-answered", "call:"+it[0], await(`id="`+it[1]+`"`), "cancel:"+it[0], "wait:"+it[0], feed(iq("result", it[1], it[2]))),
			sc(it[0]+"-wrong-payload", "call:"+it[0], await(`id="`+it[1]+`"`), feed(iq("result", it[1], versionPayload+" x")), "wait:"+it[0]),
		)
	}
	l = append(l,
		sc("cmdexec-abandoned", "call:cmdexec.1", await(`id="q6"`), feed(iq("result", "q6", commandPayload)), "wait:cmdexec.1"),
		sc("cmdexec-answered-twice", "call:cmdexec", await(`id="q6"`), feed(iq("result", "q6", commandPayload)), feed(iq("result", "q6", commandPayload)), "wait:cmdexec"),
		sc("cmdexec-error", "call:cmdexec", await(`id="q6"`), feed(iq("error", "q6", errPayload)), "wait:cmdexec"),
	)
	// --- receipts ---------------------------------------------------------------------------
	l = append(l,
		sc("receipt-acked-twice", "call:rcpt", await(`id="r1"`), feed(receipt("r1")), "wait:rcpt", feed(receipt("r1")), "probe", feed(receipt("r1"))),
		sc("receipt-acked-twice-back-to-back", "call:rcpt", await(`id="r1"`), feed(receipt("r1")+receipt("r1")), "wait:rcpt"),
		sc("receipt-ack-after-cancel", "call:rcpt", await(`id="r1"`), "cancel:rcpt", "wait:rcpt", feed(receipt("r1")), feed(receipt("r1"))),
		sc("receipt-ack-unknown", feed(receipt("nope")), feed(receipt("")), feed(receipt("nope"))),
		sc("receipt-error-for-pending", "call:rcpt", await(`id="r1"`), feed(`<message xmlns="jabber:client" type="error" id="r1" from="example.net">`+errPayload+`</message>`), "probe", feed(receipt("r1")), "wait:rcpt"),
	)
	// --- ibb ---------------------------------------------------------------------------------
	l = append(l,
		sc("ibb-in-open-data-close-data", "call:ibbaccept", feed(ibbOpen("i1", "s1")), "wait:ibbaccept", feed(ibbData("i2", "s1", 0)), "call:ibbread.in", "wait:ibbread.in",
			feed(ibbClose("i3", "s1")), feed(ibbData("i4", "s1", 1)), feed(ibbDataMsg("s1", 1)), feed(ibbClose("i5", "s1"))),
		sc("ibb-in-local-close-then-data", "call:ibbaccept", feed(ibbOpen("i1", "s1")), "wait:ibbaccept", feed(ibbData("i2", "s1", 0)),
			"call:ibbclose.in", replyto("<close", "result", ""), "wait:ibbclose.in", feed(ibbData("i3", "s1", 1)), feed(ibbDataMsg("s1", 1)), feed(ibbClose("i4", "s1")), "probe", "call:ibbread.in", "wait:ibbread.in"),
		sc("ibb-in-local-close-unanswered-then-data", "call:ibbaccept", feed(ibbOpen("i1", "s1")), "wait:ibbaccept",
			"call:ibbclose.in", await("<close"), feed(ibbData("i3", "s1", 0)), feed(ibbClose("i4", "s1")), "probe", replyto("<close", "error", errPayload), "wait:ibbclose.in"),
		sc("ibb-in-reopen-same-sid-while-open", "call:ibbaccept", feed(ibbOpen("i1", "s1")), "wait:ibbaccept", "call:ibbaccept.2", feed(ibbOpen("i2", "s1")), feed(ibbData("i3", "s1", 0)),
			feed(ibbClose("i4", "s1")), feed(ibbData("i5", "s1", 1))),
		sc("ibb-in-reopen-same-sid-after-close", "call:ibbaccept", feed(ibbOpen("i1", "s1")), "wait:ibbaccept", feed(ibbClose("i2", "s1")), "call:ibbaccept.2", feed(ibbOpen("i3", "s1")), "wait:ibbaccept.2",
			feed(ibbData("i4", "s1", 0)), "call:ibbread.in2", "wait:ibbread.in2", feed(ibbData("i5", "s1", 0)), feed(ibbData("i6", "s1", 65535))),
		sc("ibb-in-data-without-open", feed(ibbData("i1", "zz", 0)), feed(ibbDataMsg("zz", 0)), feed(ibbClose("i2", "zz"))),
		sc("ibb-in-open-accepted-late", feed(ibbOpen("i1", "s9")), "call:ibbaccept", "wait:ibbaccept", feed(ibbData("i2", "s9", 0))),
		sc("ibb-in-bad-data", "call:ibbaccept", feed(ibbOpen("i1", "s1")), "wait:ibbaccept", feed(strings.Replace(ibbData("i2", "s1", 0), "aGVsbG8=", "!!!!", 1)), feed(ibbData("i3", "s1", 0)), feed(ibbData("i4", "s1", 7))),
		sc("ibb-out-open-data-close", "call:ibbopen", await(`id="o1"`), feed(iq("result", "o1", "")), "wait:ibbopen", feed(ibbData("i1", "s1", 0)), "call:ibbread.out", "wait:ibbread.out",
			auto("<data", "result", ""), "call:ibbwrite.out", "wait:ibbwrite.out", "call:ibbclose.out", replyto("<close", "result", ""), "wait:ibbclose.out", feed(ibbData("i2", "s1", 1)), feed(ibbClose("i3", "s1"))),
		sc("ibb-out-stranger-data-and-close", "call:ibbopen", await(`id="o1"`), feed(iq("result", "o1", "")), "wait:ibbopen", feed(stranger(ibbData("x1", "s1", 0))), feed(stranger(ibbDataMsg("s1", 0))), feed(stranger(ibbClose("x2", "s1"))), "probe",
			feed(ibbData("i1", "s1", 0)), "call:ibbread.out", "wait:ibbread.out", feed(ibbClose("i2", "s1"))),
		sc("ibb-in-stranger-data-and-close", "call:ibbaccept", feed(ibbOpen("i1", "s1")), "wait:ibbaccept", feed(stranger(ibbData("x1", "s1", 0))), feed(stranger(ibbClose("x2", "s1"))), feed(stranger(ibbOpen("x3", "s1"))), "probe",
			feed(ibbData("i2", "s1", 0)), "call:ibbread.in", "wait:ibbread.in", feed(ibbClose("i3", "s1"))),
		sc("ibb-out-open-refused-then-data", "call:ibbopen", await(`id="o1"`), feed(iq("error", "o1", errPayload)), "wait:ibbopen", feed(ibbData("i1", "s1", 0)), feed(ibbClose("i2", "s1"))),
		sc("ibb-out-open-answered-twice", "call:ibbopen", await(`id="o1"`), feed(iq("result", "o1", "")), feed(iq("result", "o1", "")), "wait:ibbopen", feed(ibbClose("i1", "s1")), feed(ibbClose("i2", "s1"))),
		sc("ibb-out-open-cancelled-then-accepted", "call:ibbopen", await(`id="o1"`), "cancel:ibbopen", "wait:ibbopen", feed(iq("result", "o1", "")), feed(ibbData("i1", "s1", 0)), feed(ibbClose("i2", "s1"))),
		sc("ibb-out-write-refused", "call:ibbopen", await(`id="o1"`), feed(iq("result", "o1", "")), "wait:ibbopen", auto("<data", "error", errPayload), "call:ibbwrite.out", "wait:ibbwrite.out",
			"call:ibbclose.out", replyto("<close", "error", errPayload), "wait:ibbclose.out"),
	)
	// --- ibb listener life cycle (the session's local address is a full JID) -----------------
	l = append(l,
		sc("ibb-listener-closed-then-open", "call:ibblistenclose", "wait:ibblistenclose", feed(ibbOpen("i1", "s1")), "probe", feed(ibbData("i2", "s1", 0)), feed(ibbOpen("i3", "s2"))),
		sc("ibb-listener-closed-and-reopened", "call:ibblistenclose", "wait:ibblistenclose", feed(ibbOpen("i1", "s1")), "call:ibblisten", "wait:ibblisten", feed(ibbOpen("i2", "s2")), "call:ibbaccept", "wait:ibbaccept", feed(ibbData("i3", "s2", 0))),
		sc("ibb-listener-closed-with-open-stream", "call:ibbaccept", feed(ibbOpen("i1", "s1")), "wait:ibbaccept", "call:ibblistenclose", "wait:ibblistenclose", feed(ibbData("i2", "s1", 0)), feed(ibbOpen("i3", "s2")), feed(ibbClose("i4", "s1")), feed(ibbOpen("i5", "s1"))),
		sc("ibb-listener-closed-twice-reopened-twice", "call:ibblistenclose", "wait:ibblistenclose", "call:ibblisten", "wait:ibblisten", "call:ibblistenclose.2", "wait:ibblistenclose.2", feed(ibbOpen("i1", "s1")), "call:ibblisten.2", "wait:ibblisten.2", feed(ibbOpen("i2", "s1"))),
	)
	// --- local faults in the middle of a conversation ------------------------------------------
	l = append(l,
		scNoProbe("local-close-then-requests", feed(iq("get", "p1", `<ping xmlns="urn:xmpp:ping"/>`)), "call:sessclose", "wait:sessclose", feed(iq("get", "p2", `<ping xmlns="urn:xmpp:ping"/>`)), feed(iq("get", "p3", `<query xmlns="jabber:iq:version"/>`)), feed(receipt("x"))),
		scNoProbe("write-failure-then-requests", feed(iq("get", "p1", `<ping xmlns="urn:xmpp:ping"/>`)), "failwrites", feed(iq("get", "p2", `<ping xmlns="urn:xmpp:ping"/>`)), feed(iq("get", "p3", `<query xmlns="jabber:iq:version"/>`))),
		scNoProbe("local-close-with-pending-request", "call:uiq", await(`id="q1"`), "call:sessclose", "wait:sessclose", feed(iq("result", "q1", versionPayload)), "wait:uiq", feed(iq("get", "p2", `<ping xmlns="urn:xmpp:ping"/>`))),
		scNoProbe("write-failure-with-pending-request", "call:uiq", await(`id="q1"`), "failwrites", feed(iq("get", "p2", `<ping xmlns="urn:xmpp:ping"/>`)), feed(iq("result", "q1", versionPayload)), "cancel:uiq", "wait:uiq"),
		scNoProbe("write-failure-during-ibb", "call:ibbaccept", feed(ibbOpen("i1", "s1")), "wait:ibbaccept", "failwrites", feed(ibbData("i2", "s1", 0)), feed(ibbClose("i3", "s1"))),
		scNoProbe("local-close-twice", "call:sessclose", "wait:sessclose", "call:sessclose.2", "wait:sessclose.2", feed(iq("get", "p1", `<ping xmlns="urn:xmpp:ping"/>`))),
	)
	// --- unflushed data in an acked stream when the peer closes it (1..5 bytes: partial base64
	// groups) -----------------------------------------------------------------------------------
	for n := 1; n <= 5; n++ {
		w := fmt.Sprintf("ibbwriteraw.in-%d", n)
		l = append(l,
			sc(fmt.Sprintf("ibb-in-unflushed-%d-then-peer-close", n), "call:ibbaccept", feed(ibbOpen("i1", "s1")), "wait:ibbaccept", "call:"+w, "wait:"+w, auto("<data", "result", ""), feed(ibbClose("i2", "s1")), "probe", feed(ibbData("i3", "s1", 0))),
		)
	}
	l = append(l,
		sc("ibb-out-unflushed-then-peer-close", "call:ibbopen", await(`id="o1"`), feed(iq("result", "o1", "")), "wait:ibbopen", "call:ibbwriteraw.out-1", "wait:ibbwriteraw.out-1", auto("<data", "result", ""), feed(ibbClose("i1", "s1")), "probe"),
		sc("ibb-in-unflushed-then-local-close", "call:ibbaccept", feed(ibbOpen("i1", "s1")), "wait:ibbaccept", "call:ibbwriteraw.in-2", "wait:ibbwriteraw.in-2", auto("<data", "result", ""), "call:ibbclose.in", replyto("<close", "result", ""), "wait:ibbclose.in"),
		sc("history-closed-then-fin", "call:hist.1", await("hq1"), feed(mamResult("hq1")), "wait:hist.1", replyto("hq1", "result", finPayload), "probe", feed(mamResult("hq1"))),
		sc("history-closed-then-fin-error", "call:hist.1", await("hq1"), feed(mamResult("hq1")), "wait:hist.1", replyto("hq1", "error", errPayload), "probe"),
	)
	// --- data packets of every size on an open stream (block size 65535) ------------------------
	for _, n := range []int{0, 1, 4097, 49149, 49152, 65535, 65536, 65537, 98304, 196608, 262143, 262144, 262145, 1 << 20} {
		// n = decoded size; the packet carries base64 of n zero bytes
		enc := base64.StdEncoding.EncodeToString(make([]byte, n))
		open := strings.Replace(ibbOpen("i1", "s1"), `block-size="4096"`, `block-size="65535"`, 1)
		data := strings.Replace(ibbData("i2", "s1", 0), "aGVsbG8=", enc, 1)
		l = append(l, sc(fmt.Sprintf("ibb-in-data-size-%d", n), "call:ibbaccept", feed(open), "wait:ibbaccept", feed(data), "probe", "call:ibbread.in", feed(ibbData("i3", "s1", 1)), feed(ibbClose("i4", "s1"))))
	}
	// --- muc ---------------------------------------------------------------------------------
	l = append(l,
		sc("muc-unmanaged-presences", feed(mucPresence("other@conf.example/x", "", true)), feed(mucPresence("other@conf.example/x", "unavailable", true)), feed(mucPresence("room@conf.example/nick", "", true))),
		sc("muc-join-then-unmanaged", "call:mucjoin", await(`to="room@conf.example/nick"`), feed(mucPresence("other@conf.example/x", "", true)), feed(mucPresence("room@conf.example/other", "", false)),
			feed(mucPresence("room@conf.example/nick", "", true)), "wait:mucjoin", feed(mucPresence("room@conf.example/nick", "", true)),
			feed(mucPresence("room@conf.example/nick", "unavailable", true)), feed(mucPresence("room@conf.example/nick", "unavailable", true)), feed(mucPresence("room@conf.example/nick", "", true))),
		sc("muc-join-cancelled-then-presence", "call:mucjoin", await(`to="room@conf.example/nick"`), "cancel:mucjoin", "wait:mucjoin", feed(mucPresence("room@conf.example/nick", "", true)), feed(mucPresence("room@conf.example/nick", "unavailable", true))),
		sc("muc-join-error-presence", "call:mucjoin", await(`to="room@conf.example/nick"`), feed(`<presence xmlns="jabber:client" from="room@conf.example/nick" type="error">`+errPayload+`</presence>`), "probe", "cancel:mucjoin", "wait:mucjoin"),
	)
	// --- muc: calls on a joined room (change of nickname, re-join, leave) x presences of the
	// nickname held, the nickname asked for, and other occupants ------------------------------
	joined := []string{"call:mucjoin", await(`to="room@conf.example/nick"`), feed(mucPresence("room@conf.example/nick", "", true)), "wait:mucjoin"}
	withJoined := func(name string, steps ...string) scenario {
		return sc(name, append(append([]string(nil), joined...), steps...)...)
	}
	l = append(l,
		withJoined("muc-renick-confirmed", "call:mucrenick.nick2", await(`to="room@conf.example/nick2"`), feed(mucPresence("room@conf.example/nick", "unavailable", true)), feed(mucPresence("room@conf.example/nick2", "", true)), "wait:mucrenick.nick2", "call:mucstate", "wait:mucstate"),
		withJoined("muc-renick-old-nick-presence-first", "call:mucrenick.nick2", await(`to="room@conf.example/nick2"`), feed(mucPresence("room@conf.example/nick", "", true)), "probe", "call:mucstate", "wait:mucstate", feed(mucPresence("room@conf.example/nick2", "", true)), "wait:mucrenick.nick2"),
		withJoined("muc-renick-refused", "call:mucrenick.nick2", await(`to="room@conf.example/nick2"`), feed(`<presence xmlns="jabber:client" from="room@conf.example/nick2" type="error">`+errPayload+`</presence>`), feed(mucPresence("room@conf.example/nick", "", true)), "probe", "cancel:mucrenick.nick2", "wait:mucrenick.nick2", feed(mucPresence("room@conf.example/nick2", "", true))),
		withJoined("muc-renick-cancelled-then-presences", "call:mucrenick.nick2", await(`to="room@conf.example/nick2"`), "cancel:mucrenick.nick2", "wait:mucrenick.nick2", feed(mucPresence("room@conf.example/nick", "", true)), feed(mucPresence("room@conf.example/nick2", "", true)), feed(mucPresence("room@conf.example/nick", "", true))),
		withJoined("muc-renick-twice", "call:mucrenick.nick2", await(`to="room@conf.example/nick2"`), feed(mucPresence("room@conf.example/nick2", "", true)), "wait:mucrenick.nick2", "call:mucrenick.nick3", await(`to="room@conf.example/nick3"`), feed(mucPresence("room@conf.example/nick", "", true)), feed(mucPresence("room@conf.example/nick2", "", true)), "probe", feed(mucPresence("room@conf.example/nick3", "", true)), "wait:mucrenick.nick3"),
		withJoined("muc-rejoin-same-nick", "call:mucrenick", awaitN(`to="room@conf.example/nick"`, 2), feed(mucPresence("room@conf.example/other", "", false)), feed(mucPresence("room@conf.example/nick", "", true)), "wait:mucrenick", feed(mucPresence("room@conf.example/nick", "", true))),
		withJoined("muc-leave-confirmed", "call:mucleave", await(`type="unavailable"`), feed(mucPresence("room@conf.example/nick", "", true)), feed(mucPresence("room@conf.example/nick", "unavailable", true)), "wait:mucleave", "call:mucstate", "wait:mucstate", feed(mucPresence("room@conf.example/nick", "", true))),
		withJoined("muc-leave-then-rejoin", "call:mucleave", await(`type="unavailable"`), feed(mucPresence("room@conf.example/nick", "unavailable", true)), "wait:mucleave", "call:mucrenick", awaitN(`to="room@conf.example/nick"`, 3), feed(mucPresence("room@conf.example/nick", "", true)), "wait:mucrenick"),
		withJoined("muc-leave-cancelled", "call:mucleave", await(`type="unavailable"`), "cancel:mucleave", "wait:mucleave", feed(mucPresence("room@conf.example/nick", "unavailable", true)), feed(mucPresence("room@conf.example/nick", "unavailable", true))),
	)
	// --- history -----------------------------------------------------------------------------
	l = append(l,
		sc("history-unknown-query-id", feed(mamResult("nope")), feed(mamResult("")), feed(mamResult("nope"))),
		sc("history-results-known-and-unknown", "call:hist", await("hq1"), feed(mamResult("hq1")), feed(mamResult("nope")), feed(mamResult("hq1")), replyto("hq1", "result", finPayload), "wait:hist", feed(mamResult("hq1"))),
		sc("history-abandoned", "call:hist.1", await("hq1"), feed(mamResult("hq1")), "wait:hist.1", feed(mamResult("hq1")), "probe", replyto("hq1", "result", finPayload), feed(mamResult("hq1"))),
		sc("history-close-while-result-in-flight", "call:hist.slow", await("hq1"), feed(mamResult("hq1")), feed(mamResult("hq1")), "probe", "wait:hist.slow", feed(mamResult("hq1"))),
		sc("history-cancelled", "call:hist", await("hq1"), "cancel:hist", feed(mamResult("hq1")), "probe", "wait:hist", feed(mamResult("hq1")), replyto("hq1", "result", finPayload)),
		sc("history-fin-answered-twice", "call:hist", await("hq1"), replyto("hq1", "result", finPayload), "wait:hist", feed(mamResult("hq1"))),
		sc("history-error", "call:hist", await("hq1"), feed(mamResult("hq1")), replyto("hq1", "error", errPayload), "wait:hist"),
	)
	// --- synchronous transport: the peer stops reading while a local call is in the middle of a
	// write, and keeps sending; Serve must go on reading (handlers that do not write must not wait
	// for anything the blocked writer holds) ---------------------------------------------------
	plain := `<message xmlns="jabber:client" from="a@b/c" type="chat"><body>x</body></message>`
	quiet := []string{feed(receipt("nope")), feed(receipt("r1")), feed(mamResult("nope")), feed(mamResult("hq1")),
		feed(mucPresence("other@conf.example/x", "", true)), feed(mucPresence("room@conf.example/nick", "unavailable", true)), feed(plain), feed(plain)}
	for _, x := range []string{"uiq", "roster", "pubsub", "cmd", "cmdexec", "disco", "rcpt", "ibbopen", "mucjoin", "hist"} {
		steps := append([]string{"holdwrites", "call:" + x, "awaitblocked"}, quiet...)
		steps = append(steps, "releasewrites", "cancel:"+x, "wait:"+x)
		l = append(l, sc("hold-writes-during-"+x, steps...))
	}
	{
		steps := append([]string{"call:ibbaccept", feed(ibbOpen("i1", "s1")), "wait:ibbaccept", "holdwrites", "call:ibbwrite.in", "awaitblocked"}, quiet...)
		steps = append(steps, feed(ibbDataMsg("s1", 0)), feed(plain), "releasewrites", auto("<data", "result", ""), "wait:ibbwrite.in")
		l = append(l, sc("hold-writes-during-ibbwrite", steps...))
	}
	// --- the peer answers (or guesses the id of) a request that is still being transmitted, then
	// the requester gives up without ever receiving: its write fails, or its context ends.  The
	// serve loop has looked the request up and offers the response to a party that never takes
	// it; it must be released by the requester's departure ----------------------------------
	for _, x := range [][3]string{{"uiq", "q1", versionPayload}, {"roster", "q2", rosterPayload}, {"pubsub", "q3", pubsubPayload}, {"cmd", "q4", itemsPayload}, {"disco", "q5", itemsPayload}, {"cmdexec", "q6", commandPayload}} {
		for _, typ := range []string{"result", "error"} {
			payload := x[2]
			if typ == "error" {
				payload = errPayload
			}
			l = append(l,
				scNoProbe("early-"+typ+"-then-write-fails-"+x[0], "holdwrites", "call:"+x[0], "awaitblocked", feed(iq(typ, x[1], payload)), "failwrites", "releasewrites", "wait:"+x[0],
					feed(iq("get", "p2", `<ping xmlns="urn:xmpp:ping"/>`)), feed(plain)),
				sc("early-"+typ+"-then-cancelled-"+x[0], "holdwrites", "call:"+x[0], "awaitblocked", feed(iq(typ, x[1], payload)), "cancel:"+x[0], "releasewrites", "wait:"+x[0],
					feed(iq(typ, x[1], payload))),
			)
		}
	}
	// --- late stanzas: after every scenario above, result / error stanzas of every kind that reuse
	// the ids of the requests the session has sent --------------------------------------------
	n := len(l)
	for i := 0; i < n; i++ {
		if l[i].noProbe {
			continue
		}
		st := append([]string(nil), l[i].steps[:len(l[i].steps)-2]...)
		l = append(l, scenario{name: l[i].name + "+late", steps: append(st, "late", "probe", "end")})
	}
	return l
}

// pendingMatrix: the dimension "a request of the library is un-answered while the peer sends
// something else".  For every local call that sends a request and waits for the peer's answer
// (request helpers, iterators, receipts, muc join, history, ibb open / write / flush / close on
// incoming and outgoing streams) and every peer stanza that touches state such a call may own
// (ibb close / data / re-open of the same and of other sids, receipts, archive results, muc
// presences, error stanzas, pushes, plain stanzas): the call is started, the harness waits
// until its request is on the wire, the peer sends the stanza INSTEAD of the answer, and the
// serve loop must stay alive (probe) - it is the only thing that can ever deliver the answer.
// Then the peer does answer (an error, or results from then on), the call must return, the
// input ends and Serve returns.  A handler that waits for anything the pending call holds (a
// lock, a channel hand-over, the response slot) wedges here.
func pendingMatrix() []scenario {
	type pcall struct {
		name    string
		prelude []string
		call    string   // the local call
		request string   // text of its request on the wire
		answer  []string // peer steps that let the call finish
	}
	inStream := []string{"call:ibbaccept", feed(ibbOpen("i1", "s1")), "wait:ibbaccept"}
	outStream := []string{"call:ibbopen", await(`id="o1"`), feed(iq("result", "o1", "")), "wait:ibbopen"}
	errAnswer := func(text string) []string { return []string{replyto(text, "error", errPayload)} }
	okAnswer := func(text string) []string { return []string{auto(text, "result", "")} }
	mucJoined := []string{"call:mucjoin", await(`to="room@conf.example/nick"`), feed(mucPresence("room@conf.example/nick", "", true)), "wait:mucjoin"}
	calls := []pcall{
		{"uiq", nil, "uiq", `id="q1"`, errAnswer(`id="q1"`)},
		{"roster", nil, "roster", `id="q2"`, []string{replyto(`id="q2"`, "result", rosterPayload)}},
		{"pubsub", nil, "pubsub", `id="q3"`, []string{replyto(`id="q3"`, "result", pubsubPayload)}},
		{"cmd", nil, "cmd", `id="q4"`, errAnswer(`id="q4"`)},
		{"cmdexec", nil, "cmdexec", `id="q6"`, []string{replyto(`id="q6"`, "result", commandPayload)}},
		{"disco", nil, "disco", `id="q5"`, []string{replyto(`id="q5"`, "result", itemsPayload)}},
		{"rcpt", nil, "rcpt", `id="r1"`, []string{feed(receipt("r1"))}},
		{"ibbopen", nil, "ibbopen", `id="o1"`, errAnswer(`id="o1"`)},
		{"mucjoin", nil, "mucjoin", `to="room@conf.example/nick"`, []string{feed(mucPresence("room@conf.example/nick", "", true))}},
		{"hist", nil, "hist", "hq1", errAnswer("hq1")},
		// calls on a room that is already joined: the handler's table holds state from the
		// earlier stanzas (the nickname held) next to the request that is pending
		{"mucrenick", mucJoined, "mucrenick.nick2", `to="room@conf.example/nick2"`, []string{feed(mucPresence("room@conf.example/nick2", "", true))}},
		{"mucrejoin", mucJoined, "mucrenick", `to="room@conf.example/nick"`, []string{feed(mucPresence("room@conf.example/nick", "", true))}},
		{"mucleave", mucJoined, "mucleave", `type="unavailable"`, []string{feed(mucPresence("room@conf.example/nick", "unavailable", true))}},
		{"ibbflush-in", inStream, "ibbwrite.in", "<data", errAnswer("<data")},
		{"ibbflush-in-acked", inStream, "ibbwrite.in", "<data", okAnswer("<data")},
		{"ibbflush-out", outStream, "ibbwrite.out", "<data", errAnswer("<data")},
		{"ibbwrite-in", inStream, "ibbwriteraw.in-9000", "<data", errAnswer("<data")},
		{"ibbwrite-out-acked", outStream, "ibbwriteraw.out-9000", "<data", okAnswer("<data")},
		{"ibbclose-in", inStream, "ibbclose.in", "<close", errAnswer("<close")},
		{"ibbclose-out", outStream, "ibbclose.out", "<close", []string{replyto("<close", "result", "")}},
	}
	// the request text of these calls is already on the wire once from their prelude
	requestTimes := map[string]int{"mucrejoin": 2}
	type pstanza struct{ name, xml string }
	errMsg := func(id string) string {
		return `<message xmlns="jabber:client" type="error" id="` + id + `" from="example.net">` + errPayload + `</message>`
	}
	stanzas := []pstanza{
		{"ibb-close", ibbClose("c1", "s1")},
		{"ibb-close-other", ibbClose("c1", "zz")},
		{"ibb-data", ibbData("d1", "s1", 0)},
		{"ibb-data-seq1", ibbData("d1", "s1", 1)},
		{"ibb-data-msg", ibbDataMsg("s1", 0)},
		{"ibb-reopen", ibbOpen("i9", "s1")},
		{"ibb-close-stranger", stranger(ibbClose("c1", "s1"))},
		{"ibb-data-stranger", stranger(ibbData("d1", "s1", 0))},
		{"ibb-reopen-stranger", stranger(ibbOpen("i9", "s1"))},
		{"ibb-open-other", ibbOpen("i9", "s2")},
		{"receipt", receipt("r1")},
		{"receipt-unknown", receipt("nope")},
		{"error-message", errMsg("r1")},
		{"mam-result", mamResult("hq1")},
		{"muc-self", mucPresence("room@conf.example/nick", "", true)},
		{"muc-unavailable", mucPresence("room@conf.example/nick", "unavailable", true)},
		{"muc-error", `<presence xmlns="jabber:client" from="room@conf.example/nick" type="error">` + errPayload + `</presence>`},
		{"muc-newnick", mucPresence("room@conf.example/nick2", "", true)},
		{"muc-newnick-unavailable", mucPresence("room@conf.example/nick2", "unavailable", true)},
		{"muc-occupant", mucPresence("room@conf.example/other", "", false)},
		{"roster-push", iq("set", "rp1", `<query xmlns="jabber:iq:roster"><item jid="a@b"/></query>`)},
		{"disco-info", iq("get", "di1", `<query xmlns="http://jabber.org/protocol/disco#info"/>`)},
		{"version", iq("get", "v1", `<query xmlns="jabber:iq:version"/>`)},
		{"plain", `<message xmlns="jabber:client" from="a@b/c" type="chat"><body>x</body></message>`},
	}
	var l []scenario
	for _, pc := range calls {
		for _, ps := range stanzas {
			steps := append([]string(nil), pc.prelude...)
			aw := await(pc.request)
			if n := requestTimes[pc.name]; n > 1 {
				aw = awaitN(pc.request, n)
			}
			steps = append(steps, "call:"+pc.call, aw, feed(ps.xml), "probe")
			steps = append(steps, pc.answer...)
			// twice: the peer may repeat itself once the answer is under way; the second probe
			// makes sure Serve has consumed the answer before the call's context is cancelled (a
			// call that the peer's stanza has made unanswerable - a muc join whose occupant the
			// room declared unavailable - returns only then; ibb's calls take no context and must
			// return through the answer)
			steps = append(steps, feed(ps.xml), "probe", "cancel:"+pc.call, "wait:"+pc.call)
			l = append(l, sc("pending-"+pc.name+"-then-"+ps.name, steps...))
		}
	}
	return l
}

// mucHandover: the join hand-over of muc's presence handler on its whole one-step domain (what
// is in Channel.join when an available presence of the occupant JID that is held arrives:
// nothing, a request for that JID, a request for another nickname), observed on the real code:
// did the presence complete the pending call (handed) or not (forward)?  The probe behind the
// presence makes sure the handler has returned.  Model/MucHandover.lean predicts the outcome.
//
//	muchand none|same|other  ->  handed | forward | STALL | PANIC
func (c *ctx) mucHandover() {
	joined := []string{"call:mucjoin", await(`to="room@conf.example/nick"`), feed(mucPresence("room@conf.example/nick", "", true)), "wait:mucjoin"}
	self := feed(mucPresence("room@conf.example/nick", "", true))
	for _, q := range []string{"none", "same", "other"} {
		steps := append([]string(nil), joined...)
		call := ""
		switch q {
		case "same":
			call = "mucrenick"
			steps = append(steps, "call:"+call, awaitN(`to="room@conf.example/nick"`, 2))
		case "other":
			call = "mucrenick.nick2"
			steps = append(steps, "call:"+call, await(`to="room@conf.example/nick2"`))
		}
		steps = append(steps, self, "probe")
		if call != "" {
			steps = append(steps, "observe:"+call, "cancel:"+call, "wait:"+call)
		}
		steps = append(steps, "probe", "end")
		line := "muchand " + q
		if !c.begin(line) {
			continue
		}
		var seen []string
		o := retryStalled(func() outcome {
			oo := runScenario(steps)
			seen = append([]string(nil), lastObserved...)
			return oo
		})
		obs := o.obs()
		if obs == "ok" {
			obs = "forward"
			if len(seen) > 0 && seen[0] == "done" {
				obs = "handed"
			}
		}
		r := rec{Lines: [][2]string{{line, obs}}, Canon: line, Class: "muc-handover"}
		switch {
		case o.panicMsg != "":
			fn, file, ln := panicLocation(o.stack, c.repo)
			r.Fail = &recFail{Clause: "no-panic", Key: "panic:" + fn, Lines: []string{c.r.Prop + " " + line},
				Detail: fmt.Sprintf("panic %q at %s:%d in %s", o.panicMsg, file, ln, fn)}
		case o.stalled:
			r.Fail = &recFail{Clause: "no-wedge", Key: "stall:muchand:" + q, Lines: []string{c.r.Prop + " " + line},
				Detail: "still running after " + wd().String() + ": " + o.where}
		}
		c.emit(r)
	}
}

func (c *ctx) scen(s scenario, class string) {
	line := "scen " + s.name + " " + strings.Join(s.steps, ",")
	if c.stalls["scen"] >= 6 || !c.begin(line) {
		return
	}
	t0 := time.Now()
	o := retryStalled(func() outcome { return runScenario(s.steps) })
	if d := time.Since(t0); os.Getenv("C09_DEBUG") != "" && (d > 300*time.Millisecond || o.obs() != "ok") {
		fmt.Fprintf(os.Stderr, "scen %s %v %s %s\n", s.name, d, o.obs(), o.where)
		if d > 10*time.Second {
			fmt.Fprintf(os.Stderr, "  steps: %.600s\n", strings.Join(s.steps, ","))
		}
	}
	if o.stalled {
		c.stalls["scen"]++
	}
	c.record(line, o, class)
}

// scenarios: the hand-written list, then random variations (a peer step duplicated, dropped,
// swapped with its neighbour, or its stanza mutated).
// scenarios runs the hand-written list and its random variations (child group scen) or the
// pending-request matrix (child group pending; a group of its own so that the two run side by
// side).
func (c *ctx) scenarios(pendingOnly bool) {
	list := scenarioList()
	matrix := pendingMatrix()
	if !pendingOnly {
		if os.Getenv("C09_SCEN") == "" {
			c.mucHandover()
		}
		for _, s := range list {
			if only := os.Getenv("C09_SCEN"); only != "" && only != s.name {
				continue
			}
			c.scen(s, "scenario")
		}
	}
	if pendingOnly || os.Getenv("C09_SCEN") != "" {
		for _, s := range matrix {
			if only := os.Getenv("C09_SCEN"); only != "" && only != s.name {
				continue
			}
			c.scen(s, "scenario-pending")
		}
	}
	if pendingOnly || os.Getenv("C09_SCEN") != "" {
		return
	}
	rnd := c.r.Rnd
	n := c.r.Pick(150, 1500)
	for i := 0; i < n; i++ {
		base := pick(rnd, list)
		if rnd.Intn(4) == 0 {
			base = pick(rnd, matrix)
		}
		held := false
		for _, st := range base.steps {
			if st == "holdwrites" {
				held = true
			}
		}
		if held {
			// with the peer not reading, any inserted stanza whose handler answers would block by
			// design: these scripts are not varied
			continue
		}
		tail := 2
		if base.noProbe {
			tail = 1
		}
		steps := append([]string(nil), base.steps[:len(base.steps)-tail]...)
		for m := 1 + rnd.Intn(3); m > 0 && len(steps) > 0; m-- {
			k := rnd.Intn(len(steps))
			isPeer := strings.HasPrefix(steps[k], "feed:") || strings.HasPrefix(steps[k], "replyto:") || strings.HasPrefix(steps[k], "auto:")
			switch rnd.Intn(5) {
			case 0: // duplicate a peer step
				if isPeer {
					steps = append(steps[:k+1], append([]string{steps[k]}, steps[k+1:]...)...)
				}
			case 1: // drop a peer step
				if isPeer {
					steps = append(steps[:k], steps[k+1:]...)
				}
			case 2: // swap with the next step (never moves a wait/await before what it waits for… the
				// watchdog would call that a stall, so only peer/peer and peer/cancel swaps)
				if k+1 < len(steps) && isPeer && (strings.HasPrefix(steps[k+1], "feed:") || strings.HasPrefix(steps[k+1], "cancel:")) {
					steps[k], steps[k+1] = steps[k+1], steps[k]
				}
			case 3: // mutate the fed stanza
				if strings.HasPrefix(steps[k], "feed:") {
					if b, err := unhexS(steps[k][5:]); err == nil {
						if root := parse(b); root != nil {
							mutate(rnd, root, keepStanza)
							steps[k] = feed(root.String())
						}
					}
				}
			case 4: // an unrelated stanza from the fuzz templates in between
				t := pick(rnd, pick(rnd, stanzaTemplates))
				if root := parse(t); root != nil {
					steps = append(steps[:k], append([]string{feed(root.String())}, steps[k:]...)...)
				}
			}
		}
		// drop waits whose answer may have been removed: a call that never gets its answer is
		// cancelled at the end instead of being reported as a stall
		var out []string
		for _, st := range steps {
			if strings.HasPrefix(st, "wait:") || strings.HasPrefix(st, "await:") {
				continue
			}
			out = append(out, st)
		}
		if base.noProbe {
			// probes inside the script would be unanswerable as well
			var np []string
			for _, st := range out {
				if st != "probe" {
					np = append(np, st)
				}
			}
			c.scen(scenario{name: base.name + "~", steps: append(np, "end"), noProbe: true}, "scenario-random")
			continue
		}
		c.scen(scenario{name: base.name + "~", steps: append(out, "probe", "end")}, "scenario-random")
	}
}

var _ = common.Hex
var _ xmpp.SessionState
