package c09

import (
	"fmt"
	"go/ast"
	"go/constant"
	"go/token"
	"go/types"
	"strings"
)

// siteInfo describes one program point the skeleton refers to.
type siteInfo struct {
	ID   int
	Fn   string
	File string
	Line int
	Kind string // assert deref nilarg index slice make div shift panic must conv mapwrite unsupported loop
	Desc string
}

func (s siteInfo) String() string {
	return fmt.Sprintf("%s:%d %s [%s] %s", s.File, s.Line, s.Fn, s.Kind, s.Desc)
}

// xl translates the functions of one type-checked package.
type xl struct {
	// acceptedOut collects the size-dependent sites accepted without a hazard (may be nil)
	acceptedOut *[]acceptedSite
	// derivedOut collects the index / slice sites accepted through an entry derived on this
	// run (may be nil)
	derivedOut *[]acceptedSite
	// mayNil: may-return-nil summaries of the functions in scope (maynil.go), by FullName
	mayNil map[string]map[int]bool
	// ctorMaps: map-typed struct fields that every composite literal of their struct in the
	// package initialises with make / a map literal, that are never assigned anything else
	// and whose struct is never created as a zero value in the package (see ctorMapFields)
	ctorMaps map[*types.Var]bool
	fset     *token.FileSet
	l        *loaded
	repo     string
	sites    *[]siteInfo
	allow    *allowList
}

type okInfo struct {
	x    *types.Var
	mask int
}

type rangeCtx struct {
	key *types.Var
	x   string // the ranged expression, printed
}

// fn is the state of the translation of one function body.
type fn struct {
	*xl
	name   string
	vars   map[*types.Var]int // tracked variables -> skeleton variable
	isPtr  map[*types.Var]bool
	oks    map[*types.Var]okInfo
	ranges []rangeCtx
	bounds []boundCtx
	// isNilable: tracked pointer / interface variables that receive a result of a function whose
	// summary says "may be nil together with a nil error" (kinds nil / ptr, like isPtr)
	isNilable map[*types.Var]bool
	// isLen: tracked variables of slice / string type; their "kind" is the length class
	// min(len, 7) (kind number k = length k for k <= 6, kind 7 = length >= 7)
	isLen  map[*types.Var]bool
	labels map[string]bool
	// madeMaps: map-typed expressions (printed) this function visibly made non-nil
	madeMaps map[string]bool
	// flowInsensitive: the body uses goto / labelled branches; nothing is tracked, every loop
	// may exit and every statement stays reachable in the skeleton
	flowInsensitive bool
	decl            *declInfo
	body            *ast.BlockStmt
	accepted        []acceptedSite
	derivedSites    []acceptedSite
}

// declInfo: facts about one top-level function that its literals may rely on.
type declInfo struct {
	// pointer parameters that are never assigned and whose address is never taken: non-nil
	// (caller assumption) in the function and in every literal nested in it
	immutPtr map[*types.Var]bool
	// locals initialised by make(map…) / a map literal and never assigned again
	madeMaps map[string]bool
}

// boundCtx: inside `for i := …; i < len(x); i++` the index i is in range for x.
type boundCtx struct {
	idx *types.Var
	x   string
}

func isXMLNamed(t types.Type, name string) bool {
	n, ok := t.(*types.Named)
	if !ok {
		if a, ok2 := t.(*types.Alias); ok2 {
			return isXMLNamed(types.Unalias(a), name)
		}
		return false
	}
	o := n.Obj()
	return o != nil && o.Pkg() != nil && o.Pkg().Path() == "encoding/xml" && o.Name() == name
}

func isTokenType(t types.Type) bool { return t != nil && isXMLNamed(t, "Token") }

func isStartPtr(t types.Type) bool {
	if t == nil {
		return false
	}
	p, ok := t.Underlying().(*types.Pointer)
	return ok && isXMLNamed(p.Elem(), "StartElement")
}

// kindOfStatic is the kind mask of a value of the static type t stored in an xml.Token.
func kindOfStatic(t types.Type) int {
	switch {
	case t == nil:
		return 0
	case isXMLNamed(t, "StartElement"):
		return kStart
	case isXMLNamed(t, "EndElement"):
		return kStop
	case isXMLNamed(t, "CharData"):
		return kChars
	case isXMLNamed(t, "Comment"):
		return kComment
	case isXMLNamed(t, "ProcInst"):
		return kProcInst
	case isXMLNamed(t, "Directive"):
		return kDirective
	}
	if b, ok := t.(*types.Basic); ok && b.Kind() == types.UntypedNil {
		return kNil
	}
	return 0
}

func (x *xl) pos(n ast.Node) (string, int) {
	p := x.fset.Position(n.Pos())
	f := p.Filename
	if strings.HasPrefix(f, x.repo) {
		f = strings.TrimPrefix(strings.TrimPrefix(f, x.repo), "/")
	}
	return f, p.Line
}

func (f *fn) newSite(n ast.Node, kind, desc string) int {
	file, line := f.pos(n)
	id := len(*f.sites)
	*f.sites = append(*f.sites, siteInfo{ID: id, Fn: f.name, File: file, Line: line, Kind: kind, Desc: desc})
	return id
}

// hz is a hazard at n unless the allow list covers (function, kind, desc).
func (f *fn) hz(n ast.Node, kind, desc string) *Stmt {
	if ok, derived := f.allow.coversD(f.name, kind, desc); ok {
		switch {
		case derived:
			// proved in range by the range analysis on this run: nothing to pin
			f.derivedSites = append(f.derivedSites, acceptedSite{Fn: f.name, Kind: kind + "(derived)", Expr: desc})
		case kind == "make" || kind == "index" || kind == "slice" || kind == "dstsize":
			f.accepted = append(f.accepted, acceptedSite{Fn: f.name, Kind: kind + "(allow)", Expr: desc})
		}
		return skip()
	}
	return hazard(f.newSite(n, kind, desc))
}

func (f *fn) typeOf(e ast.Expr) types.Type {
	if tv, ok := f.l.Info.Types[e]; ok {
		return tv.Type
	}
	if id, ok := e.(*ast.Ident); ok {
		if o := f.l.Info.ObjectOf(id); o != nil {
			return o.Type()
		}
	}
	return nil
}

func (f *fn) constOf(e ast.Expr) constant.Value {
	if tv, ok := f.l.Info.Types[e]; ok {
		return tv.Value
	}
	return nil
}

func (f *fn) varOf(e ast.Expr) *types.Var {
	e = ast.Unparen(e)
	id, ok := e.(*ast.Ident)
	if !ok {
		return nil
	}
	v, _ := f.l.Info.ObjectOf(id).(*types.Var)
	return v
}

// tracked returns the skeleton variable of e if e is a tracked local.
func (f *fn) tracked(e ast.Expr) (int, bool) {
	v := f.varOf(e)
	if v == nil {
		return 0, false
	}
	i, ok := f.vars[v]
	return i, ok
}

func (f *fn) isNil(e ast.Expr) bool {
	tv, ok := f.l.Info.Types[ast.Unparen(e)]
	return ok && tv.IsNil()
}

func (f *fn) str(e ast.Expr) string { return types.ExprString(e) }

// collect finds the tracked locals of body: variables of type xml.Token or
// *xml.StartElement declared by this function (parameters included) whose address is never
// taken and which no nested function literal mentions.
func (f *fn) collect(ftype *ast.FuncType, recv *ast.FieldList, body *ast.BlockStmt) {
	f.vars = map[*types.Var]int{}
	f.isPtr = map[*types.Var]bool{}
	bad := map[*types.Var]bool{}
	f.isLen = map[*types.Var]bool{}
	f.isNilable = map[*types.Var]bool{}
	var nilCands []*types.Var
	var cands, lenCands []*types.Var
	lenUsed := map[*types.Var]bool{} // appears as len(v)
	add := func(id *ast.Ident) {
		v, _ := f.l.Info.Defs[id].(*types.Var)
		if v == nil || id.Name == "_" {
			return
		}
		if isTokenType(v.Type()) || isStartPtr(v.Type()) {
			cands = append(cands, v)
		}
		if isLenType(v.Type()) {
			lenCands = append(lenCands, v)
		}
	}
	fields := func(fl *ast.FieldList) {
		if fl == nil {
			return
		}
		for _, fd := range fl.List {
			for _, n := range fd.Names {
				add(n)
			}
		}
	}
	fields(recv)
	fields(ftype.Params)
	fields(ftype.Results)
	var walk func(n ast.Node, inLit bool)
	walk = func(n ast.Node, inLit bool) {
		ast.Inspect(n, func(m ast.Node) bool {
			switch m := m.(type) {
			case *ast.FuncLit:
				if m == n {
					return true
				}
				// everything a nested literal mentions is shared with it
				ast.Inspect(m, func(k ast.Node) bool {
					if id, ok := k.(*ast.Ident); ok {
						if v, ok := f.l.Info.Uses[id].(*types.Var); ok {
							bad[v] = true
						}
					}
					return true
				})
				return false
			case *ast.Ident:
				add(m)
			case *ast.UnaryExpr:
				if m.Op == token.AND {
					if v := f.varOf(m.X); v != nil {
						bad[v] = true
					}
				}
			case *ast.AssignStmt:
				// x, …, err := f(…) with f's summary "result k may be nil with a nil error"
				if len(m.Rhs) == 1 {
					if call, ok := ast.Unparen(m.Rhs[0]).(*ast.CallExpr); ok {
						if g := calleeOf(f.l.Info, call); g != nil {
							for k := range f.mayNil[g.FullName()] {
								if k < len(m.Lhs) {
									if v := f.varOf(m.Lhs[k]); v != nil && isNilableType(v.Type()) && !isTokenType(v.Type()) && !isStartPtr(v.Type()) {
										nilCands = append(nilCands, v)
									}
								}
							}
						}
					}
				}
			case *ast.CallExpr:
				if id, ok := m.Fun.(*ast.Ident); ok && id.Name == "len" && len(m.Args) == 1 {
					if _, isB := f.l.Info.Uses[id].(*types.Builtin); isB {
						if v := f.varOf(m.Args[0]); v != nil {
							lenUsed[v] = true
						}
					}
				}
			case *ast.TypeSwitchStmt:
				for _, c := range m.Body.List {
					if o, ok := f.l.Info.Implicits[c].(*types.Var); ok {
						if isTokenType(o.Type()) || isStartPtr(o.Type()) {
							cands = append(cands, o)
						}
					}
				}
			}
			return true
		})
	}
	walk(body, false)
	if f.flowInsensitive {
		return
	}
	for v := range f.decl.immutPtr {
		cands = append(cands, v)
		delete(bad, v)
	}
	for _, v := range cands {
		if bad[v] {
			continue
		}
		if _, dup := f.vars[v]; dup {
			continue
		}
		f.vars[v] = len(f.vars)
		f.isPtr[v] = isStartPtr(v.Type())
	}
	for _, v := range nilCands {
		if bad[v] {
			continue
		}
		// only locals of this function (declared in it)
		if v.Parent() == nil || v.Pkg() == nil || v.Parent() == v.Pkg().Scope() || v.IsField() {
			continue
		}
		if _, dup := f.vars[v]; dup {
			continue
		}
		f.vars[v] = len(f.vars)
		f.isPtr[v] = true
		f.isNilable[v] = true
	}
	for _, v := range lenCands {
		if bad[v] || !lenUsed[v] {
			continue
		}
		if _, dup := f.vars[v]; dup {
			continue
		}
		f.vars[v] = len(f.vars)
		f.isLen[v] = true
	}
}

// assignedIn lists the variables assigned (or declared) anywhere inside n.
func (f *fn) assignedIn(n ast.Node) map[*types.Var]bool {
	res := map[*types.Var]bool{}
	if n == nil || isNilNode(n) {
		return res
	}
	ast.Inspect(n, func(m ast.Node) bool {
		switch m := m.(type) {
		case *ast.AssignStmt:
			for _, l := range m.Lhs {
				if v := f.varOf(l); v != nil {
					res[v] = true
				}
			}
		case *ast.IncDecStmt:
			if v := f.varOf(m.X); v != nil {
				res[v] = true
			}
		case *ast.RangeStmt:
			for _, l := range []ast.Expr{m.Key, m.Value} {
				if l != nil {
					if v := f.varOf(l); v != nil {
						res[v] = true
					}
				}
			}
		case *ast.ValueSpec:
			for _, id := range m.Names {
				if v, ok := f.l.Info.Defs[id].(*types.Var); ok {
					res[v] = true
				}
			}
		}
		return true
	})
	return res
}

func (f *fn) kill(v *types.Var) {
	if v == nil {
		return
	}
	delete(f.oks, v)
	for k, o := range f.oks {
		if o.x == v {
			delete(f.oks, k)
		}
	}
}

// ---------------------------------------------------------------- expressions

// derefOf: e is dereferenced (selector on a pointer, *e, passed where non-nil is needed).
func (f *fn) derefOf(e ast.Expr, at ast.Node, kind string) *Stmt {
	e = ast.Unparen(e)
	if !isStartPtr(f.typeOf(e)) {
		return f.eff(e)
	}
	if i, ok := f.tracked(e); ok {
		if f.allow.covers(f.name, kind, f.str(e)) {
			return skip()
		}
		return require(i, kPtr, f.newSite(at, kind, f.str(e)))
	}
	if u, ok := e.(*ast.UnaryExpr); ok && u.Op == token.AND {
		return f.eff(u.X)
	}
	return seq(f.eff(e), f.hz(at, kind, "untracked pointer "+f.str(e)))
}

func (f *fn) effs(es []ast.Expr) *Stmt {
	r := skip()
	for _, e := range es {
		r = seq(r, f.eff(e))
	}
	return r
}

// eff is the skeleton of evaluating e for its value (partial operations in evaluation order;
// both operands of && / || are taken as evaluated, which over-approximates).
func (f *fn) eff(e ast.Expr) *Stmt {
	switch e := e.(type) {
	case nil:
		return skip()
	case *ast.Ident, *ast.BasicLit, *ast.FuncLit:
		return skip()
	case *ast.ParenExpr:
		return f.eff(e.X)
	case *ast.SelectorExpr:
		if sel, ok := f.l.Info.Selections[e]; ok {
			if xv := f.varOf(e.X); xv != nil && f.isNilable[xv] {
				if f.allow.covers(f.name, "nilresult", f.str(e.X)) {
					return skip()
				}
				return require(f.vars[xv], kPtr, f.newSite(e, "nilresult", f.str(e)))
			}
			if isStartPtr(f.typeOf(e.X)) {
				_ = sel
				return f.derefOf(e.X, e, "deref")
			}
			return f.eff(e.X)
		}
		return skip() // qualified identifier
	case *ast.StarExpr:
		if isStartPtr(f.typeOf(e.X)) {
			return f.derefOf(e.X, e, "deref")
		}
		return f.eff(e.X)
	case *ast.UnaryExpr:
		return f.eff(e.X)
	case *ast.BinaryExpr:
		r := seq(f.eff(e.X), f.eff(e.Y))
		switch e.Op {
		case token.QUO, token.REM:
			if isInteger(f.typeOf(e.X)) && !nonZeroConst(f.constOf(e.Y)) {
				r = seq(r, f.hz(e, "div", f.str(e)))
			}
		case token.SHL, token.SHR:
			if t := f.typeOf(e.Y); t != nil && isSigned(t) && f.constOf(e.Y) == nil {
				r = seq(r, f.hz(e, "shift", f.str(e)))
			}
		}
		return r
	case *ast.KeyValueExpr:
		return seq(f.eff(e.Key), f.eff(e.Value))
	case *ast.CompositeLit:
		r := skip()
		_, isStruct := f.typeOf(e).Underlying().(*types.Struct)
		for _, el := range e.Elts {
			if kv, ok := el.(*ast.KeyValueExpr); ok && isStruct {
				r = seq(r, f.eff(kv.Value))
			} else {
				r = seq(r, f.eff(el))
			}
		}
		return r
	case *ast.TypeAssertExpr:
		// single-value form (the comma-ok form never reaches eff)
		if e.Type == nil {
			return f.eff(e.X)
		}
		m := kindOfStatic(f.typeOf(e.Type))
		if i, ok := f.tracked(e.X); ok && m != 0 && isTokenType(f.typeOf(e.X)) {
			if f.allow.covers(f.name, "assert", f.str(e)) {
				return skip()
			}
			return require(i, m, f.newSite(e, "assert", f.str(e)))
		}
		return seq(f.eff(e.X), f.hz(e, "assert", f.str(e)))
	case *ast.IndexExpr:
		return f.index(e)
	case *ast.IndexListExpr:
		return skip()
	case *ast.SliceExpr:
		return f.slice(e)
	case *ast.CallExpr:
		return f.call(e)
	case *ast.ArrayType, *ast.StructType, *ast.FuncType, *ast.InterfaceType, *ast.MapType, *ast.ChanType, *ast.Ellipsis:
		return skip()
	}
	return f.hz(e, "unsupported", fmt.Sprintf("expression %T", e))
}

func isInteger(t types.Type) bool {
	if t == nil {
		return false
	}
	b, ok := t.Underlying().(*types.Basic)
	return ok && b.Info()&types.IsInteger != 0
}

func isSigned(t types.Type) bool {
	b, ok := t.Underlying().(*types.Basic)
	return ok && b.Info()&types.IsInteger != 0 && b.Info()&types.IsUnsigned == 0
}

func nonZeroConst(v constant.Value) bool {
	return v != nil && (v.Kind() == constant.Int || v.Kind() == constant.Float) && constant.Sign(v) != 0
}

func (f *fn) intConst(e ast.Expr) (int64, bool) {
	v := f.constOf(e)
	if v == nil || v.Kind() != constant.Int {
		return 0, false
	}
	return constant.Int64Val(v)
}

func (f *fn) index(e *ast.IndexExpr) *Stmt {
	tv, ok := f.l.Info.Types[e.X]
	if ok && !tv.IsValue() {
		return skip() // generic instantiation
	}
	pre := seq(f.eff(e.X), f.eff(e.Index))
	t := f.typeOf(e.X)
	if t == nil {
		return seq(pre, f.hz(e, "index", f.str(e)))
	}
	u := t.Underlying()
	if p, ok := u.(*types.Pointer); ok {
		u = p.Elem().Underlying()
	}
	switch u := u.(type) {
	case *types.Map:
		return pre
	case *types.Array:
		if c, ok := f.intConst(e.Index); ok && c >= 0 && c < u.Len() {
			return pre
		}
	case *types.Signature:
		return skip()
	}
	xs := f.str(e.X)
	if c, ok := f.intConst(e.Index); ok && c >= 0 && c <= 6 {
		if xv := f.varOf(e.X); xv != nil && f.isLen[xv] {
			if f.allow.coversReviewed(f.name, "index", f.str(e)) {
				return pre
			}
			return seq(pre, require(f.vars[xv], maskGE(c+1), f.newSite(e, "index", f.str(e))))
		}
	}
	if iv := f.varOf(e.Index); iv != nil {
		for _, r := range f.ranges {
			if r.key == iv && r.x == xs {
				return pre
			}
		}
		for _, b := range f.bounds {
			if b.idx == iv && b.x == xs {
				return pre
			}
		}
	}
	return seq(pre, f.hz(e, "index", f.str(e)))
}

func (f *fn) slice(e *ast.SliceExpr) *Stmt {
	pre := seqs(f.eff(e.X), f.eff(e.Low), f.eff(e.High), f.eff(e.Max))
	xs := f.str(e.X)
	okLow := e.Low == nil
	if c, ok := f.intConst(e.Low); ok && c == 0 {
		okLow = true
	}
	okHigh := e.High == nil || f.str(e.High) == "len("+xs+")"
	if c, ok := f.intConst(e.High); ok && c == 0 {
		okHigh = true
	}
	if okLow && okHigh && e.Max == nil {
		return pre
	}
	if c, ok := f.intConst(e.Low); ok && c >= 0 && c <= 7 && okHigh && e.Max == nil {
		if xv := f.varOf(e.X); xv != nil && f.isLen[xv] {
			if f.allow.coversReviewed(f.name, "slice", f.str(e)) {
				return pre
			}
			return seq(pre, require(f.vars[xv], maskGE(c), f.newSite(e, "slice", f.str(e))))
		}
	}
	// s[:n] / s[n:] where n is the int result of a Read/copy on s is not recognised: flag it
	return seq(pre, f.hz(e, "slice", f.str(e)))
}

func (f *fn) call(e *ast.CallExpr) *Stmt {
	// conversion
	if tv, ok := f.l.Info.Types[e.Fun]; ok && tv.IsType() {
		r := f.effs(e.Args)
		if len(e.Args) == 1 {
			to := tv.Type.Underlying()
			if p, ok := to.(*types.Pointer); ok {
				to = p.Elem().Underlying()
			}
			if _, isArr := to.(*types.Array); isArr {
				if _, fromSlice := f.typeOf(e.Args[0]).Underlying().(*types.Slice); fromSlice {
					r = seq(r, f.hz(e, "conv", f.str(e)))
				}
			}
		}
		return r
	}
	name := ""
	switch fun := ast.Unparen(e.Fun).(type) {
	case *ast.Ident:
		name = fun.Name
		if b, ok := f.l.Info.Uses[fun].(*types.Builtin); ok {
			return f.builtin(b.Name(), e)
		}
	case *ast.SelectorExpr:
		name = fun.Sel.Name
	}
	r := f.eff(e.Fun)
	for _, a := range e.Args {
		a = ast.Unparen(a)
		if isStartPtr(f.typeOf(a)) && !f.isNil(a) {
			// the callee is entitled to dereference a *xml.StartElement it is given
			if _, isId := a.(*ast.Ident); isId {
				r = seq(r, f.derefOf(a, a, "nilarg"))
				continue
			}
		}
		r = seq(r, f.eff(a))
	}
	if g := calleeOf(f.l.Info, e); g != nil && g.Pkg() != nil {
		if hz := f.dstSize(e, g); hz != nil {
			r = seq(r, hz)
		}
	}
	if strings.HasPrefix(name, "Must") && len(name) > 4 && name[4] >= 'A' && name[4] <= 'Z' {
		r = seq(r, f.hz(e, "must", f.str(e.Fun)))
	}
	return r
}

func (f *fn) builtin(name string, e *ast.CallExpr) *Stmt {
	r := f.effs(e.Args)
	switch name {
	case "panic":
		return seq(r, f.hz(e, "panic", "panic(…)"))
	case "make":
		constant := true
		for _, a := range e.Args[1:] {
			if !f.nonNegative(a) {
				return seq(r, f.hz(e, "make", f.str(e)))
			}
			if _, isC := f.intConst(a); !isC {
				constant = false
			}
		}
		if !constant {
			f.accepted = append(f.accepted, acceptedSite{Fn: f.name, Kind: "make", Expr: f.str(e)})
		}
	}
	return r
}

// nonNegative: e is syntactically a non-negative integer: a constant >= 0, len(…)/cap(…), an
// unsigned value, or a sum / product of such.
func (f *fn) nonNegative(e ast.Expr) bool {
	e = ast.Unparen(e)
	if c, ok := f.intConst(e); ok {
		return c >= 0
	}
	if t := f.typeOf(e); t != nil {
		if b, ok := t.Underlying().(*types.Basic); ok && b.Info()&types.IsUnsigned != 0 {
			return true
		}
	}
	switch e := e.(type) {
	case *ast.CallExpr:
		if id, ok := e.Fun.(*ast.Ident); ok {
			if b, ok := f.l.Info.Uses[id].(*types.Builtin); ok && (b.Name() == "len" || b.Name() == "cap") {
				return true
			}
		}
		if tv, ok := f.l.Info.Types[e.Fun]; ok && tv.IsType() && len(e.Args) == 1 {
			return f.nonNegative(e.Args[0]) && isInteger(tv.Type)
		}
	case *ast.BinaryExpr:
		if e.Op == token.ADD || e.Op == token.MUL {
			return f.nonNegative(e.X) && f.nonNegative(e.Y)
		}
	}
	return false
}

// ---------------------------------------------------------------- conditions

func (f *fn) hasGuard(e ast.Expr) bool {
	e = ast.Unparen(e)
	switch e := e.(type) {
	case *ast.UnaryExpr:
		return e.Op == token.NOT && f.hasGuard(e.X)
	case *ast.BinaryExpr:
		switch e.Op {
		case token.LAND, token.LOR:
			return f.hasGuard(e.X) || f.hasGuard(e.Y)
		case token.EQL, token.NEQ:
			if f.isNil(e.Y) {
				_, ok := f.tracked(e.X)
				return ok && !f.isLen[f.varOf(e.X)]
			}
			if f.isNil(e.X) {
				_, ok := f.tracked(e.Y)
				return ok && !f.isLen[f.varOf(e.Y)]
			}
		}
		if _, _, ok := f.lenGuard(e); ok {
			return true
		}
	case *ast.Ident:
		if v := f.varOf(e); v != nil {
			_, ok := f.oks[v]
			return ok
		}
	}
	return false
}

func isLenType(t types.Type) bool {
	if t == nil {
		return false
	}
	switch u := t.Underlying().(type) {
	case *types.Slice:
		return true
	case *types.Basic:
		return u.Info()&types.IsString != 0
	}
	return false
}

// maskGE: the length classes of lengths >= n (n <= 7).
func maskGE(n int64) int { return 0xFF &^ ((1 << uint(n)) - 1) }

// LenGuardMask is the set of length classes (bit k = length k for k <= 6, bit 7 = length >= 7)
// for which `len(x) op c` holds, if the comparison has the same truth value for every length
// of class 7 (otherwise ok = false and the translator does not interpret the condition).
func LenGuardMask(op token.Token, c int64) (mask int, ok bool) {
	if c < 0 {
		return 0, false
	}
	switch op {
	case token.EQL:
		if c <= 6 {
			return 1 << uint(c), true
		}
	case token.NEQ:
		if c <= 6 {
			return 0xFF &^ (1 << uint(c)), true
		}
	case token.LSS:
		if c <= 7 {
			return 0xFF &^ maskGE(c), true
		}
	case token.LEQ:
		if c <= 6 {
			return 0xFF &^ maskGE(c+1), true
		}
	case token.GTR:
		if c <= 6 {
			return maskGE(c + 1), true
		}
	case token.GEQ:
		if c <= 7 {
			return maskGE(c), true
		}
	}
	return 0, false
}

var flipOp = map[token.Token]token.Token{token.EQL: token.EQL, token.NEQ: token.NEQ, token.LSS: token.GTR, token.GTR: token.LSS, token.LEQ: token.GEQ, token.GEQ: token.LEQ}

// lenGuard recognises `len(x) op c` / `c op len(x)` on a tracked length variable.
func (f *fn) lenGuard(e *ast.BinaryExpr) (v int, mask int, ok bool) {
	lenVar := func(x ast.Expr) (int, bool) {
		call, ok := ast.Unparen(x).(*ast.CallExpr)
		if !ok || len(call.Args) != 1 {
			return 0, false
		}
		id, ok := call.Fun.(*ast.Ident)
		if !ok || id.Name != "len" {
			return 0, false
		}
		if _, isB := f.l.Info.Uses[id].(*types.Builtin); !isB {
			return 0, false
		}
		xv := f.varOf(call.Args[0])
		if xv == nil || !f.isLen[xv] {
			return 0, false
		}
		return f.vars[xv], true
	}
	op := e.Op
	if _, known := flipOp[op]; !known {
		return 0, 0, false
	}
	if i, isLen := lenVar(e.X); isLen {
		if c, isC := f.intConst(e.Y); isC {
			m, ok := LenGuardMask(op, c)
			return i, m, ok
		}
	}
	if i, isLen := lenVar(e.Y); isLen {
		if c, isC := f.intConst(e.X); isC {
			m, ok := LenGuardMask(flipOp[op], c)
			return i, m, ok
		}
	}
	return 0, 0, false
}

// cond is the skeleton of `if e { T } else { E }`.
func (f *fn) cond(e ast.Expr, T, E *Stmt) *Stmt {
	e = ast.Unparen(e)
	if !f.hasGuard(e) {
		return seq(f.eff(e), choice(T, E))
	}
	switch e := e.(type) {
	case *ast.UnaryExpr: // !x
		return f.cond(e.X, E, T)
	case *ast.BinaryExpr:
		switch e.Op {
		case token.LAND:
			return f.cond(e.X, f.cond(e.Y, T, E), E)
		case token.LOR:
			return f.cond(e.X, T, f.cond(e.Y, T, E))
		}
		if i, mask, ok := f.lenGuard(e); ok {
			return ifKind(i, mask, T, E)
		}
		switch e.Op {
		case token.EQL, token.NEQ:
			x := e.X
			if f.isNil(e.X) {
				x = e.Y
			}
			i, _ := f.tracked(x)
			if e.Op == token.EQL {
				return ifKind(i, kNil, T, E)
			}
			return ifKind(i, kNil, E, T)
		}
	case *ast.Ident:
		o := f.oks[f.varOf(e)]
		return ifKind(f.vars[o.x], o.mask, T, E)
	}
	return seq(f.eff(e), choice(T, E))
}

// ---------------------------------------------------------------- statements

// assignTo is the skeleton of storing the value of rhs (nil = unknown value, e.g. one result
// of a multi-value call) into lhs.
func (f *fn) assignTo(lhs ast.Expr, rhs ast.Expr) *Stmt {
	lhs = ast.Unparen(lhs)
	if id, ok := lhs.(*ast.Ident); ok && id.Name == "_" {
		return skip()
	}
	v := f.varOf(lhs)
	if v != nil {
		f.kill(v)
	}
	i, ok := f.tracked(lhs)
	if !ok {
		return f.lvalue(lhs)
	}
	if f.isLen[v] {
		return f.assignLen(i, rhs)
	}
	top := tokTop
	if f.isPtr[v] {
		top = ptrTop
	}
	if rhs == nil {
		return havoc(i, top)
	}
	rhs = ast.Unparen(rhs)
	if f.isNil(rhs) {
		return havoc(i, kNil)
	}
	if j, ok := f.tracked(rhs); ok && f.isPtr[f.varOf(rhs)] == f.isPtr[v] && !f.isLen[f.varOf(rhs)] {
		return cp(i, j)
	}
	if f.isPtr[v] {
		if u, ok := rhs.(*ast.UnaryExpr); ok && u.Op == token.AND {
			return havoc(i, kPtr)
		}
		return havoc(i, ptrTop)
	}
	if m := kindOfStatic(f.typeOf(rhs)); m != 0 {
		return havoc(i, m)
	}
	return havoc(i, tokTop)
}

func lenClass(n int64) int {
	if n > 7 {
		n = 7
	}
	return 1 << uint(n)
}

// assignLen: the length class of the value stored into the tracked slice / string variable i.
func (f *fn) assignLen(i int, rhs ast.Expr) *Stmt {
	if rhs == nil {
		return havoc(i, 0xFF)
	}
	rhs = ast.Unparen(rhs)
	if f.isNil(rhs) {
		return havoc(i, lenClass(0))
	}
	if rv := f.varOf(rhs); rv != nil && f.isLen[rv] {
		return cp(i, f.vars[rv])
	}
	if cv := f.constOf(rhs); cv != nil && cv.Kind() == constant.String {
		return havoc(i, lenClass(int64(len(constant.StringVal(cv)))))
	}
	switch e := rhs.(type) {
	case *ast.CompositeLit:
		for _, el := range e.Elts {
			if _, kv := el.(*ast.KeyValueExpr); kv {
				return havoc(i, 0xFF)
			}
		}
		return havoc(i, lenClass(int64(len(e.Elts))))
	case *ast.CallExpr:
		if id, ok := e.Fun.(*ast.Ident); ok {
			if b, isB := f.l.Info.Uses[id].(*types.Builtin); isB {
				switch b.Name() {
				case "make":
					if len(e.Args) >= 2 {
						if c, ok := f.intConst(e.Args[1]); ok && c >= 0 {
							return havoc(i, lenClass(c))
						}
					}
				case "append":
					if !e.Ellipsis.IsValid() && len(e.Args) >= 1 {
						n := int64(len(e.Args) - 1)
						if n > 7 {
							n = 7
						}
						return havoc(i, maskGE(n))
					}
				}
			}
		}
	}
	return havoc(i, 0xFF)
}

// lvalue is the skeleton of evaluating an assignment target that is not a tracked variable.
func (f *fn) lvalue(l ast.Expr) *Stmt {
	switch l := l.(type) {
	case *ast.Ident:
		return skip()
	case *ast.IndexExpr:
		if t := f.typeOf(l.X); t != nil {
			if _, isMap := t.Underlying().(*types.Map); isMap {
				return seqs(f.eff(l.X), f.eff(l.Index), f.mapWrite(l))
			}
		}
	}
	return f.eff(l)
}

// mapWrite: a store into a map faults if the map is nil.  Accepted without a hazard: maps
// that this function visibly made non-nil (a local initialised by make / a literal, or a
// preceding `if m == nil { m = make(…) }`).
func (f *fn) mapWrite(l *ast.IndexExpr) *Stmt {
	if f.madeMaps[f.str(l.X)] {
		return skip()
	}
	if sel, ok := ast.Unparen(l.X).(*ast.SelectorExpr); ok {
		if s, ok := f.l.Info.Selections[sel]; ok {
			if fv, ok := s.Obj().(*types.Var); ok && f.ctorMaps[fv] {
				return skip()
			}
		}
	}
	return f.hz(l, "mapwrite", f.str(l.X))
}

func (f *fn) stmts(l []ast.Stmt) *Stmt {
	r := skip()
	for _, s := range l {
		r = seq(r, f.stmt(s))
	}
	return r
}

func (f *fn) stmt(s ast.Stmt) *Stmt {
	switch s := s.(type) {
	case nil, *ast.EmptyStmt:
		return skip()
	case *ast.BlockStmt:
		return f.scoped(func() *Stmt { return f.stmts(s.List) })
	case *ast.ExprStmt:
		return f.eff(s.X)
	case *ast.IncDecStmt:
		f.kill(f.varOf(s.X))
		return f.eff(s.X)
	case *ast.SendStmt:
		return seq(f.eff(s.Chan), f.eff(s.Value))
	case *ast.GoStmt:
		return f.call(s.Call)
	case *ast.DeferStmt:
		return f.call(s.Call)
	case *ast.LabeledStmt:
		f.labels[s.Label.Name] = true
		return f.stmt(s.Stmt)
	case *ast.ReturnStmt:
		return seq(f.effs(s.Results), ret())
	case *ast.BranchStmt:
		if s.Tok == token.FALLTHROUGH {
			return seq(f.hz(s, "unsupported", "fallthrough"), ret())
		}
		if s.Label != nil || s.Tok == token.GOTO {
			if !f.flowInsensitive {
				return seq(f.hz(s, "unsupported", "labelled branch outside flow-insensitive mode"), ret())
			}
			if s.Tok == token.GOTO {
				return skip()
			}
		}
		if s.Tok == token.BREAK {
			return brk()
		}
		return cont()
	case *ast.DeclStmt:
		gd, ok := s.Decl.(*ast.GenDecl)
		if !ok || gd.Tok != token.VAR {
			return skip()
		}
		r := skip()
		for _, sp := range gd.Specs {
			vs := sp.(*ast.ValueSpec)
			r = seq(r, f.define(identExprs(vs.Names), vs.Values, s))
		}
		return r
	case *ast.AssignStmt:
		if s.Tok != token.ASSIGN && s.Tok != token.DEFINE {
			// op-assignment
			r := seq(f.eff(s.Lhs[0]), f.eff(s.Rhs[0]))
			f.kill(f.varOf(s.Lhs[0]))
			if lv := f.varOf(s.Lhs[0]); lv != nil && f.isLen[lv] {
				r = seq(r, havoc(f.vars[lv], 0xFF)) // s += …
			}
			if (s.Tok == token.QUO_ASSIGN || s.Tok == token.REM_ASSIGN) && isInteger(f.typeOf(s.Lhs[0])) && !nonZeroConst(f.constOf(s.Rhs[0])) {
				r = seq(r, f.hz(s, "div", f.str(s.Lhs[0])+" "+s.Tok.String()+" "+f.str(s.Rhs[0])))
			}
			return r
		}
		return f.define(s.Lhs, s.Rhs, s)
	case *ast.IfStmt:
		return f.scoped(func() *Stmt {
			init := f.stmt(s.Init)
			// translate the condition first: the branches may kill the ok-facts it uses
			saved := f.snapshot()
			T := f.stmt(s.Body)
			f.restore(saved)
			E := f.stmt(s.Else)
			f.restore(saved)
			c := f.cond(s.Cond, T, E)
			for v := range f.assignedIn(s) {
				f.kill(v)
			}
			f.noteNilGuard(s)
			return seq(init, c)
		})
	case *ast.ForStmt:
		return f.scoped(func() *Stmt {
			init := f.stmt(s.Init)
			for v := range f.assignedIn(s.Body) {
				f.kill(v)
			}
			for v := range f.assignedIn(s.Post) {
				f.kill(v)
			}
			pop := f.pushBound(s)
			body := f.stmt(s.Body)
			post := f.stmt(s.Post)
			pop()
			if post.effectful() && s.Body != nil && hasContinue(s.Body) {
				post = seq(f.hz(s.Post, "unsupported", "for-post with tracked effects and continue"), post)
			}
			head := skip()
			if s.Cond != nil {
				head = f.cond(s.Cond, skip(), brk())
			}
			if f.flowInsensitive {
				return seq(init, loop(f.newSite(s, "loop", "for"), choice(seqs(head, body, post), brk())))
			}
			return seq(init, loop(f.newSite(s, "loop", "for"), seqs(head, body, post)))
		})
	case *ast.RangeStmt:
		return f.scoped(func() *Stmt {
			pre := f.eff(s.X)
			for v := range f.assignedIn(s) {
				f.kill(v)
			}
			bind := skip()
			if s.Key != nil {
				bind = seq(bind, f.assignTo(s.Key, nil))
			}
			if s.Value != nil {
				bind = seq(bind, f.assignTo(s.Value, nil))
			}
			if kv := f.varOf(s.Key); kv != nil && s.Tok == token.DEFINE && !f.assignedIn(s.Body)[kv] {
				xs := f.str(s.X)
				reassigned := false
				if xv := f.varOf(s.X); xv != nil && f.assignedIn(s.Body)[xv] {
					reassigned = true
				}
				if !reassigned {
					f.ranges = append(f.ranges, rangeCtx{key: kv, x: xs})
					defer func() { f.ranges = f.ranges[:len(f.ranges)-1] }()
				}
			}
			body := f.stmt(s.Body)
			return seq(pre, loop(f.newSite(s, "loop", "range"), choice(seq(bind, body), brk())))
		})
	case *ast.SwitchStmt:
		return f.scoped(func() *Stmt {
			init := f.stmt(s.Init)
			tag := f.eff(s.Tag)
			saved := f.snapshot()
			var def *Stmt
			type cl struct {
				conds []ast.Expr
				body  *Stmt
			}
			var cls []cl
			for _, c := range s.Body.List {
				cc := c.(*ast.CaseClause)
				f.restore(saved)
				b := f.scoped(func() *Stmt { return f.stmts(cc.Body) })
				if cc.List == nil {
					def = b
				} else {
					cls = append(cls, cl{cc.List, b})
				}
			}
			f.restore(saved)
			rest := skip()
			if def != nil {
				rest = def
			}
			for i := len(cls) - 1; i >= 0; i-- {
				c := cls[i]
				if s.Tag == nil && len(c.conds) == 1 {
					rest = f.cond(c.conds[0], c.body, rest)
				} else {
					rest = seq(f.effs(c.conds), choice(c.body, rest))
				}
			}
			for v := range f.assignedIn(s) {
				f.kill(v)
			}
			return seqs(init, tag, block(rest))
		})
	case *ast.TypeSwitchStmt:
		return f.scoped(func() *Stmt {
			init := f.stmt(s.Init)
			var x ast.Expr
			switch a := s.Assign.(type) {
			case *ast.ExprStmt:
				x = a.X.(*ast.TypeAssertExpr).X
			case *ast.AssignStmt:
				x = a.Rhs[0].(*ast.TypeAssertExpr).X
			}
			pre := f.eff(x)
			xi, isTracked := f.tracked(x)
			isTracked = isTracked && isTokenType(f.typeOf(x))
			saved := f.snapshot()
			var def *Stmt
			type cl struct {
				mask int
				body *Stmt
			}
			var cls []cl
			for _, c := range s.Body.List {
				cc := c.(*ast.CaseClause)
				f.restore(saved)
				bind := skip()
				if o, ok := f.l.Info.Implicits[cc].(*types.Var); ok {
					if oi, ok := f.vars[o]; ok {
						if isTracked && f.isPtr[o] == false {
							bind = cp(oi, xi)
						} else if f.isPtr[o] {
							bind = havoc(oi, ptrTop)
						} else {
							bind = havoc(oi, tokTop)
						}
					}
				}
				b := seq(bind, f.scoped(func() *Stmt { return f.stmts(cc.Body) }))
				if cc.List == nil {
					def = b
					continue
				}
				mask, known := 0, true
				for _, te := range cc.List {
					m := kindOfStatic(f.typeOf(te))
					if m == 0 {
						known = false
					}
					mask |= m
				}
				if !known {
					mask = -1
				}
				cls = append(cls, cl{mask, b})
			}
			f.restore(saved)
			rest := skip()
			if def != nil {
				rest = def
			}
			for i := len(cls) - 1; i >= 0; i-- {
				c := cls[i]
				if isTracked && c.mask > 0 {
					rest = ifKind(xi, c.mask, c.body, rest)
				} else {
					rest = choice(c.body, rest)
				}
			}
			for v := range f.assignedIn(s) {
				f.kill(v)
			}
			return seqs(init, pre, block(rest))
		})
	case *ast.SelectStmt:
		return f.scoped(func() *Stmt {
			saved := f.snapshot()
			rest := ret() // a select without a ready case blocks
			first := true
			for _, c := range s.Body.List {
				cc := c.(*ast.CommClause)
				f.restore(saved)
				b := f.scoped(func() *Stmt { return seq(f.stmt(cc.Comm), f.stmts(cc.Body)) })
				if first {
					rest, first = b, false
				} else {
					rest = choice(b, rest)
				}
			}
			f.restore(saved)
			for v := range f.assignedIn(s) {
				f.kill(v)
			}
			return block(rest)
		})
	}
	return f.hz(s, "unsupported", fmt.Sprintf("statement %T", s))
}

func identExprs(ids []*ast.Ident) []ast.Expr {
	r := make([]ast.Expr, len(ids))
	for i, id := range ids {
		r[i] = id
	}
	return r
}

func hasContinue(n ast.Node) bool {
	found := false
	ast.Inspect(n, func(m ast.Node) bool {
		switch m := m.(type) {
		case *ast.ForStmt, *ast.RangeStmt, *ast.FuncLit:
			return m == n
		case *ast.BranchStmt:
			if m.Tok == token.CONTINUE {
				found = true
			}
		}
		return true
	})
	return found
}

// define handles `lhs := rhs`, `lhs = rhs` and `var lhs = rhs`.
func (f *fn) define(lhs, rhs []ast.Expr, at ast.Stmt) *Stmt {
	switch {
	case len(rhs) == 0: // var x T
		r := skip()
		for _, l := range lhs {
			if i, ok := f.tracked(l); ok {
				r = seq(r, havoc(i, kNil))
			}
		}
		return r
	case len(lhs) == len(rhs):
		r := skip()
		for _, e := range rhs {
			r = seq(r, f.eff(e))
		}
		for i := range lhs {
			f.noteMade(lhs[i], rhs[i])
			rv := rhs[i]
			if len(lhs) > 1 {
				// parallel assignment: the right-hand sides are evaluated before any store, so a
				// tracked variable on the right must not be read after an earlier store changed it
				if _, tr := f.tracked(rv); tr {
					rv = nil
				}
			}
			r = seq(r, f.assignTo(lhs[i], rv))
		}
		// b := x == nil / b := x != nil with a fresh b: b is a guard on x's kind
		if as, isAssign := at.(*ast.AssignStmt); isAssign && as.Tok == token.DEFINE && len(lhs) == 1 {
			if be, ok := ast.Unparen(rhs[0]).(*ast.BinaryExpr); ok && (be.Op == token.EQL || be.Op == token.NEQ) {
				x := be.X
				if f.isNil(be.X) {
					x = be.Y
				}
				bv := f.varOf(lhs[0])
				id, isId := lhs[0].(*ast.Ident)
				if xv := f.varOf(x); xv != nil && bv != nil && isId && f.l.Info.Defs[id] == bv && (f.isNil(be.X) || f.isNil(be.Y)) {
					if _, tr := f.vars[xv]; tr {
						mask := kNil
						if be.Op == token.NEQ {
							mask = tokTop &^ kNil
							if f.isPtr[xv] {
								mask = kPtr
							}
						}
						f.oks[bv] = okInfo{x: xv, mask: mask}
					}
				}
			}
		}
		return r
	case len(rhs) == 1 && len(lhs) == 2:
		rh := ast.Unparen(rhs[0])
		if ta, ok := rh.(*ast.TypeAssertExpr); ok {
			// v, ok := x.(T): never faults
			r := f.eff(ta.X)
			r = seq(r, f.assignTo(lhs[0], nil))
			okv := f.varOf(lhs[1])
			f.kill(okv)
			if as, isAssign := at.(*ast.AssignStmt); isAssign && as.Tok == token.DEFINE && okv != nil {
				if id, isId := lhs[1].(*ast.Ident); isId && f.l.Info.Defs[id] == okv {
					if xv := f.varOf(ta.X); xv != nil && !f.isPtr[xv] {
						if _, tr := f.vars[xv]; tr {
							if m := kindOfStatic(f.typeOf(ta.Type)); m != 0 && f.varOf(lhs[0]) != xv {
								f.oks[okv] = okInfo{x: xv, mask: m}
							}
						}
					}
				}
			}
			return r
		}
		if ix, ok := rh.(*ast.IndexExpr); ok { // v, ok := m[k]
			return seqs(f.eff(ix.X), f.eff(ix.Index), f.assignTo(lhs[0], nil), f.assignTo(lhs[1], nil))
		}
		if u, ok := rh.(*ast.UnaryExpr); ok && u.Op == token.ARROW { // v, ok := <-c
			return seqs(f.eff(u.X), f.assignTo(lhs[0], nil), f.assignTo(lhs[1], nil))
		}
		fallthrough
	default: // multi-value call
		r := f.eff(rhs[0])
		for _, l := range lhs {
			r = seq(r, f.assignTo(l, nil))
		}
		return r
	}
}

func (f *fn) snapshot() map[*types.Var]okInfo {
	m := map[*types.Var]okInfo{}
	for k, v := range f.oks {
		m[k] = v
	}
	return m
}

func (f *fn) restore(m map[*types.Var]okInfo) {
	f.oks = map[*types.Var]okInfo{}
	for k, v := range m {
		f.oks[k] = v
	}
}

// scoped: ok-facts recorded inside a block do not survive it.
func (f *fn) scoped(body func() *Stmt) *Stmt {
	before := f.snapshot()
	r := body()
	for k := range f.oks {
		if _, ok := before[k]; !ok {
			delete(f.oks, k)
		}
	}
	return r
}

// pushBound recognises `for i := c; i < len(x); i++ { … }` (c a constant >= 0, neither i nor x
// assigned in the body) and makes x[i] an in-range index inside the body.
func (f *fn) pushBound(s *ast.ForStmt) func() {
	nop := func() {}
	as, ok := s.Init.(*ast.AssignStmt)
	if !ok || as.Tok != token.DEFINE || len(as.Lhs) != 1 || len(as.Rhs) != 1 {
		return nop
	}
	iv := f.varOf(as.Lhs[0])
	if c, ok := f.intConst(as.Rhs[0]); !ok || c < 0 || iv == nil {
		return nop
	}
	be, ok := s.Cond.(*ast.BinaryExpr)
	if !ok || be.Op != token.LSS || f.varOf(be.X) != iv {
		return nop
	}
	call, ok := be.Y.(*ast.CallExpr)
	if !ok || len(call.Args) != 1 || f.str(call.Fun) != "len" {
		return nop
	}
	inc, ok := s.Post.(*ast.IncDecStmt)
	if !ok || inc.Tok != token.INC || f.varOf(inc.X) != iv {
		return nop
	}
	asg := f.assignedIn(s.Body)
	if asg[iv] {
		return nop
	}
	if xv := f.varOf(call.Args[0]); xv != nil && asg[xv] {
		return nop
	}
	f.bounds = append(f.bounds, boundCtx{idx: iv, x: f.str(call.Args[0])})
	return func() { f.bounds = f.bounds[:len(f.bounds)-1] }
}

func isNilNode(n ast.Node) bool {
	switch v := n.(type) {
	case *ast.BlockStmt:
		return v == nil
	case ast.Stmt:
		return v == nil
	}
	return false
}

func isMapMaker(f *fn, e ast.Expr) bool {
	e = ast.Unparen(e)
	t := f.typeOf(e)
	if t == nil {
		return false
	}
	if _, ok := t.Underlying().(*types.Map); !ok {
		return false
	}
	switch e := e.(type) {
	case *ast.CompositeLit:
		return true
	case *ast.CallExpr:
		return f.str(e.Fun) == "make"
	}
	return false
}

// noteMade: `m := make(map…)` / `m := map…{}` makes the local m non-nil; any other assignment
// to the same expression withdraws that.
func (f *fn) noteMade(lhs, rhs ast.Expr) {
	key := f.str(lhs)
	if _, isId := ast.Unparen(lhs).(*ast.Ident); isId && isMapMaker(f, rhs) {
		f.madeMaps[key] = true
		return
	}
	delete(f.madeMaps, key)
}

// noteNilGuard: after `if m == nil { m = make(…) }` (no else) m is non-nil.
func (f *fn) noteNilGuard(s *ast.IfStmt) {
	be, ok := ast.Unparen(s.Cond).(*ast.BinaryExpr)
	if !ok || be.Op != token.EQL || !f.isNil(be.Y) || s.Else != nil {
		return
	}
	// some top-level statement of the body stores a fresh map, and control cannot leave the
	// body before it other than by falling through (only plain calls / assignments)
	for _, st := range s.Body.List {
		switch st := st.(type) {
		case *ast.ExprStmt:
			continue
		case *ast.AssignStmt:
			if st.Tok == token.ASSIGN && len(st.Lhs) == 1 && len(st.Rhs) == 1 &&
				f.str(st.Lhs[0]) == f.str(be.X) && isMapMaker(f, st.Rhs[0]) {
				f.madeMaps[f.str(be.X)] = true
				return
			}
			continue
		}
		return
	}
}

// translateFunc builds the skeleton of one function body.
func (x *xl) translateFunc(name string, di *declInfo, ftype *ast.FuncType, recv *ast.FieldList, body *ast.BlockStmt) (*Stmt, int) {
	f := &fn{xl: x, name: name, oks: map[*types.Var]okInfo{}, labels: map[string]bool{}, madeMaps: map[string]bool{}, decl: di}
	for k := range di.madeMaps {
		f.madeMaps[k] = true
	}
	f.body = body
	f.flowInsensitive = unstructured(body)
	f.collect(ftype, recv, body)
	entry := skip()
	for v := range di.immutPtr {
		if i, ok := f.vars[v]; ok {
			entry = seq(entry, havoc(i, kPtr))
		}
	}
	ptrParams := func(fl *ast.FieldList, mask int) {
		if fl == nil {
			return
		}
		for _, fd := range fl.List {
			for _, n := range fd.Names {
				if v, ok := x.l.Info.Defs[n].(*types.Var); ok {
					if i, ok := f.vars[v]; ok {
						if f.isPtr[v] {
							entry = seq(entry, havoc(i, mask))
						} else if mask == kNil {
							entry = seq(entry, havoc(i, kNil))
						}
					}
				}
			}
		}
	}
	// assumption: callers pass non-nil *xml.StartElement (enforced at every call site in scope
	// by the `nilarg` rule); named results start as nil
	ptrParams(recv, kPtr)
	ptrParams(ftype.Params, kPtr)
	ptrParams(ftype.Results, kNil)
	s := seq(entry, f.stmts(body.List))
	if x.acceptedOut != nil {
		*x.acceptedOut = append(*x.acceptedOut, f.accepted...)
	}
	if x.derivedOut != nil {
		*x.derivedOut = append(*x.derivedOut, f.derivedSites...)
	}
	return simplify(s), len(f.vars)
}

// unstructured: the body (nested literals excluded) uses goto or a labelled break/continue.
func unstructured(body *ast.BlockStmt) bool {
	found := false
	ast.Inspect(body, func(n ast.Node) bool {
		switch n := n.(type) {
		case *ast.FuncLit:
			return false
		case *ast.BranchStmt:
			if n.Tok == token.GOTO || n.Label != nil {
				found = true
			}
		}
		return true
	})
	return found
}

// declFacts computes the declInfo of a top-level function.
func (x *xl) declFacts(fd *ast.FuncDecl) *declInfo {
	di := &declInfo{immutPtr: map[*types.Var]bool{}, madeMaps: map[string]bool{}}
	tmp := &fn{xl: x}
	assigned := tmp.assignedIn(fd.Body) // ast.Inspect descends into literals too
	addrTaken := map[*types.Var]bool{}
	assignCount := map[string]int{}
	ast.Inspect(fd.Body, func(n ast.Node) bool {
		switch n := n.(type) {
		case *ast.UnaryExpr:
			if n.Op == token.AND {
				if v := tmp.varOf(n.X); v != nil {
					addrTaken[v] = true
				}
			}
		case *ast.AssignStmt:
			for _, l := range n.Lhs {
				assignCount[types.ExprString(l)]++
			}
		}
		return true
	})
	if fd.Type.Params != nil {
		for _, fld := range fd.Type.Params.List {
			for _, nm := range fld.Names {
				if v, ok := x.l.Info.Defs[nm].(*types.Var); ok && isStartPtr(v.Type()) && !assigned[v] && !addrTaken[v] {
					di.immutPtr[v] = true
				}
			}
		}
	}
	// top-level `m := make(map…)` assigned exactly once in the whole declaration
	for _, st := range fd.Body.List {
		as, ok := st.(*ast.AssignStmt)
		if !ok || as.Tok != token.DEFINE || len(as.Lhs) != 1 || len(as.Rhs) != 1 {
			continue
		}
		id, ok := as.Lhs[0].(*ast.Ident)
		if !ok || assignCount[id.Name] != 1 || !isMapMaker(tmp, as.Rhs[0]) {
			continue
		}
		if v := tmp.varOf(id); v != nil && !addrTaken[v] {
			di.madeMaps[id.Name] = true
		}
	}
	return di
}

// ctorMapFields computes the "constructor facts" of a package: the map-typed fields f of a
// struct type S declared in the package such that
//
//   - there is at least one composite literal of S in the package and every one of them sets
//     f to make(…) or a map literal (keyed form),
//   - every assignment to a selector of f in the package stores make(…) / a map literal,
//   - the package never creates a zero S: no new(S), no variable or field or element of type
//     S (as opposed to *S) without an initialiser.
//
// For such a field a store x.f[k] = v cannot meet a nil map unless code outside the package
// fabricates a zero S (an assumption listed in meta/C09.json).
func ctorMapFields(l *loaded) map[*types.Var]bool {
	info := l.Info
	cand := map[*types.Var]*types.Named{} // field -> its struct's named type
	for _, o := range info.Defs {
		tn, ok := o.(*types.TypeName)
		if !ok || tn.IsAlias() {
			continue
		}
		named, ok := tn.Type().(*types.Named)
		if !ok {
			continue
		}
		st, ok := named.Underlying().(*types.Struct)
		if !ok {
			continue
		}
		for i := 0; i < st.NumFields(); i++ {
			if _, isMap := st.Field(i).Type().Underlying().(*types.Map); isMap {
				cand[st.Field(i)] = named
			}
		}
	}
	if len(cand) == 0 {
		return nil
	}
	bad := map[*types.Named]bool{} // struct types with a zero value somewhere
	badF := map[*types.Var]bool{}  // fields with a non-map-making store / literal without them
	lits := map[*types.Named]int{}
	tmp := &fn{xl: &xl{l: l}}
	zero := func(t types.Type) {
		// a value (not pointer) of a candidate struct type comes into being without a literal
		for {
			switch u := t.(type) {
			case *types.Array:
				t = u.Elem()
				continue
			case *types.Named:
				bad[u] = true
			}
			return
		}
	}
	for _, file := range l.Files {
		ast.Inspect(file, func(n ast.Node) bool {
			switch n := n.(type) {
			case *ast.CompositeLit:
				t := info.TypeOf(n)
				if t == nil {
					return true
				}
				named, _ := t.(*types.Named)
				if named == nil {
					return true
				}
				st, ok := named.Underlying().(*types.Struct)
				if !ok {
					return true
				}
				lits[named]++
				set := map[string]ast.Expr{}
				keyed := true
				for _, el := range n.Elts {
					kv, ok := el.(*ast.KeyValueExpr)
					if !ok {
						keyed = false
						break
					}
					if id, ok := kv.Key.(*ast.Ident); ok {
						set[id.Name] = kv.Value
					}
				}
				for i := 0; i < st.NumFields(); i++ {
					fv := st.Field(i)
					if _, isC := cand[fv]; !isC {
						continue
					}
					if v, ok := set[fv.Name()]; !keyed || !ok || !isMapMaker(tmp, v) {
						badF[fv] = true
					}
				}
			case *ast.AssignStmt:
				for i, lh := range n.Lhs {
					sel, ok := ast.Unparen(lh).(*ast.SelectorExpr)
					if !ok {
						continue
					}
					s, ok := info.Selections[sel]
					if !ok {
						continue
					}
					fv, ok := s.Obj().(*types.Var)
					if !ok {
						continue
					}
					if _, isC := cand[fv]; !isC {
						continue
					}
					if len(n.Lhs) != len(n.Rhs) || !isMapMaker(tmp, n.Rhs[i]) {
						badF[fv] = true
					}
				}
			case *ast.CallExpr:
				if id, ok := n.Fun.(*ast.Ident); ok && id.Name == "new" && len(n.Args) == 1 {
					if _, isB := info.Uses[id].(*types.Builtin); isB {
						if t := info.TypeOf(n.Args[0]); t != nil {
							zero(t)
						}
					}
				}
			case *ast.ValueSpec:
				if n.Type != nil && len(n.Values) == 0 {
					if t := info.TypeOf(n.Type); t != nil {
						zero(t)
					}
				}
			case *ast.StructType:
				for _, fd := range n.Fields.List {
					if t := info.TypeOf(fd.Type); t != nil {
						zero(t) // a field of struct type by value is zero when its holder is
					}
				}
			case *ast.UnaryExpr:
				// &v on a field makes stores through the pointer invisible: give the field up
				if n.Op == token.AND {
					if sel, ok := ast.Unparen(n.X).(*ast.SelectorExpr); ok {
						if s, ok := info.Selections[sel]; ok {
							if fv, ok := s.Obj().(*types.Var); ok {
								badF[fv] = true
							}
						}
					}
				}
			}
			return true
		})
	}
	res := map[*types.Var]bool{}
	for fv, named := range cand {
		if !badF[fv] && !bad[named] && lits[named] > 0 {
			res[fv] = true
		}
	}
	return res
}

// dstSize: standard-library functions that index their destination up to a size derived from
// the source and fault when it is shorter (base64 / hex Decode and Encode, binary.PutUintN /
// UintN).  Accepted without a hazard only in the form
//
//	dst := make([]byte, enc.DecodedLen(len(src)))   // resp. EncodedLen
//	… enc.Decode(dst, src)
//
// with dst a local assigned exactly once in the function and the same src expression.
func (f *fn) dstSize(e *ast.CallExpr, g *types.Func) *Stmt {
	pkg, name := g.Pkg().Path(), g.Name()
	sizeFn := ""
	switch {
	case (pkg == "encoding/base64" || pkg == "encoding/hex" || pkg == "encoding/base32") && name == "Decode":
		sizeFn = "DecodedLen"
	case (pkg == "encoding/base64" || pkg == "encoding/hex" || pkg == "encoding/base32") && name == "Encode":
		sizeFn = "EncodedLen"
	case pkg == "encoding/binary" && (strings.HasPrefix(name, "PutUint") || strings.HasPrefix(name, "Uint")):
		return f.hz(e, "dstsize", f.str(e))
	default:
		return nil
	}
	if len(e.Args) != 2 {
		return nil
	}
	dst, src := f.varOf(e.Args[0]), f.str(e.Args[1])
	if dst != nil && f.body != nil {
		assigns, okInit := 0, false
		ast.Inspect(f.body, func(n ast.Node) bool {
			as, ok := n.(*ast.AssignStmt)
			if !ok {
				return true
			}
			for i, lh := range as.Lhs {
				if f.varOf(lh) != dst {
					continue
				}
				assigns++
				if len(as.Lhs) == len(as.Rhs) {
					if mk, ok := ast.Unparen(as.Rhs[i]).(*ast.CallExpr); ok && f.str(mk.Fun) == "make" && len(mk.Args) == 2 {
						if sz, ok := ast.Unparen(mk.Args[1]).(*ast.CallExpr); ok && len(sz.Args) == 1 {
							if sel, ok := sz.Fun.(*ast.SelectorExpr); ok && sel.Sel.Name == sizeFn && f.str(sz.Args[0]) == "len("+src+")" {
								okInit = true
							}
						}
					}
				}
			}
			return true
		})
		if assigns == 1 && okInit {
			f.accepted = append(f.accepted, acceptedSite{Fn: f.name, Kind: "dstsize", Expr: f.str(e)})
			return nil
		}
	}
	return f.hz(e, "dstsize", f.str(e))
}

// acceptedSite: a partial operation the translator (or the allow list) accepted although its
// safety depends on a size / index expression.  The expressions are regenerated and pinned in
// Props/C09.lean: editing one resurfaces the site for review.
type acceptedSite struct {
	Fn, Kind, Expr string
}
