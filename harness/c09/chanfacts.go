package c09

import (
	"fmt"
	"go/ast"
	"go/constant"
	"go/token"
	"go/types"
	"sort"
	"strings"
)

// Channel waits on the serve goroutine (consumed by C09_serve_channel_waits_escape).
//
// A handler runs on the serve goroutine.  A channel operation there that can block without an
// alternative stops Serve from reading: the answer a local call is waiting for is never handed
// over, the peer's later stanzas are never read, and the end of the input is never seen
// (history's hand-over to the iterator, ibb's hand-over to Accept / Expect, muc's hand-over to
// a pending join, the receipt signal).  Every channel operation reachable from the handler
// entry points of a package (same walk as the lock set `serve` of waitfacts.go: same-package
// call graph, function values included, goroutines the handler starts excluded, branches dead
// for non-nil parameters skipped) is regenerated with how it can be left:
//
//	default    a case of a select that has a default clause: never blocks
//	escape     a case of a select with at least one other communication: something else (a done
//	           channel, the caller's context, a second party) can end the wait
//	buffered   a plain send on a channel that every make() it can come from creates with a
//	           constant capacity >= 1 (followed through locals, map elements and struct fields
//	           by go/types objects; every store to the field / map in the package is looked at)
//	close      close(ch): never blocks
//	producer   range over a local channel that a goroutine started by the same function closes
//	           as a top-level (or deferred) statement: ends when the producer - the application's
//	           callback - returns
//	handshake  a bare receive from the channel that the enclosing select case has just sent on
//	           (same expression): the other party accepted the hand-over in a rendezvous, so it
//	           exists, and owes the answer (the session's response slot: the requester closes
//	           the response) - an obligation of the other party, listed as an assumption
//	blocking   anything else: a bare receive, a bare send on a channel of unknown or zero
//	           capacity, a select with a single communication and no default, range over a channel
//
// No function, local or field name is consumed: the theorem demands that no entry is
// `blocking` and that the extractor found the hand-overs at all.  `escape` is a syntactic
// judgement (the other case is not checked to be live) - listed in the trusted base.
type chanOp struct {
	Pkg, Fn, Op, Kind string
	File              string
	Line              int
}

func (w *waitAn) chanOps(fset *token.FileSet, fnName func(*ast.FuncDecl) string) []chanOp {
	var out []chanOp
	seen := map[token.Pos]bool{}
	inSelect := map[ast.Node]bool{}
	handshake := map[ast.Node]bool{}
	add := func(fn string, n ast.Node, op, kind string) {
		if seen[n.Pos()] {
			return
		}
		seen[n.Pos()] = true
		p := fset.Position(n.Pos())
		out = append(out, chanOp{Pkg: w.l.Pkg.Name(), Fn: fn, Op: op, Kind: kind, File: p.Filename, Line: p.Line})
	}
	w.serveWalk(fnName, func(fn string, n ast.Node) {
		switch n := n.(type) {
		case *ast.SelectStmt:
			comms, hasDefault := 0, false
			for _, c := range n.Body.List {
				if cc := c.(*ast.CommClause); cc.Comm == nil {
					hasDefault = true
				} else {
					comms++
				}
			}
			kind := "blocking"
			switch {
			case hasDefault:
				kind = "default"
			case comms >= 2:
				kind = "escape"
			}
			if comms == 0 && !hasDefault {
				add(fn, n, "select{}", "blocking")
			}
			for _, c := range n.Body.List {
				cc := c.(*ast.CommClause)
				if cc.Comm == nil {
					continue
				}
				op := "recv"
				ast.Inspect(cc.Comm, func(m ast.Node) bool {
					switch m := m.(type) {
					case *ast.SendStmt:
						op = "send"
						inSelect[m] = true
					case *ast.UnaryExpr:
						if m.Op == token.ARROW {
							inSelect[m] = true
						}
					}
					return true
				})
				add(fn, cc, op, kind)
				// receives from the channel this case sent on, inside its body
				if snd, ok := cc.Comm.(*ast.SendStmt); ok {
					want := types.ExprString(snd.Chan)
					for _, st := range cc.Body {
						ast.Inspect(st, func(m ast.Node) bool {
							if _, lit := m.(*ast.FuncLit); lit {
								return false
							}
							if u, ok := m.(*ast.UnaryExpr); ok && u.Op == token.ARROW && types.ExprString(u.X) == want {
								handshake[u] = true
							}
							return true
						})
					}
				}
			}
		case *ast.SendStmt:
			if inSelect[n] {
				return
			}
			if w.bufferedChan(n.Chan, 0) {
				add(fn, n, "send", "buffered")
			} else {
				add(fn, n, "send", "blocking")
			}
		case *ast.UnaryExpr:
			if n.Op == token.ARROW && !inSelect[n] {
				if handshake[n] {
					add(fn, n, "recv", "handshake")
				} else {
					add(fn, n, "recv", "blocking")
				}
			}
		case *ast.RangeStmt:
			if t := w.l.Info.TypeOf(n.X); t != nil {
				if _, ok := t.Underlying().(*types.Chan); ok {
					if w.ownProducer(n.X) {
						add(fn, n, "range", "producer")
					} else {
						add(fn, n, "range", "blocking")
					}
				}
			}
		case *ast.CallExpr:
			if id, ok := unparenOnly(n.Fun).(*ast.Ident); ok {
				if b, ok := w.l.Info.Uses[id].(*types.Builtin); ok && b.Name() == "close" {
					add(fn, n, "close", "close")
				}
			}
		}
	})
	sort.SliceStable(out, func(i, j int) bool {
		if out[i].File != out[j].File {
			return out[i].File < out[j].File
		}
		return out[i].Line < out[j].Line
	})
	return out
}

// ownProducer: the channel is a local that a goroutine started in the same function closes
// (`go func() { produce(c); close(c) }()`): the wait ends when the producer returns - which is
// the application's callback in every instance so far (assumption "callbacks return").
func (w *waitAn) ownProducer(e ast.Expr) bool {
	id, ok := unparenOnly(e).(*ast.Ident)
	if !ok {
		return false
	}
	v, ok := w.l.Info.Uses[id].(*types.Var)
	if !ok || v.IsField() || v.Parent() == w.l.Pkg.Scope() {
		return false
	}
	if _, isParam := w.paramOwner(v); isParam {
		return false
	}
	found := false
	for _, file := range w.l.Files {
		if file.Pos() > v.Pos() || v.Pos() > file.End() {
			continue
		}
		ast.Inspect(file, func(n ast.Node) bool {
			g, ok := n.(*ast.GoStmt)
			if !ok {
				return true
			}
			lit, ok := g.Call.Fun.(*ast.FuncLit)
			if !ok {
				return true
			}
			// the close must be a top-level statement of the goroutine (plain or deferred)
			for _, st := range lit.Body.List {
				var call *ast.CallExpr
				switch st := st.(type) {
				case *ast.ExprStmt:
					call, _ = st.X.(*ast.CallExpr)
				case *ast.DeferStmt:
					call = st.Call
				}
				if call == nil || len(call.Args) != 1 {
					continue
				}
				fid, ok := unparenOnly(call.Fun).(*ast.Ident)
				if !ok {
					continue
				}
				if b, ok := w.l.Info.Uses[fid].(*types.Builtin); !ok || b.Name() != "close" {
					continue
				}
				if aid, ok := unparenOnly(call.Args[0]).(*ast.Ident); ok && w.l.Info.Uses[aid] == v {
					found = true
				}
			}
			return true
		})
	}
	return found
}

// bufferedChan: every value the channel expression can denote was made with a constant
// capacity >= 1.
func (w *waitAn) bufferedChan(e ast.Expr, depth int) bool {
	if depth > 6 {
		return false
	}
	e = unparenOnly(e)
	switch x := e.(type) {
	case *ast.CallExpr:
		id, ok := unparenOnly(x.Fun).(*ast.Ident)
		if !ok || len(x.Args) != 2 {
			return false
		}
		if b, ok := w.l.Info.Uses[id].(*types.Builtin); !ok || b.Name() != "make" {
			return false
		}
		tv, ok := w.l.Info.Types[x.Args[1]]
		if !ok || tv.Value == nil || tv.Value.Kind() != constant.Int {
			return false
		}
		c, ok := constant.Int64Val(tv.Value)
		return ok && c >= 1
	case *ast.Ident:
		v, ok := w.l.Info.Uses[x].(*types.Var)
		if !ok || v.IsField() || v.Parent() == w.l.Pkg.Scope() {
			return false
		}
		// a local: every assignment to it in the package's files
		srcs, complete := w.storesToLocal(v)
		if !complete || len(srcs) == 0 {
			return false
		}
		for _, s := range srcs {
			if !w.bufferedChan(s, depth+1) {
				return false
			}
		}
		return true
	case *ast.IndexExpr:
		// element of a map held in a struct field
		f := w.fieldOf(unparenOnly(x.X))
		if f == nil {
			return false
		}
		if _, ok := f.Type().Underlying().(*types.Map); !ok {
			return false
		}
		srcs, complete := w.storesToField(f, true)
		if !complete || len(srcs) == 0 {
			return false
		}
		for _, s := range srcs {
			if !w.bufferedChan(s, depth+1) {
				return false
			}
		}
		return true
	case *ast.SelectorExpr:
		f := w.fieldOf(x)
		if f == nil {
			return false
		}
		srcs, complete := w.storesToField(f, false)
		if !complete || len(srcs) == 0 {
			return false
		}
		for _, s := range srcs {
			if !w.bufferedChan(s, depth+1) {
				return false
			}
		}
		return true
	}
	return false
}

// storesToLocal: the right-hand sides assigned to the local v (complete = every definition was
// understood: one-to-one assignments, `v, ok := m[k]`, var declarations with a value).
func (w *waitAn) storesToLocal(v *types.Var) ([]ast.Expr, bool) {
	var out []ast.Expr
	complete := true
	isV := func(e ast.Expr) bool {
		id, ok := unparenOnly(e).(*ast.Ident)
		if !ok {
			return false
		}
		return w.l.Info.Defs[id] == v || w.l.Info.Uses[id] == v
	}
	for _, file := range w.l.Files {
		if file.Pos() > v.Pos() || v.Pos() > file.End() {
			continue
		}
		ast.Inspect(file, func(n ast.Node) bool {
			switch n := n.(type) {
			case *ast.AssignStmt:
				for i, l := range n.Lhs {
					if !isV(l) {
						continue
					}
					switch {
					case len(n.Lhs) == len(n.Rhs):
						out = append(out, n.Rhs[i])
					case len(n.Rhs) == 1 && i == 0:
						// v, ok := m[k] / v, ok := <-c
						if ix, ok := unparenOnly(n.Rhs[0]).(*ast.IndexExpr); ok {
							out = append(out, ix)
						} else {
							complete = false
						}
					default:
						complete = false
					}
				}
			case *ast.ValueSpec:
				for i, nm := range n.Names {
					if w.l.Info.Defs[nm] == v {
						if i < len(n.Values) {
							out = append(out, n.Values[i])
						} else {
							complete = false // zero value: a nil channel
						}
					}
				}
			case *ast.RangeStmt:
				if (n.Key != nil && isV(n.Key)) || (n.Value != nil && isV(n.Value)) {
					complete = false
				}
			case *ast.UnaryExpr:
				if n.Op == token.AND && isV(n.X) {
					complete = false
				}
			}
			return true
		})
	}
	if v.Pkg() != nil {
		// a parameter has no definition we can see
		if _, isParam := w.paramOwner(v); isParam {
			return nil, false
		}
	}
	return out, complete
}

func (w *waitAn) paramOwner(v *types.Var) (*types.Func, bool) {
	for fn := range w.decls {
		sig := fn.Type().(*types.Signature)
		for i := 0; i < sig.Params().Len(); i++ {
			if sig.Params().At(i) == v {
				return fn, true
			}
		}
		if sig.Recv() == v {
			return fn, true
		}
	}
	return nil, false
}

// storesToField: the values stored to the field f anywhere in the package (elem: the values
// stored to elements of the map f holds).
func (w *waitAn) storesToField(f *types.Var, elem bool) ([]ast.Expr, bool) {
	var out []ast.Expr
	complete := true
	for _, file := range w.l.Files {
		ast.Inspect(file, func(n ast.Node) bool {
			switch n := n.(type) {
			case *ast.AssignStmt:
				for i, l := range n.Lhs {
					l = unparenOnly(l)
					target := l
					if elem {
						ix, ok := l.(*ast.IndexExpr)
						if !ok {
							continue
						}
						target = unparenOnly(ix.X)
					}
					if w.fieldOf(target) != f {
						continue
					}
					if len(n.Lhs) == len(n.Rhs) && n.Tok == token.ASSIGN {
						out = append(out, n.Rhs[i])
					} else {
						complete = false
					}
				}
			case *ast.CompositeLit:
				for _, el := range n.Elts {
					kv, ok := el.(*ast.KeyValueExpr)
					if !ok {
						continue
					}
					k, ok := kv.Key.(*ast.Ident)
					if !ok || w.l.Info.Uses[k] != f {
						continue
					}
					if elem {
						// a map literal with elements would need its values looked at
						if cl, ok := unparenOnly(kv.Value).(*ast.CompositeLit); ok && len(cl.Elts) > 0 {
							complete = false
						}
					} else {
						out = append(out, kv.Value)
					}
				}
			case *ast.UnaryExpr:
				if n.Op == token.AND && w.fieldOf(unparenOnly(n.X)) == f {
					complete = false
				}
			}
			return true
		})
	}
	return out, complete
}

func leanChanOps(ops []chanOp, ok bool) string {
	var b strings.Builder
	b.WriteString("/-- channel operations that can run on the serve goroutine, per handler package:\n(package, operation, how the wait can end) -/\n")
	if !ok {
		b.WriteString("def serveChanOps : Option (List (String × String × String)) := none\n")
		return b.String()
	}
	b.WriteString("def serveChanOps : Option (List (String × String × String)) := some [")
	for i, o := range ops {
		if i > 0 {
			b.WriteString(",")
		}
		fmt.Fprintf(&b, "\n  (%q, %q, %q)", o.Pkg, o.Op, o.Kind)
	}
	b.WriteString("]\n/-! where (for the reader; not consumed):\n")
	for _, o := range ops {
		fmt.Fprintf(&b, "  %s:%d %s %s %s\n", o.File, o.Line, o.Fn, o.Op, o.Kind)
	}
	b.WriteString("-/\n")
	return b.String()
}

// leanRootChanOps: the same for the root package, walked from (*Session).Serve.
func leanRootChanOps(ops []chanOp, ok bool) string {
	var b strings.Builder
	b.WriteString("/-- channel operations of the root package that can run on the serve goroutine (walk from\n(*Session).Serve): (operation, how the wait can end) -/\n")
	if !ok {
		b.WriteString("def rootServeChanOps : Option (List (String × String)) := none\n")
		return b.String()
	}
	b.WriteString("def rootServeChanOps : Option (List (String × String)) := some [")
	for i, o := range ops {
		if i > 0 {
			b.WriteString(",")
		}
		fmt.Fprintf(&b, "\n  (%q, %q)", o.Op, o.Kind)
	}
	b.WriteString("]\n/-! where (for the reader; not consumed):\n")
	for _, o := range ops {
		fmt.Fprintf(&b, "  %s:%d %s %s %s\n", o.File, o.Line, o.Fn, o.Op, o.Kind)
	}
	b.WriteString("-/\n")
	return b.String()
}

// requestHelpers: the exported functions and methods of a package that (transitively, inside
// the package) wait for the peer's answer - the API surface a request helper case must cover.
func (w *waitAn) requestHelpers(fnName func(*ast.FuncDecl) string) []string {
	var out []string
	for fn, fd := range w.decls {
		if !fn.Exported() || !w.awaits[fn] {
			continue
		}
		if fd.Recv != nil {
			if n := derefNamed(fn.Type().(*types.Signature).Recv().Type()); n == nil || !n.Obj().Exported() {
				continue
			}
		}
		out = append(out, fnName(fd))
	}
	sort.Strings(out)
	return out
}

// exercisedHelpers is filled below; printed against the regenerated list in the evidence only
// (a coverage statement, consumed by no theorem: a renamed helper shows up as "not exercised").
var exercisedHelpers = func() map[string]bool {
	m := map[string]bool{}
	for _, n := range []string{
		// helper fixtures (fuzz.go helpers; X and XIQ share their code, the fixture calls XIQ)
		"blocklist.Add", "blocklist.Fetch", "blocklist.Remove", "blocklist.Report", "carbons.Enable", "carbons.Disable",
		"disco.FetchItems", "disco.GetInfo", "history.Fetch", "muc.GetConfig", "muc.SetConfig", "pubsub.CreateNode",
		"pubsub.Delete", "pubsub.Fetch", "pubsub.GetConfig", "pubsub.GetDefaultConfig", "pubsub.Publish", "pubsub.SetConfig",
		"roster.Delete", "roster.Fetch", "roster.Set", "upload.GetSlot", "version.Get",
	} {
		m[n], m[n+"IQ"] = true, true
	}
	for _, n := range []string{
		"commands.(Command).Execute", "commands.(Command).ExecuteIQ", "commands.(Command).ForEach", "disco.(*ItemIter).Next",
		"disco.WalkItem", "ping.Send", "xtime.Get",
		// scenarios (scen.go local calls)
		"ibb.(*Conn).Close", "ibb.(*Conn).Flush", "ibb.(*Conn).Write", "ibb.(*Handler).Open", "ibb.(*Handler).OpenIQ",
		"ibb.(*Handler).HandleIQ", "receipts.(*Handler).SendMessage", "receipts.(*Handler).SendMessageElement",
	} {
		m[n] = true
	}
	return m
}()
