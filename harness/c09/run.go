package c09

import "verifharness/common"

// Run is filled in below (fuzz.go).
func Run(r *common.Run) error { return run(r) }
