// Package c09 decides the correspondence / oracle half of property C09 ("no peer input can
// panic or wedge the library").
//
// Protocol lines:
//
//	exec <skeleton> <oracle> <fuel>      -> norm|brk|cont|ret|stuck|panic:<site>   primitive semantics vs real Go
//	flagged <skeleton>                   -> ok | flagged:<sites>                    the checker on a regenerated skeleton
//	serve <input-hex>                    -> ok | PANIC | STALL                      served session, mux with every handler
//	helper <name-hex> <type> <reply-hex> -> ok | PANIC | STALL                      request helper against a scripted reply
//	panicsite <skeleton> <site>          -> flagged | missed                        was an observed panic's site flagged?
//
// The model's answer to serve/helper lines is the theorem C09_library_never_panics +
// C09_serve_terminates: "ok" for every input.
package c09

import (
	"encoding/xml"
	"fmt"
	"go/token"
	"os"
	"strings"
	"time"

	"mellium.im/xmlstream"

	"verifharness/common"
)

// Run is the harness entry point for C09.
func Run(r *common.Run) error { return run(r) }

func run(r *common.Run) error {
	repo := os.Getenv("VERIF_REPO")
	if repo == "" {
		repo = "/repo"
	}
	c := &ctx{r: r, repo: repo, stalls: map[string]int{}}
	an, err := analyse(repo)
	if err != nil {
		r.Notes = append(r.Notes, "skeleton extraction failed: "+err.Error())
	} else {
		c.an = an
	}
	child, group, err := childFromEnv()
	if err != nil {
		return err
	}
	if child != nil {
		// child process: execute one group on the real library, report through the pipe files
		c.child = child
		defer child.results.Close()
		switch group {
		case "fuzz":
			c.corpus()
			c.paged()
			c.formRoundTrips()
			c.systematic()
			c.random()
		case "sizes":
			c.sizes()
		case "scen":
			c.scenarios(false)
		case "pending":
			c.scenarios(true)
		case "nego":
			c.negotiation()
		case "minimise":
			return c.minimise(os.Getenv("C09_MIN"))
		case "replay":
			lines, err := common.ReplayLines(os.Getenv("C09_REPLAYFILE"))
			if err != nil {
				return err
			}
			err = c.replay(lines)
			// goroutines the library started may still be running: a late panic must hit
			// this process, not go unnoticed
			time.Sleep(300 * time.Millisecond)
			return err
		default:
			return fmt.Errorf("unknown child group %q", group)
		}
		return nil
	}
	if r.Replay != "" {
		return c.runChild("replay", "C09_REPLAYFILE="+r.Replay)
	}
	c.primitives()
	c.skeletons()
	r.Exhaustive = append(r.Exhaustive, "every single-step mutation (noise child at every position, every attribute dropped/emptied/garbled, every child dropped, every element stripped) of every stanza template and every reply template")
	// the groups are independent (each child builds its own sessions): run them side by side,
	// longest first; their records are merged in this order whatever the scheduling was
	return c.runGroups([]string{"fuzz", "scen", "nego", "sizes", "pending"})
}

// primitives ties the kind semantics of the skeleton IR to real Go on the whole finite
// domain: every dynamic token kind against every single-value assertion, every comma-ok test,
// and the nil-ness of Iter.Current() for a child of every kind.
func (c *ctx) primitives() {
	r := c.r
	r.Mark("case primitives")
	toks := []xml.Token{nil, xml.StartElement{Name: xml.Name{Local: "a"}}, xml.EndElement{Name: xml.Name{Local: "a"}},
		xml.CharData("x"), xml.Comment("c"), xml.ProcInst{Target: "t"}, xml.Directive("d")}
	asserts := []func(xml.Token) bool{
		nil,
		func(t xml.Token) bool { _, ok := t.(xml.StartElement); return ok },
		func(t xml.Token) bool { _, ok := t.(xml.EndElement); return ok },
		func(t xml.Token) bool { _, ok := t.(xml.CharData); return ok },
		func(t xml.Token) bool { _, ok := t.(xml.Comment); return ok },
		func(t xml.Token) bool { _, ok := t.(xml.ProcInst); return ok },
		func(t xml.Token) bool { _, ok := t.(xml.Directive); return ok },
	}
	unchecked := []func(xml.Token){
		nil,
		func(t xml.Token) { _ = t.(xml.StartElement) },
		func(t xml.Token) { _ = t.(xml.EndElement) },
		func(t xml.Token) { _ = t.(xml.CharData) },
		func(t xml.Token) { _ = t.(xml.Comment) },
		func(t xml.Token) { _ = t.(xml.ProcInst) },
		func(t xml.Token) { _ = t.(xml.Directive) },
	}
	for k, tok := range toks {
		for T := 1; T <= 6; T++ {
			// unchecked assertion
			sk := seq(havoc(0, tokTop), require(0, 1<<T, 1))
			obs := "norm"
			if guard(func() { unchecked[T](tok) }).panicMsg != "" {
				obs = "panic:1"
			}
			r.Line(fmt.Sprintf("exec %s %d 9", sk.Encode(), k), obs)
			// comma-ok / type switch
			sk2 := seq(havoc(0, tokTop), ifKind(0, 1<<T, ret(), brk()))
			obs = "brk"
			if asserts[T](tok) {
				obs = "ret"
			}
			r.Line(fmt.Sprintf("exec %s %d 9", sk2.Encode(), k), obs)
			r.Case(fmt.Sprintf("prim %d %d", k, T), true, "primitive")
		}
		// tok == nil
		sk3 := seq(havoc(0, tokTop), ifKind(0, kNil, ret(), brk()))
		obs := "brk"
		if tok == nil {
			obs = "ret"
		}
		r.Line(fmt.Sprintf("exec %s %d 9", sk3.Encode(), k), obs)
	}
	// Iter.Current(): nil start exactly for non-element children
	children := [][]xml.Token{
		{xml.StartElement{Name: xml.Name{Local: "a"}}, xml.EndElement{Name: xml.Name{Local: "a"}}},
		{xml.CharData(" ")}, {xml.Comment("c")}, {xml.ProcInst{Target: "t"}}, {xml.Directive("d")},
	}
	for i, ch := range children {
		var rd []xml.TokenReader
		for _, t := range ch {
			rd = append(rd, xmlstream.Token(t))
		}
		it := xmlstream.NewIter(xmlstream.MultiReader(rd...))
		orc := 0 // kind nil
		if it.Next() {
			if st, _ := it.Current(); st != nil {
				orc = 7 // kind ptr
			}
		}
		want := 0
		if i == 0 {
			want = 7
		}
		sk := seq(havoc(0, ptrTop), require(0, kPtr, 2))
		obs := "norm"
		if orc != 7 {
			obs = "panic:2"
		}
		r.Line(fmt.Sprintf("exec %s %d 9", sk.Encode(), want), obs)
		r.Case(fmt.Sprintf("current %d", i), true, "primitive")
	}
	// length classes: every comparison len(x) op c the translator interprets, and every
	// constant index / low slice bound, against real Go on slices of length 0..9
	for length := 0; length <= 9; length++ {
		sl := make([]int, length)
		class := length
		if class > 7 {
			class = 7
		}
		for c := int64(0); c <= 8; c++ {
			for _, op := range []token.Token{token.EQL, token.NEQ, token.LSS, token.LEQ, token.GTR, token.GEQ} {
				mask, ok := LenGuardMask(op, c)
				if !ok {
					continue
				}
				var holds bool
				switch op {
				case token.EQL:
					holds = len(sl) == int(c)
				case token.NEQ:
					holds = len(sl) != int(c)
				case token.LSS:
					holds = len(sl) < int(c)
				case token.LEQ:
					holds = len(sl) <= int(c)
				case token.GTR:
					holds = len(sl) > int(c)
				case token.GEQ:
					holds = len(sl) >= int(c)
				}
				obs := "brk"
				if holds {
					obs = "ret"
				}
				r.Line(fmt.Sprintf("exec %s %d 9", seq(havoc(0, 0xFF), ifKind(0, mask, ret(), brk())).Encode(), class), obs)
			}
			if c <= 6 {
				obs := "norm"
				if guard(func() { _ = sl[c] }).panicMsg != "" {
					obs = "panic:4"
				}
				r.Line(fmt.Sprintf("exec %s %d 9", seq(havoc(0, 0xFF), require(0, maskGE(c+1), 4)).Encode(), class), obs)
			}
			if c <= 7 {
				obs := "norm"
				if guard(func() { _ = sl[c:] }).panicMsg != "" {
					obs = "panic:5"
				}
				r.Line(fmt.Sprintf("exec %s %d 9", seq(havoc(0, 0xFF), require(0, maskGE(c), 5)).Encode(), class), obs)
			}
		}
		r.Case(fmt.Sprintf("lenclass %d", length), true, "primitive")
	}
	r.Exhaustive = append(r.Exhaustive, "length classes: len(x) op c for op in ==,!=,<,<=,>,>= and c in 0..8 (where interpreted), x[c], x[c:] on slices of length 0..9")
	r.Exhaustive = append(r.Exhaustive, "7 dynamic token kinds x 6 assertion targets (unchecked, comma-ok) + nil test; Iter.Current() nil-ness for a child of each of the 5 token classes")
}

// skeletons sends every regenerated non-trivial skeleton through the compiled checker.
func (c *ctx) skeletons() {
	if c.an == nil {
		return
	}
	r := c.r
	r.Mark("case skeletons")
	n, triv := 0, 0
	for _, f := range c.an.Funcs {
		if !f.Skel.effectful() {
			triv++
			continue
		}
		n++
		r.Line("flagged "+f.Skel.Encode(), "ok")
		r.Case("skel "+f.Name+" "+f.Skel.Encode(), true, "skeleton")
	}
	sites := map[string]string{}
	for _, s := range c.an.Sites {
		if s.Kind != "loop" {
			sites[fmt.Sprint(s.ID)] = s.String()
		}
	}
	var trusted, derivedSites []string
	for _, d := range c.an.Derived {
		derivedSites = append(derivedSites, d.Fn+" "+d.Kind+" "+d.Expr)
	}
	r.Extra["derived_sites"] = derivedSites
	for _, e := range c.an.Allow.entries {
		if e.derived {
			continue // re-derived on every run; the sites it covered are listed in derived_sites
		}
		trusted = append(trusted, fmt.Sprintf("%s %s %s (used %d) | %s", e.fn, e.kind, e.desc, e.used, e.why))
		if e.used == 0 {
			r.Notes = append(r.Notes, "allow.txt entry matches nothing any more: "+e.fn+" "+e.kind+" "+e.desc)
		}
	}
	r.Extra["functions_in_scope"] = len(c.an.Funcs)
	r.Extra["functions_without_partial_operation"] = triv
	r.Extra["skeletons_checked"] = n
	r.Extra["sites"] = sites
	r.Extra["allow_list"] = trusted
	var gos []string
	for _, g := range c.an.Gos {
		gos = append(gos, fmt.Sprintf("%s:%d %s waits-afterwards=%v", g.File, g.Line, g.Fn, g.Joined))
	}
	r.Extra["goroutines_started_in_scope"] = gos
	var chans []string
	for _, o := range c.an.ChanOps {
		chans = append(chans, fmt.Sprintf("%s:%d %s %s %s", o.File, o.Line, o.Fn, o.Op, o.Kind))
	}
	r.Extra["channel_operations_on_serve_goroutine"] = chans
	// request helpers of the API (exported, wait for the peer's answer) against what the
	// helper fixtures and the scenarios call
	var notRun []string
	for _, h := range c.an.RequestHelpers {
		if !exercisedHelpers[h] {
			notRun = append(notRun, h)
		}
	}
	r.Extra["request_helpers_in_scope"] = len(c.an.RequestHelpers)
	r.Extra["request_helpers_not_exercised"] = notRun
	r.Extra["may_return_nil_with_nil_error"] = c.an.MayNil
	r.Extra["generated_files_skipped"] = c.an.Generated
	r.Extra["files_left_to_other_properties"] = c.an.Skipped
}

// witnesses of past findings: always run first.
var corpusServe = []string{
	`<message from="a@b/c" id="m2"> <received xmlns="urn:xmpp:receipts" id="m0"/></message>`,
	`<message from="me@example.net" type="chat"> <received xmlns="urn:xmpp:carbons:2"/></message>`,
	`<message from="example.net"> <result xmlns="urn:xmpp:mam:2" queryid="q1"/></message>`,
	`<iq type="set" id="b2"><block xmlns="urn:xmpp:blocking"><item/></block></iq>`,
	`<iq type="set" id="b2"><block xmlns="urn:xmpp:blocking"><item jid="@@"/></block></iq>`,
	`<iq type="set" id="b2"><block xmlns="urn:xmpp:blocking"> <item jid="a@b"/></block></iq>`,
	`<iq type="set" id="b3"><unblock xmlns="urn:xmpp:blocking">x</unblock></iq>`,
}

var corpusHelper = [][3]string{
	{"UnmarshalIQ", "result", `text`},
	{"UnmarshalIQ", "error", ` ` + errPayload},
	{"IterIQ", "error", `x` + errPayload},
	{"commands.Execute", "result", `text`},
	{"commands.Execute", "result", ``},
	{"xtime.Get", "result", ` <time xmlns="urn:xmpp:time"/>`},
	// a token the stream reader rejects in the middle of an iterated result: the iterator's
	// Close used to leave the response open and Serve blocked for ever
	{"roster.Fetch", "result", `<query xmlns="jabber:iq:roster"><item jid="a@b"><!--c--></item><item jid="c@d"/></query>`},
	{"disco.FetchItems", "result", `<query xmlns="http://jabber.org/protocol/disco#items"><item jid="a.example.net"><?pi x?></item></query>`},
	{"commands.Fetch", "result", `<query xmlns="http://jabber.org/protocol/disco#items"><item jid="a.example.net"/><!--c--><item jid="b.example.net"/></query>`},
	{"blocklist.Fetch", "result", `<blocklist xmlns="urn:xmpp:blocking"><item jid="a@b"/><!--c--></blocklist>`},
	{"bookmarks.Fetch", "result", `<pubsub xmlns="http://jabber.org/protocol/pubsub"><items node="urn:xmpp:bookmarks:1"><item id="a@b"><!--c--></item></items></pubsub>`},
	{"pubsub.Fetch", "result", `<pubsub xmlns="http://jabber.org/protocol/pubsub"><items node="n"><item id="i1"/><?pi x?></items></pubsub>`},
	// the same wedge, minimised with the delta-debugging tool (min.go) from three random
	// witnesses: a rejected token inside a child the iterator has already handed out
	{"commands.Fetch", "result", `<query xmlns="jabber:iq:roster"><item xmlns="http://jabber.org/protocol/muc#user"><!--c--></item></query>`},
	{"disco.WalkItem", "result", `<query xmlns="http://jabber.org/protocol/disco#items"><item xmlns="urn:xmpp:mam:2"><?pi x?></item></query>`},
	{"bookmarks.Fetch", "result", `<open xmlns="http://jabber.org/protocol/ibb"><x xmlns=""><!--c--></x></open>`},
	// the follow-up page request is answered with an error
	{"disco.FetchItems", "result", `<query xmlns="http://jabber.org/protocol/disco#items"><item jid="a.example.net"/><set xmlns="http://jabber.org/protocol/rsm"><first>a</first><last>b</last></set></query>`},
	{"commands.Execute", "error", errPayload},
}

func (c *ctx) corpus() {
	c.r.Mark("case corpus")
	for _, s := range corpusServe {
		c.serve(s, "corpus")
	}
	for _, h := range corpusHelper {
		c.helper(helperByName(h[0]), h[1], h[2], "corpus")
	}
}

// rsmSet: a result-set-management trailer; last == "" and !empty = no trailer at all.
func rsmSet(first, last string, empty bool) string {
	if last == "" && !empty {
		return ""
	}
	s := `<set xmlns="http://jabber.org/protocol/rsm">`
	if first != "" {
		s += `<first index="0">` + first + `</first>`
	}
	if last != "" {
		s += `<last>` + last + `</last>`
	} else {
		s += `<last/>`
	}
	return s + `<count>9</count></set>`
}

func itemsPage(node string, jids []string, trailer string) string {
	s := `<query xmlns="http://jabber.org/protocol/disco#items"`
	if node != "" {
		s += ` node="` + node + `"`
	}
	s += `>`
	for _, j := range jids {
		s += `<item jid="` + j + `" node="n` + j[:1] + `" name="x"/>`
	}
	return s + trailer + `</query>`
}

func pubsubPage(ids []string, trailer string) string {
	s := `<pubsub xmlns="http://jabber.org/protocol/pubsub"><items node="n">`
	for _, id := range ids {
		s += `<item id="` + id + `"><conference xmlns="urn:xmpp:bookmarks:1" name="R"/></item>`
	}
	return s + `</items>` + trailer + `</pubsub>`
}

// paged: multi-page results (RSM) for every iterator that can turn pages, with a peer that
// answers every request: 2–3 pages, last page with an empty <last/>, without a trailer, and a
// peer that always announces another page; every single-step mutation of the second page.
func (c *ctx) paged() {
	c.r.Mark("case paged")
	type gen func(k int, trailer string) string
	its := []struct {
		helper string
		page   gen
	}{
		{"disco.FetchItems", func(k int, t string) string {
			return itemsPage("", []string{fmt.Sprintf("a%d.example.net", k), fmt.Sprintf("b%d.example.net", k)}, t)
		}},
		{"disco.WalkItem", func(k int, t string) string {
			return itemsPage("", []string{fmt.Sprintf("a%d.example.net", k)}, t)
		}},
		{"commands.Fetch", func(k int, t string) string {
			return itemsPage("http://jabber.org/protocol/commands", []string{fmt.Sprintf("c%d.example.net", k)}, t)
		}},
		{"pubsub.Fetch", func(k int, t string) string {
			return pubsubPage([]string{fmt.Sprintf("i%d", k), fmt.Sprintf("j%d", k)}, t)
		}},
		{"bookmarks.Fetch", func(k int, t string) string {
			return pubsubPage([]string{fmt.Sprintf("room%d@conf.example", k)}, t)
		}},
	}
	for _, it := range its {
		h := helperByName(it.helper)
		more := func(k int) string { return it.page(k, rsmSet(fmt.Sprintf("f%d", k), fmt.Sprintf("l%d", k), false)) }
		sets := [][]string{
			{more(1), it.page(2, "")},
			{more(1), more(2), it.page(3, "")},
			{more(1), it.page(2, rsmSet("f2", "", true))},
			{more(1), more(2), it.page(3, rsmSet("", "", true))},
			{more(1)}, // always another page: cut off by the peer's item-not-found
			{more(1), `<query xmlns="http://jabber.org/protocol/disco#items"/>`},
			{more(1), ``},
			{more(1), ` ` + it.page(2, "")},
		}
		for _, pages := range sets {
			c.helperp(h, "result", pages, "paged")
		}
		single(parse(it.page(2, rsmSet("f2", "l2", false))), nil, func(m *node, class string) {
			c.helperp(h, "result", []string{more(1), m.String(), it.page(3, "")}, "paged-single-"+class)
		})
	}
	// ad-hoc command conversations: executing -> next / prev / complete / cancel, an error or
	// garbage at every step
	cmd := func(status, extra string) string {
		return `<command xmlns="http://jabber.org/protocol/commands" sessionid="s1" node="list" status="` + status + `"` + extra + `><actions execute="next"><prev/><next/><complete/></actions><x xmlns="jabber:x:data" type="form"><field var="a"><value>v</value></field></x></command>`
	}
	ex, done, canc := cmd("executing", ""), cmd("completed", ""), cmd("canceled", "")
	convs := [][]string{
		{ex, ex, done}, {ex, done}, {ex, canc}, {done}, {canc}, {ex}, {ex, errorPageMark + errPayload}, {errorPageMark + errPayload},
		{ex, ex, errorPageMark + errPayload}, {ex, `text`}, {ex, ``}, {ex, cmd("", "")}, {ex, cmd("bogus", "")},
		{ex, `<command xmlns="http://jabber.org/protocol/commands" status="canceled"/>`},
		{ex, `<command xmlns="http://jabber.org/protocol/commands" status="executing"/>`, canc},
		{cmd("executing", ` xml:lang="en"`), ex, ex, ex, ex, ex},
	}
	for _, h := range helpers {
		if !strings.HasPrefix(h.name, "commands.ForEach.") && h.name != "commands.ExecuteChain" {
			continue
		}
		for _, conv := range convs {
			c.helperp(h, "result", conv, "command-conversation")
		}
		single(parse(canc), nil, func(m *node, class string) {
			c.helperp(h, "result", []string{ex, m.String()}, "command-single-"+class)
		})
	}
	// history: the fin reply carries the paging trailer
	hf := helperByName("history.Fetch")
	for _, fin := range []string{
		`<fin xmlns="urn:xmpp:mam:2">` + rsmSet("a", "b", false) + `</fin>`,
		`<fin xmlns="urn:xmpp:mam:2" complete="true">` + rsmSet("", "", true) + `</fin>`,
	} {
		c.helperp(hf, "result", []string{fin, fin}, "paged")
	}
}

// sizeList: peer-input sizes that straddle the buffers and limits of the code (4 KiB bufio,
// 64 KiB block size / uint16, the 256 KiB ibb read buffer, 1 MiB).
func (c *ctx) sizeList() []int {
	if c.r.Quick() {
		return []int{0, 1, 4097, 65535, 65536, 65537, 98304, 262145, 1 << 20}
	}
	return []int{0, 1, 4095, 4096, 4097, 65534, 65535, 65536, 65537, 98304, 196608, 262143, 262144, 262145, 1 << 20}
}

// sized returns copies of the tree in which one peer-controlled datum has the given size: the
// first text node (character data of that size; created in the innermost first element if
// the template has none) and the first attribute of the payload element.
func sized(root *node, n int) []*node {
	var out []*node
	blob := strings.Repeat("A", n)
	// text
	t := root.clone()
	var setText func(e *node) bool
	setText = func(e *node) bool {
		for _, ch := range e.children {
			if ch.kind == nText {
				ch.text = blob
				return true
			}
		}
		for _, ch := range e.children {
			if ch.kind == nElem && setText(ch) {
				return true
			}
		}
		return false
	}
	if !setText(t) {
		es := t.elems()
		deepest := es[len(es)-1]
		deepest.children = append(deepest.children, &node{kind: nText, text: blob})
	}
	out = append(out, t)
	// attribute of the payload element (second element of the tree, if any)
	a := root.clone()
	if es := a.elems(); len(es) > 1 {
		e := es[1]
		if len(e.attrs) > 0 {
			e.attrs[0][1] = blob
		} else {
			e.attrs = append(e.attrs, [2]string{"id", blob})
		}
		out = append(out, a)
	}
	return out
}

// sizes: payload / attribute / text size as a generator dimension for every handler and every
// helper, and for data packets of an open ibb stream.
func (c *ctx) sizes() {
	c.r.Mark("case sizes")
	for _, seqT := range stanzaTemplates {
		for i := range seqT {
			root := parse(seqT[i])
			for _, n := range c.sizeList() {
				for _, m := range sized(root, n) {
					parts := make([]string, len(seqT))
					for j := range seqT {
						parts[j] = parse(seqT[j]).String()
					}
					parts[i] = m.String()
					c.serve(strings.Join(parts, ""), "size")
				}
			}
		}
	}
	for _, h := range helpers {
		for _, t := range h.templates {
			if t == "" {
				continue
			}
			root := parse("<w xmlns=\"jabber:client\">" + t + "</w>")
			for _, n := range c.sizeList() {
				for _, m := range sized(root, n) {
					var b strings.Builder
					for _, ch := range m.children {
						ch.write(&b, "jabber:client")
					}
					c.helper(h, "result", b.String(), "size")
				}
			}
		}
	}
}

var keepStanza = map[string]bool{"type": true, "id": true}

// systematic: every single-step mutation of every template (small scope, exhaustive).
func (c *ctx) systematic() {
	c.r.Mark("case systematic")
	budget := c.r.Pick(1, 1)
	_ = budget
	for _, seqT := range stanzaTemplates {
		// unmutated sequence first
		c.serve(strings.Join(seqT, ""), "template")
		for i := range seqT {
			root := parse(seqT[i])
			single(root, keepStanza, func(m *node, class string) {
				parts := append([]string(nil), seqT...)
				parts[i] = m.String()
				c.serve(strings.Join(parts, ""), "single-"+class)
			})
		}
	}
	// local faults: the connection's Write fails from every write index on; the application
	// closes the session at every point of the stanza script
	for _, seqT := range stanzaTemplates {
		var st []string
		for _, s := range seqT {
			st = append(st, parse(s).String())
		}
		w := c.servex("w", 1<<20, st, "fault-none") // clean run: counts the writes
		if w > 12 {
			w = 12
		}
		for k := 0; k < w; k++ {
			c.servex("w", k, st, "fault-write")
		}
		for k := 0; k <= len(st); k++ {
			c.servex("c", k, st, "fault-close")
		}
	}
	for _, h := range helpers {
		for _, t := range h.templates {
			c.helper(h, "result", t, "template")
			c.helper(h, "error", errPayload, "template")
			if t != "" {
				single(parse(t), nil, func(m *node, class string) {
					c.helper(h, "result", m.String(), "single-"+class)
				})
			}
			for _, pre := range []string{" ", "x", "<!--c-->", "<y xmlns='urn:example'/>"} {
				c.helper(h, "result", pre+t, "lead")
				c.helper(h, "error", pre+errPayload, "lead")
				c.helper(h, "result", t+pre, "trail")
			}
		}
		single(parse(errPayload), nil, func(m *node, class string) {
			c.helper(h, "error", m.String(), "err-single-"+class)
		})
	}
}

// random: multi-step mutations of the templates and free-form stanzas.
func (c *ctx) random() {
	c.r.Mark("case random")
	rnd := c.r.Rnd
	nServe := c.r.Pick(1500, 12000)
	for i := 0; i < nServe; i++ {
		var parts []string
		for k := 1 + rnd.Intn(3); k > 0; k-- {
			if rnd.Chance(2, 3) {
				seqT := pick(rnd, stanzaTemplates)
				for _, s := range seqT {
					root := parse(s)
					for m := rnd.Intn(4); m > 0; m-- {
						mutate(rnd, root, keepStanza)
					}
					parts = append(parts, root.String())
				}
			} else {
				root := &node{kind: nElem, space: "jabber:client", local: pick(rnd, []string{"iq", "iq", "message", "presence"})}
				root.attrs = dedupAttrs([][2]string{{"type", pick(rnd, attrValues)}, {"id", pick(rnd, attrValues)}, {"from", pick(rnd, attrValues)}})
				for j := rnd.Intn(4); j > 0; j-- {
					if rnd.Chance(3, 4) {
						root.children = append(root.children, genElem(rnd, 2))
					} else {
						root.children = append(root.children, genNoise(rnd))
					}
				}
				parts = append(parts, root.String())
			}
		}
		in := strings.Join(parts, "")
		switch rnd.Intn(12) {
		case 0:
			in += "</stream:stream>"
		case 1:
			in = in[:rnd.Intn(len(in)+1)] // truncated input
		case 2:
			in += "<"
		}
		if rnd.Chance(1, 5) {
			if rnd.Bool() {
				c.servex("w", rnd.Intn(6), parts, "random-fault-write")
			} else {
				c.servex("c", rnd.Intn(len(parts)+1), parts, "random-fault-close")
			}
			continue
		}
		c.serve(in, "random")
	}
	nHelp := c.r.Pick(700, 6000)
	for i := 0; i < nHelp; i++ {
		h := pick(rnd, helpers)
		var b strings.Builder
		typ := "result"
		if rnd.Chance(1, 4) {
			typ = "error"
		}
		for k := rnd.Intn(3); k >= 0; k-- {
			switch {
			case rnd.Chance(1, 2) && h.templates[0] != "":
				root := parse(pick(rnd, h.templates))
				for m := rnd.Intn(4); m > 0; m-- {
					mutate(rnd, root, nil)
				}
				b.WriteString(root.String())
			case typ == "error" && rnd.Bool():
				root := parse(errPayload)
				for m := rnd.Intn(3); m > 0; m-- {
					mutate(rnd, root, nil)
				}
				b.WriteString(root.String())
			case rnd.Chance(1, 3):
				b.WriteString(genNoise(rnd).String())
			default:
				b.WriteString(genElem(rnd, 2).String())
			}
		}
		c.helper(h, typ, b.String(), "random")
	}
}
