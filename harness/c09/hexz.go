package c09

import (
	"encoding/hex"
	"fmt"
	"strconv"
	"strings"
)

// Run-length hex for the byte-string fields of serve / helper lines.  The size dimension feeds
// stanzas of up to 1 MiB whose bulk is one repeated byte; written as plain hex every such case
// costs 2 MiB in cases.txt, in the child's record and in the driver's input (the quick tier
// moved > 600 MB that way).  Format: segments joined by '.', each either plain hex or
// `<hh>x<count>` (count >= minRun repetitions of byte hh); plain hex is a valid one-segment
// value, so old replay files still parse.  `-` is the empty string.
const minRun = 64

func hexz(s string) string {
	if len(s) == 0 {
		return "-"
	}
	var segs []string
	lit := 0 // start of the pending literal
	for i := 0; i < len(s); {
		j := i + 1
		for j < len(s) && s[j] == s[i] {
			j++
		}
		if j-i >= minRun {
			if i > lit {
				segs = append(segs, hex.EncodeToString([]byte(s[lit:i])))
			}
			segs = append(segs, fmt.Sprintf("%02xx%d", s[i], j-i))
			lit = j
		}
		i = j
	}
	if lit < len(s) {
		segs = append(segs, hex.EncodeToString([]byte(s[lit:])))
	}
	return strings.Join(segs, ".")
}

func unhexz(f string) ([]byte, error) {
	if f == "-" {
		return nil, nil
	}
	var out []byte
	for _, seg := range strings.Split(f, ".") {
		if i := strings.IndexByte(seg, 'x'); i >= 0 {
			b, err := hex.DecodeString(seg[:i])
			n, err2 := strconv.Atoi(seg[i+1:])
			if err != nil || err2 != nil || len(b) != 1 || n < 0 || n > 1<<26 {
				return nil, fmt.Errorf("bad run-length hex segment %q", seg)
			}
			for k := 0; k < n; k++ {
				out = append(out, b[0])
			}
			continue
		}
		b, err := hex.DecodeString(seg)
		if err != nil {
			return nil, err
		}
		out = append(out, b...)
	}
	return out, nil
}
