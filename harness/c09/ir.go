package c09

import (
	"fmt"
	"strconv"
	"strings"
)

// Kind bits — the numbering of XmppModel.Skeleton.Kind (Kind.toNat).
const (
	kNil = 1 << iota
	kStart
	kStop
	kChars
	kComment
	kProcInst
	kDirective
	kPtr

	tokTop = kNil | kStart | kStop | kChars | kComment | kProcInst | kDirective
	ptrTop = kNil | kPtr
)

var kindNames = []string{".nil", ".start", ".stop", ".chars", ".comment", ".procInst", ".directive", ".ptr"}

// Stmt is the Go-side mirror of XmppModel.Skeleton.Stmt plus `block` (see Skeleton.lean).
type Stmt struct {
	Op   string // k s h c r i o l b R B C z   (b = block)
	X, Y int
	Mask int
	Site int
	A, B *Stmt
}

func skip() *Stmt { return &Stmt{Op: "k"} }
func seq(a, b *Stmt) *Stmt {
	if a == nil || a.Op == "k" {
		return b
	}
	if b == nil || b.Op == "k" {
		return a
	}
	// statements after an unconditional exit are unreachable
	if a.Op == "R" || a.Op == "B" || a.Op == "C" {
		return a
	}
	return &Stmt{Op: "s", A: a, B: b}
}
func seqs(l ...*Stmt) *Stmt {
	r := skip()
	for i := len(l) - 1; i >= 0; i-- {
		r = seq(l[i], r)
	}
	return r
}
func havoc(x, mask int) *Stmt         { return &Stmt{Op: "h", X: x, Mask: mask} }
func cp(x, y int) *Stmt               { return &Stmt{Op: "c", X: x, Y: y} }
func require(x, mask, site int) *Stmt { return &Stmt{Op: "r", X: x, Mask: mask, Site: site} }
func ifKind(x, mask int, t, e *Stmt) *Stmt {
	if t.Op == "k" && e.Op == "k" {
		return skip()
	}
	return &Stmt{Op: "i", X: x, Mask: mask, A: t, B: e}
}
func choice(a, b *Stmt) *Stmt {
	if a.equal(b) {
		return a
	}
	return &Stmt{Op: "o", A: a, B: b}
}
func loop(site int, body *Stmt) *Stmt { return &Stmt{Op: "l", Site: site, A: body} }
func block(body *Stmt) *Stmt {
	if !body.hasExit("B") {
		return body
	}
	return &Stmt{Op: "b", A: body}
}
func ret() *Stmt            { return &Stmt{Op: "R"} }
func brk() *Stmt            { return &Stmt{Op: "B"} }
func cont() *Stmt           { return &Stmt{Op: "C"} }
func hazard(site int) *Stmt { return &Stmt{Op: "z", Site: site} }

func (s *Stmt) equal(t *Stmt) bool {
	if s == nil || t == nil {
		return s == t
	}
	if s.Op != t.Op || s.X != t.X || s.Y != t.Y || s.Mask != t.Mask || s.Site != t.Site {
		return false
	}
	return s.A.equal(t.A) && s.B.equal(t.B)
}

// hasExit reports whether a free `break` ("B") or `continue` ("C") occurs (one that is not
// caught by an enclosing loop / block inside s).
func (s *Stmt) hasExit(op string) bool {
	if s == nil {
		return false
	}
	switch s.Op {
	case op:
		return true
	case "l":
		return false // a loop catches both
	case "b":
		if op == "B" {
			return false
		}
	}
	return s.A.hasExit(op) || s.B.hasExit(op)
}

// effectful reports whether the subtree contains an operation on tracked values or a hazard.
func (s *Stmt) effectful() bool {
	if s == nil {
		return false
	}
	switch s.Op {
	case "h", "c", "r", "i", "z":
		return true
	}
	return s.A.effectful() || s.B.effectful()
}

func (s *Stmt) hasOp(op string) bool {
	if s == nil {
		return false
	}
	return s.Op == op || s.A.hasOp(op) || s.B.hasOp(op)
}

// simplify replaces subtrees without any effectful operation by the choice of their possible
// exits (an over-approximation of their control behaviour: sound for "never panics").
func simplify(s *Stmt) *Stmt {
	if s == nil {
		return nil
	}
	if !s.effectful() {
		switch s.Op {
		case "k", "R", "B", "C":
			return s
		}
		var opts []*Stmt
		// a loop may not terminate, anything may return
		if s.hasOp("R") || s.hasOp("l") {
			opts = append(opts, ret())
		}
		if s.hasExit("B") {
			opts = append(opts, brk())
		}
		if s.hasExit("C") {
			opts = append(opts, cont())
		}
		r := skip()
		for _, o := range opts {
			r = choice(r, o)
		}
		return r
	}
	n := *s
	n.A, n.B = simplify(s.A), simplify(s.B)
	switch n.Op {
	case "s":
		return seq(n.A, n.B)
	case "o":
		return choice(n.A, n.B)
	case "i":
		return ifKind(n.X, n.Mask, n.A, n.B)
	case "b":
		return block(n.A)
	}
	return &n
}

// Encode writes the dotted prefix notation understood by Skeleton.decode.  `block` has no
// counterpart in that notation before it was added: it is "b".
func (s *Stmt) Encode() string {
	var sb []string
	s.enc(&sb)
	return strings.Join(sb, ".")
}

func (s *Stmt) enc(out *[]string) {
	it := strconv.Itoa
	switch s.Op {
	case "k", "R", "B", "C":
		*out = append(*out, s.Op)
	case "s", "o":
		*out = append(*out, s.Op)
		s.A.enc(out)
		s.B.enc(out)
	case "h":
		*out = append(*out, "h", it(s.X), it(s.Mask))
	case "c":
		*out = append(*out, "c", it(s.X), it(s.Y))
	case "r":
		*out = append(*out, "r", it(s.X), it(s.Mask), it(s.Site))
	case "i":
		*out = append(*out, "i", it(s.X), it(s.Mask))
		s.A.enc(out)
		s.B.enc(out)
	case "l":
		*out = append(*out, "l", it(s.Site))
		s.A.enc(out)
	case "b":
		*out = append(*out, "b")
		s.A.enc(out)
	case "z":
		*out = append(*out, "z", it(s.Site))
	default:
		panic("c09: bad op " + s.Op)
	}
}

func leanKs(mask int) string {
	var l []string
	for i, n := range kindNames {
		if mask&(1<<i) != 0 {
			l = append(l, n)
		}
	}
	return "[" + strings.Join(l, ", ") + "]"
}

// Lean renders the statement as a term of XmppModel.Skeleton.Stmt (with `open Stmt`).
func (s *Stmt) Lean() string {
	switch s.Op {
	case "k":
		return "skip"
	case "R":
		return "ret"
	case "B":
		return "brk"
	case "C":
		return "cont"
	case "s":
		return fmt.Sprintf("(seq %s %s)", s.A.Lean(), s.B.Lean())
	case "o":
		return fmt.Sprintf("(choice %s %s)", s.A.Lean(), s.B.Lean())
	case "h":
		return fmt.Sprintf("(havoc %d %s)", s.X, leanKs(s.Mask))
	case "c":
		return fmt.Sprintf("(copy %d %d)", s.X, s.Y)
	case "r":
		return fmt.Sprintf("(require %d %s %d)", s.X, leanKs(s.Mask), s.Site)
	case "i":
		return fmt.Sprintf("(ifKind %d %s %s %s)", s.X, leanKs(s.Mask), s.A.Lean(), s.B.Lean())
	case "l":
		return fmt.Sprintf("(loop %d %s)", s.Site, s.A.Lean())
	case "b":
		return fmt.Sprintf("(block %s)", s.A.Lean())
	case "z":
		return fmt.Sprintf("(hazard %d)", s.Site)
	}
	panic("c09: bad op " + s.Op)
}

func (s *Stmt) size() int {
	if s == nil {
		return 0
	}
	return 1 + s.A.size() + s.B.size()
}
