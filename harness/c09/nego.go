package c09

import (
	"context"
	"encoding/base64"
	"fmt"
	"regexp"
	"runtime"
	"strings"
	"time"

	"mellium.im/sasl"
	"mellium.im/xmpp"
	"mellium.im/xmpp/jid"

	"verifharness/common"
	nc "verifharness/negcommon"
)

// SASL negotiation against a hostile peer, through the public entry points
// (xmpp.NewSession / xmpp.ReceiveSession with the real mellium.im/sasl mechanisms) on a
// scripted connection:
//
//	nego <c|s> <mechanism,…> <chunk;chunk;…>   -> ok | PANIC | STALL
//
// c = the library is the initiating entity (the chunks are what the server sends: stream
// header + features, then one chunk per SASL step), s = the receiving entity.  Each chunk
// (hex) is delivered when the library asks for more input; input ends after the last one.
// A negotiation that is still running after the watchdog is a STALL; the key of that
// failure names the innermost mellium.im frame of the stuck goroutine.

var mechByName = map[string]sasl.Mechanism{
	"PLAIN": sasl.Plain, "ANONYMOUS": sasl.Anonymous,
	"SCRAM-SHA-1": sasl.ScramSha1, "SCRAM-SHA-1-PLUS": sasl.ScramSha1Plus,
	"SCRAM-SHA-256": sasl.ScramSha256, "SCRAM-SHA-256-PLUS": sasl.ScramSha256Plus,
}

const saslNS = "urn:ietf:params:xml:ns:xmpp-sasl"

func negoCase(role string, mechNames []string, chunks [][]byte) (o outcome, stuckIn string) {
	var mechs []sasl.Mechanism
	for _, n := range mechNames {
		m, ok := mechByName[n]
		if !ok {
			return outcome{panicMsg: "harness: unknown mechanism " + n}, ""
		}
		mechs = append(mechs, m)
	}
	var cs []nc.Chunk
	for _, c := range chunks {
		cs = append(cs, nc.Chunk{Static: c})
	}
	conn := nc.NewConn(cs...)
	var feat xmpp.StreamFeature
	if role == "s" {
		feat = xmpp.SASLServer(func(*sasl.Negotiator) bool { return true }, mechs...)
	} else {
		feat = xmpp.SASL("user", "pencil", mechs...)
	}
	neg := xmpp.NewNegotiator(func(*xmpp.Session, *xmpp.StreamConfig) xmpp.StreamConfig {
		return xmpp.StreamConfig{Features: []xmpp.StreamFeature{feat}}
	})
	done := make(chan outcome, 1)
	go func() {
		done <- guard(func() { negoRun(role, conn, neg) })
	}()
	select {
	case o := <-done:
		return o, ""
	case <-time.After(wd()):
		return outcome{stalled: true, where: "session negotiation did not return although the peer's input had ended"}, stuckFrame()
	}
}

// negoRun is a separate function so that the stuck goroutine can be found by name.
func negoRun(role string, conn *nc.Conn, neg xmpp.Negotiator) {
	ctx, cancel := context.WithTimeout(context.Background(), wd()/2)
	defer cancel()
	if role == "s" {
		_, _ = xmpp.ReceiveSession(ctx, conn, xmpp.Secure, neg)
	} else {
		_, _ = xmpp.NewSession(ctx, jid.MustParse("example.net"), jid.MustParse("user@example.net"), conn, xmpp.Secure, neg)
	}
}

var melliumFrame = regexp.MustCompile(`(?m)^(mellium\.im/(?:sasl|xmpp)[^\s(]*(?:\([^)]*\))?[^\s(]*)\(`)

// stuckFrame names where the goroutine that runs negoRun is stuck, in a form that does not
// depend on the instant of the sample: the innermost frame of the library itself and the
// entry point of the dependency it called (e.g.
// "mellium.im/xmpp.negotiateClient>mellium.im/sasl.(*Negotiator).Step").
func stuckFrame() string {
	buf := make([]byte, 1<<20)
	buf = buf[:runtime.Stack(buf, true)]
	for _, g := range strings.Split(string(buf), "\n\n") {
		if !strings.Contains(g, "c09.negoRun") {
			continue
		}
		frames := melliumFrame.FindAllStringSubmatch(g, -1)
		for i, m := range frames {
			if strings.HasPrefix(m[1], "mellium.im/xmpp") {
				if i > 0 {
					return m[1] + ">" + frames[i-1][1]
				}
				return m[1]
			}
		}
	}
	return "?"
}

func b64(s string) string { return base64.StdEncoding.EncodeToString([]byte(s)) }

func srvFeatures(mechs ...string) string {
	var b strings.Builder
	b.WriteString(nc.Header("jabber:client", "sid1", "example.net", "") + `<stream:features><mechanisms xmlns='` + saslNS + `'>`)
	for _, m := range mechs {
		b.WriteString(`<mechanism>` + m + `</mechanism>`)
	}
	b.WriteString(`</mechanisms></stream:features>`)
	return b.String()
}

func challenge(payloadB64 string) string {
	return `<challenge xmlns='` + saslNS + `'>` + payloadB64 + `</challenge>`
}

func auth(mech, payloadB64 string) string {
	return `<auth xmlns='` + saslNS + `' mechanism='` + mech + `'>` + payloadB64 + `</auth>`
}

func response(payloadB64 string) string {
	return `<response xmlns='` + saslNS + `'>` + payloadB64 + `</response>`
}

type negoWitness struct {
	role   string
	mechs  string
	chunks []string
}

var cliHeader = nc.Header("jabber:client", "", "", "example.net")

// negoCorpus: the two dependency findings reported by the C03 builder, then ordinary runs.
var negoCorpus = []negoWitness{
	// server-first message without a well-formed last field: scramClientNext never leaves its loop
	{"c", "SCRAM-SHA-1", []string{srvFeatures("SCRAM-SHA-1"), challenge("AQ==")}},
	// a client selects a configured -PLUS mechanism: scramServerNext panicked
	{"s", "SCRAM-SHA-1-PLUS,SCRAM-SHA-1", []string{cliHeader, auth("SCRAM-SHA-1-PLUS", b64("n,,n=user,r=fyko+d2lbbFgONRv9qkxdawL"))}},
	{"s", "SCRAM-SHA-256-PLUS", []string{cliHeader, auth("SCRAM-SHA-256-PLUS", b64("p=tls-unique,,n=user,r=abc"))}},
	{"s", "SCRAM-SHA-1", []string{cliHeader, auth("SCRAM-SHA-1", b64("n,,n=user,r=fyko+d2lbbFgONRv9qkxdawL")), response(b64("c=biws,r=x,p=AAAA"))}},
	{"s", "PLAIN", []string{cliHeader, auth("PLAIN", b64("\x00user\x00pencil"))}},
	{"s", "PLAIN", []string{cliHeader, auth("NOPE", "="), auth("PLAIN", "AA")}},
	{"c", "PLAIN", []string{srvFeatures("PLAIN"), `<success xmlns='` + saslNS + `'/>`}},
	{"c", "SCRAM-SHA-1", []string{srvFeatures("SCRAM-SHA-1"), challenge(b64("r=fyko,s=QSXCR+Q6sek8bf92,i=4096")), challenge(b64("v=AAAA"))}},
	{"c", "SCRAM-SHA-1,PLAIN", []string{srvFeatures("SCRAM-SHA-1-PLUS", "X-UNKNOWN"), challenge("!!!!")}},
}

var (
	mechRe = regexp.MustCompile(`<mechanism>([^<]*)</mechanism>`)
	stepRe = regexp.MustCompile(`^<(challenge|success) xmlns='` + saslNS + `'>([^<]*)</(?:challenge|success)>$`)
)

// serverFirstOf: the bytes the real SCRAM client is going to parse as server-first message
// (nil if the conversation does not get there): the client selects its first mechanism the
// server advertises; if that is a SCRAM mechanism and the server's first step is a challenge
// (or a success with a payload) whose payload sasl.go can decode, the mechanism parses it.
func serverFirstOf(w negoWitness) []byte {
	if w.role != "c" || len(w.chunks) < 2 {
		return nil
	}
	adv := map[string]bool{}
	for _, m := range mechRe.FindAllStringSubmatch(w.chunks[0], -1) {
		adv[m[1]] = true
	}
	sel := ""
	for _, m := range strings.Split(w.mechs, ",") {
		if adv[m] {
			sel = m
			break
		}
	}
	if !strings.HasPrefix(sel, "SCRAM-") {
		return nil
	}
	m := stepRe.FindStringSubmatch(w.chunks[1])
	if m == nil {
		return nil
	}
	b, err := base64.StdEncoding.DecodeString(m[2])
	if err != nil || len(b) == 0 {
		return nil
	}
	return b
}

func (c *ctx) nego(w negoWitness, class string) {
	var hexes []string
	var chunks [][]byte
	for _, ch := range w.chunks {
		hexes = append(hexes, common.HexS(ch))
		chunks = append(chunks, []byte(ch))
	}
	line := "nego " + w.role + " " + w.mechs + " " + strings.Join(hexes, ";") + " " + common.Hex(serverFirstOf(w))
	if c.stalls["nego"] >= 2 || !c.begin(line) {
		return
	}
	var stuck string
	o := retryStalled(func() outcome {
		var oo outcome
		oo, stuck = negoCase(w.role, strings.Split(w.mechs, ","), chunks)
		return oo
	})
	if o.stalled {
		c.stalls["nego"]++
		// a stuck negotiation keeps its goroutine (and, for a busy loop, a core) until the
		// child exits: the key names where it is stuck
		r := rec{Lines: [][2]string{{line, "STALL"}}, Canon: line, Class: class + ":STALL",
			Fail: &recFail{Clause: "no-wedge", Key: "stall:nego:" + stuck, Lines: []string{c.r.Prop + " " + line},
				Detail: "still running after " + wd().String() + ": " + o.where + "; stuck in " + stuck}}
		c.emit(r)
		return
	}
	c.record(line, o, class)
}

// negotiation: corpus, then random SASL conversations.  The generator keeps the *last* field
// of a SCRAM server-first message well-formed and the iteration count small: a malformed last
// field is the known busy loop (it would mask everything behind it), an enormous iteration
// count is a legitimate (if unwise) amount of PBKDF2 work.
func (c *ctx) negotiation() {
	for _, w := range negoCorpus {
		c.nego(w, "nego-corpus")
	}
	rnd := c.r.Rnd
	fields := []string{"r=fyko+d2lbbFgONRv9qkxdawL", "r=", "s=QSXCR+Q6sek8bf92", "s=!!!", "s=", "i=4096", "i=1", "i=0", "i=-1", "i=x", "m=ext", "x", "", "=", "r", "v=AAAA", "e=other-error", "c=biws", "p=AAAA", "n=user", "n=", "a=admin"}
	gs2 := []string{"n,,", "y,,", "p=tls-unique,,", "n,a=admin,", "", "x,,", ",,"}
	n := c.r.Pick(120, 1200)
	for i := 0; i < n; i++ {
		msg := func(last []string) string {
			var fs []string
			for k := rnd.Intn(4); k > 0; k-- {
				fs = append(fs, pick(rnd, fields))
			}
			fs = append(fs, pick(rnd, last))
			return strings.Join(fs, ",")
		}
		payload := func(s string) string {
			switch rnd.Intn(8) {
			case 0:
				return "="
			case 1:
				return "!!" + b64(s)
			case 2:
				return ""
			}
			return b64(s)
		}
		if rnd.Bool() {
			mech := pick(rnd, []string{"SCRAM-SHA-1", "SCRAM-SHA-256", "PLAIN", "SCRAM-SHA-1,PLAIN"})
			adv := strings.Split(mech, ",")
			if rnd.Chance(1, 4) {
				adv = append(adv, pick(rnd, []string{"SCRAM-SHA-1-PLUS", "X-OTHER", ""}))
			}
			chunks := []string{srvFeatures(adv...)}
			for k := rnd.Intn(3); k >= 0; k-- {
				switch rnd.Intn(6) {
				case 0:
					chunks = append(chunks, `<success xmlns='`+saslNS+`'>`+payload(msg([]string{"v=AAAA"}))+`</success>`)
				case 1:
					chunks = append(chunks, `<failure xmlns='`+saslNS+`'><not-authorized/></failure>`)
				default:
					chunks = append(chunks, challenge(payload(msg([]string{"i=4096", "r=fyko+d2lbbFgONRv9qkxdawL", "s=QSXCR+Q6sek8bf92", "v=AAAA"}))))
				}
			}
			c.nego(negoWitness{"c", mech, chunks}, "nego-client")
		} else {
			conf := pick(rnd, []string{"SCRAM-SHA-1", "SCRAM-SHA-256,SCRAM-SHA-1", "PLAIN", "SCRAM-SHA-1-PLUS,SCRAM-SHA-1", "SCRAM-SHA-256-PLUS,PLAIN", "ANONYMOUS"})
			sel := pick(rnd, append(strings.Split(conf, ","), "SCRAM-SHA-1-PLUS", "NOPE", ""))
			chunks := []string{cliHeader, auth(sel, payload(pick(rnd, gs2)+msg([]string{"r=abc", "n=user", "x"})))}
			for k := rnd.Intn(3); k > 0; k-- {
				if rnd.Chance(1, 6) {
					chunks = append(chunks, `<abort xmlns='`+saslNS+`'/>`)
				} else {
					chunks = append(chunks, response(payload(msg([]string{"p=AAAA", "c=biws", "r=abc"}))))
				}
			}
			c.nego(negoWitness{"s", conf, chunks}, "nego-server")
		}
	}
}

var _ = fmt.Sprint
