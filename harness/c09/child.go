package c09

import (
	"bufio"
	"bytes"
	"context"
	"encoding/json"
	"fmt"
	"os"
	"os/exec"
	"path/filepath"
	"strconv"
	"strings"
	"sync"
	"time"
)

// Process isolation.  Everything that executes the real library runs in a child process
// (`harness run C09 …` started again with C09_CHILD=<group> in the environment): a panic in a
// goroutine the library itself starts cannot be recovered and would otherwise end the check
// as a machinery failure.  The child
//
//   - writes the protocol line of the case it is about to execute to C09_CURRENT (index and
//     line, rewritten before every case),
//   - appends one JSON record per finished case to C09_RESULTS (flushed per case).
//
// The parent merges the records into its own Run.  If the child dies, the case named in
// C09_CURRENT is reported as an oracle failure (`no-panic`, observation PANIC, the panic
// message and innermost library frame taken from the child's stderr) and the child is
// restarted behind that case (C09_SKIP).

// rec is one finished case as the child reports it.
type rec struct {
	Lines [][2]string `json:"lines"` // protocol line, observation
	Canon string      `json:"canon"`
	Class string      `json:"class"`
	Fail  *recFail    `json:"fail,omitempty"`
}

type recFail struct {
	Clause string   `json:"clause"`
	Key    string   `json:"key"`
	Lines  []string `json:"lines"`
	Detail string   `json:"detail"`
}

// childOut is the child's side of the pipe.
type childOut struct {
	results *os.File
	current string
	skip    int
	n       int
	recent  []string // the last few case lines (a goroutine the library started may crash late)
}

func childFromEnv() (*childOut, string, error) {
	g := os.Getenv("C09_CHILD")
	if g == "" {
		return nil, "", nil
	}
	f, err := os.OpenFile(os.Getenv("C09_RESULTS"), os.O_CREATE|os.O_WRONLY|os.O_APPEND, 0o644)
	if err != nil {
		return nil, "", err
	}
	skip, _ := strconv.Atoi(os.Getenv("C09_SKIP"))
	return &childOut{results: f, current: os.Getenv("C09_CURRENT"), skip: skip}, g, nil
}

// begin announces the case that is about to run; false = the case lies before the restart
// point and must not be executed again.
func (c *ctx) begin(line string) bool {
	if c.child == nil {
		return true
	}
	idx := c.child.n
	c.child.n++
	if idx < c.child.skip {
		return false
	}
	c.child.recent = append(c.child.recent, line)
	if len(c.child.recent) > 4 {
		c.child.recent = c.child.recent[1:]
	}
	// first line: the running case; following lines: the cases before it, newest first
	var b strings.Builder
	b.WriteString(strconv.Itoa(idx) + "\t" + line + "\n")
	for i := len(c.child.recent) - 2; i >= 0; i-- {
		b.WriteString("prev\t" + c.child.recent[i] + "\n")
	}
	_ = os.WriteFile(c.child.current, []byte(b.String()), 0o644)
	return true
}

func (c *ctx) emit(r rec) {
	if c.child != nil {
		b, _ := json.Marshal(r)
		_, _ = c.child.results.Write(append(b, '\n'))
		return
	}
	c.merge(r)
}

// merge replays one record into the Run.
func (c *ctx) merge(r rec) {
	for _, l := range r.Lines {
		c.r.Line(l[0], l[1])
	}
	c.r.Case(r.Canon, true, r.Class)
	if r.Fail != nil {
		c.r.Fail(r.Fail.Clause, r.Fail.Key, r.Fail.Lines, r.Fail.Detail)
	}
}

const childRestarts = 8

// groupOut is what one group of cases reported, kept apart until every group has finished so
// that the merged streams have the same order on every run whatever the scheduling was.
type groupOut struct {
	recs  []rec
	notes []string
}

// maxParallelGroups bounds the child processes running side by side (the machine is shared).
const maxParallelGroups = 3

// runGroups executes the groups in child processes of their own, at most maxParallelGroups at
// a time, and merges their records in the order the groups were given.
func (c *ctx) runGroups(groups []string) error {
	outs := make([]groupOut, len(groups))
	errs := make([]error, len(groups))
	sem := make(chan struct{}, maxParallelGroups)
	var wg sync.WaitGroup
	for i, g := range groups {
		wg.Add(1)
		go func(i int, g string) {
			defer wg.Done()
			sem <- struct{}{}
			defer func() { <-sem }()
			errs[i] = c.runChildTo(g, &outs[i])
		}(i, g)
	}
	wg.Wait()
	for i, g := range groups {
		c.r.Mark("case " + g)
		for _, r := range outs[i].recs {
			c.merge(r)
		}
		c.r.Notes = append(c.r.Notes, outs[i].notes...)
		if errs[i] != nil {
			return errs[i]
		}
	}
	return nil
}

// runChild executes one group of cases in child processes and merges what they report.
func (c *ctx) runChild(group string, extraEnv ...string) error {
	var out groupOut
	err := c.runChildTo(group, &out, extraEnv...)
	for _, r := range out.recs {
		c.merge(r)
	}
	c.r.Notes = append(c.r.Notes, out.notes...)
	return err
}

// runChildTo is runChild collecting into out instead of the Run (safe to call from several
// goroutines for different groups).
func (c *ctx) runChildTo(group string, gout *groupOut, extraEnv ...string) error {
	dir := filepath.Join(c.r.Dir, "child-"+group)
	if err := os.MkdirAll(dir, 0o755); err != nil {
		return err
	}
	results := filepath.Join(dir, "results.jsonl")
	current := filepath.Join(dir, "current.txt")
	_ = os.Remove(results)
	var offset int64
	skip := 0
	for attempt := 0; ; attempt++ {
		_ = os.Remove(current)
		cx, cancel := context.WithTimeout(context.Background(), 40*time.Minute)
		cmd := exec.CommandContext(cx, os.Args[0], "run", c.r.Prop, "-tier", c.r.Tier, "-seed", strconv.FormatUint(c.r.Seed, 10),
			"-work", filepath.Join(dir, "w"))
		cmd.Env = append(os.Environ(), "C09_CHILD="+group, "C09_RESULTS="+results, "C09_CURRENT="+current, "C09_SKIP="+strconv.Itoa(skip))
		cmd.Env = append(cmd.Env, extraEnv...)
		var stderr tailBuffer
		cmd.Stderr = &stderr
		cmd.Stdout = &stderr
		err := cmd.Run()
		cancel()
		// merge the records the child managed to write
		if f, e := os.Open(results); e == nil {
			_, _ = f.Seek(offset, 0)
			sc := bufio.NewScanner(f)
			sc.Buffer(make([]byte, 1<<20), 1<<26)
			for sc.Scan() {
				var r rec
				if json.Unmarshal(sc.Bytes(), &r) == nil {
					gout.recs = append(gout.recs, r)
				}
				offset += int64(len(sc.Bytes())) + 1
			}
			f.Close()
		}
		if err == nil {
			return nil
		}
		cur, _ := os.ReadFile(current)
		curLines := strings.Split(strings.TrimSpace(string(cur)), "\n")
		parts := strings.SplitN(curLines[0], "\t", 2)
		if len(parts) != 2 {
			return fmt.Errorf("child %s failed before its first case: %v: %s", group, err, stderr.String())
		}
		idx, _ := strconv.Atoi(parts[0])
		line := parts[1]
		out := stderr.String()
		// A goroutine the library started may die after its case has ended: find the culprit
		// among the last cases by running each alone (with a settle time before the child
		// exits), oldest first.
		if group != "replay" && group != "attrib" {
			var cands []string
			for i := len(curLines) - 1; i >= 1; i-- {
				if p := strings.SplitN(curLines[i], "\t", 2); len(p) == 2 {
					cands = append(cands, p[1])
				}
			}
			cands = append(cands, line)
			for _, cand := range cands {
				if crashed, o2 := c.crashesAlone(group, cand); crashed {
					line, out = cand, o2
					break
				}
			}
		}
		fn, file, ln := panicLocation(out, c.repo)
		msg := "child process died: " + err.Error()
		if i := strings.Index(out, "panic: "); i >= 0 {
			msg = strings.SplitN(out[i:], "\n", 2)[0]
		} else if i := strings.Index(out, "fatal error: "); i >= 0 {
			msg = strings.SplitN(out[i:], "\n", 2)[0]
		}
		detail := fmt.Sprintf("unrecovered %s at %s:%d in %s (goroutine started by the library; the harness child process died)", msg, file, ln, fn)
		if len(detail) > 700 {
			detail = detail[:700] + "…"
		}
		gout.recs = append(gout.recs, rec{Lines: [][2]string{{line, "PANIC"}}, Canon: line, Class: "crash:PANIC",
			Fail: &recFail{Clause: "no-panic", Key: "panic:" + fn, Lines: []string{c.r.Prop + " " + line}, Detail: detail}})
		skip = idx + 1
		if attempt >= childRestarts {
			gout.notes = append(gout.notes, fmt.Sprintf("group %s: gave up after %d child crashes; the cases behind index %d were not run", group, attempt+1, idx))
			return nil
		}
	}
}

// crashesAlone runs one case line in a child of its own and reports whether that child died.
func (c *ctx) crashesAlone(group, line string) (bool, string) {
	dir := filepath.Join(c.r.Dir, "child-attrib-"+group)
	_ = os.MkdirAll(dir, 0o755)
	rf := filepath.Join(dir, "replay.json")
	b, _ := json.Marshal(map[string][]string{"case": {c.r.Prop + " " + line}})
	if os.WriteFile(rf, b, 0o644) != nil {
		return false, ""
	}
	cx, cancel := context.WithTimeout(context.Background(), 2*time.Minute)
	defer cancel()
	cmd := exec.CommandContext(cx, os.Args[0], "run", c.r.Prop, "-tier", c.r.Tier, "-seed", strconv.FormatUint(c.r.Seed, 10),
		"-work", filepath.Join(dir, "w"))
	cmd.Env = append(os.Environ(), "C09_CHILD=replay", "C09_REPLAYFILE="+rf, "C09_RESULTS="+filepath.Join(dir, "results.jsonl"),
		"C09_CURRENT="+filepath.Join(dir, "current.txt"), "C09_SKIP=0")
	var stderr tailBuffer
	cmd.Stderr = &stderr
	cmd.Stdout = &stderr
	err := cmd.Run()
	return err != nil && cx.Err() == nil, stderr.String()
}

// tailBuffer keeps the first 64 KiB written to it (a Go crash prints the panic first).
type tailBuffer struct{ b bytes.Buffer }

func (t *tailBuffer) Write(p []byte) (int, error) {
	if room := 1<<16 - t.b.Len(); room > 0 {
		if len(p) > room {
			t.b.Write(p[:room])
		} else {
			t.b.Write(p)
		}
	}
	return len(p), nil
}

func (t *tailBuffer) String() string { return t.b.String() }
