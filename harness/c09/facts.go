package c09

import (
	_ "embed"
	"fmt"
	"go/ast"
	"go/token"
	"os"
	"sort"
	"strings"
)

const modPath = "mellium.im/xmpp"

// scope: the packages whose functions are skeletonised (import path relative to the module),
// with an optional file filter.  These are the packages of the property's anchor files plus
// the sibling files of the same parsers (blocklist/handler.go, carbons/handler.go,
// muc/options.go, disco/items.go, paging, …).  form/form.go and disco/info.go belong to
// C19/C20 (DESIGN §3) and are left to their checks.
var scope = map[string]func(file string) bool{
	"":                 only("session.go", "session_iq.go", "session_message.go", "session_presence.go", "handler.go"),
	"mux":              nil,
	"ibb":              nil,
	"history":          nil,
	"receipts":         nil,
	"muc":              nil,
	"disco":            except("disco/info.go"),
	"disco/items":      nil,
	"commands":         nil,
	"roster":           nil,
	"pubsub":           nil,
	"blocklist":        nil,
	"bookmarks":        nil,
	"carbons":          nil,
	"forward":          nil,
	"xtime":            nil,
	"version":          nil,
	"ping":             nil,
	"upload":           nil,
	"stanza":           nil,
	"stream":           nil,
	"paging":           nil,
	"delay":            nil,
	"oob":              nil,
	"internal/stream":  nil,
	"internal/marshal": nil,
	"internal/attr":    nil,
}

func only(names ...string) func(string) bool {
	return func(f string) bool {
		for _, n := range names {
			if f == n {
				return true
			}
		}
		return false
	}
}

func except(names ...string) func(string) bool {
	return func(f string) bool {
		for _, n := range names {
			if f == n {
				return false
			}
		}
		return true
	}
}

//go:embed allow.txt
var allowText string

type allowEntry struct {
	fn, kind, desc, why string
	used                int
	// derived: not reviewed by hand but re-derived from the source on this very run by the
	// registered range analysis (derive.go); such an entry names whatever the function and
	// its operands are called today
	derived bool
}

// allowList: reviewed partial operations the skeleton treats as non-faulting.  One per line:
//
//	<function> <kind> <desc-prefix or *> | <justification>
type allowList struct{ entries []*allowEntry }

func parseAllow(text string) (*allowList, error) {
	al := &allowList{}
	for n, line := range strings.Split(text, "\n") {
		line = strings.TrimSpace(line)
		if line == "" || strings.HasPrefix(line, "#") {
			continue
		}
		parts := strings.SplitN(line, "|", 2)
		if len(parts) != 2 || strings.TrimSpace(parts[1]) == "" {
			return nil, fmt.Errorf("allow.txt:%d: missing justification", n+1)
		}
		fs := strings.Fields(parts[0])
		if len(fs) < 3 {
			return nil, fmt.Errorf("allow.txt:%d: want <function> <kind> <desc-prefix>", n+1)
		}
		al.entries = append(al.entries, &allowEntry{fn: fs[0], kind: fs[1], desc: strings.Join(fs[2:], " "), why: strings.TrimSpace(parts[1])})
	}
	return al, nil
}

func (a *allowList) covers(fn, kind, desc string) bool {
	ok, _ := a.coversD(fn, kind, desc)
	return ok
}

// coversReviewed consults the hand-written entries only: where the verified IR can decide an
// operation itself (constant index into a length-tracked local) a derived entry must not
// replace that proof.
func (a *allowList) coversReviewed(fn, kind, desc string) bool {
	for _, e := range a.entries {
		if !e.derived && e.fn == fn && e.kind == kind && (e.desc == "*" || strings.HasPrefix(desc, e.desc)) {
			e.used++
			return true
		}
	}
	return false
}

// coversD is covers that also says whether the covering entry was derived on this run.
// Derived entries are consulted first, so a hand-written entry that has become derivable
// shows up as unused.
func (a *allowList) coversD(fn, kind, desc string) (ok, derived bool) {
	for _, want := range []bool{true, false} {
		for _, e := range a.entries {
			if e.derived == want && e.fn == fn && e.kind == kind && (e.desc == "*" || strings.HasPrefix(desc, e.desc)) {
				e.used++
				return true, e.derived
			}
		}
	}
	return false, false
}

// funcSkel is the regenerated skeleton of one function.
type funcSkel struct {
	Name  string // e.g. receipts.(*Handler).HandleMessage, session_iq.unmarshalIQ$1 for literals
	File  string
	Line  int
	End   int
	Skel  *Stmt
	NVars int
}

type analysis struct {
	Funcs   []*funcSkel
	Sites   []siteInfo
	Allow   *allowList
	Skipped []string
	// Generated: files with a "Code generated … DO NOT EDIT." header (not skeletonised)
	Generated []string
	// Locks: lock discipline of session.go (only when the root package is in scope)
	Locks    []lockFact
	HasLocks bool
	// HandlerLocks: the same classification for every Lock() of the handler packages (the
	// packages that have wait-for sets): kinds only, no names are consumed
	HandlerLocks []lockFact
	// RootChanOps: channel operations of the root package reachable from (*Session).Serve
	RootChanOps []chanOp
	HasRootOps  bool
	// Responses: how every response a function obtains is disposed of (respfacts.go)
	Responses []respFact
	// Closes: every close(ch) in scope (closefacts.go)
	Closes []closeFact
	// Gos: every go statement in scope (gofacts.go)
	Gos []goFact
	// Accepted: size-dependent partial operations accepted by an idiom or the allow list
	Accepted []acceptedSite
	// Derived: index / slice operations accepted because the range analysis proved them in
	// range on this run (not pinned: they are re-proved whenever the source changes)
	Derived []acceptedSite
	// MayNil: functions (FullName#result) that may return a nil pointer / interface with a nil error
	MayNil []string
	// HeldSends: handler-package mutexes held across a write to the session (lockfacts.go)
	HeldSends []heldSend
	// Cancels: context.With… calls and whether `defer cancel()` follows at once (gofacts.go)
	Cancels []cancelFact
	// Pages: iterators that turn pages (gofacts.go)
	Pages []pageTurn
	// Waits: per handler package, mutexes held across a wait for the peer / taken on the serve
	// goroutine (waitfacts.go)
	Waits []*waitFact
	// ChanOps: channel operations on the serve goroutine (chanfacts.go)
	ChanOps []chanOp
	// RequestHelpers: exported functions of the handler / helper packages that wait for the
	// peer's answer (chanfacts.go requestHelpers)
	RequestHelpers []string
}

func recvName(fd *ast.FuncDecl) string {
	if fd.Recv == nil || len(fd.Recv.List) == 0 {
		return ""
	}
	t := fd.Recv.List[0].Type
	star := ""
	if s, ok := t.(*ast.StarExpr); ok {
		star = "*"
		t = s.X
	}
	switch tt := t.(type) {
	case *ast.Ident:
		return "(" + star + tt.Name + ")."
	case *ast.IndexExpr:
		if id, ok := tt.X.(*ast.Ident); ok {
			return "(" + star + id.Name + ")."
		}
	}
	return "(?)."
}

// analyse regenerates the skeletons of every function in scope from the source under repo.
func analyse(repo string) (*analysis, error) { return analyseScopeDerived(repo, scope, allowText, Derive) }

// analyseScope is analyse for an arbitrary set of packages / files and allow list.
func analyseScope(repo string, scope map[string]func(file string) bool, allowText string) (*analysis, error) {
	return analyseScopeDerived(repo, scope, allowText, nil)
}

// analyseScopeDerived: derive (may be nil) sees the type-checked packages and returns further
// allow entries that it proved on this run (derive.go).
func analyseScopeDerived(repo string, scope map[string]func(file string) bool, allowText string, derive DeriveFunc) (*analysis, error) {
	al, err := parseAllow(allowText)
	if err != nil {
		return nil, err
	}
	fset := token.NewFileSet()
	pkgs, err := load(repo, fset, func(path string) bool {
		rel := strings.TrimPrefix(strings.TrimPrefix(path, modPath), "/")
		_, ok := scope[rel]
		return ok && (path == modPath || strings.HasPrefix(path, modPath+"/"))
	})
	if err != nil {
		return nil, err
	}
	if derive != nil {
		extra, err := derive(fset, loadedPackages(pkgs, scope))
		if err != nil {
			return nil, fmt.Errorf("derived allow entries: %v", err)
		}
		dl, err := parseAllow(extra)
		if err != nil {
			return nil, fmt.Errorf("derived allow entries: %v", err)
		}
		for _, e := range dl.entries {
			// only arithmetic-guarded index / slice operations can be derived; anything else
			// would be a way around the reviewed list
			if e.kind != "index" && e.kind != "slice" || e.desc == "*" {
				return nil, fmt.Errorf("derived allow entry of kind %q (%s %s)", e.kind, e.fn, e.desc)
			}
			e.derived = true
			al.entries = append(al.entries, e)
		}
	}
	an := &analysis{Allow: al}
	summaries := mayNilSummaries(pkgs, func(name string) bool { return al.covers(name, "maynil-callee", "*") })
	for name, ks := range summaries {
		for k := range ks {
			an.MayNil = append(an.MayNil, fmt.Sprintf("%s#%d", name, k))
		}
	}
	sort.Strings(an.MayNil)
	seen := map[string]bool{}
	for _, l := range pkgs {
		rel := strings.TrimPrefix(strings.TrimPrefix(l.Path, modPath), "/")
		seen[rel] = true
		filter := scope[rel]
		x := &xl{fset: fset, l: l, repo: repo, sites: &an.Sites, allow: al, ctorMaps: ctorMapFields(l), mayNil: summaries, acceptedOut: &an.Accepted, derivedOut: &an.Derived}
		if rel == "" {
			an.Locks = lockFactsOf(l, only("session.go"), fset)
			an.HasLocks = true
			_, rops, _ := waitFactsOfEntries(l, fset, rootServeEntries)
			for i := range rops {
				rops[i].File = strings.TrimPrefix(strings.TrimPrefix(rops[i].File, repo), "/")
			}
			an.RootChanOps = rops
			an.HasRootOps = true
		}
		an.Responses = append(an.Responses, respFactsOf(l, scope[rel], fset)...)
		an.Closes = append(an.Closes, closeFactsOf(l, scope[rel], func(n ast.Node) int { return fset.Position(n.Pos()).Line })...)
		an.Gos = append(an.Gos, goFactsOf(l, scope[rel], fset)...)
		an.Pages = append(an.Pages, pageTurnsOf(l, scope[rel])...)
		an.Cancels = append(an.Cancels, cancelFactsOf(l, scope[rel])...)
		if rel != "" {
			an.HeldSends = append(an.HeldSends, heldAcrossSend(l, scope[rel])...)
			wf, ops, helpers := waitFactsOfX(l, fset)
			if wf != nil {
				an.Waits = append(an.Waits, wf)
				an.HandlerLocks = append(an.HandlerLocks, lockFactsOf(l, func(n string) bool { return !strings.HasSuffix(n, "_test.go") }, fset)...)
			}
			for i := range ops {
				ops[i].File = strings.TrimPrefix(strings.TrimPrefix(ops[i].File, repo), "/")
			}
			an.ChanOps = append(an.ChanOps, ops...)
			an.RequestHelpers = append(an.RequestHelpers, helpers...)
		}
		pkgName := l.Pkg.Name()
		for i, file := range l.Files {
			if filter != nil && !filter(l.Names[i]) {
				an.Skipped = append(an.Skipped, l.Names[i])
				continue
			}
			if ast.IsGenerated(file) {
				// stringer output: its table lookups are guarded by the generated range test
				an.Generated = append(an.Generated, l.Names[i])
				continue
			}
			for _, d := range file.Decls {
				fd, ok := d.(*ast.FuncDecl)
				if !ok || fd.Body == nil {
					continue
				}
				base := pkgName + "." + recvName(fd) + fd.Name.Name
				di := x.declFacts(fd)
				add := func(name string, ft *ast.FuncType, recv *ast.FieldList, body *ast.BlockStmt) {
					sk, nv := x.translateFunc(name, di, ft, recv, body)
					p := fset.Position(body.Pos())
					an.Funcs = append(an.Funcs, &funcSkel{Name: name, File: l.Names[i], Line: p.Line,
						End: fset.Position(body.End()).Line, Skel: sk, NVars: nv})
				}
				add(base, fd.Type, fd.Recv, fd.Body)
				n := 0
				ast.Inspect(fd.Body, func(m ast.Node) bool {
					if fl, ok := m.(*ast.FuncLit); ok {
						n++
						add(fmt.Sprintf("%s$%d", base, n), fl.Type, nil, fl.Body)
					}
					return true
				})
			}
		}
	}
	for rel := range scope {
		if !seen[rel] {
			return nil, fmt.Errorf("package %q of the C09 scope was not found under %s", rel, repo)
		}
	}
	sort.SliceStable(an.Funcs, func(i, j int) bool { return an.Funcs[i].Name < an.Funcs[j].Name })
	return an, nil
}

// Facts writes lean/XmppModel/Generated/C09.lean.
func Facts(repo string) (string, error) {
	an, err := analyse(repo)
	var b strings.Builder
	b.WriteString("import XmppModel.Model.Skeleton\n")
	b.WriteString("/-! Regenerated by `harness facts C09` from the Go source — do not edit. -/\n")
	b.WriteString("namespace XmppModel.Generated.C09\nopen XmppModel.Skeleton XmppModel.Skeleton.Stmt\n\n")
	if err != nil {
		// the expected shape was not found: the consuming theorems break
		fmt.Fprintf(&b, "/- extraction failed: %s -/\n", strings.ReplaceAll(err.Error(), "-/", "- /"))
		b.WriteString("def skeletons : Option (List (String × Stmt)) := none\n")
		b.WriteString("def trustedSites : Nat := 0\n")
		b.WriteString("def derivedSites : Nat := 0\n")
		b.WriteString(leanLockFacts(nil, err))
		b.WriteString(leanHandlerLockFacts(nil, false))
		b.WriteString(leanRootChanOps(nil, false))
		b.WriteString(leanRespFacts(nil, false))
		b.WriteString(leanCloseFacts(nil, false))
		b.WriteString(leanGoFacts(nil, false))
		b.WriteString(leanPageTurns(nil, false))
		b.WriteString(leanHeldSends(nil, false))
		b.WriteString(leanWaitFacts(nil, false))
		b.WriteString(leanChanOps(nil, false))
		b.WriteString("def cancels : List (String × Bool) := []\n")
		b.WriteString("def acceptedSizes : List (String × String × String) := []\n")
		b.WriteString("end XmppModel.Generated.C09\n")
		return b.String(), nil
	}
	b.WriteString("/-- (function, skeleton) for every function and function literal in scope whose skeleton\nhas at least one operation on a tracked value or a hazard -/\n")
	b.WriteString("def skeletons : Option (List (String × Stmt)) := some [\n")
	first := true
	trivial := 0
	for _, f := range an.Funcs {
		if !f.Skel.effectful() {
			trivial++
			continue
		}
		if !first {
			b.WriteString(",\n")
		}
		first = false
		fmt.Fprintf(&b, "  (%q, %s)", f.Name, f.Skel.Lean())
	}
	b.WriteString("]\n\n")
	fmt.Fprintf(&b, "/-- functions in scope: %d, of which %d have a skeleton without any partial operation -/\ndef functionsInScope : Nat := %d\ndef trivialFunctions : Nat := %d\n\n", len(an.Funcs), trivial, len(an.Funcs), trivial)
	used, derived := 0, 0
	for _, e := range an.Allow.entries {
		if e.derived {
			derived += e.used
		} else {
			used += e.used
		}
	}
	fmt.Fprintf(&b, "/-- partial operations accepted through the reviewed allow list (harness/c09/allow.txt) -/\ndef trustedSites : Nat := %d\n\n", used)
	fmt.Fprintf(&b, "/-- index / slice operations accepted because the range analysis (harness/c19/arith.go) proved\nthem in range on this run; not pinned -/\ndef derivedSites : Nat := %d\n", derived)
	b.WriteString("/-! Derived sites:\n")
	for _, d := range an.Derived {
		fmt.Fprintf(&b, "  %s %s %s\n", d.Fn, d.Kind, strings.ReplaceAll(d.Expr, "-/", "- /"))
	}
	b.WriteString("-/\n\n")
	if an.HasLocks {
		b.WriteString(leanLockFacts(an.Locks, nil))
	} else {
		b.WriteString(leanLockFacts(nil, fmt.Errorf("session.go not in scope")))
	}
	b.WriteString(leanHandlerLockFacts(an.HandlerLocks, true))
	b.WriteString(leanRootChanOps(an.RootChanOps, an.HasRootOps))
	b.WriteString(leanRespFacts(an.Responses, true))
	b.WriteString(leanCloseFacts(an.Closes, true))
	b.WriteString(leanGoFacts(an.Gos, true))
	b.WriteString(leanPageTurns(an.Pages, true))
	b.WriteString(leanHeldSends(an.HeldSends, true))
	sort.SliceStable(an.Waits, func(i, j int) bool { return an.Waits[i].Pkg < an.Waits[j].Pkg })
	b.WriteString(leanWaitFacts(an.Waits, true))
	sort.SliceStable(an.ChanOps, func(i, j int) bool { return an.ChanOps[i].Pkg < an.ChanOps[j].Pkg })
	b.WriteString(leanChanOps(an.ChanOps, true))
	b.WriteString("/-- context.With… in scope: (function, is `defer cancel()` the next statement) -/\ndef cancels : List (String × Bool) := [")
	for i, cf := range an.Cancels {
		if i > 0 {
			b.WriteString(", ")
		}
		fmt.Fprintf(&b, "(%q, %v)", cf.Fn, cf.Deferred)
	}
	b.WriteString("]\n")
	b.WriteString("/-- size-dependent partial operations accepted without a hazard: (function, kind, expression text) -/\n")
	b.WriteString("def acceptedSizes : List (String × String × String) := [\n")
	for i, a := range an.Accepted {
		if i > 0 {
			b.WriteString(",\n")
		}
		fmt.Fprintf(&b, "  (%q, %q, %q)", a.Fn, a.Kind, a.Expr)
	}
	b.WriteString("]\n")
	b.WriteString("\n/-! Sites:\n")
	for _, s := range an.Sites {
		if s.Kind == "loop" {
			continue
		}
		fmt.Fprintf(&b, "  %d %s\n", s.ID, strings.ReplaceAll(s.String(), "-/", "- /"))
	}
	b.WriteString("-/\nend XmppModel.Generated.C09\n")
	if p := os.Getenv("C09_DUMP"); p != "" {
		var d strings.Builder
		for _, f := range an.Funcs {
			if f.Skel.effectful() {
				fmt.Fprintf(&d, "%s (%s:%d) size=%d\n  %s\n", f.Name, f.File, f.Line, f.Skel.size(), f.Skel.Encode())
			}
		}
		for _, s := range an.Sites {
			if s.Kind != "loop" {
				fmt.Fprintf(&d, "SITE %d %s\n", s.ID, s)
			}
		}
		_ = os.WriteFile(p, []byte(d.String()), 0o644)
	}
	return b.String(), nil
}
