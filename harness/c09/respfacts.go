package c09

// Round F (review B, finding 1a): "open response" discipline.  The serve goroutine hands a
// response to the request that waits for it and reads nothing else until that response is
// closed (session.go, the `handshake` receive of rootServeChanOps).  Every function that
// obtains a response - a call with a result of type xmlstream.TokenReadCloser - therefore has to
// close it on every path, or hand it on (return it, store it, wrap it): a path that returns
// with the response open wedges Serve for ever (findings 7, 11, 16 of this check were that).
//
// Classification per acquisition `x, err := f(…)` (go/ast + go/types, no names consumed):
//
//	defer        `defer x.Close()` (or a deferred closure that closes x) follows before any path
//	             can leave
//	closed       every path from the acquisition to a return / to the end of the function passes
//	             an x.Close() or hands x on in its return statement
//	handed-on    x is stored (field, variable, composite literal, closure) - the holder's duty
//	violation:…  some path returns (or falls off the end) with x open
//
// The statement directly behind the acquisition may be the error guard `if err != nil { … }`
// (the response is nil then, by the contract of the Session methods).  Passing x to a call as
// an argument does not discharge the duty (decoders do not close).

import (
	"fmt"
	"go/ast"
	"go/token"
	"go/types"
	"strings"
)

type respFact struct {
	Fn, Kind string
	Line     int
}

func isTokenReadCloser(t types.Type) bool {
	n, ok := t.(*types.Named)
	if !ok || n.Obj() == nil || n.Obj().Pkg() == nil {
		return false
	}
	return n.Obj().Name() == "TokenReadCloser" && n.Obj().Pkg().Path() == "mellium.im/xmlstream"
}

type respScan struct {
	info *types.Info
	x    types.Object
	fset *token.FileSet
	viol string
	how  map[string]bool
	// condDefer: a deferred closure that receives x closes it under a condition (the error
	// result): returns that do not hand x on are taken to be the ones it covers
	condDefer bool
}

const (
	rsOpen = iota // falls through, still open
	rsClosed      // falls through, closed / handed on
	rsDone        // every path has left the function properly
)

func (r *respScan) mentions(n ast.Node) bool {
	found := false
	ast.Inspect(n, func(m ast.Node) bool {
		if id, ok := m.(*ast.Ident); ok && r.info.Uses[id] == r.x {
			found = true
		}
		return !found
	})
	return found
}

func (r *respScan) closes(n ast.Node) bool {
	found := false
	ast.Inspect(n, func(m ast.Node) bool {
		if c, ok := m.(*ast.CallExpr); ok && len(c.Args) == 0 {
			if sel, ok := c.Fun.(*ast.SelectorExpr); ok && sel.Sel.Name == "Close" {
				if id, ok := ast.Unparen(sel.X).(*ast.Ident); ok && r.info.Uses[id] == r.x {
					found = true
				}
			}
		}
		return !found
	})
	return found
}

// stores: x is put somewhere that outlives the statement (not merely passed as an argument).
func (r *respScan) stores(st ast.Stmt) bool {
	stored := false
	ast.Inspect(st, func(m ast.Node) bool {
		switch m := m.(type) {
		case *ast.CompositeLit:
			if r.mentions(m) {
				stored = true
			}
		case *ast.FuncLit:
			if r.mentions(m) {
				stored = true
			}
			return false
		case *ast.AssignStmt:
			for _, rhs := range m.Rhs {
				if id, ok := ast.Unparen(rhs).(*ast.Ident); ok && r.info.Uses[id] == r.x {
					stored = true
				}
			}
		}
		return !stored
	})
	return stored
}

func (r *respScan) violate(pos token.Pos, what string) {
	if r.viol == "" {
		r.viol = fmt.Sprintf("violation:%s (line %d)", what, r.fset.Position(pos).Line)
	}
}

func (r *respScan) list(stmts []ast.Stmt) int {
	for _, st := range stmts {
		switch st := st.(type) {
		case *ast.DeferStmt:
			if r.closes(st) {
				r.how["defer"] = true
				if lit, ok := st.Call.Fun.(*ast.FuncLit); ok {
					// a closure that closes x only inside an if: conditional
					top := false
					for _, bs := range lit.Body.List {
						if _, isIf := bs.(*ast.IfStmt); !isIf && r.closes(bs) {
							top = true
						}
					}
					if !top {
						r.condDefer = true
						continue
					}
				}
				return rsDone
			}
			// defer func(p …) { … p.Close() … }(x)
			if lit, ok := st.Call.Fun.(*ast.FuncLit); ok {
				for i, a := range st.Call.Args {
					id, ok := ast.Unparen(a).(*ast.Ident)
					if !ok || r.info.Uses[id] != r.x {
						continue
					}
					k := 0
					for _, fl := range lit.Type.Params.List {
						for _, pn := range fl.Names {
							if k == i {
								inner := &respScan{info: r.info, x: r.info.Defs[pn], fset: r.fset, how: map[string]bool{}}
								if inner.x != nil && inner.closes(lit.Body) {
									top := false
									for _, bs := range lit.Body.List {
										if _, isIf := bs.(*ast.IfStmt); !isIf && inner.closes(bs) {
											top = true
										}
									}
									r.how["defer"] = true
									if top {
										return rsDone
									}
									r.condDefer = true
								}
							}
							k++
						}
					}
				}
			}
		case *ast.ReturnStmt:
			switch {
			case r.closes(st):
				r.how["closed"] = true
			case r.mentions(st):
				r.how["handed-on"] = true
			case r.condDefer:
				r.how["defer"] = true
			default:
				r.violate(st.Pos(), "a return leaves the response open")
			}
			return rsDone
		case *ast.IfStmt:
			a := r.list(st.Body.List)
			b := rsOpen
			switch e := st.Else.(type) {
			case *ast.BlockStmt:
				b = r.list(e.List)
			case ast.Stmt:
				b = r.list([]ast.Stmt{e})
			}
			if st.Init != nil && r.closes(st.Init) || r.closes(st.Cond) {
				r.how["closed"] = true
				a, b = rsClosed, rsClosed
			}
			switch {
			case a == rsDone && b == rsDone:
				return rsDone
			case (a == rsDone || a == rsClosed) && (b == rsDone || b == rsClosed):
				return rsClosed
			}
		case *ast.BlockStmt:
			if s := r.list(st.List); s != rsOpen {
				return s
			}
		case *ast.ForStmt:
			r.list(st.Body.List) // may run zero times: stays open behind it
		case *ast.RangeStmt:
			r.list(st.Body.List)
		case *ast.SwitchStmt, *ast.TypeSwitchStmt, *ast.SelectStmt:
			var body *ast.BlockStmt
			switch s := st.(type) {
			case *ast.SwitchStmt:
				body = s.Body
			case *ast.TypeSwitchStmt:
				body = s.Body
			case *ast.SelectStmt:
				body = s.Body
			}
			all, hasDefault := true, false
			for _, c := range body.List {
				var cl []ast.Stmt
				switch c := c.(type) {
				case *ast.CaseClause:
					cl = c.Body
					hasDefault = hasDefault || c.List == nil
				case *ast.CommClause:
					cl = c.Body
					hasDefault = hasDefault || c.Comm == nil
				}
				if s := r.list(cl); s == rsOpen {
					all = false
				}
			}
			if _, isSel := st.(*ast.SelectStmt); isSel {
				hasDefault = true // one of the cases is always taken
			}
			if all && hasDefault && len(body.List) > 0 {
				return rsClosed
			}
		case *ast.LabeledStmt:
			if s := r.list([]ast.Stmt{st.Stmt}); s != rsOpen {
				return s
			}
		default:
			if r.closes(st) {
				r.how["closed"] = true
				return rsClosed
			}
			if r.stores(st) {
				r.how["handed-on"] = true
				return rsClosed
			}
		}
	}
	return rsOpen
}

func respFactsOf(l *loaded, filter func(string) bool, fset *token.FileSet) []respFact {
	var out []respFact
	for i, file := range l.Files {
		if filter != nil && !filter(l.Names[i]) || ast.IsGenerated(file) {
			continue
		}
		for _, d := range file.Decls {
			fd, ok := d.(*ast.FuncDecl)
			if !ok || fd.Body == nil {
				continue
			}
			name := l.Pkg.Name() + "." + recvName(fd) + fd.Name.Name
			// every statement list of the function (closures included), with the lists that
			// enclose it: falling out of a block continues behind the enclosing statement
			var visit func(stack [][]ast.Stmt, list []ast.Stmt, fnEnd bool)
			visit = func(stack [][]ast.Stmt, list []ast.Stmt, fnEnd bool) {
				for k, st := range list {
					if as, ok := st.(*ast.AssignStmt); ok && len(as.Rhs) == 1 && len(as.Lhs) >= 1 {
						if call, ok := as.Rhs[0].(*ast.CallExpr); ok {
							var t0 types.Type
							switch t := l.Info.TypeOf(call).(type) {
							case *types.Tuple:
								if t.Len() > 0 {
									t0 = t.At(0).Type()
								}
							default:
								t0 = t
							}
							id, isID := as.Lhs[0].(*ast.Ident)
							if t0 != nil && isTokenReadCloser(t0) && isID && id.Name != "_" {
								x := l.Info.Defs[id]
								if x == nil {
									x = l.Info.Uses[id]
								}
								if x != nil {
									r := &respScan{info: l.Info, x: x, fset: fset, how: map[string]bool{}}
									rest := list[k+1:]
									// the error guard directly behind the acquisition
									if len(as.Lhs) > 1 && len(rest) > 0 {
										if is, ok := rest[0].(*ast.IfStmt); ok && !r.mentions(is.Cond) {
											if eid, ok := as.Lhs[1].(*ast.Ident); ok {
												eo := l.Info.Defs[eid]
												if eo == nil {
													eo = l.Info.Uses[eid]
												}
												guard := false
												ast.Inspect(is.Cond, func(m ast.Node) bool {
													if id, ok := m.(*ast.Ident); ok && eo != nil && l.Info.Uses[id] == eo {
														guard = true
													}
													return !guard
												})
												if guard {
													rest = rest[1:]
												}
											}
										}
									}
									s := r.list(rest)
									for j := len(stack) - 1; j >= 0 && s == rsOpen; j-- {
										s = r.list(stack[j])
									}
									if s == rsOpen {
										r.violate(as.Pos(), "a path reaches the end of the function with the response open")
									}
									kind := r.viol
									if kind == "" {
										switch {
										case r.how["defer"] && len(r.how) == 1:
											kind = "defer"
										case r.how["handed-on"] && !r.how["closed"] && !r.how["defer"]:
											kind = "handed-on"
										default:
											kind = "closed"
										}
									}
									out = append(out, respFact{Fn: name, Kind: kind, Line: fset.Position(as.Pos()).Line})
								}
							}
						}
					}
					// nested lists
					after := append(append([][]ast.Stmt(nil), stack...), list[k+1:])
					ast.Inspect(st, func(m ast.Node) bool {
						switch m := m.(type) {
						case *ast.FuncLit:
							visit(nil, m.Body.List, true)
							return false
						case *ast.BlockStmt:
							if m != nil {
								visit(after, m.List, false)
							}
							return false
						case *ast.CaseClause:
							visit(after, m.Body, false)
							return false
						case *ast.CommClause:
							visit(after, m.Body, false)
							return false
						}
						return true
					})
				}
			}
			visit(nil, fd.Body.List, true)
		}
	}
	return out
}

func leanRespFacts(facts []respFact, ok bool) string {
	var b strings.Builder
	b.WriteString("/-- every response (xmlstream.TokenReadCloser) obtained by a function in scope: (function, how it is\ndisposed of on every path) -/\n")
	if !ok {
		b.WriteString("def responseFacts : Option (List (String × String)) := none\n")
		return b.String()
	}
	b.WriteString("def responseFacts : Option (List (String × String)) := some [")
	for i, f := range facts {
		if i > 0 {
			b.WriteString(",")
		}
		fmt.Fprintf(&b, "\n  (%q, %q)", f.Fn, f.Kind)
	}
	b.WriteString("]\n")
	return b.String()
}
