// Package c20 drives disco.Info.Hash / AppendHash (property C20).
//
// Protocol lines:
//
//	ver <ids> <feats> <forms> <how>   -> hex of the bytes written to the hash (or PANIC / ERR)
//	append <dst> <b64>                -> hex of AppendHash(dst, h), where <b64> is the base64 of
//	                                     the digest of the recorded bytes, computed by the harness
//
// Strings inside lists are x<hex> ("x" is the empty string, "-" the empty list).
// identity = cat:typ:lang:name; form = "F" + fields joined by "|"; field =
// var=v1,v2~type (type is the data-form field type the harness gave the field;
// the model ignores it, the repaired code does too).  <how> says how the value
// was built (ctor: form.New/struct literals, xml: decoded with encoding/xml);
// the driver ignores it.
//
// A recording hash.Hash captures the exact bytes the real code feeds to the
// hash; those are compared with the model's verImpl and, independently, with a
// reference implementation of XEP-0115 §5.1 written here from the XEP text
// (property oracle), and across rearrangements of the same sets.
package c20

import (
	"bytes"
	stdcrypto "crypto"
	_ "crypto/sha1"
	_ "crypto/sha256"
	_ "crypto/sha512"
	"encoding/base64"
	"encoding/xml"
	"fmt"
	"hash"
	"strings"

	_ "golang.org/x/crypto/blake2b"
	_ "golang.org/x/crypto/sha3"
	"mellium.im/xmpp/crypto"
	"mellium.im/xmpp/disco"
	"mellium.im/xmpp/disco/info"
	"mellium.im/xmpp/form"

	"verifharness/common"
)

type gIdent struct{ cat, typ, lang, name string }
type gField struct {
	vr   string
	typ  string // data-form field type; "" = attribute omitted (xml) / text-single (ctor)
	vals []string
}
type gForm struct{ fields []gField }
type gInfo struct {
	ids   []gIdent
	feats []string
	forms []gForm
}

const formType = "FORM_TYPE"

// ---- encoding for the line protocol -------------------------------------------------

func xs(s string) string { return "x" + strings.TrimPrefix(common.HexS(s), "-") }

func unxs(s string) (string, error) {
	if !strings.HasPrefix(s, "x") {
		return "", fmt.Errorf("bad string %q", s)
	}
	if s == "x" {
		return "", nil
	}
	b, err := common.UnHex(s[1:])
	return string(b), err
}

func (g gInfo) enc() string {
	var ids, feats, forms []string
	for _, i := range g.ids {
		ids = append(ids, xs(i.cat)+":"+xs(i.typ)+":"+xs(i.lang)+":"+xs(i.name))
	}
	for _, f := range g.feats {
		feats = append(feats, xs(f))
	}
	for _, f := range g.forms {
		var fl []string
		for _, fd := range f.fields {
			var vs []string
			for _, v := range fd.vals {
				vs = append(vs, xs(v))
			}
			t := fd.typ
			if t == "" {
				t = "none"
			}
			fl = append(fl, xs(fd.vr)+"="+strings.Join(vs, ",")+"~"+t)
		}
		forms = append(forms, "F"+strings.Join(fl, "|"))
	}
	return common.Join(ids, ",") + " " + common.Join(feats, ",") + " " + common.Join(forms, ";")
}

func dec(ids, feats, forms string) (g gInfo, err error) {
	split := func(s, sep string) []string {
		if s == "-" {
			return nil
		}
		return strings.Split(s, sep)
	}
	for _, s := range split(ids, ",") {
		p := strings.Split(s, ":")
		if len(p) != 4 {
			return g, fmt.Errorf("bad identity %q", s)
		}
		var q [4]string
		for k := range p {
			if q[k], err = unxs(p[k]); err != nil {
				return g, err
			}
		}
		g.ids = append(g.ids, gIdent{q[0], q[1], q[2], q[3]})
	}
	for _, s := range split(feats, ",") {
		f, err := unxs(s)
		if err != nil {
			return g, err
		}
		g.feats = append(g.feats, f)
	}
	for _, s := range split(forms, ";") {
		if !strings.HasPrefix(s, "F") {
			return g, fmt.Errorf("bad form %q", s)
		}
		var gf gForm
		if s != "F" {
			for _, fs := range strings.Split(s[1:], "|") {
				typ := ""
				if k := strings.LastIndex(fs, "~"); k >= 0 {
					typ = fs[k+1:]
					fs = fs[:k]
				}
				if typ == "none" {
					typ = ""
				}
				p := strings.SplitN(fs, "=", 2)
				if len(p) != 2 {
					return g, fmt.Errorf("bad field %q", fs)
				}
				fd := gField{typ: typ}
				if fd.vr, err = unxs(p[0]); err != nil {
					return g, err
				}
				if p[1] != "" {
					for _, v := range strings.Split(p[1], ",") {
						vv, err := unxs(v)
						if err != nil {
							return g, err
						}
						fd.vals = append(fd.vals, vv)
					}
				}
				gf.fields = append(gf.fields, fd)
			}
		}
		g.forms = append(g.forms, gf)
	}
	return g, nil
}

// ---- building the real value -------------------------------------------------------------

func (g gInfo) build() disco.Info {
	var i disco.Info
	for _, id := range g.ids {
		i.Identity = append(i.Identity, info.Identity{Category: id.cat, Type: id.typ, Lang: id.lang, Name: id.name})
	}
	for _, f := range g.feats {
		i.Features = append(i.Features, info.Feature{Var: f})
	}
	for _, gf := range g.forms {
		var fields []form.Field
		for _, fd := range gf.fields {
			var opts []form.Option
			for _, v := range fd.vals {
				opts = append(opts, form.Value(v))
			}
			switch fd.typ {
			case "hidden":
				fields = append(fields, form.Hidden(fd.vr, opts...))
			case "boolean":
				fields = append(fields, form.Boolean(fd.vr, opts...))
			case "text-multi":
				fields = append(fields, form.TextMulti(fd.vr, opts...))
			case "list-multi":
				fields = append(fields, form.ListMulti(fd.vr, opts...))
			case "list-single":
				fields = append(fields, form.List(fd.vr, opts...))
			case "jid-single":
				fields = append(fields, form.JID(fd.vr, opts...))
			case "jid-multi":
				fields = append(fields, form.JIDMulti(fd.vr, opts...))
			case "text-private":
				fields = append(fields, form.TextPrivate(fd.vr, opts...))
			default:
				fields = append(fields, form.Text(fd.vr, opts...))
			}
		}
		if len(fields) == 0 && len(i.Form)%2 == 1 {
			i.Form = append(i.Form, form.Data{}) // the zero value is an empty form too
			continue
		}
		i.Form = append(i.Form, *form.New(append(fields, form.Result)...))
	}
	return i
}

func esc(s string) string {
	var b bytes.Buffer
	_ = xml.EscapeText(&b, []byte(s))
	return b.String()
}

// xmlOK reports whether every string of g survives an XML round trip
// unchanged (no characters outside the XML Char production, no carriage
// returns, attribute values without line breaks or tabs).
func xmlOK(g gInfo) bool {
	text := func(s string, attr bool) bool {
		for _, r := range s {
			switch {
			case r == 0xFFFD || r == '\r':
				return false
			case r == '\n' || r == '\t':
				if attr {
					return false
				}
			case r < 0x20 || r == 0xFFFE || r == 0xFFFF:
				return false
			}
		}
		return strings.ToValidUTF8(s, "") == s
	}
	for _, i := range g.ids {
		if !text(i.cat, true) || !text(i.typ, true) || !text(i.lang, true) || !text(i.name, true) {
			return false
		}
	}
	for _, f := range g.feats {
		if !text(f, true) {
			return false
		}
	}
	for _, f := range g.forms {
		for _, fd := range f.fields {
			if !text(fd.vr, true) {
				return false
			}
			for _, v := range fd.vals {
				if !text(v, false) {
					return false
				}
			}
		}
	}
	return true
}

func (g gInfo) xml() string {
	var b strings.Builder
	b.WriteString(`<query xmlns='http://jabber.org/protocol/disco#info'>`)
	// interleave the kinds the way a peer may
	for _, i := range g.ids {
		fmt.Fprintf(&b, `<identity category="%s" type="%s"`, esc(i.cat), esc(i.typ))
		if i.lang != "" {
			fmt.Fprintf(&b, ` xml:lang="%s"`, esc(i.lang))
		}
		if i.name != "" {
			fmt.Fprintf(&b, ` name="%s"`, esc(i.name))
		}
		b.WriteString(`/>`)
	}
	for _, f := range g.feats {
		fmt.Fprintf(&b, `<feature var="%s"/>`, esc(f))
	}
	for _, f := range g.forms {
		if len(f.fields) == 0 {
			b.WriteString(`<x xmlns='jabber:x:data' type='result'/>`)
			continue
		}
		b.WriteString(`<x xmlns='jabber:x:data' type='result'>`)
		if len(f.fields)%2 == 0 {
			// parts of a form that do not take part in the hash
			b.WriteString("<title>t&lt;</title>\n  <instructions>one</instructions><instructions>two</instructions>")
		}
		for k, fd := range f.fields {
			if k%3 == 2 {
				b.WriteString("\n\t")
			}
			b.WriteString(`<field`)
			if fd.vr != "" {
				fmt.Fprintf(&b, ` var="%s"`, esc(fd.vr))
			}
			if fd.typ != "" {
				fmt.Fprintf(&b, ` type="%s"`, esc(fd.typ))
			}
			b.WriteString(`>`)
			if len(fd.vals) > 1 {
				b.WriteString(`<desc>d</desc><required/>`)
			}
			for _, v := range fd.vals {
				fmt.Fprintf(&b, `<value>%s</value>`, esc(v))
			}
			if fd.typ == "list-multi" || fd.typ == "list-single" {
				b.WriteString(`<option label="o"><value>not-a-value-of-the-field</value></option>`)
			}
			b.WriteString(`</field>`)
		}
		b.WriteString(`</x>`)
	}
	b.WriteString(`</query>`)
	return b.String()
}

// ---- running the real code ---------------------------------------------------------------

type recHash struct {
	hash.Hash
	rec    []byte
	writes int // number of Write calls
	sums   int // number of Sum calls
	sumAt  int // len(rec) at the first Sum
	late   int // bytes written after the first Sum
	resets int
}

func (r *recHash) Write(p []byte) (int, error) {
	r.rec = append(r.rec, p...)
	r.writes++
	if r.sums > 0 {
		r.late += len(p)
	}
	return r.Hash.Write(p)
}

func (r *recHash) Sum(b []byte) []byte {
	if r.sums == 0 {
		r.sumAt = len(r.rec)
	}
	r.sums++
	return r.Hash.Sum(b)
}

func (r *recHash) Reset() {
	r.resets++
	r.Hash.Reset()
}

// protocol: how the hash was used besides the bytes it was given ("" = written, then
// summed, nothing after, never reset)
func (r *recHash) protocol() string {
	switch {
	case r.resets > 0:
		return "reset"
	case r.sums == 0:
		return "never-summed"
	case r.late > 0:
		return "written-after-sum"
	}
	return ""
}

type result struct {
	pre      []byte // bytes written to the hash
	out      string // Hash's result
	proto    string // recHash.protocol()
	panicked string
	err      string
}

func (r result) obs() string {
	switch {
	case r.panicked != "":
		return "PANIC"
	case r.err != "":
		return "ERR"
	}
	return common.Hex(r.pre)
}

func runHash(i disco.Info, h stdcrypto.Hash) (res result) {
	defer func() {
		if p := recover(); p != nil {
			res = result{panicked: fmt.Sprint(p)}
		}
	}()
	rh := &recHash{Hash: h.New()}
	out := i.Hash(rh)
	return result{pre: rh.rec, out: out, proto: rh.protocol()}
}

func runAppend(i disco.Info, h stdcrypto.Hash, dst []byte, spare int) (out []byte, pre []byte, panicked string) {
	defer func() {
		if p := recover(); p != nil {
			out, pre, panicked = nil, nil, fmt.Sprint(p)
		}
	}()
	rh := &recHash{Hash: h.New()}
	// the destination has `spare` bytes of capacity beyond its length, filled with a
	// recognisable pattern: a reused buffer (buf[:0]) is the typical caller
	d := append(make([]byte, 0, len(dst)+spare), dst...)
	for k := range d[len(d):cap(d)] {
		d[len(d):cap(d)][k] = 0xA5
	}
	out = i.AppendHash(d, rh)
	return out, rh.rec, ""
}

func rnd8(n int) int { return (n * 7) % 9 } // spare capacity, deterministic

// value builds the real disco.Info the way `how` says.
func value(g gInfo, how string) (disco.Info, error) {
	if how == "xml" {
		var i disco.Info
		err := xml.Unmarshal([]byte(g.xml()), &i)
		return i, err
	}
	return g.build(), nil
}

// ---- reference: XEP-0115 §5.1, written from the XEP text -----------------------------------

func insertionSort[T any](l []T, less func(a, b T) bool) []T {
	out := append([]T(nil), l...)
	for i := 1; i < len(out); i++ {
		for j := i; j > 0 && less(out[j], out[j-1]); j-- {
			out[j], out[j-1] = out[j-1], out[j]
		}
	}
	return out
}

func (f gForm) formType() string {
	for _, fd := range f.fields {
		if fd.vr == formType {
			if len(fd.vals) > 0 {
				return fd.vals[0]
			}
			return ""
		}
	}
	return ""
}

func refForm(f gForm) string {
	var s strings.Builder
	s.WriteString(f.formType() + "<")
	fields := insertionSort(f.fields, func(a, b gField) bool { return a.vr < b.vr })
	for _, fd := range fields {
		if fd.vr == formType {
			continue
		}
		s.WriteString(fd.vr + "<")
		for _, v := range insertionSort(fd.vals, func(a, b string) bool { return a < b }) {
			s.WriteString(v + "<")
		}
	}
	return s.String()
}

func refIds(g gInfo) string {
	var s strings.Builder
	ids := insertionSort(g.ids, func(a, b gIdent) bool {
		if a.cat != b.cat {
			return a.cat < b.cat
		}
		if a.typ != b.typ {
			return a.typ < b.typ
		}
		return a.lang < b.lang
	})
	for _, i := range ids {
		s.WriteString(i.cat + "/" + i.typ + "/" + i.lang + "/" + i.name + "<")
	}
	return s.String()
}

func refFeats(g gInfo) string {
	var s strings.Builder
	for _, f := range insertionSort(g.feats, func(a, b string) bool { return a < b }) {
		s.WriteString(f + "<")
	}
	return s.String()
}

func refVer(g gInfo) string {
	var s strings.Builder
	s.WriteString(refIds(g))
	s.WriteString(refFeats(g))
	for _, f := range insertionSort(g.forms, func(a, b gForm) bool { return a.formType() < b.formType() }) {
		s.WriteString(refForm(f))
	}
	return s.String()
}

// wellFormed: the hypotheses of C20_perm_invariant (Info.WF).
func wellFormed(g gInfo) bool {
	seen := map[[3]string]bool{}
	for _, i := range g.ids {
		k := [3]string{i.cat, i.typ, i.lang}
		if seen[k] {
			return false
		}
		seen[k] = true
	}
	ft := map[string]bool{}
	for _, f := range g.forms {
		if ft[f.formType()] {
			return false
		}
		ft[f.formType()] = true
		vs := map[string]bool{}
		for _, fd := range f.fields {
			if vs[fd.vr] {
				return false
			}
			vs[fd.vr] = true
			if fd.vr == formType && len(fd.vals) > 1 {
				return false
			}
		}
	}
	return true
}

// tieCause: for an info that is not wellFormed, is it one XEP-0115 5.4 does NOT declare
// ill-formed and the property's quantifier includes?  Returns the level to rearrange and
// the key of the known finding ("" = ill-formed or outside the quantifier).
func tieCause(g gInfo) (bit int, key string) {
	if !identitiesDistinct(g) {
		return 0, ""
	}
	hasFT := func(f gForm) bool {
		for _, fd := range f.fields {
			if fd.vr == formType {
				return true
			}
		}
		return false
	}
	untyped := 0
	ft := map[string]int{}
	for _, f := range g.forms {
		for _, fd := range f.fields {
			if fd.vr == formType && len(fd.vals) > 1 {
				return 0, "" // 5.4 3.5
			}
		}
		if !hasFT(f) {
			untyped++
			continue
		}
		ft[f.formType()]++
		if ft[f.formType()] > 1 {
			return 0, "" // 5.4 3.5: two forms with the same FORM_TYPE
		}
	}
	if untyped > 1 || (untyped == 1 && ft[""] > 0) {
		return 4, "forms-without-form-type"
	}
	for _, f := range g.forms {
		vs := map[string]bool{}
		for _, fd := range f.fields {
			if vs[fd.vr] && fd.vr != formType {
				if fd.vr == "" {
					return 8, "fields-without-var"
				}
				return 8, "fields-with-equal-var"
			}
			vs[fd.vr] = true
		}
	}
	return 0, ""
}

// identitiesDistinct: Go's sort.Slice is not stable, so only these inputs have
// a determined result.
func identitiesDistinct(g gInfo) bool {
	seen := map[[3]string]bool{}
	for _, i := range g.ids {
		k := [3]string{i.cat, i.typ, i.lang}
		if seen[k] {
			return false
		}
		seen[k] = true
	}
	return true
}

// clip quotes a string for a report, eliding the middle of a long one.
func clip(s string) string {
	if len(s) <= 160 {
		return fmt.Sprintf("%q", s)
	}
	return fmt.Sprintf("%q...(%d bytes)...%q", s[:60], len(s)-120, s[len(s)-60:])
}

// firstDiff names the first offset at which two strings differ.
func firstDiff(got, want string) string {
	n := 0
	for n < len(got) && n < len(want) && got[n] == want[n] {
		n++
	}
	if n == len(got) && n == len(want) {
		return ""
	}
	tail := func(s string) string {
		if len(s)-n > 24 {
			return s[n : n+24]
		}
		return s[n:]
	}
	return fmt.Sprintf(" (first difference at offset %d of %d/%d: got %q, want %q)", n, len(got), len(want), tail(got), tail(want))
}

// size is the number of bytes XEP-0115 5.1 makes of the info whatever the order: every
// hashed string once plus one separator each (theorem C20_length).
func (g gInfo) size() int {
	n := 0
	for _, i := range g.ids {
		n += len(i.cat) + len(i.typ) + len(i.lang) + len(i.name) + 4
	}
	for _, f := range g.feats {
		n += len(f) + 1
	}
	for _, f := range g.forms {
		n += len(f.formType()) + 1
		for _, fd := range f.fields {
			if fd.vr == formType {
				continue
			}
			n += len(fd.vr) + 1
			for _, v := range fd.vals {
				n += len(v) + 1
			}
		}
	}
	return n
}

// ---- the size dimension ------------------------------------------------------------------
//
// Every string that takes part in the hash (the four attributes of an identity, a feature,
// a FORM_TYPE value, a field name, a field value) is a position; sized infos put strings
// whose length sits on and around the powers of two (buffer and block sizes: 16 ... 64 Ki)
// at one position, at two positions, or at all of them, while everything around stays
// short - so bytes are pending before and after the long string.

func (g gInfo) clone() gInfo {
	o := gInfo{ids: append([]gIdent(nil), g.ids...), feats: append([]string(nil), g.feats...)}
	for _, f := range g.forms {
		nf := gForm{}
		for _, fd := range f.fields {
			nf.fields = append(nf.fields, gField{vr: fd.vr, typ: fd.typ, vals: append([]string(nil), fd.vals...)})
		}
		o.forms = append(o.forms, nf)
	}
	return o
}

// atoms returns a pointer to every hashed string of g and a name for the kind of position.
func (g *gInfo) atoms() (ps []*string, kinds []string) {
	add := func(p *string, k string) { ps = append(ps, p); kinds = append(kinds, k) }
	for k := range g.ids {
		add(&g.ids[k].cat, "category")
		add(&g.ids[k].typ, "type")
		add(&g.ids[k].lang, "lang")
		add(&g.ids[k].name, "name")
	}
	for k := range g.feats {
		add(&g.feats[k], "feature")
	}
	for k := range g.forms {
		for m := range g.forms[k].fields {
			fd := &g.forms[k].fields[m]
			if fd.vr == formType {
				for v := range fd.vals {
					add(&fd.vals[v], "form-type")
				}
				continue
			}
			add(&fd.vr, "var")
			for v := range fd.vals {
				add(&fd.vals[v], "value")
			}
		}
	}
	return
}

// sizedString: n bytes that survive XML, differ from position to position (tag) and
// carry their own offsets, so a moved, split or truncated piece shows in the bytes.
func sizedString(n int, tag int) string {
	var b strings.Builder
	for b.Len() < n {
		fmt.Fprintf(&b, "%c%d.", 'g'+byte(tag%20), b.Len())
	}
	return b.String()[:n]
}

func sizeTemplate() gInfo {
	return gInfo{
		ids:   []gIdent{{"client", "pc", "en", "n1"}, {"client", "phone", "", "n2"}},
		feats: []string{"urn:f1", "urn:f2"},
		forms: []gForm{
			{fields: []gField{{formType, "hidden", []string{"urn:t1"}}, {"os", "", []string{"Mac"}}, {"ip", "list-multi", []string{"v4", "v6"}}}},
			{fields: []gField{{"note", "text-multi", []string{"l1", "l2"}}, {formType, "hidden", []string{"urn:t2"}}, {"x", "text-single", []string{"1"}}}},
		},
	}
}

// boundaries: lengths on and next to the powers of two from lo to hi.
func boundaries(lo, hi int) []int {
	var l []int
	for p := lo; p <= hi; p *= 2 {
		l = append(l, p-1, p, p+1)
	}
	return l
}

func (c *ctx) sizes() {
	r := c.r
	t := sizeTemplate()
	_, kinds := t.atoms()
	one := boundaries(16, r.Pick(4096, 65536))
	n := 0
	// one long string at every position x every boundary length
	for p := range kinds {
		for _, sz := range one {
			g := t.clone()
			ps, _ := g.atoms()
			*ps[p] = sizedString(sz, p)
			c.info(g, "sized-"+kinds[p], 1)
			n++
		}
	}
	// two long strings (every pair of positions; the second may or may not fit what the first left)
	pairSizes := [][2]int{{257, 300}, {100, 200}, {4097, 129}, {64, 65}}
	for p := range kinds {
		for q := p + 1; q < len(kinds); q++ {
			if r.Quick() && (p*31+q*17+int(r.Seed))%6 != 0 {
				continue
			}
			for _, sz := range pairSizes {
				g := t.clone()
				ps, _ := g.atoms()
				*ps[p], *ps[q] = sizedString(sz[0], p), sizedString(sz[1], q)
				c.info(g, "sized-pair", 1)
				n++
			}
		}
	}
	// every position long at once, and a single-item info that is nothing but one long string
	for _, sz := range boundaries(32, r.Pick(1024, 8192)) {
		g := t.clone()
		ps, _ := g.atoms()
		for p := range ps {
			*ps[p] = sizedString(sz+p%3-1, p)
		}
		c.info(g, "sized-all", 1)
		c.info(gInfo{feats: []string{sizedString(sz, 0)}}, "sized-alone", 0)
		c.info(gInfo{forms: []gForm{{fields: []gField{{"v", "text-multi", []string{"a", sizedString(sz, 1), "b"}}}}}}, "sized-alone", 1)
		n += 3
	}
	// many short strings adding up to the same totals
	for _, total := range boundaries(64, r.Pick(2048, 16384)) {
		var g gInfo
		for k := 0; g.size() < total; k++ {
			g.feats = append(g.feats, sizedString(1+k%7, k))
		}
		c.info(g, "sized-total", 1)
		n++
	}
	// both entry points and every hash function on a few of them
	for _, sz := range []int{255, 256, 257, 1000, 5000} {
		for _, p := range []int{3, 8, len(kinds) - 1} {
			g := t.clone()
			ps, _ := g.atoms()
			*ps[p] = sizedString(sz, p)
			c.entryPoints(g, []byte("ab"))
		}
	}
	r.Exhaustive = append(r.Exhaustive, fmt.Sprintf("size dimension: one string of every length 2^k-1, 2^k, 2^k+1 (16 <= 2^k <= %d) at each of the %d positions of a template info (identity attributes, features, FORM_TYPE values, field names, field values), pairs of positions, all positions, one-string infos, totals made of short strings: %d infos, each constructed, decoded from XML and rearranged", r.Pick(4096, 65536), len(kinds), n))
}

// ---- the oracle ----------------------------------------------------------------------------

type ctx struct{ r *common.Run }

// specKey gives a coarse, stable name to the way the observed string differs
// from the reference.
func specKey(g gInfo, pre []byte) string {
	want := refVer(g)
	head := refIds(g) + refFeats(g)
	got := string(pre)
	if !strings.HasPrefix(got, refIds(g)) {
		return "identities"
	}
	if !strings.HasPrefix(got, head) {
		return "features"
	}
	// forms in the given order?
	var given strings.Builder
	for _, f := range g.forms {
		given.WriteString(refForm(f))
	}
	if got == head+given.String() && got != want {
		return "forms-not-sorted"
	}
	for _, f := range g.forms {
		vs := map[string]bool{}
		for _, fd := range f.fields {
			if vs[fd.vr] && fd.vr != formType {
				return "duplicate-var"
			}
			vs[fd.vr] = true
		}
	}
	for _, f := range g.forms {
		for _, fd := range f.fields {
			if fd.vr == formType {
				switch fd.typ {
				case "hidden", "", "text-single", "text-private", "list-single":
					if len(fd.vals) > 1 {
						return "form-type-multi"
					}
				default:
					return "form-type-typed"
				}
			}
		}
	}
	return "forms"
}

func shape(g gInfo) string {
	for _, f := range g.forms {
		if len(f.fields) == 0 {
			return "empty-form"
		}
	}
	return "other"
}

// one evaluates one info value built one way; returns the recorded bytes.
func (c *ctx) one(g gInfo, how string, class string) (result, []string) {
	r := c.r
	line := "ver " + g.enc() + " " + how
	lines := []string{r.Prop + " " + line}
	i, err := value(g, how)
	var res result
	var before gInfo
	if err != nil {
		res = result{err: err.Error()}
	} else {
		before = snap(i)
		res = runHash(i, stdcrypto.SHA1)
	}
	r.Line(line, res.obs())
	r.Case(line, res.panicked == "" && res.err == "" && (len(g.forms) > 0 || len(g.ids)+len(g.feats) > 1), class)
	switch {
	case res.panicked != "":
		r.Fail("total", shape(g), lines, "Hash panicked: "+res.panicked)
	case res.err != "":
		r.Fail("harness", "unmarshal", lines, "the generated XML did not decode: "+res.err)
	default:
		if want := refVer(g); string(res.pre) != want && (identitiesDistinct(g)) {
			r.Fail("equals-spec", specKey(g, res.pre), lines,
				fmt.Sprintf("hashed %s, XEP-0115 5.1 gives %s%s", clip(string(res.pre)), clip(want), firstDiff(string(res.pre), want)))
		}
		sum := stdcrypto.SHA1.New()
		sum.Write(res.pre)
		if want := base64.StdEncoding.EncodeToString(sum.Sum(nil)); res.out != want {
			r.Fail("hash-append", "hash-output", lines, fmt.Sprintf("Hash returned %q, base64(sha1(written)) = %q", clip(res.out), want))
		}
		if res.proto != "" {
			r.Fail("hash-append", "hash-protocol-"+res.proto, lines, "the hash passed to Hash was "+res.proto+" (bytes left in a buffer, or the caller's hash state thrown away)")
		}
		if n := g.size(); len(res.pre) != n {
			r.Fail("equals-spec", "length", lines, fmt.Sprintf("%d bytes hashed, the items of the info and their separators have %d", len(res.pre), n))
		}
	}
	if err == nil && res.panicked == "" && !strings.HasPrefix(class, "perm-") {
		c.twice(g, how, i, before, lines, res)
	}
	return res, lines
}

var allHashes = []stdcrypto.Hash{stdcrypto.SHA1, stdcrypto.SHA224, stdcrypto.SHA256, stdcrypto.SHA384, stdcrypto.SHA512,
	stdcrypto.SHA3_256, stdcrypto.SHA3_512, stdcrypto.BLAKE2b_256, stdcrypto.BLAKE2b_512}

// entryPoints: Hash vs AppendHash (empty and non-empty destination), every
// supported hash function.
func (c *ctx) entryPoints(g gInfo, dst []byte) {
	r := c.r
	i := g.build()
	first := runHash(i, stdcrypto.SHA1)
	if first.panicked != "" {
		return
	}
	verLine := r.Prop + " ver " + g.enc() + " ctor"
	for _, h := range allHashes {
		if !h.Available() || !crypto.Hash(h).Available() {
			continue
		}
		res := runHash(g.build(), h)
		if res.panicked != "" || !bytes.Equal(res.pre, first.pre) {
			r.Fail("hash-append", "hash-function-dependent", []string{verLine}, fmt.Sprintf("hash %v: wrote %q, sha1 run wrote %q %s", h, res.pre, first.pre, res.panicked))
			continue
		}
		sum := h.New()
		sum.Write(res.pre)
		b64 := base64.StdEncoding.EncodeToString(sum.Sum(nil))
		for _, ds := range []struct {
			d     []byte
			spare int
		}{{nil, 0}, {dst, rnd8(len(dst))}, {nil, 64}, {nil, 200}, {dst, 64}, {dst, 200}, {[]byte{}, 29}} {
			d := ds.d
			out, pre, p := runAppend(g.build(), h, d, ds.spare)
			line := fmt.Sprintf("append %s %s", common.Hex(d), common.HexS(b64))
			obs := common.Hex(out)
			if p != "" {
				obs = "PANIC"
			}
			r.Line(line, obs)
			r.Case(line+verLine, true, "append")
			lines := []string{verLine, r.Prop + " " + line, fmt.Sprintf("#hash=%v spare-capacity=%d", h, ds.spare)}
			switch {
			case p != "":
				r.Fail("total", "append", lines, "AppendHash panicked: "+p)
			case !bytes.Equal(pre, first.pre):
				r.Fail("hash-append", "append-writes-differ", lines, fmt.Sprintf("AppendHash wrote %q, Hash wrote %q", pre, first.pre))
			case len(d) == 0 && string(out) != res.out:
				r.Fail("hash-append", "empty-dst", lines, fmt.Sprintf("AppendHash(nil) = %q, Hash = %q", out, res.out))
			case len(d) != 0 && string(out) != string(d)+res.out:
				// the documented contract of AppendHash ("appends the output string to the
				// provided byte slice"); C20 itself only speaks about the empty destination
				r.Fail("append-contract", "nonempty-dst", lines, fmt.Sprintf("AppendHash(%q) = %q, want dst followed by Hash = %q", d, out, res.out))
			}
		}
	}
}

func shuffled(rnd *common.Rand, g gInfo, what int) gInfo {
	perm := func(n int, swap func(i, j int)) {
		for i := n - 1; i > 0; i-- {
			swap(i, rnd.Intn(i+1))
		}
	}
	o := gInfo{ids: append([]gIdent(nil), g.ids...), feats: append([]string(nil), g.feats...)}
	for _, f := range g.forms {
		nf := gForm{}
		for _, fd := range f.fields {
			nf.fields = append(nf.fields, gField{vr: fd.vr, typ: fd.typ, vals: append([]string(nil), fd.vals...)})
		}
		o.forms = append(o.forms, nf)
	}
	if what&1 != 0 {
		perm(len(o.ids), func(i, j int) { o.ids[i], o.ids[j] = o.ids[j], o.ids[i] })
	}
	if what&2 != 0 {
		perm(len(o.feats), func(i, j int) { o.feats[i], o.feats[j] = o.feats[j], o.feats[i] })
	}
	if what&4 != 0 {
		perm(len(o.forms), func(i, j int) { o.forms[i], o.forms[j] = o.forms[j], o.forms[i] })
	}
	if what&8 != 0 {
		for k := range o.forms {
			f := o.forms[k].fields
			perm(len(f), func(i, j int) { f[i], f[j] = f[j], f[i] })
		}
	}
	if what&16 != 0 {
		for k := range o.forms {
			for m := range o.forms[k].fields {
				v := o.forms[k].fields[m].vals
				perm(len(v), func(i, j int) { v[i], v[j] = v[j], v[i] })
			}
		}
	}
	return o
}

var levels = []struct {
	bit  int
	name string
}{{1, "identities"}, {2, "features"}, {4, "forms"}, {8, "fields"}, {16, "values"}}

// info runs every check on one info value.
func (c *ctx) info(g gInfo, class string, nperm int) {
	r := c.r
	base, lines := c.one(g, "ctor", class)
	if xmlOK(g) {
		x, xl := c.one(g, "xml", class+"-xml")
		if base.panicked == "" && x.panicked == "" && x.err == "" && !bytes.Equal(base.pre, x.pre) {
			r.Fail("equals-spec", "constructed-vs-decoded", append(lines, xl...), fmt.Sprintf("constructed value hashed %s, decoded value %s", clip(string(base.pre)), clip(string(x.pre))))
		}
	}
	if base.panicked != "" {
		return
	}
	c.sent(g, base, lines)
	if !wellFormed(g) {
		r.Hist["not-well-formed"]++
		// Equal sort keys.  Ill-formed per XEP-0115 5.4 (equal non-empty FORM_TYPEs, a
		// FORM_TYPE with several values) or outside the property's quantifier (identities
		// equal in category/type/lang): no order independence demanded.  Inside the quantifier
		// and NOT ill-formed: forms without FORM_TYPE, fields sharing a var - there the code
		// keeps the given order (theorems C20_forms_without_type_order_dependent,
		// C20_equal_var_fields_order_dependent; known findings).  Only the level of the tie is
		// rearranged, so that nothing else can hide behind the known key.
		bit, key := tieCause(g)
		if key == "" {
			return
		}
		for k := 0; k < 3; k++ {
			o := shuffled(r.Rnd, g, bit)
			if o.enc() == g.enc() {
				continue
			}
			res, ol := c.one(o, "ctor", "perm-ties")
			if res.panicked == "" && !bytes.Equal(res.pre, base.pre) {
				r.Fail("perm-invariant", key, append(lines, ol...), fmt.Sprintf("hashed %s, rearranged: %s%s", clip(string(base.pre)), clip(string(res.pre)), firstDiff(string(res.pre), string(base.pre))))
				break
			}
		}
		return
	}
	// rearrangements: one level at a time (names the level in the key), then all at once
	for _, lv := range levels {
		o := shuffled(r.Rnd, g, lv.bit)
		if o.enc() == g.enc() {
			continue
		}
		res, ol := c.one(o, "ctor", "perm-"+lv.name)
		if res.panicked == "" && !bytes.Equal(res.pre, base.pre) {
			r.Fail("perm-invariant", lv.name, append(lines, ol...), fmt.Sprintf("hashed %s, rearranged %s: %s%s", clip(string(base.pre)), lv.name, clip(string(res.pre)), firstDiff(string(res.pre), string(base.pre))))
		}
	}
	for k := 0; k < nperm; k++ {
		o := shuffled(r.Rnd, g, 31)
		if o.enc() == g.enc() {
			continue
		}
		how := "ctor"
		if k%2 == 1 && xmlOK(o) {
			how = "xml"
		}
		res, ol := c.one(o, how, "perm-all")
		if res.panicked == "" && res.err == "" && !bytes.Equal(res.pre, base.pre) {
			r.Fail("perm-invariant", "all", append(lines, ol...), fmt.Sprintf("hashed %s, rearranged: %s%s", clip(string(base.pre)), clip(string(res.pre)), firstDiff(string(res.pre), string(base.pre))))
		}
	}
}

// ---- generators ---------------------------------------------------------------------------

func xepSimple() gInfo {
	return gInfo{
		ids:   []gIdent{{"client", "pc", "", "Exodus 0.9.1"}},
		feats: []string{"http://jabber.org/protocol/caps", "http://jabber.org/protocol/disco#info", "http://jabber.org/protocol/disco#items", "http://jabber.org/protocol/muc"},
	}
}

func xepComplex() gInfo {
	return gInfo{
		ids:   []gIdent{{"client", "pc", "en", "Psi 0.11"}, {"client", "pc", "el", "Ψ 0.11"}},
		feats: []string{"http://jabber.org/protocol/caps", "http://jabber.org/protocol/disco#info", "http://jabber.org/protocol/disco#items", "http://jabber.org/protocol/muc"},
		forms: []gForm{{fields: []gField{
			{formType, "hidden", []string{"urn:xmpp:dataforms:softwareinfo"}},
			{"ip_version", "text-multi", []string{"ipv4", "ipv6"}},
			{"os", "", []string{"Mac"}},
			{"os_version", "", []string{"10.5.1"}},
			{"software", "", []string{"Psi"}},
			{"software_version", "", []string{"0.11"}},
		}}},
	}
}

var words = []string{"", "a", "b", "ab", "a<", "<", "a/b", "/", "urn:x", "http://jabber.org/protocol/muc", "é", "Ψ", "日本", "A", "a ", "FORM_TYPE", "z"}

func (c *ctx) word() string {
	rnd := c.r.Rnd
	if rnd.Chance(1, 60) {
		// the size dimension inside random infos: around a power of two, 16 ... 4096
		return sizedString((16<<rnd.Intn(9))+rnd.Intn(5)-2, rnd.Intn(20))
	}
	switch rnd.Intn(8) {
	case 0:
		n := rnd.Intn(6)
		b := make([]byte, n)
		for i := range b {
			const letters = "ab</ :c\x01\xff\n"
			b[i] = letters[rnd.Intn(len(letters))]
		}
		return string(b)
	case 1:
		return words[rnd.Intn(len(words))] + words[rnd.Intn(len(words))]
	}
	return words[rnd.Intn(len(words))]
}

var fieldTypes = []string{"", "hidden", "text-single", "text-multi", "list-multi", "list-single", "boolean", "jid-single", "jid-multi", "text-private", "fixed"}

func (c *ctx) genInfo(maxN int, wf bool) gInfo {
	rnd := c.r.Rnd
	var g gInfo
	for k, n := 0, rnd.Intn(maxN+1); k < n; k++ {
		g.ids = append(g.ids, gIdent{c.word(), c.word(), c.word(), c.word()})
	}
	// identities always pairwise distinct in (category, type, lang): the property's quantifier
	seen := map[[3]string]bool{}
	ids := g.ids[:0]
	for _, i := range g.ids {
		k := [3]string{i.cat, i.typ, i.lang}
		if !seen[k] {
			seen[k] = true
			ids = append(ids, i)
		}
	}
	g.ids = ids
	for k, n := 0, rnd.Intn(maxN+1); k < n; k++ {
		g.feats = append(g.feats, c.word())
	}
	nf := rnd.Intn(maxN + 1)
	if rnd.Chance(1, 3) {
		nf = rnd.Intn(2)
	}
	ft := map[string]bool{}
	for k := 0; k < nf; k++ {
		var f gForm
		vars := map[string]bool{}
		if rnd.Chance(4, 5) {
			fd := gField{vr: formType, typ: "hidden", vals: []string{c.word()}}
			if !wf {
				switch rnd.Intn(6) {
				case 0:
					fd.typ = fieldTypes[rnd.Intn(len(fieldTypes))]
				case 1:
					fd.vals = append(fd.vals, c.word())
				case 2:
					fd.vals = nil
				}
			}
			f.fields = append(f.fields, fd)
			vars[formType] = true
		}
		for m, n := 0, rnd.Intn(maxN+1); m < n; m++ {
			fd := gField{vr: c.word(), typ: fieldTypes[rnd.Intn(len(fieldTypes))]}
			if fd.typ == "fixed" && !wf {
				fd.vr = ""
			}
			if wf && (vars[fd.vr] || fd.vr == formType) {
				continue
			}
			vars[fd.vr] = true
			for v, nv := 0, rnd.Intn(4); v < nv; v++ {
				fd.vals = append(fd.vals, c.word())
			}
			f.fields = append(f.fields, fd)
		}
		// FORM_TYPE anywhere among the fields
		if len(f.fields) > 1 {
			j := rnd.Intn(len(f.fields))
			f.fields[0], f.fields[j] = f.fields[j], f.fields[0]
		}
		if wf && ft[f.formType()] {
			continue
		}
		ft[f.formType()] = true
		g.forms = append(g.forms, f)
	}
	return g
}

func orderedSubsets[T any](pool []T, maxLen int, f func([]T)) {
	var rec func(cur []T, used []bool)
	rec = func(cur []T, used []bool) {
		f(append([]T(nil), cur...))
		if len(cur) == maxLen {
			return
		}
		for i := range pool {
			if !used[i] {
				used[i] = true
				rec(append(cur, pool[i]), used)
				used[i] = false
			}
		}
	}
	rec(nil, make([]bool, len(pool)))
}

// Run is the C20 runner.
func Run(r *common.Run) error {
	c := &ctx{r: r}
	if r.Replay != "" {
		lines, err := common.ReplayLines(r.Replay)
		if err != nil {
			return err
		}
		for _, l := range lines {
			f := strings.Fields(l)
			if len(f) < 5 || f[0] != "C20" || f[1] != "ver" {
				continue
			}
			g, err := dec(f[2], f[3], f[4])
			if err != nil {
				return err
			}
			c.info(g, "replay", 8)
			c.entryPoints(g, []byte("ab"))
			c.concurrentOn(g, 400)
			if len(g.forms) > 0 {
				c.historyOn(g)
			}
		}
		return nil
	}

	if r.Race() {
		c.concurrent()
		return nil
	}
	c.concurrent()
	c.decoded()
	c.octets()
	c.history()

	// corpus: the two worked examples of XEP-0115 (§5.2, §5.3) with their published
	// verification strings, then the minimal witnesses of past failures
	for _, ex := range []struct {
		g   gInfo
		ver string
	}{{xepSimple(), "QgayPKawpkPSDYmwT/WM94uAlu0="}, {xepComplex(), "q07IKJEyjvHSyhy//CH0CxmKi8w="}} {
		for _, how := range []string{"ctor", "xml"} {
			i, err := value(ex.g, how)
			if err != nil {
				return err
			}
			res := runHash(i, stdcrypto.SHA1)
			if res.out != ex.ver {
				r.Fail("equals-spec", "xep-example", []string{r.Prop + " ver " + ex.g.enc() + " " + how},
					fmt.Sprintf("XEP-0115 example: got %q (%s) want %q", res.out, res.panicked, ex.ver))
			}
		}
		c.info(ex.g, "corpus", 6)
		c.entryPoints(ex.g, []byte("x"))
	}
	ft := func(v string) gField { return gField{formType, "hidden", []string{v}} }
	corpus := []gInfo{
		{forms: []gForm{{}}}, // empty form: makeslice panic
		{forms: []gForm{{fields: []gField{ft("b")}}, {fields: []gField{ft("a")}}}},                                                       // forms not sorted
		{forms: []gForm{{fields: []gField{{formType, "boolean", []string{"t"}}}}}},                                                       // typed FORM_TYPE
		{forms: []gForm{{fields: []gField{{formType, "text-multi", []string{"t", "u"}}}}}},                                               // FORM_TYPE joined by newline
		{forms: []gForm{{fields: []gField{ft("t"), {"a", "", []string{"1"}}, {"a", "", []string{"2"}}}}}},                                // duplicate var
		{forms: []gForm{{fields: []gField{{"a", "", []string{"1"}}}}}},                                                                   // no FORM_TYPE
		{forms: []gForm{{fields: []gField{{"b", "list-multi", []string{"2", "1"}}, ft("t"), {"a", "", nil}}}}},                           // fields and values out of order
		{ids: []gIdent{{"b", "", "", ""}, {"a", "z", "", "n"}, {"a", "b", "x", ""}, {"a", "b", "", "m"}}, feats: []string{"b", "a", ""}}, // cascade of keys
	}
	// the witnesses of the collision theorems (C20_sections_collide, C20_features_collide_with_lt,
	// C20_identities_collide_with_slash, C20_fields_collide): pairs the real code hashes alike
	corpus = append(corpus,
		gInfo{ids: []gIdent{{"a", "b", "", "c"}}}, gInfo{feats: []string{"a/b//c"}},
		gInfo{feats: []string{"a<b"}}, gInfo{feats: []string{"a", "b"}},
		gInfo{ids: []gIdent{{"a/b", "c", "d", "e"}}}, gInfo{ids: []gIdent{{"a", "b/c", "d", "e"}}},
		gInfo{forms: []gForm{{fields: []gField{ft("t"), {"a", "list-multi", []string{"b", "c"}}}}}},
		gInfo{forms: []gForm{{fields: []gField{ft("t"), {"a", "list-multi", []string{"b"}}, {"c", "list-multi", nil}}}}},
	)
	for _, g := range corpus {
		c.info(g, "corpus", 4)
		c.entryPoints(g, []byte("ab"))
	}

	c.sizes()

	// identities with equal (category, type, lang) but different names: well formed per
	// XEP-0115 5.4 (only identical 4-tuples are ill-formed), order left open by 5.1; the code
	// keeps the given order (theorem C20_equal_key_identities_keep_order).  At most 8 of them:
	// Go's sort.Slice is an insertion sort (stable) up to 12 elements.
	tie := []gIdent{{"client", "pc", "", "B"}, {"client", "pc", "", "A"}, {"client", "pc", "en", "z"}, {"a", "pc", "", "C"}, {"client", "pc", "", ""}}
	orderedSubsets(tie, 4, func(ids []gIdent) {
		c.info(gInfo{ids: ids, feats: []string{"f"}}, "identity-ties", 0)
	})
	for k := 0; k < r.Pick(100, 2000); k++ {
		var ids []gIdent
		for m, n := 0, 2+r.Rnd.Intn(7); m < n; m++ {
			ids = append(ids, gIdent{[]string{"a", "b"}[r.Rnd.Intn(2)], []string{"", "t"}[r.Rnd.Intn(2)], []string{"", "en"}[r.Rnd.Intn(2)], c.word()})
		}
		c.info(gInfo{ids: ids}, "identity-ties", 0)
	}

	// small-scope exhaustive: every ordered selection from small pools
	idPool := []gIdent{{"a", "b", "", "n"}, {"a", "", "b", ""}, {"", "a", "b", "m"}}
	featPool := []string{"a", "", "a<"}
	n := 0
	orderedSubsets(idPool, 3, func(ids []gIdent) {
		orderedSubsets(featPool, 3, func(feats []string) {
			c.info(gInfo{ids: ids, feats: feats}, "exhaustive-ids-feats", 0)
			n++
		})
	})
	fieldPool := []gField{ft("t"), {"a", "", []string{"2", "1"}}, {"b", "list-multi", nil}, {"", "fixed", []string{"x"}}}
	var formPool []gForm
	orderedSubsets(fieldPool, r.Pick(3, 4), func(fs []gField) { formPool = append(formPool, gForm{fields: fs}) })
	for _, f := range formPool {
		c.info(gInfo{forms: []gForm{f}}, "exhaustive-form", 0)
		n++
	}
	smallForms := []gForm{{}, {fields: []gField{ft("a")}}, {fields: []gField{ft("b"), {"x", "", []string{"1"}}}},
		{fields: []gField{{"x", "", []string{"1"}}}}, {fields: []gField{{"y", "", nil}, ft("")}}, {fields: []gField{ft("a<")}}}
	orderedSubsets(smallForms, r.Pick(3, 4), func(fs []gForm) {
		c.info(gInfo{feats: []string{"f"}, forms: fs}, "exhaustive-forms", 0)
		n++
	})
	r.Exhaustive = append(r.Exhaustive, fmt.Sprintf("every ordered selection of identities x features from pools of 3, of fields (<= %d of 4) in one form, and of forms (<= %d of 6, incl. empty, without FORM_TYPE, empty FORM_TYPE): %d infos, each constructed and decoded from XML", r.Pick(3, 4), r.Pick(3, 4), n))

	// random
	nRandom := r.Pick(1500, 40000)
	for k := 0; k < nRandom; k++ {
		maxN := 3
		if k%10 == 0 {
			maxN = 8
		}
		if k%100 == 0 {
			maxN = 40 // beyond the insertion-sort threshold of Go's sort (12)
		}
		wf := k%4 != 3
		if !wf && maxN > 8 {
			maxN = 6 // equal keys: keep below the threshold where an unstable sort may reorder them
		}
		g := c.genInfo(maxN, wf)
		cl := "random-wf"
		if !wf {
			cl = "random-any"
		}
		c.info(g, cl, 2)
		if k%25 == 0 {
			c.entryPoints(g, []byte(c.word()))
		}
	}
	return nil
}

// ---- facts ------------------------------------------------------------------------------------
