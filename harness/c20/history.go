package c20

// Round F: two more dimensions of "depends only on the sets ... equals the construction of 5.1".
//
//   - octets: XEP-0115 5.1 hashes the OCTETS of every string.  Every hashed position of a
//     template info (category, type, lang, name, feature, FORM_TYPE, var, value) receives texts
//     that any well-meant text transformation changes: not in normalisation form C / KC
//     (decomposed accents, reordered marks, Hangul jamo, ligatures, fullwidth forms), case
//     pairs, leading / trailing / inner white space and line ends, text that looks like an XML
//     entity or a percent escape, zero-width characters and a byte order mark, invalid UTF-8
//     (constructed values only).  The oracle is the reference of 5.1 over raw bytes; two
//     texts that differ must not collide.
//   - history: what happens to the forms of an Info between its construction / decoding and
//     Hash must not matter.  Every operation of form.Data that does not, by its contract,
//     change the form as a peer sent it (encoding it, reading it, Set + Submit - Submit
//     returns a NEW form -, draining the submission) is applied to the forms of the value;
//     the caller's view of the value (snap) and the hashed bytes must be what they were.

import (
	"bytes"
	stdcrypto "crypto"
	"encoding/xml"
	"fmt"
	"strings"

	"mellium.im/xmpp/disco"
	"mellium.im/xmpp/form"
	"mellium.im/xmpp/jid"
)

type textCase struct{ kind, s string }

var octetTexts = []textCase{
	{"nfd", "Cafe\u0301"}, {"nfc", "Caf\u00e9"}, {"marks-reordered", "a\u0307\u0323"}, {"marks-canonical", "a\u0323\u0307"},
	{"jamo", "\u1112\u1161\u11ab"}, {"hangul", "\ud55c"}, {"ligature", "\ufb01le"}, {"fullwidth", "\uff21\uff42"}, {"angstrom", "\u212b"}, {"a-ring", "\u00c5"},
	{"case", "Client"}, {"case", "client"}, {"sharp-s", "stra\u00dfe"}, {"sharp-s", "strasse"},
	{"space-lead", " a"}, {"space-trail", "a "}, {"space-inner", "a  b"}, {"tab", "a\tb"}, {"crlf", "a\r\nb"}, {"lf", "a\nb"}, {"nbsp", "a\u00a0b"},
	{"entity-text", "a&amp;b"}, {"entity-text", "a&b"}, {"percent", "a%20b"}, {"percent", "a b"}, {"lt-text", "a&lt;b"},
	{"zero-width", "a\u200bb"}, {"bom", "\ufeffa"}, {"soft-hyphen", "a\u00adb"}, {"bidi", "\u05d0b"},
	{"invalid-utf8", "a\xffb"}, {"invalid-utf8", "\xc3"}, {"nul", "a\x00b"},
}

// octets: every sensitive text at every hashed position.
func (c *ctx) octets() {
	r := c.r
	t := sizeTemplate()
	_, kinds := t.atoms()
	n := 0
	for p := range kinds {
		hashed := map[string]string{}
		for _, tc := range octetTexts {
			g := t.clone()
			ps, _ := g.atoms()
			*ps[p] = tc.s
			c.info(g, "octets-"+tc.kind, 0)
			n++
			// distinct texts, distinct hashed strings (a normalising implementation collides)
			if res := runHash(g.build(), stdcrypto.SHA1); res.panicked == "" {
				if other, seen := hashed[string(res.pre)]; seen && other != tc.s {
					r.Fail("equals-spec", "octets-collide/"+kinds[p], []string{r.Prop + " ver " + g.enc() + " ctor"},
						fmt.Sprintf("position %s: the different texts %q and %q are hashed to the same string %s", kinds[p], other, tc.s, clip(string(res.pre))))
				}
				hashed[string(res.pre)] = tc.s
			}
		}
	}
	r.Exhaustive = append(r.Exhaustive, fmt.Sprintf("every one of %d transformation-sensitive texts at every one of the %d hashed positions of a template info: %d infos, constructed and (when XML can carry the text) decoded", len(octetTexts), len(kinds), n))
}

// octetProbe (fact): per kind of position, the number of sensitive texts for which the real
// Hash does not write exactly the reference of 5.1 over raw bytes.
func octetProbe() (string, bool) {
	t := sizeTemplate()
	_, kinds := t.atoms()
	order := []string{"category", "type", "lang", "name", "feature", "form-type", "var", "value"}
	bad := map[string]int{}
	for p := range kinds {
		for _, tc := range octetTexts {
			g := t.clone()
			ps, _ := g.atoms()
			*ps[p] = tc.s
			res := runHash(g.build(), stdcrypto.SHA1)
			if res.panicked != "" {
				return "", false
			}
			if string(res.pre) != refVer(g) {
				bad[kinds[p]]++
			}
		}
	}
	var el []string
	for _, k := range order {
		el = append(el, fmt.Sprintf("(%q, %d)", k, bad[k]))
	}
	return "[" + strings.Join(el, ", ") + "]", true
}

// ---- history ----------------------------------------------------------------------------

type formOp struct {
	name string
	f    func(d *form.Data)
}

func drain(tr xml.TokenReader) {
	if tr == nil {
		return
	}
	for k := 0; k < 100000; k++ {
		if _, err := tr.Token(); err != nil {
			return
		}
	}
}

// setSomething gives every field of the form another value of a type Set accepts for it.
func setSomething(d *form.Data) {
	var vars []form.FieldData
	d.ForFields(func(f form.FieldData) { vars = append(vars, f) })
	for _, f := range vars {
		for _, v := range []interface{}{"zz", true, []string{"y", "x"}, jid.MustParse("Zz@example.net/R"), []jid.JID{jid.MustParse("q@example.org")}} {
			if ok, err := d.Set(f.Var, v); ok && err == nil {
				break
			}
		}
	}
}

var formOps = []formOp{
	{"marshal", func(d *form.Data) { _, _ = xml.Marshal(d) }},
	{"token-reader", func(d *form.Data) { drain(d.TokenReader()) }},
	{"read", func(d *form.Data) {
		d.ForFields(func(f form.FieldData) {
			_, _ = d.Get(f.Var)
			_, _ = d.Raw(f.Var)
			_, _ = d.GetString(f.Var)
			_, _ = d.GetStrings(f.Var)
			_, _ = d.GetBool(f.Var)
			_, _ = d.GetJID(f.Var)
			_, _ = d.GetJIDs(f.Var)
			_, _ = d.GetOptions(f.Var)
		})
		_, _, _ = d.Len(), d.Title(), d.Instructions()
	}},
	{"submit", func(d *form.Data) { s, _ := d.Submit(); drain(s) }},
	{"set-submit", func(d *form.Data) { setSomething(d); s, _ := d.Submit(); drain(s) }},
	{"submit-marshal", func(d *form.Data) { s, _ := d.Submit(); drain(s); _, _ = xml.Marshal(d) }},
}

// applyOp applies the operation to every form of the value, recovering panics.
func applyOp(i disco.Info, op formOp) (p string) {
	defer func() {
		if x := recover(); x != nil {
			p = fmt.Sprint(x)
		}
	}()
	for k := range i.Form {
		op.f(&i.Form[k])
	}
	return ""
}

// historyInfos: forms whose wire values are NOT in the normal form of their type (the
// interesting ones: an operation that writes typed values back changes them).
func historyInfos() []gInfo {
	ft := func(v string) gField { return gField{formType, "hidden", []string{v}} }
	return []gInfo{
		{feats: []string{"f"}, forms: []gForm{{[]gField{ft("urn:t"), {"b", "boolean", []string{"1"}}, {"j", "jid-single", []string{"A@Example.NET/r"}}, {"s", "text-single", []string{"v", "w"}}, {"m", "list-multi", []string{"2", "1", ""}}}}}},
		{forms: []gForm{{[]gField{ft("urn:t"), {"b", "boolean", []string{"0"}}, {"e", "text-single", []string{""}}, {"jm", "jid-multi", []string{"B@c", "not a jid@@"}}}}, {[]gField{{"x", "", []string{"1"}}}}}},
		{ids: []gIdent{{"client", "pc", "", "n"}}, forms: []gForm{{[]gField{{formType, "", []string{"t", "u"}}, {"l", "list-single", []string{"o", "p"}}, {"h", "hidden", []string{"b", "a"}}, {"f", "fixed", []string{"x"}}, {"tm", "text-multi", []string{"l2", "l1"}}}}}},
		xepComplex(),
	}
}

// history: every operation on the forms of constructed and decoded values, then Hash.
func (c *ctx) history() {
	for _, g := range historyInfos() {
		c.historyOn(g)
	}
}

func (c *ctx) historyOn(g gInfo) {
	r := c.r
	{
		for _, how := range []string{"ctor", "xml"} {
			if how == "xml" && !xmlOK(g) {
				continue
			}
			for _, op := range formOps {
				for _, hashFirst := range []bool{false, true} {
					i, err := value(g, how)
					if err != nil {
						continue
					}
					fresh, _ := value(g, how)
					want := runHash(fresh, stdcrypto.SHA1)
					before := snap(i)
					if hashFirst {
						runHash(i, stdcrypto.SHA1)
					}
					p := applyOp(i, op)
					after := snap(i)
					got := runHash(i, stdcrypto.SHA1)
					r.Case(fmt.Sprintf("history %s %s %v %s", g.enc(), how, hashFirst, op.name), true, "history-"+op.name)
					lines := []string{r.Prop + " ver " + g.enc() + " " + how, fmt.Sprintf("#history: hashed first=%v, then %s on every form, then Hash", hashFirst, op.name)}
					switch {
					case p != "" || got.panicked != "" || want.panicked != "":
						r.Fail("total", "history/"+op.name, lines, "panic: "+p+got.panicked+want.panicked)
					case !bytes.Equal(got.pre, want.pre):
						r.Fail("value-only", "history/"+op.name, lines,
							fmt.Sprintf("after %s on its forms the info hashes %s, a fresh equal info hashes %s%s", op.name, clip(string(got.pre)), clip(string(want.pre)), firstDiff(string(got.pre), string(want.pre))))
					case changedLevel(before, after) != "":
						r.Fail("value-only", "history/"+op.name, lines,
							fmt.Sprintf("%s changed the form as the peer sent it (%s): before %s, after %s", op.name, changedLevel(before, after), clip(before.plain()), clip(after.plain())))
					}
				}
			}
		}
	}
}

// formOpWrites (fact): per operation, is the caller's view of the forms of the first two
// history values (constructed and decoded) changed by it?
func formOpWrites() (string, bool) {
	var el []string
	for _, op := range formOps {
		changed := false
		for _, g := range historyInfos()[:3] {
			for _, how := range []string{"ctor", "xml"} {
				i, err := value(g, how)
				if err != nil {
					return "", false
				}
				before := snap(i).plain()
				if p := applyOp(i, op); p != "" {
					return "", false
				}
				changed = changed || snap(i).plain() != before
			}
		}
		el = append(el, fmt.Sprintf("(%q, %v)", op.name, changed))
	}
	return "[" + strings.Join(el, ", ") + "]", true
}
