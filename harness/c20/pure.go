package c20

// Round E: the call as seen by the caller.
//
// Info.Hash / AppendHash have a value receiver, but the slices inside disco.Info
// and inside its form.Data values are shared with the caller.  "Depends only on
// the sets" therefore has a second half that a single call on a fresh value
// never shows: the call must leave the caller's value as it was (anything else
// is visible to the caller, changes what the NEXT call hashes when the first
// value of a FORM_TYPE field moves, and is a data race between concurrent
// calls on the application's own Info).  Three independent observations:
//
//   - snapshot: everything a caller can read from the value (identities,
//     features, forms in order, their fields in order, the raw values in order)
//     before and after the call;
//   - again: a second call on the same value must hash the same bytes; the pair
//     (value after the call, bytes of the second call) is also a protocol line
//     compared with the model (Info.after implInPlace, verImpl);
//   - concurrent: goroutines hash one shared value at the same time; every
//     result must be the result of a call made alone (also the race tier's
//     scenario).

import (
	"bytes"
	stdcrypto "crypto"
	"encoding/xml"
	"fmt"
	"strings"
	"sync"

	"mellium.im/xmpp/disco"
	"mellium.im/xmpp/form"

	"verifharness/common"
)

// snap reads everything reachable through the exported API of the value.
func snap(i disco.Info) (g gInfo) {
	for _, id := range i.Identity {
		g.ids = append(g.ids, gIdent{id.Category, id.Type, id.Lang, id.Name})
	}
	for _, f := range i.Features {
		g.feats = append(g.feats, f.Var)
	}
	for k := range i.Form {
		var gf gForm
		i.Form[k].ForFields(func(f form.FieldData) {
			gf.fields = append(gf.fields, gField{vr: f.Var, vals: append([]string(nil), f.Raw...)})
		})
		g.forms = append(g.forms, gf)
	}
	return g
}

// plain: the encoding of the line protocol without the field types, fields of
// the three lists separated by "/" (an observation has no spaces).
func (g gInfo) plain() string {
	o := g.clone()
	for k := range o.forms {
		for m := range o.forms[k].fields {
			o.forms[k].fields[m].typ = ""
		}
	}
	s := strings.ReplaceAll(o.enc(), "~none", "")
	return strings.ReplaceAll(s, " ", "/")
}

// changedLevel names the first level at which two snapshots differ.
func changedLevel(a, b gInfo) string {
	if fmt.Sprint(a.ids) != fmt.Sprint(b.ids) {
		return "identities"
	}
	if strings.Join(a.feats, "\x00") != strings.Join(b.feats, "\x00") || len(a.feats) != len(b.feats) {
		return "features"
	}
	if len(a.forms) != len(b.forms) {
		return "forms"
	}
	// the same forms in another order?
	same := func(x, y gForm) bool { return (gInfo{forms: []gForm{x}}).plain() == (gInfo{forms: []gForm{y}}).plain() }
	for k := range a.forms {
		if same(a.forms[k], b.forms[k]) {
			continue
		}
		for m := range b.forms {
			if same(a.forms[k], b.forms[m]) {
				return "forms"
			}
		}
		x, y := a.forms[k], b.forms[k]
		if len(x.fields) == len(y.fields) {
			vars := true
			for m := range x.fields {
				vars = vars && x.fields[m].vr == y.fields[m].vr
			}
			if vars {
				return "values"
			}
		}
		return "fields"
	}
	return ""
}

// twice: the caller's view of the first call (`before` was taken before it, `first` is
// its result) and a second call on the SAME value.
func (c *ctx) twice(g gInfo, how string, i disco.Info, before gInfo, lines []string, first result) {
	r := c.r
	after := snap(i)
	res2 := runHash(i, stdcrypto.SHA1)
	if res2.panicked != "" {
		r.Fail("total", "second-call", lines, "a second Hash on the same value panicked: "+res2.panicked)
		return
	}
	line := "again " + g.enc() + " " + how
	if len(line) < 20000 {
		r.Line(line, after.plain()+"/"+common.Hex(res2.pre))
	}
	al := append(append([]string(nil), lines...), r.Prop+" "+line)
	if lv := changedLevel(before, after); lv != "" {
		r.Fail("value-only", "argument-modified-"+lv, al,
			fmt.Sprintf("Hash changed the caller's value (%s): before %s, after %s", lv, clip(before.plain()), clip(after.plain())))
	}
	if !bytes.Equal(res2.pre, first.pre) {
		r.Fail("value-only", "second-call-differs", al,
			fmt.Sprintf("successive calls on one value hashed %s, then %s", clip(string(first.pre)), clip(string(res2.pre))))
	}
}

// concurrent: several goroutines hash one shared value (the application's own
// Info, answered to every disco#info request and hashed for every presence).
func (c *ctx) concurrent() {
	r := c.r
	mk := func(seed int) gInfo {
		var g gInfo
		for k := 0; k < 40; k++ {
			g.feats = append(g.feats, fmt.Sprintf("urn:f:%02d", (k*17+seed)%40))
		}
		for k := 0; k < 10; k++ {
			g.ids = append(g.ids, gIdent{fmt.Sprintf("c%d", (k*7+seed)%10), "t", "", "n"})
		}
		g.forms = []gForm{
			{[]gField{{"z", "list-multi", []string{"3", "1", "2"}}, {formType, "hidden", []string{"urn:t:b"}}, {"a", "text-multi", []string{"y", "x"}}}},
			{[]gField{{formType, "hidden", []string{"urn:t:a"}}, {"m", "list-multi", []string{"b", "a"}}}},
		}
		return g
	}
	rounds := r.Pick(150, 1500)
	if r.Race() {
		rounds = 200
	}
	for seed := 0; seed < 3; seed++ {
		r.Mark("concurrent %d", seed)
		c.concurrentOn(mk(seed), rounds)
		r.Case(fmt.Sprintf("concurrent %d", seed), true, "concurrent")
	}
}

func (c *ctx) concurrentOn(g gInfo, rounds int) {
	r := c.r
	if !identitiesDistinct(g) {
		return
	}
	want := refVer(g)
	line := r.Prop + " ver " + g.enc() + " ctor"
	bad := make([]string, 4)
	for round := 0; round < rounds && strings.Join(bad, "") == ""; round++ {
		shared := g.build() // fresh, unsorted value for every round
		var wg sync.WaitGroup
		for w := 0; w < 4; w++ {
			wg.Add(1)
			go func(w int) {
				defer wg.Done()
				defer func() {
					if p := recover(); p != nil {
						bad[w] = fmt.Sprintf("PANIC %v", p)
					}
				}()
				rh := &recHash{Hash: stdcrypto.SHA1.New()}
				_ = shared.Hash(rh)
				if string(rh.rec) != want {
					bad[w] = "hashed " + clip(string(rh.rec)) + firstDiff(string(rh.rec), want)
				}
			}(w)
		}
		wg.Wait()
	}
	if d := strings.Join(bad, ""); d != "" {
		r.Fail("value-only", "concurrent-calls-differ", []string{line, "#four goroutines call Hash on one shared value"},
			"a call made while others were hashing the same value gave another string: "+d)
	}
}

// argumentWrites: the probe fact.  One value per level, unsorted at that level
// only (the universe is Model/Caps.lean writeProbes); true = the caller's value
// is not what it was after one Hash.
func argumentWrites() (string, bool) {
	ft := func(v ...string) gField { return gField{formType, "hidden", v} }
	probes := []gInfo{
		{ids: []gIdent{{"b", "", "", ""}, {"a", "", "", ""}}},
		{feats: []string{"b", "a"}},
		{forms: []gForm{{[]gField{ft("b")}}, {[]gField{ft("a")}}}},
		{forms: []gForm{{[]gField{{"b", "list-multi", []string{"1"}}, {"a", "list-multi", []string{"1"}}}}}},
		{forms: []gForm{{[]gField{ft("t"), {"v", "list-multi", []string{"b", "a"}}}}}},
		{forms: []gForm{{[]gField{ft("b", "a")}}}},
	}
	var el []string
	for _, g := range probes {
		i := g.build()
		before := snap(i)
		if before.plain() != g.plain() {
			return "", false // the probe value is not what the model's universe says
		}
		if res := runHash(i, stdcrypto.SHA1); res.panicked != "" {
			return "", false
		}
		el = append(el, fmt.Sprint(snap(i).plain() != before.plain()))
	}
	return "[" + strings.Join(el, ", ") + "]", true
}

// sent (review C20-8): the value that is hashed is the LOCAL value (FieldData.Raw); what a
// peer sees - and hashes when it verifies the caps of this entity per XEP-0115 5.4 - is the
// disco#info reply the library's own encoder writes for the same value.  The dimension
// "marshal": xml.Marshal(info) -> xml.Unmarshal -> Hash must hash the same bytes.
func (c *ctx) sent(g gInfo, base result, lines []string) {
	r := c.r
	var res result
	var doc []byte
	p := func() (p string) {
		defer func() {
			if x := recover(); x != nil {
				p = fmt.Sprint(x)
			}
		}()
		b, err := xml.Marshal(g.build())
		if err != nil {
			res = result{err: err.Error()}
			return ""
		}
		doc = b
		var j disco.Info
		if err := xml.Unmarshal(b, &j); err != nil {
			res = result{err: err.Error()}
			return ""
		}
		res = runHash(j, stdcrypto.SHA1)
		return ""
	}()
	r.Case("marshal "+g.enc(), true, "marshal")
	switch {
	case p != "" || res.panicked != "":
		r.Fail("total", "marshal", lines, "marshalling, decoding and hashing the value panicked: "+p+res.panicked)
	case res.err != "":
		r.Hist["marshal-error"]++ // strings XML cannot carry: not this property's business
	case !bytes.Equal(res.pre, base.pre):
		r.Fail("equals-spec", "hashed-is-not-what-is-sent", append(append([]string(nil), lines...), "#the reply the library writes for this value: "+clip(string(doc))),
			fmt.Sprintf("the local value hashes %s, the value decoded from its own disco#info reply hashes %s%s", clip(string(base.pre)), clip(string(res.pre)), firstDiff(string(res.pre), string(base.pre))))
	}
}

// decoded (review C20-6): replies as a peer may send them, written by hand rather than by the
// harness' own writer: multi-item results with <reported/>, nested forms, values with child
// elements, fields without var or type, options, several FORM_TYPE fields, no type attribute.
// What the decoder makes of them is read back through the exported API (snap) and that view is
// the case: the real Hash must not panic, must hash what the model and the reference hash for
// that view, and must leave the value alone.
var peerReplies = []string{
	`<x xmlns='jabber:x:data' type='result'><reported><field var='a' type='text-single'/></reported><item><field var='a'><value>1</value></field></item><item><field var='a'><value>2</value></field></item></x>`,
	`<x xmlns='jabber:x:data' type='result'><field var='FORM_TYPE' type='hidden'><value>t</value></field><field var='n'><x xmlns='jabber:x:data' type='result'><field var='in'><value>v</value></field></x><value>out</value></field></x>`,
	`<x xmlns='jabber:x:data' type='result'><field var='FORM_TYPE' type='hidden'><value>t</value></field><field var='v'><value>a<b xmlns='urn:x'>z</b>c</value><value/></field></x>`,
	`<x xmlns='jabber:x:data'><field><value>x</value></field><field type='fixed'><value>y</value></field><field var=''><value>z</value></field></x>`,
	`<x xmlns='jabber:x:data' type='form'><title>T</title><instructions>I</instructions><field var='l' type='list-single' label='L'><desc>d</desc><required/><option label='o'><value>opt</value></option><value>opt</value></field></x>`,
	`<x xmlns='jabber:x:data' type='result'><field var='FORM_TYPE'/><field var='FORM_TYPE' type='hidden'><value>u</value><value>t</value></field><field var='b' type='boolean'><value>maybe</value></field><field var='j' type='jid-multi'><value>not a jid@@</value><value>a@b</value></field></x>`,
	`<x xmlns='jabber:x:data' type='cancel'/><x xmlns='jabber:x:data' type='submit'><field var='FORM_TYPE'><value>s</value></field></x>`,
	`<x xmlns='jabber:x:data' type='result'><field var='m' type='text-multi'><value>2</value><value>1</value><value>2</value></field></x><x xmlns='jabber:x:data' type='result'><field var='m' type='text-multi'><value>1</value></field></x>`,
}

func (c *ctx) decoded() {
	r := c.r
	for k, forms := range peerReplies {
		doc := "<query xmlns='http://jabber.org/protocol/disco#info'><identity category='client' type='pc' name='n'/><feature var='f'/>" + forms + "</query>"
		var i disco.Info
		if err := xml.Unmarshal([]byte(doc), &i); err != nil {
			r.Hist["peer-reply-not-decoded"]++
			continue
		}
		g := snap(i)
		line := "ver " + g.enc() + " decoded"
		lines := []string{r.Prop + " " + line, fmt.Sprintf("#peer reply %d: %s", k, forms)}
		res := runHash(i, stdcrypto.SHA1)
		r.Line(line, res.obs())
		r.Case(line, res.panicked == "", "peer-reply")
		if res.panicked != "" {
			r.Fail("total", "peer-reply", lines, "Hash panicked on a decoded reply: "+res.panicked)
			continue
		}
		if want := refVer(g); string(res.pre) != want {
			r.Fail("equals-spec", "peer-reply", lines, fmt.Sprintf("hashed %s, XEP-0115 5.1 on the decoded fields gives %s%s", clip(string(res.pre)), clip(want), firstDiff(string(res.pre), want)))
		}
		c.twice(g, "decoded", i, g, lines, res)
	}
}
