// Package c07 drives Session.Serve on single incoming elements (property C07):
// every incoming get/set IQ is answered exactly once, replies are never answered.
//
// Protocol line (see lean/XmppModel/Driver/C07.lean):
//
//	elem <mode> <ns> <localBare> <jidmap> <toks> <prog>  ->  <written> <result>
//
// mode d = the recording handler is the session's handler; r = a mux.ServeMux with the
// recording handler registered as IQ handler for the wildcard payload of the four defined
// types; u = a mux.ServeMux with nothing registered.  prog is the handler program.
package c07

import (
	"context"
	"encoding/xml"
	"fmt"
	"io"
	"runtime"
	"strings"
	"sync"
	"time"

	"mellium.im/xmlstream"
	"mellium.im/xmpp"
	"mellium.im/xmpp/jid"
	"mellium.im/xmpp/mux"
	"mellium.im/xmpp/stanza"

	"verifharness/c08"
	"verifharness/common"
)

type ctx struct {
	r *common.Run
	// ws: the sessions of `check` use the WebSocket subprotocol (the reader's framing check is on)
	ws bool
}

func name(l string) xml.Name { return xml.Name{Local: l} }

func at(l, v string) xml.Attr { return xml.Attr{Name: name(l), Value: v} }

func el(n xml.Name, attrs []xml.Attr, inner ...xml.Token) []xml.Token {
	st := xml.StartElement{Name: n, Attr: attrs}
	out := []xml.Token{st}
	out = append(out, inner...)
	return append(out, st.End())
}

func iqAttrs(id, typ string) []xml.Attr {
	var a []xml.Attr
	if typ != "-" {
		a = append(a, at("type", typ))
	}
	if id != "-" {
		a = append(a, at("id", id))
	}
	return a
}

// writes is the alphabet of elements a handler may write, given the request id.
func writes(id string) map[string][]xml.Token {
	other := "other-" + id
	return map[string][]xml.Token{
		"result":        el(name("iq"), iqAttrs(id, "result")),
		"error":         el(name("iq"), iqAttrs(id, "error"), el(name("error"), []xml.Attr{at("type", "cancel")})...),
		"result-client": el(xml.Name{Space: c08.NSClient, Local: "iq"}, iqAttrs(id, "result")),
		"result-server": el(xml.Name{Space: c08.NSServer, Local: "iq"}, iqAttrs(id, "result")),
		"otherid":       el(name("iq"), iqAttrs(other, "result")),
		"noid":          el(name("iq"), iqAttrs("-", "result")),
		"get":           el(name("iq"), iqAttrs(id, "get"), el(xml.Name{Space: "urn:q", Local: "q"}, nil)...),
		"set":           el(name("iq"), iqAttrs(id, "set"), el(xml.Name{Space: "urn:q", Local: "q"}, nil)...),
		"notype":        el(name("iq"), iqAttrs(id, "-")),
		"badtype":       el(name("iq"), iqAttrs(id, "foo")),
		"nsattr":        el(name("iq"), []xml.Attr{{Name: xml.Name{Space: "urn:p", Local: "id"}, Value: id}, {Name: xml.Name{Space: "urn:p", Local: "type"}, Value: "result"}, at("id", other), at("type", "get")}),
		"nested":        el(name("message"), []xml.Attr{at("id", "m-"+id)}, el(name("iq"), iqAttrs(id, "result"))...),
		"nested2":       el(xml.Name{Space: "urn:w", Local: "wrap"}, nil, el(xml.Name{Space: "urn:w", Local: "w2"}, nil, el(name("iq"), iqAttrs(id, "error"))...)...),
		"foreign":       el(xml.Name{Space: "urn:other", Local: "iq"}, iqAttrs(id, "result")),
		"message":       el(name("message"), []xml.Attr{at("id", "m1"), at("to", "a@example.org")}, el(name("body"), nil, xml.CharData("hi"))...),
		"presence":      el(name("presence"), []xml.Attr{at("id", "p1")}),
		"other":         el(xml.Name{Space: "urn:x", Local: "x"}, []xml.Attr{at("id", id), at("type", "result")}),
		"text-result":   append([]xml.Token{xml.CharData(" ")}, el(name("iq"), iqAttrs(id, "result"))...),
	}
}

var writeNames = []string{"result", "error", "result-client", "result-server", "otherid", "noid", "get", "set", "notype", "badtype", "nsattr", "nested", "nested2", "foreign", "message", "presence", "other", "text-result"}

// isReply is the property's notion of a reply to id: a top-level iq (client, server or
// unqualified) with that id and type result or error.
func isReply(toks []xml.Token, id string, ns string) bool {
	st, ok := toks[0].(xml.StartElement)
	if !ok || st.Name.Local != "iq" {
		return false
	}
	if st.Name.Space != "" && st.Name.Space != c08.NSClient && st.Name.Space != c08.NSServer {
		return false
	}
	var gid, typ string
	for _, a := range st.Attr {
		if a.Name.Space != "" {
			continue
		}
		switch a.Name.Local {
		case "id":
			gid = a.Value
		case "type":
			typ = a.Value
		}
	}
	return gid == id && (typ == "result" || typ == "error")
}

func splitTop(toks []xml.Token) [][]xml.Token {
	var out [][]xml.Token
	var cur []xml.Token
	d := 0
	for _, t := range toks {
		switch t.(type) {
		case xml.StartElement:
			d++
			cur = append(cur, t)
		case xml.EndElement:
			d--
			cur = append(cur, t)
			if d == 0 {
				out = append(out, cur)
				cur = nil
			}
		default:
			if d > 0 {
				cur = append(cur, t)
			}
		}
	}
	return out
}

func c08AttrVal(as []xml.Attr, l string) string {
	for _, a := range as {
		if a.Name.Local == l && a.Name.Space == "" {
			return a.Value
		}
	}
	return ""
}

func isEnd(t xml.Token) bool { _, ok := t.(xml.EndElement); return ok }

// trimLeft drops the white space text that precedes the first other token.
type trimLeft struct {
	r    xml.TokenReader
	done bool
}

func (t *trimLeft) Token() (xml.Token, error) {
	for {
		tok, err := t.r.Token()
		if cd, ok := tok.(xml.CharData); ok && !t.done && strings.TrimLeft(string(cd), " \t\r\n") == "" && err == nil {
			continue
		}
		t.done = true
		return tok, err
	}
}

type req struct {
	body []byte // the element
	desc string
}

func (c *ctx) check(ns, mode string, element string, prog c08.Prog, class string) {
	r := c.r
	local, remote := c08.LocalJID, c08.RemoteJID
	if ns == c08.NSServer {
		local, remote = c08.LocalSrv, c08.RemoteSrv
	}
	body := []byte(element + "</stream:stream>")
	toks := c08.Tokens(ns, body)
	var mk func(rec xmpp.Handler) xmpp.Handler
	switch mode {
	case "r":
		mk = func(rec xmpp.Handler) xmpp.Handler {
			h := mux.IQHandlerFunc(func(iq stanza.IQ, t xmlstream.TokenReadEncoder, start *xml.StartElement) error {
				return rec.HandleXMPP(t, start)
			})
			return mux.New(ns, mux.IQ(stanza.GetIQ, xml.Name{}, h), mux.IQ(stanza.SetIQ, xml.Name{}, h),
				mux.IQ(stanza.ResultIQ, xml.Name{}, h), mux.IQ(stanza.ErrorIQ, xml.Name{}, h))
		}
	case "u":
		mk = func(rec xmpp.Handler) xmpp.Handler { return mux.New(ns) }
	case "x":
		// a router of the application's own built on the exported lookup ServeMux.IQHandler (the
		// package documentation invites that): it does what the multiplexer's own router does and
		// calls whatever handler the multiplexer returns - nothing is registered, so that is the
		// library's default handler
		mk = func(rec xmpp.Handler) xmpp.Handler {
			m := mux.New(ns)
			return xmpp.HandlerFunc(func(t xmlstream.TokenReadEncoder, start *xml.StartElement) error {
				if !stanza.Is(start.Name, ns) || start.Name.Local != "iq" {
					return m.HandleXMPP(t, start)
				}
				iq, err := stanza.NewIQ(*start)
				if err != nil {
					return err
				}
				inner := struct {
					xml.TokenReader
					xmlstream.Encoder
				}{TokenReader: &trimLeft{r: xmlstream.Inner(t)}, Encoder: t}
				tok, err := inner.Token()
				if err != nil && (err != io.EOF || iq.Type != stanza.ResultIQ) {
					return err
				}
				payloadStart, ok := tok.(xml.StartElement)
				if tok != nil && !ok {
					return fmt.Errorf("xmpp: received IQ with invalid payload of type %T", tok)
				}
				h, _ := m.IQHandler(iq.Type, payloadStart.Name)
				return h.HandleIQ(iq, inner, &payloadStart)
			})
		}
	case "n":
		// Serve(nil): the session's own handler that does nothing
		mk = func(rec xmpp.Handler) xmpp.Handler { return nil }
	case "p", "t":
		// a multiplexer with a handler for some requests only: for get and set with the payload
		// {urn:q}q (p), for get with any payload (t); every other request falls back
		mk = func(rec xmpp.Handler) xmpp.Handler {
			h := mux.IQHandlerFunc(func(iq stanza.IQ, t xmlstream.TokenReadEncoder, start *xml.StartElement) error {
				return rec.HandleXMPP(t, start)
			})
			if mode == "p" {
				q := xml.Name{Space: "urn:q", Local: "q"}
				return mux.New(ns, mux.IQ(stanza.GetIQ, q, h), mux.IQ(stanza.SetIQ, q, h))
			}
			return mux.New(ns, mux.IQ(stanza.GetIQ, xml.Name{}, h))
		}
	case "q":
		// what most IQ handlers do: answer with a reply built from the stanza.IQ the
		// multiplexer parsed (stanza.NewIQ), not from the start element
		mk = func(rec xmpp.Handler) xmpp.Handler {
			h := mux.IQHandlerFunc(func(iq stanza.IQ, t xmlstream.TokenReadEncoder, start *xml.StartElement) error {
				_, err := xmlstream.Copy(t, iq.Result(nil))
				return err
			})
			return mux.New(ns, mux.IQ(stanza.GetIQ, xml.Name{}, h), mux.IQ(stanza.SetIQ, xml.Name{}, h))
		}
	}
	res := c08.ServeOpt(c08.Opts{FailAfter: -1, WS: c.ws}, ns, local, remote, body, []c08.Prog{prog}, mk, nil)
	line := strings.Join([]string{"elem", mode, c08.NsFieldWS(ns, c.ws), common.HexS(res.LocalBare), c08.JidMap(toks), common.EncToks(toks), prog.Enc()}, " ")
	lines := []string{r.Prop + " " + line, "#elem " + common.HexS(element)}
	switch {
	case res.Stall:
		r.Line(line, "STALL")
		r.Fail("terminates", "stall", lines, "Serve did not return")
		return
	case res.Panic != "":
		r.Line(line, "PANIC")
		r.Fail("no-panic", "panic", lines, res.Panic)
		return
	}
	els, streamClosed, werr := c08.Written(ns, res.Out)
	wobs, _ := c08.WrittenObs(els)
	cls := c08.ErrClass(res.Err)
	r.Line(line, wobs+" "+cls)
	fail := func(clause, key, detail string) { r.Fail(clause, key, lines, detail) }
	if werr != nil {
		fail("output-wellformed", "output", werr.Error())
	}
	for _, inv := range res.Invs {
		for _, e := range inv.WErr {
			r.Hist["write-error"]++
			_ = e
		}
	}

	// ---- the property's clauses on the real output -----------------------------------
	if len(toks) == 0 {
		r.Case(line, false, class+"/empty")
		return
	}
	st, ok := toks[0].(xml.StartElement)
	if !ok {
		r.Case(line, false, class+"/nostart")
		return
	}
	var id, typ, from string
	for _, a := range st.Attr {
		if a.Name.Space != "" {
			continue
		}
		switch a.Name.Local {
		case "id":
			id = a.Value
		case "type":
			typ = a.Value
		case "from":
			from = a.Value
		}
	}
	isIQ := st.Name.Local == "iq" && (st.Name.Space == c08.NSClient || st.Name.Space == c08.NSServer)
	request := isIQ && (typ == "get" || typ == "set")
	r.Case(line, true, fmt.Sprintf("%s/%s/%s/%s", class, mode, map[bool]string{true: "request", false: "other"}[request], cls))

	// what the handler itself wrote (it ran iff an invocation was recorded)
	var handlerEls [][]xml.Token
	if len(res.Invs) > 0 {
		var w []xml.Token
		for _, o := range prog.Ops {
			w = append(w, o.Write...)
		}
		handlerEls = splitTop(w)
	}
	handlerReplies := 0
	for _, e := range handlerEls {
		if isReply(e, id, ns) {
			handlerReplies++
		}
	}
	var outEls []c08.Elem
	for _, e := range els {
		if !e.StreamError {
			outEls = append(outEls, e)
		}
	}
	outReplies := 0
	var lastReply c08.Elem
	for _, e := range outEls {
		if isReply(e.Toks, id, ns) {
			outReplies++
			lastReply = e
		}
	}
	added := len(outEls) - len(handlerEls)
	if len(res.Invs) > 0 && prog.Ret != "ok" && cls == "clean" && mode != "u" {
		fail("ends-with-handler-error", "nil-after-"+prog.Ret, fmt.Sprintf("the handler returned %s but Serve returned nil", prog.Ret))
	}
	if cls != "clean" {
		// the stream was terminated with an error: the property makes no demand on replies,
		// except that nothing is ever added for non-requests
		if (isIQ && (typ == "result" || typ == "error") || st.Name.Local != "iq") && added > 0 {
			fail("no-auto-reply", "added-on-error", fmt.Sprintf("%d elements added for a non-request", added))
		}
		// "... unless the stream itself is terminated": a request that got no reply is only
		// acceptable when the session really ended the stream - the closing tag is on the wire
		// (the stream error element itself stays in the encoder's buffer, see DESIGN-notes/C08.md)
		if request && id != "" && outReplies == 0 && !streamClosed {
			fail("answered-or-terminated", "not-terminated", fmt.Sprintf("no reply to %q on the wire, Serve returned %s, and the stream was not closed", id, cls))
		}
		return
	}
	if request && id != "" {
		want := handlerReplies
		if want == 0 {
			want = 1
		}
		if outReplies != want {
			key := "missing"
			if outReplies > want {
				key = "double"
			} else {
				// coarse cause, so that different defects get different keys
				sameIDNonReply, addedOtherID := false, false
				for _, e := range handlerEls {
					if st2, ok := e[0].(xml.StartElement); ok && st2.Name.Local == "iq" && c08AttrVal(st2.Attr, "id") == id {
						sameIDNonReply = true
					}
				}
				for _, e := range outEls[min(len(handlerEls), len(outEls)):] {
					if e.Local == "iq" && e.Typ == "error" && e.ID != id {
						addedOtherID = true
					}
				}
				switch {
				case addedOtherID:
					key = "missing/reply-has-other-id"
				case sameIDNonReply:
					key = "missing/handler-wrote-non-reply"
				case len(toks) >= 2 && isEnd(toks[1]):
					key = "missing/empty-request"
				}
			}
			fail("answered-once", key, fmt.Sprintf("%d replies to %q on the wire, want %d (handler wrote %d replies, %d elements; %d elements on the wire)", outReplies, id, want, handlerReplies, len(handlerEls), len(outEls)))
		}
		if handlerReplies > 0 && added != 0 {
			fail("no-double", "added-after-reply", fmt.Sprintf("%d elements added although the handler replied", added))
		}
		// whatever was not written by the recording handler (the session's automatic error, the
		// multiplexer's fallback, a reply a registered handler built from the parsed IQ) answers
		// THIS request: it carries the request's id unchanged - ids are opaque - and there is
		// one such element at most
		if len(outEls) >= len(handlerEls) {
			strays := 0
			for _, e := range outEls[len(handlerEls):] {
				if !isReply(e.Toks, id, ns) {
					strays++
				}
			}
			if strays > 0 {
				fail("answered-once", "stray-reply", fmt.Sprintf("%d elements were sent in answer to request %q that are not replies to that id (%d elements on the wire)", strays, id, len(outEls)))
			}
			if handlerReplies == 0 && added > 1 {
				fail("answered-once", "double", fmt.Sprintf("%d elements were sent in answer to request %q, want 1", added, id))
			}
		}
		if handlerReplies == 0 && outReplies == 1 {
			// the added reply is an error addressed to the sender
			wantTo := ""
			if from != "" && !(from == res.LocalBare && st.Name.Space == ns) {
				if j, err := jid.Parse(from); err == nil {
					wantTo = j.String()
				}
			}
			if lastReply.To != wantTo {
				fail("addressed", "to", fmt.Sprintf("added reply to=%q, want %q", lastReply.To, wantTo))
			}
			// (behind the multiplexer the one reply may be the multiplexer's or a registered
			// handler's own: the property then only asks for a reply; the session's own is
			// the service-unavailable error)
			if (mode == "d" || mode == "n") && (lastReply.Typ != "error" || !lastReply.SU) {
				fail("answered-once", "not-service-unavailable", fmt.Sprintf("added reply type=%q su=%v", lastReply.Typ, lastReply.SU))
			}
		}
	}
	isReplyIn := isIQ && (typ == "result" || typ == "error")
	if (isReplyIn || st.Name.Local != "iq") && added != 0 {
		fail("no-auto-reply", "added", fmt.Sprintf("%d elements added in answer to a %s of type %q", added, st.Name.Local, typ))
	}
}

// session runs several elements in ONE session (handler direct), each invocation with its own
// program, and judges every request separately: the replies to its id on the wire are the
// replies its own handler wrote or, if none, exactly one automatic error, plus whatever other
// invocations wrote with that id (replies interleaved by the handlers themselves).
func (c *ctx) session(ns string, elements []string, progs []c08.Prog, class string) {
	r := c.r
	local, remote := c08.LocalJID, c08.RemoteJID
	if ns == c08.NSServer {
		local, remote = c08.LocalSrv, c08.RemoteSrv
	}
	body := []byte(strings.Join(elements, "") + "</stream:stream>")
	toks := c08.Tokens(ns, body)
	res := c08.Serve(ns, local, remote, body, progs, nil)
	line := c08.CaseLine(ns, res.LocalBare, toks, progs)
	lines := []string{r.Prop + " " + line, "#session " + common.HexS(strings.Join(elements, "\x00"))}
	if res.Stall || res.Panic != "" {
		r.Line(line, "PANIC-OR-STALL")
		r.Fail("no-panic", "panic", lines, res.Panic)
		return
	}
	els, _, _ := c08.Written(ns, res.Out)
	wobs, _ := c08.WrittenObs(els)
	cls := c08.ErrClass(res.Err)
	r.Line(line, wobs+" "+cls)
	r.Case(line, true, fmt.Sprintf("%s/session/%d/%s", class, len(elements), cls))
	// Serve returns nil only because the peer closed the stream, never because of what a
	// handler returned
	for k := range res.Invs {
		if k < len(progs) && progs[k].Ret != "ok" && cls == "clean" {
			r.Fail("ends-with-handler-error", "nil-after-"+progs[k].Ret, lines, fmt.Sprintf("invocation %d returned %s but Serve returned nil", k, progs[k].Ret))
		}
	}
	if cls != "clean" {
		return
	}
	// the requests of the session, in order (top-level start tags of the input)
	type rq struct {
		k             int
		id, typ, from string
		space         string
	}
	var reqs []rq
	depth, k := 0, 0
	for _, t := range toks {
		switch tt := t.(type) {
		case xml.StartElement:
			if depth == 0 {
				if tt.Name.Local == "iq" && (tt.Name.Space == c08.NSClient || tt.Name.Space == c08.NSServer) {
					q := rq{k: k, id: c08AttrVal(tt.Attr, "id"), typ: c08AttrVal(tt.Attr, "type"), from: c08AttrVal(tt.Attr, "from"), space: tt.Name.Space}
					if (q.typ == "get" || q.typ == "set") && q.id != "" {
						reqs = append(reqs, q)
					}
				}
				k++
			}
			depth++
		case xml.EndElement:
			depth--
		}
	}
	var outEls []c08.Elem
	for _, e := range els {
		if !e.StreamError {
			outEls = append(outEls, e)
		}
	}
	wrote := func(j int, id string) int {
		if j >= len(progs) {
			return 0
		}
		var w []xml.Token
		for _, o := range progs[j].Ops {
			w = append(w, o.Write...)
		}
		n := 0
		for _, e := range splitTop(w) {
			if isReply(e, id, ns) {
				n++
			}
		}
		return n
	}
	total := 0
	for j := 0; j < k; j++ {
		if j < len(progs) {
			var w []xml.Token
			for _, o := range progs[j].Ops {
				w = append(w, o.Write...)
			}
			total += len(splitTop(w))
		}
	}
	added := len(outEls) - total
	wantAdded := 0
	seen := map[string]bool{}
	for _, q := range reqs {
		own := wrote(q.k, q.id)
		others := 0
		for j := 0; j < k; j++ {
			if j != q.k {
				others += wrote(j, q.id)
			}
		}
		want := own + others
		if own == 0 {
			want++
			wantAdded++
		}
		if seen[q.id] {
			continue // two requests with the same id: judged together below through `added`
		}
		dup := 0
		for _, q2 := range reqs {
			if q2.id == q.id {
				dup++
			}
		}
		if dup > 1 {
			seen[q.id] = true
			continue
		}
		got := 0
		for _, e := range outEls {
			if isReply(e.Toks, q.id, ns) {
				got++
			}
		}
		if got != want {
			key := "session-missing"
			if got > want {
				key = "session-double"
			}
			r.Fail("answered-once", key, lines, fmt.Sprintf("request %d (id %q): %d replies on the wire, want %d (own handler %d, other handlers %d)", q.k, q.id, got, want, own, others))
		}
	}
	if added != wantAdded {
		r.Fail("no-auto-reply", "session-added", lines, fmt.Sprintf("the session added %d elements, want %d (one per unanswered request)", added, wantAdded))
	}
}

// faulty runs several elements in one session whose connection refuses the write number
// failAfter (counted from the start of Serve; every later one too unless once).  The encoder is
// buffered, so a fault shows when a reply is flushed.  Property: a request whose reply did not
// reach the peer is only acceptable when the stream is terminated - nothing after it is served
// and Serve does not return nil.
func (c *ctx) faulty(ns string, failAfter int, once bool, elements []string, progs []c08.Prog, class string) {
	r := c.r
	local, remote := c08.LocalJID, c08.RemoteJID
	if ns == c08.NSServer {
		local, remote = c08.LocalSrv, c08.RemoteSrv
	}
	body := []byte(strings.Join(elements, "") + "</stream:stream>")
	toks := c08.Tokens(ns, body)
	res := c08.ServeOpt(c08.Opts{FailAfter: failAfter, FailOnce: once}, ns, local, remote, body, progs, nil, nil)
	line := strings.Join([]string{"servew", fmt.Sprint(failAfter), c08.NsField(ns), common.HexS(res.LocalBare), c08.JidMap(toks), common.EncToks(toks), c08.EncProgs(progs)}, " ")
	lines := []string{r.Prop + " " + line, "#fault " + common.HexS(strings.Join(elements, "\x00")) + " " + common.B(once)}
	if res.Stall || res.Panic != "" {
		r.Line(line, "PANIC-OR-STALL")
		r.Fail("no-panic", "fault-panic", lines, res.Panic)
		return
	}
	els, _, _ := c08.Written(ns, res.Out)
	wobs, _ := c08.WrittenObs(els)
	cls := c08.ErrClass(res.Err)
	r.Line(line, fmt.Sprintf("%d %s %s", len(res.Invs), wobs, cls))
	r.Case(line, true, fmt.Sprintf("%s/fault-%d/%d/%s", class, failAfter, len(elements), cls))
	var outEls []c08.Elem
	for _, e := range els {
		if !e.StreamError {
			outEls = append(outEls, e)
		}
	}
	// walk the served elements: what each step owed the peer (the handler's elements, plus
	// the automatic error for an unanswered request); the first step whose output is not
	// (completely) on the wire lost it
	depth, k, cum := 0, 0, 0
	for _, t := range toks {
		switch tt := t.(type) {
		case xml.StartElement:
			if depth == 0 && k < len(res.Invs) {
				p := c08.Prog{Ret: "ok"}
				if k < len(progs) {
					p = progs[k]
				}
				var w []xml.Token
				for _, o := range p.Ops {
					w = append(w, o.Write...)
				}
				hEls := splitTop(w)
				id, typ := c08AttrVal(tt.Attr, "id"), c08AttrVal(tt.Attr, "type")
				request := tt.Name.Local == "iq" && (tt.Name.Space == c08.NSClient || tt.Name.Space == c08.NSServer) && (typ == "get" || typ == "set") && id != ""
				answered := false
				for _, e := range hEls {
					answered = answered || isReply(e, id, ns)
				}
				owes := len(hEls)
				if request && !answered && p.Ret == "ok" {
					owes++
				}
				cum += owes
				if cum > len(outEls) {
					if request && p.Ret == "ok" {
						if len(res.Invs) != k+1 {
							r.Fail("answered-or-terminated", "served-on-after-lost-reply", lines, fmt.Sprintf("the reply to request %d (id %q) did not reach the peer (%d elements on the wire, %d owed) but %d more elements were handled", k, id, len(outEls), cum, len(res.Invs)-k-1))
						}
						if cls == "clean" {
							r.Fail("answered-or-terminated", "nil-after-lost-reply", lines, fmt.Sprintf("the reply to request %d (id %q) did not reach the peer and Serve returned nil", k, id))
						}
					}
					return
				}
				k++
			} else if depth == 0 {
				k++
			}
			depth++
		case xml.EndElement:
			depth--
		}
	}
}

// faultyMux is faulty with a multiplexer as the session's handler: mode "u" = nothing registered
// (the fallback answers every request), "r" = the recording handler registered for the wildcard
// payload of all four types.  The connection refuses the write number failAfter.  Property, judged
// on the wire only: the first request without a reply on the wire must have ended the stream -
// Serve does not return nil and no later request is answered.
func (c *ctx) faultyMux(ns, mode string, failAfter int, once bool, elements []string, progs []c08.Prog, class string) {
	r := c.r
	local, remote := c08.LocalJID, c08.RemoteJID
	if ns == c08.NSServer {
		local, remote = c08.LocalSrv, c08.RemoteSrv
	}
	body := []byte(strings.Join(elements, "") + "</stream:stream>")
	toks := c08.Tokens(ns, body)
	mk := func(rec xmpp.Handler) xmpp.Handler {
		if mode != "r" {
			return mux.New(ns)
		}
		h := mux.IQHandlerFunc(func(iq stanza.IQ, t xmlstream.TokenReadEncoder, start *xml.StartElement) error {
			return rec.HandleXMPP(t, start)
		})
		return mux.New(ns, mux.IQ(stanza.GetIQ, xml.Name{}, h), mux.IQ(stanza.SetIQ, xml.Name{}, h),
			mux.IQ(stanza.ResultIQ, xml.Name{}, h), mux.IQ(stanza.ErrorIQ, xml.Name{}, h))
	}
	res := c08.ServeOpt(c08.Opts{FailAfter: failAfter, FailOnce: once}, ns, local, remote, body, progs, mk, nil)
	line := strings.Join([]string{"servewm", mode, fmt.Sprint(failAfter), c08.NsField(ns), common.HexS(res.LocalBare), c08.JidMap(toks), common.EncToks(toks), c08.EncProgs(progs)}, " ")
	lines := []string{r.Prop + " " + line, "#faultmux " + common.HexS(strings.Join(elements, "\x00")) + " " + common.B(once)}
	if res.Stall || res.Panic != "" {
		r.Line(line, "PANIC-OR-STALL")
		r.Fail("no-panic", "fault-panic", lines, res.Panic)
		return
	}
	els, _, _ := c08.Written(ns, res.Out)
	wobs, _ := c08.WrittenObs(els)
	cls := c08.ErrClass(res.Err)
	r.Line(line, wobs+" "+cls)
	r.Case(line, true, fmt.Sprintf("%s/faultmux-%s-%d/%d/%s", class, mode, failAfter, len(elements), cls))
	lost := ""
	depth := 0
	for _, t := range toks {
		switch tt := t.(type) {
		case xml.StartElement:
			if depth == 0 {
				id, typ := c08AttrVal(tt.Attr, "id"), c08AttrVal(tt.Attr, "type")
				if tt.Name.Local == "iq" && tt.Name.Space == ns && (typ == "get" || typ == "set") && id != "" {
					got := 0
					for _, e := range els {
						if !e.StreamError && isReply(e.Toks, id, ns) {
							got++
						}
					}
					switch {
					case got == 0 && lost == "":
						lost = id
					case got > 0 && lost != "":
						r.Fail("answered-or-terminated", "served-on-after-lost-reply", lines, fmt.Sprintf("request %q got no reply but the later request %q was answered", lost, id))
					}
				}
			}
			depth++
		case xml.EndElement:
			depth--
		}
	}
	if lost != "" && cls == "clean" {
		r.Fail("answered-or-terminated", "nil-after-lost-reply", lines, fmt.Sprintf("request %q got no reply and Serve returned nil", lost))
	}
}

// pend is a local request that is waiting for its response while the peer's input is served.

// outstate runs several elements in ONE session whose output cannot take a reply any more: the
// local side closed it before Serve (st = 1), an earlier Send was abandoned inside an element
// (st = 2), or a handler closes it / writes half an element (st = 0, see the programs).  The
// property: a request that cannot be answered is only acceptable when the stream is terminated
// - Serve returns (no stall), with an error, nothing after the request is served, and (unless
// the local side had closed the stream itself) the closing tag goes out.
func (c *ctx) outstate(ns string, st int, elements []string, progs []c08.Prog, class string) {
	r := c.r
	local, remote := c08.LocalJID, c08.RemoteJID
	if ns == c08.NSServer {
		local, remote = c08.LocalSrv, c08.RemoteSrv
	}
	body := []byte(strings.Join(elements, "") + "</stream:stream>")
	toks := c08.Tokens(ns, body)
	opt := c08.Opts{FailAfter: -1, PreBroken: st == 2, Watchdog: 3 * time.Second}
	var before func(s *xmpp.Session, out *common.SafeBuffer) func()
	if st == 1 {
		before = func(s *xmpp.Session, out *common.SafeBuffer) func() { _ = s.Close(); return nil }
	}
	res := c08.ServeOpt(opt, ns, local, remote, body, progs, nil, before)
	line := strings.Join([]string{"servex", fmt.Sprint(st), c08.NsField(ns), common.HexS(res.LocalBare), c08.JidMap(toks), common.EncToks(toks), c08.EncProgs(progs)}, " ")
	lines := []string{r.Prop + " " + line, "#outstate " + common.HexS(strings.Join(elements, "\x00")) + " " + fmt.Sprint(st)}
	switch {
	case res.Stall:
		r.Line(line, "STALL")
		r.Fail("answered-or-terminated", "stall", lines, "a request could not be answered and Serve never returned: no reply, no stream error, no closing tag")
		return
	case res.Panic != "":
		r.Line(line, "PANIC")
		r.Fail("no-panic", "panic", lines, res.Panic)
		return
	}
	els, streamClosed, _ := c08.Written(ns, res.Out)
	var outEls []c08.Elem
	for _, e := range els {
		if !e.StreamError && e.ID != "abandoned" {
			outEls = append(outEls, e)
		}
	}
	wobs, _ := c08.WrittenObs(outEls)
	cls := c08.ErrClass(res.Err)
	r.Line(line, fmt.Sprintf("%d %s %s", len(res.Invs), wobs, cls))
	r.Case(line, true, fmt.Sprintf("%s/outstate/%d/%s", class, st, cls))
	localClosed := st == 1
	depth, k := 0, 0
	for _, t := range toks {
		switch tt := t.(type) {
		case xml.StartElement:
			if depth == 0 {
				if k < len(progs) && progs[k].Close {
					localClosed = true
				}
				id, typ := c08AttrVal(tt.Attr, "id"), c08AttrVal(tt.Attr, "type")
				isIQ := tt.Name.Local == "iq" && (tt.Name.Space == c08.NSClient || tt.Name.Space == c08.NSServer)
				if isIQ && (typ == "get" || typ == "set") && id != "" && k < len(res.Invs) {
					got := 0
					for _, e := range outEls {
						if isReply(e.Toks, id, ns) {
							got++
						}
					}
					if got == 0 {
						// coarse cause: the request's own handler returned nil with an element of
						// its own still open (or after an end tag nothing was open for)
						cause := ""
						if k < len(progs) {
							var w []xml.Token
							for _, o := range progs[k].Ops {
								w = append(w, o.Write...)
							}
							if c08.Unbalanced(w) {
								cause = "/own-handler-left-element-open"
							}
						}
						switch {
						case len(res.Invs) > k+1:
							r.Fail("answered-or-terminated", "served-on-after-lost-reply"+cause, lines, fmt.Sprintf("request %d (id %q) got no reply and %d more elements were handled", k, id, len(res.Invs)-k-1))
						case cls == "clean":
							r.Fail("answered-or-terminated", "nil-after-lost-reply"+cause, lines, fmt.Sprintf("request %d (id %q) got no reply and Serve returned nil", k, id))
						case !streamClosed && !localClosed:
							r.Fail("answered-or-terminated", "not-terminated", lines, fmt.Sprintf("request %d (id %q) got no reply, Serve returned %s, and the stream was not closed", k, id, cls))
						}
					} else if got > 1 {
						r.Fail("answered-once", "double", lines, fmt.Sprintf("request %d (id %q): %d replies on the wire", k, id, got))
					}
				}
				k++
			}
			depth++
		case xml.EndElement:
			depth--
		}
	}
}

type pend struct {
	id   string
	name xml.Name // name of the request's start element as given to SendIQ
}

// pending runs a session with local SendIQ requests outstanding (each in its own goroutine,
// parked in SendIQ until a response is delivered or the run is over) and then serves the
// peer's elements.  The model keeps the table of pending requests as part of the serve state.
func (c *ctx) pending(ns string, pends []pend, elements []string, progs []c08.Prog, class string) {
	r := c.r
	local, remote := c08.LocalJID, c08.RemoteJID
	if ns == c08.NSServer {
		local, remote = c08.LocalSrv, c08.RemoteSrv
	}
	body := []byte(strings.Join(elements, "") + "</stream:stream>")
	toks := c08.Tokens(ns, body)
	var mu sync.Mutex
	var delivered []string
	var wg sync.WaitGroup
	before := func(s *xmpp.Session, out *common.SafeBuffer) func() {
		ctx, cancel := context.WithCancel(context.Background())
		for _, p := range pends {
			p := p
			wg.Add(1)
			want := out.Len()
			go func() {
				defer wg.Done()
				st := xml.StartElement{Name: p.name, Attr: []xml.Attr{at("type", "get"), at("id", p.id), at("to", "peer@example.net")}}
				resp, err := s.SendIQ(ctx, xmlstream.Wrap(xmlstream.Wrap(nil, xml.StartElement{Name: xml.Name{Space: "urn:q", Local: "q"}}), st))
				if err != nil || resp == nil {
					return
				}
				for {
					tok, err := resp.Token()
					if err != nil || tok == nil {
						break
					}
				}
				mu.Lock()
				delivered = append(delivered, p.id)
				mu.Unlock()
				resp.Close()
			}()
			// wait until the request is on the wire: its table entry exists from then on
			for i := 0; i < 5000 && out.Len() == want; i++ {
				time.Sleep(200 * time.Microsecond)
			}
		}
		return func() { cancel(); wg.Wait() }
	}
	res := c08.ServeHook(ns, local, remote, body, progs, nil, before)
	var pf []string
	for _, p := range pends {
		pf = append(pf, fmt.Sprintf("%x=%x=%x", p.id, p.name.Space, p.name.Local))
	}
	line := strings.Join([]string{"servep", c08.NsField(ns), common.HexS(res.LocalBare), c08.JidMap(toks), common.Join(pf, ","), common.EncToks(toks), c08.EncProgs(progs)}, " ")
	lines := []string{r.Prop + " " + line, "#pending " + common.HexS(strings.Join(elements, "\x00"))}
	if res.Stall || res.Panic != "" {
		r.Line(line, "PANIC-OR-STALL")
		r.Fail("no-panic", "pending-stall", lines, res.Panic)
		return
	}
	els, _, _ := c08.Written(ns, res.Out)
	wobs, _ := c08.WrittenObs(els)
	cls := c08.ErrClass(res.Err)
	mu.Lock()
	var dl []string
	for _, d := range delivered {
		dl = append(dl, fmt.Sprintf("%x", d))
	}
	mu.Unlock()
	r.Line(line, wobs+" "+cls+" "+common.Join(dl, ","))
	r.Case(line, true, fmt.Sprintf("%s/pending-%d/%d/%s", class, len(pends), len(elements), cls))
	if cls != "clean" {
		return
	}
	// every get/set with an id is answered exactly once whatever is pending (the handlers of
	// this runner write nothing, so: exactly one automatic error per request)
	var outEls []c08.Elem
	for _, e := range els {
		if !e.StreamError {
			outEls = append(outEls, e)
		}
	}
	depth := 0
	nreq := 0
	for _, t := range toks {
		switch tt := t.(type) {
		case xml.StartElement:
			if depth == 0 && tt.Name.Local == "iq" && (tt.Name.Space == c08.NSClient || tt.Name.Space == c08.NSServer) {
				typ, id := c08AttrVal(tt.Attr, "type"), c08AttrVal(tt.Attr, "id")
				if (typ == "get" || typ == "set") && id != "" {
					nreq++
					got := 0
					for _, e := range outEls {
						if isReply(e.Toks, id, ns) {
							got++
						}
					}
					same := 0
					for _, t2 := range toks {
						if s2, ok := t2.(xml.StartElement); ok && s2.Name.Local == "iq" && c08AttrVal(s2.Attr, "id") == id {
							ty := c08AttrVal(s2.Attr, "type")
							if ty == "get" || ty == "set" {
								same++
							}
						}
					}
					if got != same {
						key := "pending-missing"
						if got > same {
							key = "pending-double"
						}
						r.Fail("answered-once", key, lines, fmt.Sprintf("request id %q: %d replies on the wire, want %d, with %d local requests pending", id, got, same, len(pends)))
					}
				}
			}
			depth++
		case xml.EndElement:
			depth--
		}
	}
	if len(outEls) != nreq {
		r.Fail("no-auto-reply", "pending-added", lines, fmt.Sprintf("%d elements written, want %d (one per request, nothing for replies)", len(outEls), nreq))
	}
}

var payloads = []string{
	`<q xmlns="urn:q"/>`,
	``,
	`  `,
	`<q xmlns="urn:q"><item/>text</q><extra xmlns="urn:e"/>`,
	` <ping xmlns="urn:xmpp:ping"/>`,
	`<iq xmlns="jabber:client" type="result" id="ID"/>`,
}

func element(local, ns, id, typ, from, to, extra, payload string) string {
	var sb strings.Builder
	sb.WriteString("<" + local)
	if ns != "" {
		sb.WriteString(` xmlns="` + ns + `"`)
	}
	sb.WriteString(extra)
	if typ != "-" {
		sb.WriteString(` type="` + typ + `"`)
	}
	if id != "-" {
		sb.WriteString(` id="` + id + `"`)
	}
	if from != "-" {
		sb.WriteString(` from="` + from + `"`)
	}
	if to != "-" {
		sb.WriteString(` to="` + to + `"`)
	}
	sb.WriteString(">" + strings.ReplaceAll(payload, "ID", id) + "</" + local + ">")
	return sb.String()
}

// elementA is an element whose attributes are written in the given order with the given raw
// values (already escaped).
func elementA(local, ns string, attrs [][2]string, payload string) string {
	var sb strings.Builder
	sb.WriteString("<" + local)
	if ns != "" {
		sb.WriteString(` xmlns="` + ns + `"`)
	}
	for _, a := range attrs {
		sb.WriteString(" " + a[0] + `="` + a[1] + `"`)
	}
	sb.WriteString(">" + payload + "</" + local + ">")
	return sb.String()
}

// perms returns all orders of 0..n-1.
func perms(n int) [][]int {
	if n == 0 {
		return [][]int{nil}
	}
	var out [][]int
	for _, p := range perms(n - 1) {
		for i := 0; i <= len(p); i++ {
			q := append(append(append([]int{}, p[:i]...), n-1), p[i:]...)
			out = append(out, q)
		}
	}
	return out
}

func unescape(s string) string {
	return strings.NewReplacer("&lt;", "<", "&#9;", "\t", "&#10;", "\n", "&amp;", "&").Replace(s)
}

func progOf(ws []string, id string, reads int, ret string) c08.Prog {
	p := c08.Prog{Ret: ret}
	w := writes(id)
	for i := 0; i < reads; i++ {
		p.Ops = append(p.Ops, c08.Op{Read: true})
	}
	for _, n := range ws {
		p.Ops = append(p.Ops, c08.Op{Write: w[n]})
	}
	return p
}

// applicable reports whether the tokens can be written through the given method / value kind.
func applicable(via int, ts []xml.Token) bool {
	switch via {
	case 0, 1, 2, 3:
		return true
	case 4:
		return c08.StructWritable(ts)
	}
	if len(ts) < 2 {
		return false
	}
	st, ok := ts[0].(xml.StartElement)
	en, ok2 := ts[len(ts)-1].(xml.EndElement)
	if !ok || !ok2 || st.Name != en.Name {
		return false
	}
	// one element: the start tag closes only at the very end
	d := 0
	for i, t := range ts {
		switch t.(type) {
		case xml.StartElement:
			d++
		case xml.EndElement:
			d--
			if d == 0 && i != len(ts)-1 {
				return false
			}
		}
	}
	return d == 0
}

// progVia is progOf with every write going through the method / value kind vias[i%len].
func progVia(ws []string, id string, reads int, ret string, vias []int) c08.Prog {
	p := progOf(ws, id, reads, ret)
	k := 0
	for i := range p.Ops {
		if p.Ops[i].Read {
			continue
		}
		v := vias[k%len(vias)]
		k++
		if applicable(v, p.Ops[i].Write) {
			p.Ops[i].Via = v
		}
	}
	return p
}

// ProbeToks is the token list of one probe shape: an element wrapped in `level` elements of
// another namespace; nameC 0..4 = iq without namespace / jabber:client / jabber:server /
// urn:other / a message; idC 0 = the request's id, 1 = another id, 2 = none; typC 0..5 = result,
// error, get, set, none, an undefined type.  (Lean: Serve.probeToks.)
func ProbeToks(level, nameC, idC, typC int) []xml.Token {
	n := []xml.Name{name("iq"), {Space: c08.NSClient, Local: "iq"}, {Space: c08.NSServer, Local: "iq"}, {Space: "urn:other", Local: "iq"}, name("message")}[nameC]
	id := []string{ProbeID, "other-" + ProbeID, "-"}[idC]
	typ := []string{"result", "error", "get", "set", "-", "foo"}[typC]
	ts := el(n, iqAttrs(id, typ))
	for l := level; l > 0; l-- {
		ts = el(xml.Name{Space: "urn:w", Local: fmt.Sprintf("w%d", l-1)}, nil, ts...)
	}
	return ts
}

// ProbeID is the id of the request of the detector probe.
const ProbeID = "pq"

// probeDetected runs one real session on the request `<iq type="get" id="pq" …>` whose handler
// writes the tokens through the given method and reports whether the session took that for the
// reply (nothing was added); ok = false when the run did not end the way a probe must.
func probeDetected(via int, ts []xml.Token) (detected, ok bool) {
	body := []byte(`<iq type="get" id="` + ProbeID + `" from="a@example.org/r"><q xmlns="urn:q"/></iq></stream:stream>`)
	res := c08.Serve(c08.NSClient, c08.LocalJID, c08.RemoteJID, body, []c08.Prog{{Ret: "ok", Ops: []c08.Op{{Write: ts, Via: via}}}}, nil)
	if res.Stall || res.Panic != "" || res.Err != nil || len(res.Invs) != 1 || len(res.Invs[0].WErr) != 0 {
		return false, false
	}
	els, _, err := c08.Written(c08.NSClient, res.Out)
	if err != nil {
		return false, false
	}
	switch len(els) {
	case 1:
		return true, true
	case 2:
		last := els[1]
		return false, last.Local == "iq" && last.Typ == "error" && last.SU && last.ID == ProbeID
	}
	return false, false
}

// Facts regenerates lean/XmppModel/Generated/C07.lean by PROBING the real reply detector: real
// sessions whose handler writes every shape of the finite domain nesting level 0..2 x 5 name
// classes x 3 id classes x 6 type classes through every method of the encoder it is handed
// (EncodeToken; Encode with a Marshaler / WriterTo / TokenReader / plain struct; EncodeElement
// with a Marshaler / WriterTo), observing whether the session then adds its own reply.  No
// source pattern is matched: the table survives any refactoring of responseChecker and changes
// when a write path stops running the detector or the detector's predicate changes.
func Facts(repo string) (string, error) {
	var rows []string
	bad := false
	for via := 0; via <= 6; via++ {
		for level := 0; level <= 2; level++ {
			for nameC := 0; nameC < 5; nameC++ {
				for idC := 0; idC < 3; idC++ {
					for typC := 0; typC < 6; typC++ {
						// the whole domain through EncodeToken; through the other methods the
						// part that decides whether the detector ran at all and at which level
						if via != 0 && (level == 2 || nameC == 2 || nameC == 4 || idC == 2 || typC == 1 || typC == 3 || typC == 5) {
							continue
						}
						ts := ProbeToks(level, nameC, idC, typC)
						if !applicable(via, ts) {
							continue
						}
						d, ok := probeDetected(via, ts)
						if !ok {
							bad = true
						}
						rows = append(rows, fmt.Sprintf("(%d, %d, %d, %d, %d, %v)", via, level, nameC, idC, typC, d))
					}
				}
			}
		}
	}
	var sb strings.Builder
	sb.WriteString("-- GENERATED by `harness facts C07` (real sessions probing the reply detector); do not edit.\n")
	sb.WriteString("namespace XmppModel.Generated.C07\n\n")
	sb.WriteString("/-- (write method, nesting level, name class, id class, type class, did the session take what the\nhandler wrote for the reply) for every probed shape; methods: 0 EncodeToken, 1-4 Encode(Marshaler /\nWriterTo / TokenReader / struct), 5-6 EncodeElement(Marshaler / WriterTo) -/\n")
	if bad || len(rows) == 0 {
		sb.WriteString("def detectorProbe : Option (List (Nat × Nat × Nat × Nat × Nat × Bool)) := none\n")
	} else {
		sb.WriteString("def detectorProbe : Option (List (Nat × Nat × Nat × Nat × Nat × Bool)) := some [\n  " + strings.Join(rows, ",\n  ") + "]\n")
	}
	sb.WriteString("\n" + newIQFacts())
	sb.WriteString("\nend XmppModel.Generated.C07\n")
	return sb.String(), nil
}

func leanStr(s string) string {
	var sb strings.Builder
	sb.WriteByte('"')
	for _, c := range s {
		switch {
		case c == '"' || c == '\\':
			sb.WriteByte('\\')
			sb.WriteRune(c)
		case c == '\n':
			sb.WriteString("\\n")
		case c == '\t':
			sb.WriteString("\\t")
		case c < 0x20:
			fmt.Fprintf(&sb, "\\x%02x", c)
		default:
			sb.WriteRune(c)
		}
	}
	sb.WriteByte('"')
	return sb.String()
}

// newIQFacts probes the real stanza.NewIQ - the reader the multiplexer and most IQ handlers use
// - on the finite domain every order of the unqualified type / id / from / to attributes x id
// values x type values (plain, padded with white space on either side, inner white space,
// empty), optionally with attributes of the same local names in another namespace in between,
// and renders (attributes, id read, type read, addresses parsed).  The session reads id and
// type of the same start element with getIDTyp; the consuming theorem proves the two readers
// agree on every row: what NewIQ hands a handler as the id is the id the session will look for
// in the reply.
func newIQFacts() string {
	ids := []string{"x1", " x1", "x1 ", "\tx 1\n", ""}
	typs := []string{"get", " get", "result ", "se t", ""}
	var rows []string
	ok := true
	for pi, perm := range perms(4) {
		for ii, id := range ids {
			for ti, typ := range typs {
				if (pi+ii+ti)%2 == 1 && ii > 0 && ti > 0 {
					continue
				}
				vals := []xml.Attr{at("type", typ), at("id", id), at("from", "a@example.org/r"), at("to", "me@example.com")}
				var attrs []xml.Attr
				for k, v := range perm {
					attrs = append(attrs, vals[v])
					if (pi+ii)%5 == 0 && k == 1 {
						attrs = append(attrs, xml.Attr{Name: xml.Name{Space: "urn:p", Local: "id"}, Value: "pid "}, xml.Attr{Name: xml.Name{Space: "urn:p", Local: "type"}, Value: "error"})
					}
				}
				iq, err := stanza.NewIQ(xml.StartElement{Name: xml.Name{Space: c08.NSClient, Local: "iq"}, Attr: attrs})
				if err != nil || iq.From.String() != "a@example.org/r" || iq.To.String() != "me@example.com" {
					ok = false
				}
				var as []string
				for _, a := range attrs {
					as = append(as, fmt.Sprintf("⟨⟨%s, %s⟩, %s⟩", leanStr(a.Name.Space), leanStr(a.Name.Local), leanStr(a.Value)))
				}
				rows = append(rows, fmt.Sprintf("([%s], %s, %s)", strings.Join(as, ", "), leanStr(iq.ID), leanStr(string(iq.Type))))
			}
		}
	}
	var sb strings.Builder
	sb.WriteString("/-- (attributes of an iq start element, the id and the type the real `stanza.NewIQ` read from them)\nfor every order of type / id / from / to x padded, inner-space and empty values -/\n")
	if !ok || len(rows) == 0 {
		sb.WriteString("def newIQReads : Option (List (List (((String × String)) × String) × String × String)) := none\n")
	} else {
		sb.WriteString("def newIQReads : Option (List (List ((String × String) × String) × String × String)) := some [\n  " + strings.Join(rows, ",\n  ") + "]\n")
	}
	return sb.String()
}

// Run is the C07 runner.
func Run(r *common.Run) error {
	c := &ctx{r: r}
	if r.Replay != "" {
		lines, err := common.ReplayLines(r.Replay)
		if err != nil {
			return err
		}
		for i, l := range lines {
			f := strings.Fields(l)
			if len(f) == 2 && f[0] == "#pending" && i > 0 {
				sb, err := common.UnHex(f[1])
				if err != nil {
					return err
				}
				g := strings.Fields(lines[i-1])
				if len(g) < 8 {
					continue
				}
				ns := c08.NSClient
				if g[2] == "s" {
					ns = c08.NSServer
				}
				var ps []pend
				if g[5] != "-" {
					for _, x := range strings.Split(g[5], ",") {
						p := strings.Split(x, "=")
						if len(p) != 3 {
							continue
						}
						a, _ := common.UnHex(p[0])
						b, _ := common.UnHex(p[1])
						d, _ := common.UnHex(p[2])
						if p[1] == "" {
							b = nil
						}
						ps = append(ps, pend{string(a), xml.Name{Space: string(b), Local: string(d)}})
					}
				}
				progs, err := c08.DecProgs(g[7])
				if err != nil {
					return err
				}
				c.pending(ns, ps, strings.Split(string(sb), "\x00"), progs, "replay")
				continue
			}
			if len(f) == 3 && f[0] == "#fault" && i > 0 {
				sb, err := common.UnHex(f[1])
				if err != nil {
					return err
				}
				g := strings.Fields(lines[i-1])
				if len(g) < 8 {
					continue
				}
				ns := c08.NSClient
				if g[3] == "s" {
					ns = c08.NSServer
				}
				fa := 0
				fmt.Sscanf(g[2], "%d", &fa)
				ps, err := c08.DecProgs(g[7])
				if err != nil {
					return err
				}
				c.faulty(ns, fa, f[2] == "1", strings.Split(string(sb), "\x00"), ps, "replay")
				continue
			}
			if len(f) == 3 && f[0] == "#faultmux" && i > 0 {
				sb, err := common.UnHex(f[1])
				if err != nil {
					return err
				}
				g := strings.Fields(lines[i-1])
				if len(g) < 9 {
					continue
				}
				ns := c08.NSClient
				if strings.HasPrefix(g[4], "s") {
					ns = c08.NSServer
				}
				fa := 0
				fmt.Sscanf(g[3], "%d", &fa)
				ps, err := c08.DecProgs(g[8])
				if err != nil {
					return err
				}
				c.faultyMux(ns, g[2], fa, f[2] == "1", strings.Split(string(sb), "\x00"), ps, "replay")
				continue
			}
			if len(f) == 3 && f[0] == "#outstate" && i > 0 {
				sb, err := common.UnHex(f[1])
				if err != nil {
					return err
				}
				g := strings.Fields(lines[i-1])
				if len(g) < 8 {
					continue
				}
				ns := c08.NSClient
				if strings.HasPrefix(g[3], "s") {
					ns = c08.NSServer
				}
				st := 0
				fmt.Sscanf(f[2], "%d", &st)
				ps, err := c08.DecProgs(g[7])
				if err != nil {
					return err
				}
				c.outstate(ns, st, strings.Split(string(sb), "\x00"), ps, "replay")
				continue
			}
			if len(f) == 2 && f[0] == "#session" && i > 0 {
				sb, err := common.UnHex(f[1])
				if err != nil {
					return err
				}
				g := strings.Fields(lines[i-1])
				if len(g) < 7 {
					continue
				}
				ns := c08.NSClient
				if g[2] == "s" {
					ns = c08.NSServer
				}
				ps, err := c08.DecProgs(g[6])
				if err != nil {
					return err
				}
				c.session(ns, strings.Split(string(sb), "\x00"), ps, "replay")
				continue
			}
			if len(f) < 2 || f[0] != "#elem" || i == 0 {
				continue
			}
			elb, err := common.UnHex(f[1])
			if err != nil {
				return err
			}
			g := strings.Fields(lines[i-1])
			if len(g) < 9 {
				continue
			}
			ns := c08.NSClient
			if g[3] == "s" {
				ns = c08.NSServer
			}
			ps, err := c08.DecProgs(g[8])
			if err != nil || len(ps) != 1 {
				return fmt.Errorf("bad program in replay: %v", err)
			}
			c.check(ns, g[2], string(elb), ps[0], "replay")
		}
		return nil
	}
	modes := []string{"d", "r", "u"}
	// corpus: minimal witnesses of past failures
	for _, ns := range []string{c08.NSClient, c08.NSServer} {
		own := map[string]string{c08.NSClient: "me@example.com", c08.NSServer: "example.com"}[ns]
		for _, m := range modes {
			c.check(ns, m, `<iq type="get" id="e1"/>`, progOf(nil, "e1", 0, "ok"), "corpus")
			c.check(ns, m, `<iq type="set" id="e2"> </iq>`, progOf(nil, "e2", 1, "ok"), "corpus")
			c.check(ns, m, `<iq type="get" id="n1"><q xmlns="urn:q"/></iq>`, progOf([]string{"notype"}, "n1", 0, "ok"), "corpus")
			c.check(ns, m, `<iq type="get" id="n2"><q xmlns="urn:q"/></iq>`, progOf([]string{"badtype"}, "n2", 0, "ok"), "corpus")
			c.check(ns, m, `<iq xmlns:p="urn:p" p:id="A" type="get" id="B" p:from="zz@example.org" from="`+own+`"><q xmlns="urn:q"/></iq>`, progOf(nil, "B", 0, "ok"), "corpus")
			c.check(ns, m, `<iq xmlns:id="urn:id" type="get" id="C" from="a@example.org/r"><q xmlns="urn:q"/></iq>`, progOf(nil, "C", 0, "ok"), "corpus")
			c.check(ns, m, `<iq type="get" id="D" from="a@example.org/r"><q xmlns="urn:q"><!--c--></q></iq>`, progOf(nil, "D", 9, "ok"), "corpus")
		}
		c.check(ns, "d", `<iq type="get" id="f1"><q xmlns="urn:q"/></iq>`, progOf(nil, "f1", 0, "eof"), "corpus")
		// attributes qualified with the stanza's own namespace are not the stanza's attributes
		for _, m := range modes {
			c.check(ns, m, `<iq xmlns:c="`+ns+`" type="get" id="o1" c:id="o1x" from="a@example.org/r"><q xmlns="urn:q"/></iq>`, progOf(nil, "o1", 0, "ok"), "corpus")
			c.check(ns, m, `<iq xmlns:c="`+ns+`" c:type="result" type="set" id="o2" c:from="zz@example.org" from="a@example.org/r" c:to="yy@example.org"><q xmlns="urn:q"/></iq>`, progOf(nil, "o2", 1, "ok"), "corpus")
			c.check(ns, m, `<iq xmlns:c="`+ns+`" c:type="get" type="result" id="o3" c:id="o3x"><q xmlns="urn:q"/></iq>`, progOf(nil, "o3", 0, "ok"), "corpus")
		}
	}

	// exhaustive: incoming element shapes x single writes / pairs of writes x modes
	// {"iq", ""} is an iq in the stream's own namespace; the next two are iqs explicitly
	// qualified with jabber:client / jabber:server, one of which is the OTHER stanza
	// namespace than the stream's
	locals := []struct{ local, ns string }{{"iq", ""}, {"iq", c08.NSClient}, {"iq", c08.NSServer}, {"message", ""}, {"presence", ""}, {"iq", "urn:other"}, {"x", "urn:x"}}
	types := []string{"get", "set", "result", "error", "-", "foo"}
	froms := []string{"-", "a@example.org/r", "OWN"}
	nsList := []string{c08.NSClient}
	if !r.Quick() {
		nsList = append(nsList, c08.NSServer)
	}
	for _, ns := range nsList {
		own := map[string]string{c08.NSClient: "me@example.com", c08.NSServer: "example.com"}[ns]
		for _, l := range locals {
			for _, typ := range types {
				for fi, from := range froms {
					if from == "OWN" {
						from = own
					}
					for pi, pl := range payloads {
						if r.Quick() && pi >= 3 && fi > 0 {
							continue
						}
						id := fmt.Sprintf("q%d", pi)
						e := element(l.local, l.ns, id, typ, from, "-", "", pl)
						for _, m := range modes {
							c.check(ns, m, e, progOf(nil, id, pi%3, "ok"), "exhaustive")
							if m == "u" {
								continue
							}
							for wi, w := range writeNames {
								if l.local != "iq" && wi%3 != pi%3 {
									continue
								}
								c.check(ns, m, e, progOf([]string{w}, id, (pi+wi)%4, "ok"), "exhaustive")
							}
						}
					}
				}
			}
		}
		// pairs of writes for requests
		for _, typ := range []string{"get", "set"} {
			e := element("iq", "", "pp", typ, "a@example.org/r", "-", "", payloads[0])
			for _, w1 := range writeNames {
				for _, w2 := range writeNames {
					c.check(ns, "d", e, progOf([]string{w1, w2}, "pp", 0, "ok"), "exhaustive-pairs")
					if !r.Quick() {
						c.check(ns, "r", e, progOf([]string{w1, w2}, "pp", 1, "ok"), "exhaustive-pairs")
					}
				}
			}
		}
	}

	// Serve(nil) and multiplexers that have a handler for some requests only: every incoming
	// shape (names x types x from x payloads), with the recording handler answering or not
	for _, ns := range []string{c08.NSClient, c08.NSServer} {
		own := map[string]string{c08.NSClient: "me@example.com", c08.NSServer: "example.com"}[ns]
		for li, l := range locals {
			for ti, typ := range types {
				for fi, from := range froms {
					if from == "OWN" {
						from = own
					}
					for pi, pl := range payloads {
						if ns == c08.NSServer && (li+ti+fi+pi)%3 != 0 {
							continue
						}
						id := fmt.Sprintf("z%d", pi)
						for _, to := range []string{"-", own + "/res"} {
							if to != "-" && (li+ti+pi)%2 != 0 {
								continue
							}
							e := element(l.local, l.ns, id, typ, from, to, "", pl)
							c.check(ns, "n", e, progOf(nil, id, 0, "ok"), "nil-handler")
							c.check(ns, "x", e, progOf(nil, id, 0, "ok"), "mux-exported-lookup")
							for _, m := range []string{"p", "t"} {
								c.check(ns, m, e, progOf(nil, id, pi%2, "ok"), "mux-partial")
								c.check(ns, m, e, progOf([]string{"result"}, id, 0, "ok"), "mux-partial")
								if (li+ti+fi)%3 == 0 {
									c.check(ns, m, e, progOf([]string{"otherid"}, id, 1, "ok"), "mux-partial")
								}
							}
						}
					}
				}
			}
		}
	}
	r.Exhaustive = append(r.Exhaustive, "Serve(nil) and multiplexers with a handler for one payload / one type only x 7 names x 6 types x 3 from values x 6 payloads x with / without to")

	// sessions that use the WebSocket subprotocol: the same detector, default reply and
	// multiplexer; framing elements among the payloads end the session
	c.ws = true
	for _, ns := range []string{c08.NSClient, c08.NSServer} {
		for ti, typ := range types {
			for pi, pl := range append(append([]string{}, payloads...), `<close xmlns="urn:ietf:params:xml:ns:xmpp-framing"/>`, `<q xmlns="urn:q"><open xmlns="urn:ietf:params:xml:ns:xmpp-framing"/></q>`) {
				id := fmt.Sprintf("w%d", pi)
				e := element("iq", "", id, typ, "a@example.org/r", "-", "", pl)
				for mi, m := range []string{"d", "r", "u", "q", "n", "p"} {
					if ns == c08.NSServer && (ti+pi+mi)%2 != 0 {
						continue
					}
					c.check(ns, m, e, progOf(nil, id, pi%3, "ok"), "websocket")
					if m == "d" || m == "r" {
						c.check(ns, m, e, progOf([]string{"result"}, id, 9, "ok"), "websocket")
						c.check(ns, m, e, progOf([]string{"nested"}, id, 0, "ok"), "websocket")
					}
				}
			}
		}
	}
	c.ws = false

	// the output cannot take a reply: closed before Serve, left inside an element by an abandoned
	// Send before Serve, closed or left inside an element by the handler of an earlier element
	{
		half := [][]xml.Token{
			{xml.StartElement{Name: name("message")}},
			{xml.StartElement{Name: name("message")}, xml.CharData("x")},
			{xml.StartElement{Name: name("a")}, xml.StartElement{Name: name("b")}, xml.EndElement{Name: name("b")}},
			{xml.EndElement{Name: name("x")}},
		}
		q := `<q xmlns="urn:q"/>`
		sets := [][]string{
			{`<iq type="get" id="b1">` + q + `</iq>`, `<message id="after"/>`},
			{`<message id="m1"/>`, `<iq type="set" id="b2" from="a@example.org/r">` + q + `</iq>`, `<presence/>`},
			{`<iq type="result" id="b3"/>`, `<iq type="get" id="b4">` + q + `</iq>`, `<iq type="get" id="b5">` + q + `</iq>`},
			{`<message id="m2"/>`, `<x xmlns="urn:x"/>`},
		}
		for _, ns := range []string{c08.NSClient, c08.NSServer} {
			for si, set := range sets {
				for _, beh := range []string{"silent", "reply", "nonreply"} {
					mk := func(id string) c08.Prog {
						switch beh {
						case "reply":
							return progOf([]string{"result"}, id, 1, "ok")
						case "nonreply":
							return progOf([]string{"message"}, id, 0, "ok")
						}
						return progOf(nil, id, 1, "ok")
					}
					ids := [][]string{{"b1", "-"}, {"-", "b2", "-"}, {"b3", "b4", "b5"}, {"-", "-"}}[si]
					var ps []c08.Prog
					for _, id := range ids {
						ps = append(ps, mk(id))
					}
					for st := 1; st <= 2; st++ {
						c.outstate(ns, st, set, ps, "outstate")
					}
					// the handler of the first element closes the output / writes half an element
					cl := append([]c08.Prog{}, ps...)
					cl[0] = c08.Prog{Ret: "ok", Close: true}
					c.outstate(ns, 0, set, cl, "outstate")
					for hi, h := range half {
						if ns == c08.NSServer && hi%2 == 1 {
							continue
						}
						hp := append([]c08.Prog{}, ps...)
						hp[0] = c08.Prog{Ret: "ok", Ops: []c08.Op{{Write: h}}}
						c.outstate(ns, 0, set, hp, "outstate")
					}
				}
			}
		}
	}

	// histories of sessions in ONE process, one after the other on a single scheduler thread (so
	// that whatever the library keeps at package level - pools, caches - is handed from one
	// session to the next): an earlier session ends in the middle of things (its handler fails
	// after half an element, after an unclosed nested element, after closing more than it opened,
	// with the payload half read), then every write shape is judged in a fresh session.  Sessions
	// are independent: the expected answer of a line never depends on what ran before it.
	{
		prevProcs := runtime.GOMAXPROCS(1)
		q := `<q xmlns="urn:q"><item/></q>`
		aborts := [][]xml.Token{
			{xml.StartElement{Name: name("iq"), Attr: iqAttrs("h0", "result")}},
			{xml.StartElement{Name: name("iq"), Attr: iqAttrs("h0", "result")}, xml.StartElement{Name: name("q")}},
			{xml.StartElement{Name: name("message")}, xml.CharData("x")},
			{xml.EndElement{Name: name("x")}},
		}
		for _, ns := range []string{c08.NSClient, c08.NSServer} {
			for ai, ab := range aborts {
				for _, ret := range []string{"fail", "streamerr", "ok"} {
					for wi, w := range writeNames {
						if ns == c08.NSServer && (ai+wi)%3 != 0 {
							continue
						}
						if r.Quick() && ret != "fail" && (ai+wi)%2 != 0 {
							continue
						}
						c.outstate(ns, 0, []string{`<iq type="get" id="h0">` + q + `</iq>`, `<message id="h1"/>`},
							[]c08.Prog{{Ret: ret, Ops: []c08.Op{{Read: true}, {Write: ab}}}}, "history-abort")
						e := element("iq", "", "hq", []string{"get", "set"}[wi%2], "a@example.org/r", "-", "", payloads[0])
						c.check(ns, []string{"d", "r"}[(ai+wi)%2], e, progOf([]string{w}, "hq", wi%3, "ok"), "history")
					}
				}
			}
		}
		runtime.GOMAXPROCS(prevProcs)
	}
	// every reply / non-reply shape written through all three methods of the encoder handed to
	// handlers: EncodeToken, Encode(value) with a Marshaler / WriterTo / TokenReader / plain
	// struct, EncodeElement(value, start) with a Marshaler / WriterTo
	for _, ns := range []string{c08.NSClient, c08.NSServer} {
		for _, typ := range []string{"get", "set", "result"} {
			e := element("iq", "", "vq", typ, "a@example.org/r", "-", "", payloads[0])
			for _, w := range writeNames {
				for via := 1; via <= 6; via++ {
					if !applicable(via, writes("vq")[w]) {
						continue
					}
					for _, m := range []string{"d", "r"} {
						c.check(ns, m, e, progVia([]string{w}, "vq", via%3, "ok", []int{via}), "exhaustive-via")
					}
				}
			}
			// two writes through different methods
			for via := 0; via <= 6; via++ {
				c.check(ns, "d", e, progVia([]string{"message", "result"}, "vq", 0, "ok", []int{via, (via + 3) % 7}), "exhaustive-via")
				c.check(ns, "d", e, progVia([]string{"nested", "otherid"}, "vq", 0, "ok", []int{(via + 1) % 7, via}), "exhaustive-via")
			}
		}
	}

	// attribute ORDER and attribute VALUES as the peer chose them: every order of type / id /
	// from / to x every IQ type x addresses that parse, do not parse (before or after the type
	// attribute), are padded with white space, are empty x ids that are padded (ids are opaque:
	// a reply carries the id unchanged) x handler direct / the multiplexer with a recording
	// handler, with a handler that answers from the parsed stanza.IQ, with nothing registered
	{
		addrCases := [][2]string{ // from, to
			{"a@example.org/r", "-"},
			{"a@example.org/r", "@example.net"},
			{"a@b@c", "OWN"},
			{" a@example.org/r", "-"},
			{"a@example.org/r", "x@example.com "},
			{"", "a@b/"},
		}
		idCases := []string{"ao", " ao", "ao ", "&#9;a o&#10;"}
		typCases := []string{"get", "set", "result", "error", " get", "result "}
		for _, ns := range nsList {
			own := map[string]string{c08.NSClient: "me@example.com", c08.NSServer: "example.com"}[ns]
			for pi, perm := range perms(4) {
				for ti, typ := range typCases {
					for ai, ac := range addrCases {
						for ii, id := range idCases {
							if r.Quick() && (pi+ti+ai+ii)%3 != 0 {
								continue
							}
							vals := [][2]string{{"type", typ}, {"id", id}, {"from", ac[0]}, {"to", strings.ReplaceAll(ac[1], "OWN", own)}}
							var attrs [][2]string
							for _, k := range perm {
								if vals[k][1] != "-" {
									attrs = append(attrs, vals[k])
								}
							}
							e := elementA("iq", "", attrs, payloads[(pi+ai)%2*3])
							rid := unescape(id)
							for mi, m := range []string{"d", "r", "u", "q"} {
								var ws []string
								if (m == "d" || m == "r") && (pi+ii+mi)%2 == 0 {
									ws = []string{"result"}
								}
								c.check(ns, m, e, progOf(ws, rid, ai%2, "ok"), "exhaustive-attrs")
							}
						}
					}
				}
			}
		}
		r.Exhaustive = append(r.Exhaustive, "every order of the type / id / from / to attributes x 6 type values x 6 address cases (unparsable before / after the type, padded, empty) x 4 id values (padded with white space) x 4 modes (every third combination in the quick tier)")
	}

	// handlers that return an error value after writing 0 / 1 / 2 replies: plain error,
	// io.EOF, stanza.Error, stream.Error; direct and behind the mux (registered), for every
	// IQ type
	for _, ns := range []string{c08.NSClient, c08.NSServer} {
		for _, typ := range []string{"get", "set", "result", "error"} {
			e := element("iq", "", "er", typ, "a@example.org/r", "-", "", payloads[0])
			for _, ret := range []string{"ok", "fail", "eof", "stanzaerr", "streamerr", "wrapeof", "wrapueof", "wrapstanza", "wrapstream", "joineof"} {
				for _, ws := range [][]string{nil, {"result"}, {"error"}, {"result", "result"}, {"otherid"}, {"message", "result"}} {
					for _, m := range []string{"d", "r"} {
						c.check(ns, m, e, progOf(ws, "er", len(ws)%3, ret), "exhaustive-returns")
					}
				}
				c.check(ns, "u", e, progOf(nil, "er", 0, ret), "exhaustive-returns")
			}
		}
	}
	r.Exhaustive = append(r.Exhaustive, fmt.Sprintf("incoming element (7 names incl. both stanza namespaces x 6 types x 3 from values x %d payload shapes) x every single handler write out of %d x 3 modes; every ordered pair of writes for get/set requests", len(payloads), len(writeNames)))

	// handlers that edit the start element they were handed in place (it is a pointer to the
	// serve loop's own variable): type, name, id, all attributes; then write nothing, a
	// non-reply, or a reply.  What the session owes the peer is decided by what the peer sent.
	for _, ns := range []string{c08.NSClient, c08.NSServer} {
		for _, typ := range []string{"get", "set", "result", "-"} {
			for _, l := range locals[:4] {
				if l.ns != "" && typ != "get" {
					continue
				}
				for _, from := range []string{"a@example.org/r", "-"} {
					e := element(l.local, l.ns, "mu", typ, from, "-", "", payloads[0])
					for mut := 1; mut <= c08.MutMax; mut++ {
						for wi, ws := range [][]string{nil, {"otherid"}, {"result"}, {"message"}} {
							for _, m := range []string{"d", "r"} {
								if m == "r" && (wi%2 == 1 || from == "-") {
									continue
								}
								p := progOf(ws, "mu", wi, "ok")
								p.Mut = mut
								c.check(ns, m, e, p, "exhaustive-edit")
							}
						}
					}
				}
			}
		}
	}

	// the connection refuses a write: sessions of 1..4 elements, the fault at every write
	// (each flush of a reply / of what a handler wrote, the closing tag), one refused write or
	// all from then on
	{
		reqA := element("iq", "", "wa", "get", "a@example.org/r", "-", "", payloads[0])
		reqB := element("iq", "", "wb", "set", "-", "-", "", payloads[3])
		msg := `<message id="wm"><body>x</body></message>`
		prs := `<presence id="wp"/>`
		resI := element("iq", "", "wr", "result", "-", "-", "", "")
		seqs := [][]string{{reqA}, {reqA, msg, prs}, {msg, reqA, msg}, {reqA, reqB, msg}, {msg, prs}, {resI, reqB, prs, reqA}}
		nop := c08.Prog{Ret: "ok"}
		for _, ns := range []string{c08.NSClient, c08.NSServer} {
			for si, seq := range seqs {
				for variant := 0; variant < 5; variant++ {
					progs := make([]c08.Prog, len(seq))
					for k := range progs {
						progs[k] = nop
						id := []string{"wa", "wb", "wm", "wp", "wr"}[0]
						switch {
						case strings.Contains(seq[k], `id="wa"`):
							id = "wa"
						case strings.Contains(seq[k], `id="wb"`):
							id = "wb"
						}
						switch variant {
						case 1: // every handler answers / writes a message
							if strings.Contains(seq[k], "<iq") {
								progs[k] = progOf([]string{"result"}, id, 1, "ok")
							} else {
								progs[k] = progOf([]string{"message"}, id, 0, "ok")
							}
						case 2: // messages are echoed, requests left to the session
							if !strings.Contains(seq[k], "<iq") {
								progs[k] = progOf([]string{"message"}, id, 1, "ok")
							}
						case 3: // a non-reply is written for requests
							if strings.Contains(seq[k], "<iq") {
								progs[k] = progOf([]string{"otherid"}, id, 0, "ok")
							}
						case 4: // the last handler fails after writing
							if k == len(seq)-1 {
								progs[k] = progOf([]string{"message"}, id, 0, []string{"fail", "streamerr", "wrapeof"}[si%3])
							}
						}
					}
					for fa := 0; fa <= len(seq)+1; fa++ {
						for _, once := range []bool{false, true} {
							c.faulty(ns, fa, once, seq, progs, "exhaustive-fault")
							if si <= 1 {
								// the same sessions with a multiplexer as the handler
								c.faultyMux(ns, "u", fa, once, seq, nil, "exhaustive-fault")
								c.faultyMux(ns, "r", fa, once, seq, progs, "exhaustive-fault")
							}
						}
					}
				}
			}
		}
	}

	// several elements in one session: requests with distinct (and sometimes equal) ids,
	// replies, other stanzas; handlers that answer their own request, an earlier or a later one
	rndS := r.Rnd.Fork()
	ns2 := r.Pick(1500, 15000)
	for i := 0; i < ns2; i++ {
		ns := c08.NSClient
		if rndS.Chance(1, 4) {
			ns = c08.NSServer
		}
		cnt := 2 + rndS.Intn(4)
		var elements []string
		var progs []c08.Prog
		ids := make([]string, cnt)
		for k := range ids {
			ids[k] = fmt.Sprintf("s%d", k)
			if rndS.Chance(1, 10) && k > 0 {
				ids[k] = ids[k-1]
			}
		}
		for k := 0; k < cnt; k++ {
			l := locals[0]
			if rndS.Chance(1, 4) {
				l = locals[1+rndS.Intn(len(locals)-1)]
			}
			typ := types[rndS.Intn(2)]
			if rndS.Chance(1, 4) {
				typ = types[rndS.Intn(len(types))]
			}
			from := []string{"-", "a@example.org/r", "b@example.org"}[rndS.Intn(3)]
			elements = append(elements, element(l.local, l.ns, ids[k], typ, from, "-", "", payloads[rndS.Intn(len(payloads))]))
			if rndS.Chance(1, 5) {
				elements = append(elements, []string{" ", "\n"}[rndS.Intn(2)])
			}
			var p c08.Prog
			p.Ret = "ok"
			for q := rndS.Intn(4); q > 0; q-- {
				p.Ops = append(p.Ops, c08.Op{Read: true})
			}
			for q := rndS.Intn(3); q > 0; q-- {
				target := ids[k]
				if rndS.Chance(1, 3) {
					target = ids[rndS.Intn(cnt)]
				}
				p.Ops = append(p.Ops, c08.Op{Write: writes(target)[writeNames[rndS.Intn(len(writeNames))]]})
			}
			if rndS.Chance(1, 12) {
				p.Ret = []string{"fail", "eof", "stanzaerr", "streamerr", "wrapeof", "wrapueof", "wrapstanza", "wrapstream", "joineof"}[rndS.Intn(9)]
			}
			if rndS.Chance(1, 6) {
				p.Mut = 1 + rndS.Intn(c08.MutMax)
			}
			progs = append(progs, p)
		}
		if rndS.Chance(1, 6) {
			c.faulty(ns, rndS.Intn(cnt+2), rndS.Chance(1, 2), elements, progs, "session")
		} else {
			c.session(ns, elements, progs, "session")
		}
	}

	// pending local requests: 0..2 SendIQ calls outstanding x incoming IQs of every type with
	// an id equal to / different from the pending ones
	pendSets := [][]pend{nil, {{"p1", name("iq")}}, {{"p1", name("iq")}, {"p2", xml.Name{Space: c08.NSClient, Local: "iq"}}}}
	for _, ns := range []string{c08.NSClient, c08.NSServer} {
		for _, ps := range pendSets {
			for _, typ := range []string{"get", "set", "result", "error", "-"} {
				for _, id := range []string{"p1", "p2", "zz"} {
					for _, l := range []struct{ local, ns string }{{"iq", ""}, {"iq", c08.NSClient}, {"iq", c08.NSServer}, {"message", ""}} {
						e := element(l.local, l.ns, id, typ, "a@example.org/r", "-", "", payloads[0])
						c.pending(ns, ps, []string{e}, nil, "exhaustive-pending")
					}
				}
			}
			// sequences: a request and a response with the same id in both orders, then again
			for _, seq := range [][]string{
				{element("iq", "", "p1", "get", "-", "-", "", payloads[0]), element("iq", "", "p1", "result", "-", "-", "", ""), element("iq", "", "p1", "set", "-", "-", "", payloads[0])},
				{element("iq", "", "p1", "result", "-", "-", "", payloads[3]), element("iq", "", "p1", "result", "-", "-", "", ""), element("iq", "", "p1", "get", "-", "-", "", payloads[0])},
				{element("iq", "", "p2", "error", "-", "-", "", ""), element("iq", "", "p2", "get", "-", "-", "", payloads[0]), element("iq", "", "p1", "result", "-", "-", "", "")},
			} {
				c.pending(ns, ps, seq, []c08.Prog{progOf(nil, "x", 1, "ok"), progOf(nil, "x", 0, "ok")}, "exhaustive-pending")
			}
		}
	}

	// random
	rnd := r.Rnd
	n := r.Pick(2500, 40000)
	for i := 0; i < n; i++ {
		ns := c08.NSClient
		own := "me@example.com"
		if rnd.Chance(1, 3) {
			ns, own = c08.NSServer, "example.com"
		}
		l := locals[rnd.Intn(len(locals))]
		if rnd.Chance(1, 2) {
			l = locals[0]
		}
		id := []string{"r1", "r2", "-", "x y", "&lt;", " r3", "r4 ", " ", "&#9;r5"}[rnd.Intn(9)]
		if rnd.Chance(2, 3) {
			id = fmt.Sprintf("id%d", rnd.Intn(100))
		}
		from := []string{"-", "a@example.org/r", own, "example.org", "B@Example.ORG/R", own + "/res", "a@b@c", "", " a@example.org/r", own + " "}[rnd.Intn(10)]
		to := []string{"-", own, "x@example.com", "@example.net", " " + own, ""}[rnd.Intn(6)]
		extra := ""
		if rnd.Chance(1, 6) {
			extra = ` xmlns:p="urn:p" p:id="pid" p:type="result" p:from="pf@example.org"`
		}
		pl := payloads[rnd.Intn(len(payloads))]
		if rnd.Chance(1, 10) {
			pl = []string{"text", "<!--c-->", `<q xmlns="urn:q"><?pi x?></q>`, `<stream:features/>`}[rnd.Intn(4)]
		}
		typ := types[rnd.Intn(len(types))]
		if rnd.Chance(1, 12) {
			typ = []string{" get", "set ", " result", "error "}[rnd.Intn(4)]
		}
		e := element(l.local, l.ns, id, typ, from, to, extra, pl)
		if rnd.Chance(1, 2) {
			// the peer's own attribute order
			var attrs [][2]string
			for _, a := range [][2]string{{"type", typ}, {"id", id}, {"from", from}, {"to", to}} {
				if a[1] != "-" {
					attrs = append(attrs, a)
				}
			}
			for i := len(attrs) - 1; i > 0; i-- {
				j := rnd.Intn(i + 1)
				attrs[i], attrs[j] = attrs[j], attrs[i]
			}
			xl := l.local + extra
			e = elementA(xl, l.ns, attrs, strings.ReplaceAll(pl, "ID", id))
			e = strings.Replace(e, "</"+xl+">", "</"+l.local+">", 1)
		}
		var ws []string
		for k := rnd.Intn(4); k > 0; k-- {
			ws = append(ws, writeNames[rnd.Intn(len(writeNames))])
		}
		ret := "ok"
		if rnd.Chance(1, 12) {
			ret = []string{"fail", "eof", "stanzaerr", "streamerr", "wrapeof", "wrapueof", "wrapstanza", "wrapstream", "joineof"}[rnd.Intn(9)]
		}
		wid := id
		if wid == "-" {
			wid = ""
		}
		wid = unescape(wid)
		mode := []string{"d", "r", "u", "q"}[rnd.Intn(4)]
		c.check(ns, mode, e, progVia(ws, wid, rnd.Intn(6), ret, []int{rnd.Intn(7), rnd.Intn(7), 0}), "random")
	}
	return nil
}
