package main

import (
	"verifharness/c01"
	"verifharness/c04"
)

func init() { runners["C04"] = c04.Run; facts["C04"] = c01.LoopFacts }
