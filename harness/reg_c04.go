package main

import "verifharness/c04"

func init() { runners["C04"] = c04.Run }
