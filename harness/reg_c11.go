package main

import "verifharness/c11"

func init() { runners["C11"] = c11.Run; facts["C11"] = c11.Facts }
