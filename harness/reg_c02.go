package main

import "verifharness/c02"

func init() { runners["C02"] = c02.Run; facts["C02"] = c02.Facts }
