package main

import "verifharness/c13"

func init() { runners["C13"] = c13.Run; facts["C13"] = c13.Facts }
