package main

import "verifharness/c07"

func init() { runners["C07"] = c07.Run; facts["C07"] = c07.Facts }
