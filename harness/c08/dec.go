package c08

import (
	"encoding/hex"
	"encoding/xml"
	"fmt"
	"strings"
)

func unhexF(s string) (string, error) {
	b, err := hex.DecodeString(s)
	return string(b), err
}

// DecTok decodes one token of the line protocol.
func DecTok(s string) (xml.Token, error) {
	f := strings.Split(s, ":")
	bad := fmt.Errorf("bad token %q", s)
	un := func(x string) string {
		v, err := unhexF(x)
		if err != nil {
			bad = err
		}
		return v
	}
	switch {
	case f[0] == "S" && len(f) >= 3:
		st := xml.StartElement{Name: xml.Name{Space: un(f[1]), Local: un(f[2])}}
		for _, a := range f[3:] {
			p := strings.Split(a, "=")
			if len(p) != 3 {
				return nil, bad
			}
			st.Attr = append(st.Attr, xml.Attr{Name: xml.Name{Space: un(p[0]), Local: un(p[1])}, Value: un(p[2])})
		}
		return st, nil
	case f[0] == "E" && len(f) == 3:
		return xml.EndElement{Name: xml.Name{Space: un(f[1]), Local: un(f[2])}}, nil
	case f[0] == "C" && len(f) == 2:
		return xml.CharData(un(f[1])), nil
	case f[0] == "M" && len(f) == 2:
		return xml.Comment(un(f[1])), nil
	case f[0] == "P" && len(f) == 3:
		return xml.ProcInst{Target: un(f[1]), Inst: []byte(un(f[2]))}, nil
	case f[0] == "D" && len(f) == 2:
		return xml.Directive(un(f[1])), nil
	}
	return nil, bad
}

func DecToks(s string) ([]xml.Token, error) {
	if s == "-" {
		return nil, nil
	}
	var out []xml.Token
	for _, p := range strings.Split(s, ";") {
		t, err := DecTok(p)
		if err != nil {
			return nil, err
		}
		out = append(out, t)
	}
	return out, nil
}

// DecProgs decodes the programs field of a case line.
func DecProgs(s string) ([]Prog, error) {
	if s == "-" {
		return nil, nil
	}
	var ps []Prog
	for _, ps1 := range strings.Split(s, "/") {
		f := strings.Split(ps1, ",")
		p := Prog{Ret: f[0]}
		for _, o := range f[1:] {
			switch {
			case o == "c":
				p.Close = true
			case o == "df":
				p.Deadline = "future"
			case o == "dp":
				p.Deadline = "past"
			case strings.HasPrefix(o, "ds"):
				p.DlSeq = o[2:]
			case len(o) >= 2 && o[0] == 'v' && o[1] >= '1' && o[1] <= '6':
				ts, err := DecToks(o[2:])
				if err != nil {
					return nil, err
				}
				p.Ops = append(p.Ops, Op{Write: ts, Via: int(o[1] - '0')})
			case o == "r":
				p.Ops = append(p.Ops, Op{Read: true})
			case strings.HasPrefix(o, "w"):
				ts, err := DecToks(o[1:])
				if err != nil {
					return nil, err
				}
				p.Ops = append(p.Ops, Op{Write: ts})
			default:
				return nil, fmt.Errorf("bad op %q", o)
			}
		}
		ps = append(ps, p)
	}
	return ps, nil
}
