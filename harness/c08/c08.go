package c08

import (
	"context"
	"encoding/xml"
	"errors"
	"fmt"
	"io"
	"runtime"
	"sort"
	"strings"
	"sync"
	"time"

	"mellium.im/xmlstream"
	"mellium.im/xmpp"
	"mellium.im/xmpp/jid"
	"mellium.im/xmpp/stream"
	"mellium.im/xmpp/websocket"

	"verifharness/common"
)

// NSFraming is the namespace of the WebSocket subprotocol's framing elements: ordinary content
// on a TCP stream.
const NSFraming = "urn:ietf:params:xml:ns:xmpp-framing"

// Addresses of the sessions under test.
var (
	LocalJID  = jid.MustParse("me@example.com/res")
	RemoteJID = jid.MustParse("example.com")
	LocalSrv  = jid.MustParse("example.com")
	RemoteSrv = jid.MustParse("example.net")
)

func addrs(ns string) (jid.JID, jid.JID) {
	if ns == NSServer {
		return LocalSrv, RemoteSrv
	}
	return LocalJID, RemoteJID
}

// Unbalanced reports whether the tokens one handler writes leave an element open or contain an
// end tag without a start tag.
func Unbalanced(ts []xml.Token) bool {
	d := 0
	for _, t := range ts {
		switch t.(type) {
		case xml.StartElement:
			d++
		case xml.EndElement:
			if d == 0 {
				return true
			}
			d--
		}
	}
	return d != 0
}

// ---- spec-level oracle on the token list ---------------------------------------

func isWS(s string) bool { return strings.Trim(s, " \t\r\n") == "" }

// streamLevel classifies a token that must never reach a handler ("" = ordinary).
func streamLevel(t xml.Token) string { return streamLevelWS(t, false) }

// streamLevelWS is streamLevel on a session with the WebSocket flag ws: there the framing
// elements are stream-level too: <close/> is the peer's closing element, any other element of
// the framing namespace (<open/>) a stream restart (RFC 7395 3.4, 3.6).
func streamLevelWS(t xml.Token, ws bool) string {
	if st, ok := t.(xml.StartElement); ok && ws && st.Name.Space == NSFraming {
		if st.Name.Local == "close" {
			return "close"
		}
		return "restart"
	}
	switch tt := t.(type) {
	case xml.Comment:
		return "comment"
	case xml.ProcInst:
		return "procinst"
	case xml.Directive:
		return "directive"
	case xml.StartElement:
		if tt.Name.Space == NSStream {
			switch tt.Name.Local {
			case "error":
				return "se"
			case "stream":
				return "restart"
			}
			return "unknown-element"
		}
	case xml.EndElement:
		if tt.Name.Space == NSStream {
			if tt.Name.Local == "stream" {
				return "close"
			}
			return "se:bad-format"
		}
	}
	return ""
}

// NSStreams is the namespace of the defined stream error conditions.
const NSStreams = "urn:ietf:params:xml:ns:xmpp-streams"

// seSpec is the property's reading of a received stream error whose start tag is toks[i]
// (RFC 6120 4.9): the defined condition is the child in the stream-error namespace that is not
// <text/>; children in other namespaces are application-specific conditions and do not change
// what the error is.  complete = the error element is closed in toks.
func seSpec(toks []xml.Token, i int) (class string, complete bool) {
	cond := ""
	depth := 0
	for _, t := range toks[i+1:] {
		switch tt := t.(type) {
		case xml.StartElement:
			if depth == 0 && tt.Name.Space == NSStreams && tt.Name.Local != "text" {
				cond = tt.Name.Local
			}
			depth++
		case xml.EndElement:
			if depth == 0 {
				return "se:" + cond, true
			}
			depth--
		}
	}
	return "se", false
}

// endClass refines the class of a stream-level construct at toks[i]: a received stream error
// that is complete must be returned as that error (with the condition the peer sent).
func endClass(c string, toks []xml.Token, i int) string {
	if c == "se" {
		if cl, ok := seSpec(toks, i); ok {
			return cl
		}
	}
	return c
}

// expected is what the property demands for one input.
type expElem struct {
	start xml.StartElement
	body  []xml.Token // tokens after the start tag through the end tag (clean elements), or up to the construct
	dirty string      // class of the stream-level construct inside the element ("" = none)
}

type expectation struct {
	elems []expElem
	end   string // clean | decoder | chardata | comment | … | se (received stream error) | bad-state
}

func expect(toks []xml.Token) expectation { return expectWS(toks, false) }

func expectWS(toks []xml.Token, ws bool) expectation {
	var ex expectation
	i := 0
	for i < len(toks) {
		t := toks[i]
		if c := streamLevelWS(t, ws); c != "" {
			if c == "close" {
				ex.end = "clean"
			} else {
				ex.end = endClass(c, toks, i)
			}
			return ex
		}
		switch tt := t.(type) {
		case xml.CharData:
			if !isWS(string(tt)) {
				ex.end = "chardata"
				return ex
			}
			i++
		case xml.EndElement:
			ex.end = "bad-state"
			return ex
		case xml.StartElement:
			e := expElem{start: tt}
			depth := 0
			j := i + 1
			closed := false
			for ; j < len(toks); j++ {
				if c := streamLevelWS(toks[j], ws); c != "" {
					e.dirty = endClass(c, toks, j)
					if c == "close" {
						// only a top-level <close/> is the peer's closing element; inside another
						// element it is as out of place as any other framing element: the
						// handler's view must end with an error there (not with an early end of
						// the element) and the session with it
						e.dirty = "restart"
					}
					break
				}
				e.body = append(e.body, toks[j])
				if _, ok := toks[j].(xml.StartElement); ok {
					depth++
				}
				if _, ok := toks[j].(xml.EndElement); ok {
					if depth == 0 {
						closed = true
						j++
						break
					}
					depth--
				}
			}
			ex.elems = append(ex.elems, e)
			if e.dirty != "" {
				ex.end = e.dirty
				return ex
			}
			if !closed {
				e.dirty = "decoder"
				ex.elems[len(ex.elems)-1] = e
				ex.end = "decoder"
				return ex
			}
			i = j
		default:
			i++
		}
	}
	ex.end = "decoder"
	return ex
}

func sameClass(want, got string) bool {
	if want == got {
		return true
	}
	if want == "se" && strings.HasPrefix(got, "se:") && got != "se:bad-format" {
		return true
	}
	// a stream error that is cut short by the end of the input is a decoder error
	if want == "se" && got == "decoder" {
		return true
	}
	return false
}

type ctx struct {
	r *common.Run
}

// check runs one case on the real code, writes the protocol line and evaluates
// the property's clauses.
func (c *ctx) check(ns string, body []byte, progs []Prog, class string) {
	c.checkX(false, ns, body, progs, class)
}

// checkX is check on a session whose output the local side has closed before Serve starts
// (closed0) or closes in a handler (Prog.Close): writes fail from then on, stream-level
// constructs must still end Serve with their error.
func (c *ctx) checkX(closed0 bool, ns string, body []byte, progs []Prog, class string) {
	c.checkO(caseOpt{closed0: closed0, opt: Opts{FailAfter: -1}}, ns, body, progs, class)
}

// Pend is a local request (SendIQ) that is waiting for its response while the peer's input is
// served; its waiter reads Reads tokens of the response it is handed (-1 = all of it) and then
// closes it, as the documentation of SendIQ allows.
type Pend struct {
	ID    string
	Name  xml.Name
	Reads int
	// Fate: "" = the call is still waiting when the input is served; "f" = its transmission
	// failed (the output is closed or broken: only with closed0 / PreBroken) and the call returned the error;
	// "g" = the request went out and the caller gave up waiting (its context ended) before the
	// input is served.  In both cases nobody waits for a response any more.
	Fate string
}

func encPends(ps []Pend) (string, string) {
	var pf, rf []string
	for _, p := range ps {
		x := fmt.Sprintf("%x=%x=%x", p.ID, p.Name.Space, p.Name.Local)
		if p.Fate != "" {
			x += "=" + p.Fate
		}
		pf = append(pf, x)
		rf = append(rf, fmt.Sprint(p.Reads))
	}
	return common.Join(pf, ","), common.Join(rf, ",")
}

func decPends(pd, rd string) []Pend {
	if pd == "-" {
		return nil
	}
	var ps []Pend
	reads := strings.Split(rd, ",")
	for i, x := range strings.Split(pd, ",") {
		f := strings.Split(x, "=")
		if len(f) != 3 && len(f) != 4 {
			continue
		}
		a, _ := unhexF(f[0])
		b, _ := unhexF(f[1])
		d, _ := unhexF(f[2])
		p := Pend{ID: a, Name: xml.Name{Space: b, Local: d}, Reads: -1}
		if len(f) == 4 {
			p.Fate = f[3]
		}
		if i < len(reads) {
			fmt.Sscanf(reads[i], "%d", &p.Reads)
		}
		ps = append(ps, p)
	}
	return ps
}

// caseOpt are the dimensions of a case beyond input and handler programs.
type caseOpt struct {
	closed0 bool   // the local side closed its output before Serve
	opt     Opts   // address change during negotiation, write faults
	pends   []Pend // local requests waiting for their response
}

// startPends parks one SendIQ call per pending request; the returned function ends them.
func startPends(pends []Pend, delivered *[]string, mu *sync.Mutex) func(s *xmpp.Session, out *common.SafeBuffer) func() {
	return func(s *xmpp.Session, out *common.SafeBuffer) func() {
		var wg sync.WaitGroup
		cctx, cancel := context.WithCancel(context.Background())
		for _, p := range pends {
			p := p
			st := xml.StartElement{Name: p.Name, Attr: []xml.Attr{{Name: name("type"), Value: "get"}, {Name: name("id"), Value: p.ID}, {Name: name("to"), Value: "peer@example.net"}}}
			q := xml.StartElement{Name: xml.Name{Space: "urn:q", Local: "q"}}
			switch p.Fate {
			case "f":
				// the transmission fails: the output has been closed or was left inside an element
				// (caseOpt.closed0 / Opts.PreBroken), the call returns that error
				fctx, stop := context.WithTimeout(context.Background(), 3*time.Second)
				if resp, err := s.SendIQ(fctx, xmlstream.Wrap(xmlstream.Wrap(nil, q), st)); err == nil && resp != nil {
					resp.Close()
				}
				stop()
				continue
			case "g":
				// the request goes out, then the caller's context ends: the call returns
				gctx, giveUp := context.WithCancel(context.Background())
				want := out.Len()
				ret := make(chan struct{})
				go func() {
					defer close(ret)
					if resp, err := s.SendIQ(gctx, xmlstream.Wrap(xmlstream.Wrap(nil, q), st)); err == nil && resp != nil {
						resp.Close()
					}
				}()
				for i := 0; i < 5000 && out.Len() == want; i++ {
					time.Sleep(200 * time.Microsecond)
				}
				giveUp()
				select {
				case <-ret:
				case <-time.After(5 * time.Second):
				}
				continue
			}
			wg.Add(1)
			want := out.Len()
			go func() {
				defer wg.Done()
				resp, err := s.SendIQ(cctx, xmlstream.Wrap(xmlstream.Wrap(nil, q), st))
				if err != nil || resp == nil {
					return
				}
				for i := 0; p.Reads < 0 || i < p.Reads; i++ {
					tok, err := resp.Token()
					if err != nil || tok == nil {
						break
					}
				}
				mu.Lock()
				*delivered = append(*delivered, p.ID)
				mu.Unlock()
				resp.Close()
			}()
			// wait until the request is on the wire: its table entry exists from then on
			for i := 0; i < 5000 && out.Len() == want; i++ {
				time.Sleep(200 * time.Microsecond)
			}
		}
		return func() { cancel(); wg.Wait() }
	}
}

// checkO runs one case with all its dimensions.
func (c *ctx) checkO(co caseOpt, ns string, body []byte, progs []Prog, class string) {
	closed0 := co.closed0
	r := c.r
	local, remote := addrs(ns)
	toks := Tokens(ns, body)
	ws := co.opt.WS
	anyClose := closed0 || co.opt.PreBroken
	partial := co.opt.PreBroken
	for _, p := range progs {
		anyClose = anyClose || p.Close || p.Dls() != ""
		var w []xml.Token
		for _, o := range p.Ops {
			w = append(w, o.Write...)
		}
		if Unbalanced(w) {
			anyClose, partial = true, true
		}
	}
	anyClose = anyClose || co.opt.PreDl != ""
	var before func(s *xmpp.Session, out *common.SafeBuffer) func()
	if closed0 {
		before = func(s *xmpp.Session, out *common.SafeBuffer) func() { _ = s.Close(); return nil }
	}
	var mu sync.Mutex
	var deliveredIDs []string
	allOver := true
	for _, p := range co.pends {
		allOver = allOver && p.Fate != ""
	}
	if len(co.pends) > 0 {
		sp := startPends(co.pends, &deliveredIDs, &mu)
		first := before
		before = func(s *xmpp.Session, out *common.SafeBuffer) func() {
			if first != nil {
				first(s, out)
			}
			return sp(s, out)
		}
	}
	// the protocol line names the table of requests unless the case also has a closed / broken
	// output and no request is waiting any more (the table is empty then: `servex`)
	usePW := len(co.pends) > 0 && !(anyClose && allOver)
	res := ServeOpt(co.opt, ns, local, remote, body, progs, nil, before)
	line := CaseLine(ns, res.LocalBare, toks, progs)
	if anyClose {
		cf := common.B(closed0)
		if co.opt.PreBroken && !closed0 {
			cf = "2"
		}
		if co.opt.PreDl != "" {
			cf += "d" + co.opt.PreDl
		}
		line = "servex " + cf + strings.TrimPrefix(line, "serve")
	}
	pd, rd := encPends(co.pends)
	if usePW {
		line = strings.Join([]string{"servepw", NsField(ns), common.HexS(res.LocalBare), JidMap(toks), pd, rd, common.EncToks(toks), EncProgs(progs)}, " ")
	}
	line = MarkWS(line, ws)
	lines := []string{r.Prop + " " + line, "#body " + common.Hex(body), "#opts " + co.opt.Enc() + " " + pd + " " + rd}
	els, closed, werr := Written(ns, res.Out)
	if co.opt.PreBroken {
		// the start tag of the abandoned transmission sat in the encoder's buffer and reaches the
		// wire with the next flush: it is not something Serve wrote
		var kept []Elem
		for _, e := range els {
			if e.ID != "abandoned" {
				kept = append(kept, e)
			}
		}
		els = kept
	}
	closed = closed || closed0
	wobs, cond := WrittenObs(els)
	cls := ErrClass(res.Err)
	switch {
	case res.Stall:
		r.Line(line, "STALL")
		r.Fail("terminates", "stall", lines, "Serve did not return")
		return
	case res.Panic != "":
		r.Line(line, "PANIC")
		r.Fail("no-panic", "panic", lines, res.Panic)
		return
	}
	if usePW {
		mu.Lock()
		var dl []string
		for _, d := range deliveredIDs {
			dl = append(dl, fmt.Sprintf("%x", d))
		}
		mu.Unlock()
		r.Line(line, fmt.Sprintf("%s %s %s %s", EncInvs(res.Invs), wobs, cls, common.Join(dl, ",")))
	} else {
		r.Line(line, fmt.Sprintf("%s %s %s", EncInvs(res.Invs), wobs, cls))
	}
	ex := expectWS(toks, ws)
	// responses that belong to a pending local request go to its waiter, not to the handler:
	// the first top-level element of type result/error whose id is that of a request still
	// pending and whose name is the request's (or the request's was unqualified)
	// (a request whose transmission failed or whose caller gave up waiting is not pending: a
	// response that carries its id is handled like any other element)
	var table []Pend
	for _, p := range co.pends {
		if p.Fate == "" {
			table = append(table, p)
		}
	}
	var toWaiter []bool
	for _, e := range ex.elems {
		typ, id := attrVal(e.start.Attr, "type"), attrVal(e.start.Attr, "id")
		hit := false
		if typ == "result" || typ == "error" {
			for i, p := range table {
				if p.ID == id {
					if p.Name == e.start.Name || p.Name == (xml.Name{Local: e.start.Name.Local}) {
						hit = true
						table = append(table[:i:i], table[i+1:]...)
					}
					break
				}
			}
		}
		toWaiter = append(toWaiter, hit)
	}
	var handled []expElem // the elements that must reach the handler, in order
	for k, e := range ex.elems {
		if !toWaiter[k] {
			handled = append(handled, e)
		}
	}
	if n := len(ex.elems); n > 0 && toWaiter[n-1] && ex.elems[n-1].dirty != "" {
		class += "/dirty-response"
	}
	r.Case(line, true, class+"/"+ex.end)

	fail := func(clause, key, detail string) { r.Fail(clause, key, lines, detail) }
	// the address bound during negotiation is the session's own address from then on
	if co.opt.Rebind != "" && res.LocalBare != co.opt.NewAddr.Bare().String() {
		fail("from-blank", "address-not-updated", fmt.Sprintf("the session was given the address %s during negotiation (%s) but serves as %s", co.opt.NewAddr, co.opt.Rebind, res.LocalBare))
	}
	if werr != nil && !partial {
		fail("output-wellformed", "output", werr.Error())
	}
	// one invocation per top-level element, in order, none after the stream-level construct;
	// a single pass over the elements with the state of the session: output open / left inside
	// an element by a partial write / closed, close deadline passed
	wantN := len(handled)
	wantEnd := ex.end
	st := "open"
	if co.opt.PreBroken {
		st = "broken"
	}
	if closed0 {
		st = "closed"
	}
	expired := ExpiredAfter(co.opt.PreDl, false)
	for k, e := range handled {
		if expired {
			wantN, wantEnd = k, "deadline"
			break
		}
		p := Prog{Ret: "ok"}
		if k < len(progs) {
			p = progs[k]
		}
		if p.Close {
			st = "closed"
		}
		// every SetCloseDeadline call sets THE deadline: the last call of the handler decides
		expired = ExpiredAfter(p.Dls(), false)
		if p.Ret != "ok" {
			wantN, wantEnd = k+1, "handler"
			if p.Ret == "streamerr" || p.Ret == "wrapstream" {
				wantEnd = "se"
			}
			break
		}
		var w []xml.Token
		for _, o := range p.Ops {
			w = append(w, o.Write...)
		}
		typ := attrVal(e.start.Attr, "type")
		needs := e.start.Name.Local == "iq" && (e.start.Name.Space == NSClient || e.start.Name.Space == NSServer) && (typ == "get" || typ == "set")
		// a handler that returns with an element of its own still open (or after an end tag the
		// encoder refused) leaves the stream inside an element; one that tried to write after an
		// abandoned Send had left it there: the session ends before anything else is looked at
		if (st == "open" && Unbalanced(w)) || (st == "broken" && len(w) > 0) {
			wantN, wantEnd = k+1, "output-broken"
			break
		}
		if needs {
			// a get/set IQ whose from does not parse cannot be answered: the session ends with
			// the parse error (the handlers of this runner never write a reply)
			if f := attrVal(e.start.Attr, "from"); f != "" && !(f == res.LocalBare && e.start.Name.Space == ns) {
				if _, err := jid.Parse(f); err != nil {
					wantN, wantEnd = k+1, "bad-jid"
					break
				}
			}
		}
		// once the output is closed a write ends the session with the output-closed error (a
		// handler's own write, or the automatic reply to an unanswered get/set); once it was
		// left inside an element the automatic reply ends it with the output-broken error
		if st == "closed" && (needs || len(w) > 0) {
			wantN, wantEnd = k+1, "output-closed"
			break
		}
		if st == "broken" && needs {
			wantN, wantEnd = k+1, "output-broken"
			break
		}
		if e.dirty != "" {
			break // the element itself ends the session (ex.end)
		}
	}
	if expired && wantN == len(handled) && wantEnd == ex.end && (len(ex.elems) == 0 || ex.elems[len(ex.elems)-1].dirty == "") {
		// the deadline is noticed before whatever follows the last element is looked at
		wantEnd = "deadline"
	}
	if len(res.Invs) != wantN {
		fail("one-per-element", "count", fmt.Sprintf("%d invocations, want %d", len(res.Invs), wantN))
	}
	for k, inv := range res.Invs {
		if k >= len(handled) {
			break
		}
		e := handled[k]
		// start tag (with the from normalisation)
		want := e.start.Copy()
		isStanza := (want.Name.Local == "iq" || want.Name.Local == "message" || want.Name.Local == "presence") && want.Name.Space == ns
		blanked := false
		if isStanza {
			for i, a := range want.Attr {
				if a.Name.Local == "from" && a.Name.Space == "" {
					if a.Value == res.LocalBare {
						want.Attr[i].Value = ""
						blanked = true
					}
					break
				}
			}
		}
		if common.EncTok(want) != common.EncTok(inv.Start) {
			cl := "resync"
			if common.EncTok(e.start) != common.EncTok(inv.Start) && (blanked || attrVal(inv.Start.Attr, "from") != attrVal(e.start.Attr, "from")) {
				cl = "from-blank"
			}
			fail(cl, fmt.Sprintf("start/%s", cl), fmt.Sprintf("invocation %d started at %s, want %s", k, common.EncTok(inv.Start), common.EncTok(want)))
		}
		// nothing stream-level is ever visible
		for _, t := range inv.Toks {
			if c := streamLevelWS(t, ws); c != "" {
				fail("stream-level-hidden", "visible/"+c, fmt.Sprintf("invocation %d saw %s", k, common.EncTok(t)))
			}
		}
		// exact view: the reads return the element's tokens in order, then EOF (clean
		// element) or an error from the construct on (dirty element)
		nread := len(inv.Obs)
		for q := 0; q < nread; q++ {
			var wantObs string
			switch {
			case q < len(e.body):
				wantObs = "t" + common.EncTok(e.body[q])
			case e.dirty == "":
				wantObs = "z"
			default:
				wantObs = "e"
			}
			if inv.Obs[q] != wantObs {
				fail("exact-view", fmt.Sprintf("view/%s", map[bool]string{true: "clean", false: "dirty"}[e.dirty == ""]),
					fmt.Sprintf("invocation %d read %d: got %s want %s", k, q, inv.Obs[q], wantObs))
				break
			}
		}
	}
	// how Serve ended
	if !sameClass(wantEnd, cls) {
		kind := "construct"
		if wantEnd == "handler" || wantEnd == "clean" || wantEnd == "decoder" || wantEnd == "bad-jid" {
			kind = wantEnd
		}
		fail("ends-with", "end/"+kind, fmt.Sprintf("Serve returned %q (%v), want class %s", cls, res.Err, wantEnd))
	}
	// the peer is told: stream error for an error, nothing for a clean end, then the closing tag
	if !closed {
		fail("closing-tag", "not-closed", "no </stream:stream> written")
	}
	// Observation (not a clause of C08): sendError encodes the stream error into the
	// session's encoder but never flushes it, so the peer only sees the closing tag;
	// serveTests 1, 12 and 13 of the repository pin that output.
	if cond != "-" {
		r.Hist["stream-error-on-wire"]++
	}
	// the handlers of this property write only what their program says: nothing else is
	// written except the default replies of C07 (not judged here)
}

// wsReal serves `body` on a session negotiated end to end by the websocket package's own
// negotiator (RFC 7395 framing: the peer answers <open/> with <open/> and an empty feature
// list): no stream header wraps the input, every element declares its own namespaces, the
// peer ends the stream with <close/>.  Same protocol line, observation and oracle as the
// sessions whose WebSocket flag the harness sets itself.
func (c *ctx) wsReal(body string, progs []Prog, class string) {
	r := c.r
	open := `<open xmlns="` + NSFraming + `" from="example.com" id="wsid" version="1.0" xml:lang="en"/>` +
		`<stream:features xmlns:stream="` + NSStream + `"></stream:features>`
	out := &common.SafeBuffer{}
	neg := websocket.Negotiator(func(*xmpp.Session, *xmpp.StreamConfig) xmpp.StreamConfig { return xmpp.StreamConfig{} })
	var s *xmpp.Session
	var err error
	okNeg := common.WithTimeout(5*time.Second, func() {
		s, err = xmpp.NewSession(context.Background(), RemoteJID, LocalJID, rwPair{strings.NewReader(open + body), out}, xmpp.Secure, neg)
	})
	if !okNeg || err != nil || s == nil {
		r.Hist["websocket-real/negotiation-failed"]++
		return
	}
	var res Result
	res.LocalBare = s.LocalAddr().Bare().String()
	k := 0
	rec := xmpp.HandlerFunc(func(t xmlstream.TokenReadEncoder, start *xml.StartElement) error {
		p := Prog{Ret: "ok"}
		if k < len(progs) {
			p = progs[k]
		}
		k++
		res.Invs = append(res.Invs, Invocation{Start: start.Copy()})
		return Exec(p, t, &res.Invs[len(res.Invs)-1])
	})
	skip := out.Len()
	done := common.WithTimeout(10*time.Second, func() {
		res.Panic = common.Recover(func() { res.Err = s.Serve(rec) })
	})
	// the tokens of the body as the session's decoder sees them (no enclosing stream element)
	var toks []xml.Token
	d := xml.NewDecoder(strings.NewReader(body))
	for {
		t, e := d.Token()
		if e != nil {
			break
		}
		toks = append(toks, xml.CopyToken(t))
	}
	line := MarkWS(CaseLine(NSClient, res.LocalBare, toks, progs), true)
	lines := []string{r.Prop + " " + line, "#wsreal " + common.HexS(body)}
	switch {
	case !done:
		r.Line(line, "STALL")
		r.Fail("terminates", "stall", lines, "Serve did not return")
		return
	case res.Panic != "":
		r.Line(line, "PANIC")
		r.Fail("no-panic", "panic", lines, res.Panic)
		return
	}
	// what Serve wrote, without the closing element of the framing
	o := string(out.Bytes()[skip:])
	wsClosed := false
	if i := strings.LastIndex(o, "<close"); i >= 0 && strings.Contains(o[i:], NSFraming) {
		o, wsClosed = o[:i], true
	}
	els, _, _ := Written(NSClient, []byte(o))
	wobs, _ := WrittenObs(els)
	cls := ErrClass(res.Err)
	r.Line(line, fmt.Sprintf("%s %s %s", EncInvs(res.Invs), wobs, cls))
	ex := expectWS(toks, true)
	r.Case(line, true, class+"/"+ex.end)
	if len(res.Invs) != len(ex.elems) {
		r.Fail("one-per-element", "count", lines, fmt.Sprintf("%d invocations, want %d", len(res.Invs), len(ex.elems)))
	}
	for k, inv := range res.Invs {
		for _, t := range inv.Toks {
			if c := streamLevelWS(t, true); c != "" {
				r.Fail("stream-level-hidden", "visible/"+c, lines, fmt.Sprintf("invocation %d saw %s", k, common.EncTok(t)))
			}
		}
		if c := streamLevelWS(inv.Start, true); c != "" {
			r.Fail("stream-level-hidden", "visible/"+c, lines, fmt.Sprintf("invocation %d started at %s", k, common.EncTok(inv.Start)))
		}
		// from normalisation: the content namespace of a WebSocket stream is jabber:client
		if k < len(ex.elems) {
			want := ex.elems[k].start.Copy()
			if (want.Name.Local == "iq" || want.Name.Local == "message" || want.Name.Local == "presence") && want.Name.Space == NSClient {
				for i, a := range want.Attr {
					if a.Name.Local == "from" && a.Name.Space == "" {
						if a.Value == res.LocalBare {
							want.Attr[i].Value = ""
						}
						break
					}
				}
			}
			if common.EncTok(want) != common.EncTok(inv.Start) {
				r.Fail("from-blank", "start/websocket", lines, fmt.Sprintf("invocation %d started at %s, want %s", k, common.EncTok(inv.Start), common.EncTok(want)))
			}
		}
	}
	if !sameClass(ex.end, cls) {
		r.Fail("ends-with", "end/websocket", lines, fmt.Sprintf("Serve returned %q (%v), want class %s", cls, res.Err, ex.end))
	}
	if !wsClosed {
		r.Fail("closing-tag", "not-closed", lines, "no <close/> written")
	}
}

// header runs a real negotiation (xmpp.NewNegotiator with the default configuration) against
// a peer whose first bytes are `in` and compares the error with the model: a stream error in
// the place of the stream header must be returned as that error, without a panic.
func (c *ctx) header(in string, receive bool) {
	r := c.r
	toks, _ := common.Tokenize([]byte(in))
	line := "header " + common.EncToks(toks)
	lines := []string{r.Prop + " " + line, "#in " + common.HexS(in), "#receive " + common.B(receive)}
	var err error
	neg := xmpp.NewNegotiator(func(*xmpp.Session, *xmpp.StreamConfig) xmpp.StreamConfig { return xmpp.StreamConfig{} })
	p := ""
	done := common.WithTimeout(10*time.Second, func() {
		p = common.Recover(func() {
			rw := rwPair{strings.NewReader(in), io.Discard}
			if receive {
				_, err = xmpp.ReceiveSession(context.Background(), rw, 0, neg)
			} else {
				_, err = xmpp.NewSession(context.Background(), RemoteJID, LocalJID, rw, 0, neg)
			}
		})
	})
	switch {
	case !done:
		r.Line(line, "STALL")
		r.Fail("terminates", "header-stall", lines, "negotiation did not return")
		return
	case p != "":
		r.Line(line, "PANIC")
		r.Fail("stream-level-error-returned", "header-panic", lines, p)
		return
	}
	// only a *received* stream error is the subject here: errors the library raises itself
	// about a bad header (invalid-namespace, …) are stream.Error values too
	firstIsSE := false
	if len(toks) > 0 {
		first := toks[0]
		if pi, ok := first.(xml.ProcInst); ok && pi.Target == "xml" && len(toks) > 1 {
			first = toks[1]
		}
		if st, ok := first.(xml.StartElement); ok && st.Name.Space == NSStream && st.Name.Local == "error" {
			firstIsSE = true
		}
	}
	obs := "other"
	var se stream.Error
	if firstIsSE && errors.As(err, &se) {
		obs = "se:" + se.Err
	}
	r.Line(line, obs)
	r.Case(line, obs != "other", "header/"+strings.SplitN(obs, ":", 2)[0])
	if firstIsSE && strings.Contains(in, "</stream:error>") && obs == "other" {
		r.Fail("stream-level-error-returned", "header-not-returned", lines, fmt.Sprintf("negotiation returned %v", err))
	}
}

// accepted reports whether the real session treats chardata s between top-level elements as
// a keep-alive: Serve on `s</stream:stream>` returns nil.
func accepted(s string) bool {
	res := Serve(NSClient, LocalJID, RemoteJID, []byte(s+"</stream:stream>"), nil, nil)
	return res.Err == nil && res.Panic == "" && !res.Stall
}

// Facts regenerates lean/XmppModel/Generated/C08.lean: the exact set of code points the real
// serve path accepts as white space between top-level elements, obtained by running a real
// session on the chardata of every single code point U+0000..U+10FFFF (surrogates excluded).
func Facts(repo string) (string, error) {
	nw := runtime.NumCPU()
	if nw > 16 {
		nw = 16
	}
	const max = 0x110000
	found := make([][]int, nw)
	var wg sync.WaitGroup
	for w := 0; w < nw; w++ {
		w := w
		wg.Add(1)
		go func() {
			defer wg.Done()
			for r := w; r < max; r += nw {
				if r >= 0xD800 && r <= 0xDFFF {
					continue
				}
				if accepted(string(rune(r))) {
					found[w] = append(found[w], r)
				}
			}
		}()
	}
	wg.Wait()
	var all []int
	for _, f := range found {
		all = append(all, f...)
	}
	sort.Ints(all)
	var sb strings.Builder
	sb.WriteString("-- GENERATED by `harness facts C08` (real sessions on every code point); do not edit.\n")
	sb.WriteString("namespace XmppModel.Generated.C08\n\n")
	if len(all) > 64 {
		sb.WriteString("def topWhitespace : Option (List Nat) := none\n")
	} else {
		el := make([]string, len(all))
		for i, v := range all {
			el[i] = fmt.Sprint(v)
		}
		fmt.Fprintf(&sb, "/-- every code point c for which a session whose peer sends the single character c between\ntop-level elements goes on serving (all 1112064 scalar values tried) -/\ndef topWhitespace : Option (List Nat) := some [%s]\n", strings.Join(el, ", "))
	}
	sb.WriteString("\n" + verdictFacts())
	sb.WriteString("\nend XmppModel.Generated.C08\n")
	return sb.String(), nil
}

// kinds of the verdict table (the model maps each name to a token: Serve.factTok)
var factKinds = []struct{ name, xml string }{
	{"ws", " \n"},
	{"text", "x"},
	{"comment", "<!--c-->"},
	{"pi-xml", `<?xml version="1.0"?>`},
	{"pi-XML", `<?XML x?>`},
	{"pi-stylesheet", `<?xml-stylesheet href="a"?>`},
	{"pi-x", `<?x y?>`},
	{"directive", "<!DOCTYPE x>"},
	{"stream-error", `<stream:error><host-gone xmlns="urn:ietf:params:xml:ns:xmpp-streams"/></stream:error>`},
	{"restart", `<stream:stream xmlns="jabber:client" xmlns:stream="http://etherx.jabber.org/streams">`},
	{"stream-other", `<stream:features/>`},
	{"plain", `<e xmlns="urn:e"/>`},
	{"close", `</stream:stream>`},
	{"framing-open", `<open xmlns="` + NSFraming + `"/>`},
	{"framing-close", `<close xmlns="` + NSFraming + `"/>`},
	{"framing-other", `<stream xmlns="` + NSFraming + `"/>`},
	{"framing-close-attrs", `<f:close xmlns:f="` + NSFraming + `" see-other-uri="wss://o.example/"/>`},
	{"close-other-ns", `<close xmlns="urn:other"/>`},
	// received stream errors that carry an application-specific condition (RFC 6120 4.9.4)
	{"se-app-after", `<stream:error><conflict xmlns="` + NSStreams + `"/><replaced-by-new-login xmlns="urn:example"/></stream:error>`},
	{"se-app-first", `<stream:error><app xmlns="urn:example"><detail>x</detail></app><host-gone xmlns="` + NSStreams + `"/></stream:error>`},
	{"se-app-text", `<stream:error><not-authorized xmlns="` + NSStreams + `"/><text xmlns="` + NSStreams + `" xml:lang="en">bye</text><too-many xmlns="urn:example"><n>3</n><n/></too-many></stream:error>`},
	{"se-text-first", `<stream:error><text xmlns="` + NSStreams + `">bye</text><system-shutdown xmlns="` + NSStreams + `"/></stream:error>`},
	{"se-app-only", `<stream:error><only xmlns="urn:example"/></stream:error>`},
	{"se-empty", `<stream:error/>`},
}

// verdictFacts runs the real reader (through real sessions) on the finite grid token kind x
// depth 0/1/2 of an established stream, and real negotiations on kind-before-header, and
// renders the observed verdicts.
func verdictFacts() string {
	rows, ok := verdictGrid(false)
	wrows, wok := verdictGrid(true)
	var sb strings.Builder
	if !ok {
		sb.WriteString("def readerVerdicts : Option (List (String × Nat × String)) := none\n")
	} else {
		sb.WriteString("/-- verdict of the real stream reader on an established stream for every token kind at nesting\ndepth 0, 1, 2 (observed through real sessions) -/\ndef readerVerdicts : Option (List (String × Nat × String)) := some [\n  " + strings.Join(rows, ",\n  ") + "]\n")
	}
	if !wok {
		sb.WriteString("\ndef readerVerdictsWs : Option (List (String × Nat × String)) := none\n")
	} else {
		sb.WriteString("\n/-- the same grid on sessions that use the WebSocket subprotocol -/\ndef readerVerdictsWs : Option (List (String × Nat × String)) := some [\n  " + strings.Join(wrows, ",\n  ") + "]\n")
	}
	sb.WriteString(headerFacts())
	sb.WriteString(deadlineFacts())
	return sb.String()
}

// deadlineFacts runs real sessions whose first handler makes every sequence of up to three
// SetCloseDeadline calls (1 = a time in the future, 2 = in the past, 3 = in the near future and
// wait until it has passed) and observes whether the session's input context has ended when the
// handler returns: Serve then gives up with the deadline error before the second element.
func deadlineFacts() string {
	var seqs []string
	var rec func(p string)
	rec = func(p string) {
		seqs = append(seqs, p)
		if len(p) == 3 {
			return
		}
		for _, d := range []string{"1", "2", "3"} {
			rec(p + d)
		}
	}
	rec("")
	rows := make([]string, len(seqs))
	okAll := true
	var wg sync.WaitGroup
	var mu sync.Mutex
	for i, q := range seqs {
		i, q := i, q
		wg.Add(1)
		go func() {
			defer wg.Done()
			res := Serve(NSClient, LocalJID, RemoteJID, []byte(`<message id="d1"/><message id="d2"/></stream:stream>`), []Prog{{Ret: "ok", DlSeq: q}}, nil)
			cls := ErrClass(res.Err)
			var v string
			switch {
			case res.Panic != "" || res.Stall:
			case cls == "deadline" && len(res.Invs) == 1:
				v = "true"
			case cls == "clean" && len(res.Invs) == 2:
				v = "false"
			}
			var el []string
			for _, c := range q {
				el = append(el, string(c))
			}
			mu.Lock()
			if v == "" {
				okAll = false
			}
			rows[i] = fmt.Sprintf("([%s], %s)", strings.Join(el, ", "), v)
			mu.Unlock()
		}()
	}
	wg.Wait()
	if !okAll {
		return "\ndef deadlineVerdicts : Option (List (List Nat × Bool)) := none\n"
	}
	return "\n/-- has the input context of a real session ended after its handler made this sequence of\nSetCloseDeadline calls (1 future, 2 past, 3 near future and wait): all sequences of length <= 3 -/\ndef deadlineVerdicts : Option (List (List Nat × Bool)) := some [\n  " + strings.Join(rows, ",\n  ") + "]\n"
}

// verdictGrid is the grid token kind x depth of verdictFacts on sessions with the WebSocket flag ws.
func verdictGrid(ws bool) (rows []string, ok bool) {
	ok = true
	for _, k := range factKinds {
		for depth := 0; depth <= 2; depth++ {
			if k.name == "close" && depth > 0 {
				continue // not well-formed: the decoder reports it, the reader never sees it
			}
			open, shut := "", ""
			for d := 0; d < depth; d++ {
				open += fmt.Sprintf(`<w%d xmlns="urn:w">`, d)
				shut = fmt.Sprintf("</w%d>", d) + shut
			}
			body := open + k.xml
			if k.name != "restart" {
				body += shut + `<probe xmlns="urn:p"/></stream:stream>`
			}
			// the handler of the wrapping element reads through the token under test and
			// ignores errors; at depth 0 there is no wrapping element
			progs := []Prog{progReads(depth+2, "ok"), progReads(0, "ok"), progReads(0, "ok")}
			res := ServeOpt(Opts{FailAfter: -1, WS: ws}, NSClient, LocalJID, RemoteJID, []byte(body), progs, nil, nil)
			v := ""
			cls := ErrClass(res.Err)
			switch {
			case res.Panic != "" || res.Stall:
				ok = false
			case depth == 0:
				switch {
				case cls != "clean":
					v = cls
				case len(res.Invs) > 0 && res.Invs[len(res.Invs)-1].Start.Name.Local == "probe":
					v = "tok" // delivered (an element) or passed on and skipped (a keep-alive)
				default:
					v = "eof"
				}
			default:
				if len(res.Invs) == 0 || len(res.Invs[0].Obs) < depth {
					ok = false
					break
				}
				o := res.Invs[0].Obs[depth-1]
				switch {
				case strings.HasPrefix(o, "t"):
					v = "tok"
				case o == "e":
					v = cls
				default:
					v = "eof"
				}
			}
			rows = append(rows, fmt.Sprintf("(%q, %d, %q)", k.name, depth, v))
		}
	}
	return rows, ok
}

// headerFacts: while a stream header is expected (negotiating): what may precede the header
func headerFacts() string {
	var sb strings.Builder
	var hrows []string
	neg := xmpp.NewNegotiator(func(*xmpp.Session, *xmpp.StreamConfig) xmpp.StreamConfig { return xmpp.StreamConfig{} })
	hdr := `<stream:stream xmlns="jabber:client" xmlns:stream="` + NSStream + `" version="1.0" to="example.com">`
	for _, k := range factKinds[:8] {
		var err error
		p := common.Recover(func() {
			_, err = xmpp.ReceiveSession(context.Background(), rwPair{strings.NewReader(k.xml + hdr), io.Discard}, 0, neg)
		})
		v := "header-reached"
		switch {
		case p != "":
			v = "PANIC"
		case err != nil && strings.Contains(err.Error(), "proc inst"):
			v = "procinst"
		case err != nil && strings.Contains(err.Error(), "comment"):
			v = "comment"
		case err != nil && strings.Contains(err.Error(), "directive"):
			v = "directive"
		case err != nil && strings.Contains(err.Error(), "chardata"):
			v = "chardata"
		}
		hrows = append(hrows, fmt.Sprintf("(%q, %q)", k.name, v))
	}
	sb.WriteString("\n/-- what the real negotiation does with a token that precedes the stream header -/\ndef headerVerdicts : Option (List (String × String)) := some [\n  " + strings.Join(hrows, ",\n  ") + "]\n")
	return sb.String()
}

// ---- generators ----------------------------------------------------------------

// item alphabet of the small-scope enumeration: byte fragments at top level
var topItems = []string{
	" ",
	"\n",
	`<message id="m1"><body>hi</body></message>`,
	`<presence/>`,
	`<iq type="result" id="r1"/>`,
	`<x xmlns="urn:x"><y><z/>text</y><y/></x>`,
	`<message from="me@example.com" id="m2"/>`,
	`<message id="m3"><!--c--><body/></message>`,
	`<message id="m4"><body><?pi x?></body></message>`,
	`<a xmlns="urn:a"><stream:error><conflict xmlns="urn:ietf:params:xml:ns:xmpp-streams"/></stream:error></a>`,
	`<!--top-->`,
	`<?pi top?>`,
	`<?xml version="1.0"?>`,
	`<?xml-stylesheet href="a"?>`,
	`<message id="m5"><?xml version="1.0"?><body/></message>`,
	`<!DOCTYPE x>`,
	`junk`,
	"\u00a0",
	"\u0085",
	" \u3000 ",
	"\u200b",
	"\ufeff",
	"\u2028\n",
	"\v",
	"\f",
	`<stream:error><host-gone xmlns="urn:ietf:params:xml:ns:xmpp-streams"/></stream:error>`,
	`<stream:features/>`,
	`<stream:stream xmlns="jabber:client" xmlns:stream="http://etherx.jabber.org/streams">`,
	`</stream:stream>`,
	`<b xmlns="urn:b"><stream:features/></b>`,
	`<message><c xmlns="urn:c"><![CDATA[<x>]]></c></message>`,
	`<stream:error><conflict xmlns="urn:ietf:params:xml:ns:xmpp-streams"/><replaced-by-new-login xmlns="urn:example"/></stream:error>`,
	`<m xmlns="urn:m"><stream:error><app xmlns="urn:example"><d/></app><text xmlns="urn:ietf:params:xml:ns:xmpp-streams">t</text><reset xmlns="urn:ietf:params:xml:ns:xmpp-streams"/></stream:error></m>`,
	`<open xmlns="` + NSFraming + `" to="example.com" version="1.0"/>`,
	`<message id="m6"><fwd xmlns="urn:f"><close xmlns="` + NSFraming + `"/></fwd></message>`,
}

// seVariants are received stream errors: the defined condition with / without <text/>, with
// application-specific conditions (children in another namespace) before / after / between
// them, with nested content, named like defined elements, and degenerate shapes.
var seVariants = func() []string {
	c := func(n string) string { return `<` + n + ` xmlns="` + NSStreams + `"/>` }
	txt := `<text xmlns="` + NSStreams + `" xml:lang="en">going away</text>`
	app := `<replaced-by-new-login xmlns="urn:example"/>`
	deep := `<quota xmlns="urn:example:q"><used unit="kb">12<!--c--></used><limit><soft/><hard>9</hard></limit>tail</quota>`
	var out []string
	for _, inner := range []string{
		c("conflict") + app,
		app + c("conflict"),
		c("host-gone") + txt + app,
		c("host-gone") + app + txt,
		txt + c("system-shutdown"),
		txt + app + c("system-shutdown"),
		c("not-authorized") + deep,
		deep + c("not-authorized") + deep,
		c("policy-violation") + app + deep,
		app,
		app + txt,
		c("reset") + `<text xmlns="urn:example">not the text</text>`,
		c("reset") + `<conflict xmlns="urn:example"/>`,
		`<see-other-host xmlns="` + NSStreams + `">other.example.net:5222</see-other-host>` + app,
		c("undefined-condition") + ` ` + app + ` `,
		c("conflict") + `<x:app xmlns:x="urn:example"><x:sub/></x:app>`,
		c("conflict") + txt,
		c("conflict"),
		``,
	} {
		out = append(out, `<stream:error>`+inner+`</stream:error>`)
	}
	return out
}()

// Rets is every non-nil value a handler program can return: a plain error, io.EOF, a
// stanza.Error, a stream.Error, and errors that wrap / join those sentinels (not identical to
// them, found by errors.Is / errors.As).
var Rets = []string{"fail", "eof", "stanzaerr", "streamerr", "wrapeof", "wrapueof", "wrapstanza", "wrapstream", "joineof"}

func progReads(n int, ret string) Prog {
	p := Prog{Ret: ret}
	for i := 0; i < n; i++ {
		p.Ops = append(p.Ops, Op{Read: true})
	}
	return p
}

func name(l string) xml.Name { return xml.Name{Local: l} }

func wMessage(id string) []xml.Token {
	st := xml.StartElement{Name: name("message"), Attr: []xml.Attr{{Name: name("id"), Value: id}, {Name: name("to"), Value: "a@example.org"}}}
	b := xml.StartElement{Name: name("body")}
	return []xml.Token{st, b, xml.CharData("re"), b.End(), st.End()}
}

func genElement(rnd *common.Rand, depth int, dirtyOK bool) string {
	names := []string{"message", "presence", "iq", `x xmlns="urn:x"`, "foo", `q xmlns="jabber:iq:roster"`, `message xmlns="urn:other"`,
		`open xmlns="` + NSFraming + `"`, `close xmlns="` + NSFraming + `"`, `stream xmlns="` + NSFraming + `"`}
	n := names[rnd.Intn(len(names))]
	local := strings.Fields(n)[0]
	var sb strings.Builder
	sb.WriteString("<" + n)
	if rnd.Chance(1, 2) {
		fmt.Fprintf(&sb, ` id="i%d"`, rnd.Intn(5))
	}
	if rnd.Chance(1, 3) {
		sb.WriteString(` type="` + []string{"get", "set", "result", "error", "chat", ""}[rnd.Intn(6)] + `"`)
	}
	if rnd.Chance(1, 6) {
		sb.WriteString(` xmlns:p="urn:p" p:from="me@example.com" p:id="pid"`)
	}
	if rnd.Chance(1, 2) {
		sb.WriteString(` from="` + []string{"me@example.com", "me@example.com/res", "other@example.org/r", "example.com", "ME@example.com", "a@b@c", ""}[rnd.Intn(7)] + `"`)
	}
	if rnd.Chance(1, 5) {
		sb.WriteString("/>")
		return sb.String()
	}
	sb.WriteString(">")
	nc := rnd.Intn(4)
	for i := 0; i < nc; i++ {
		switch k := rnd.Intn(12); {
		case k < 4 && depth < 3:
			sb.WriteString(genElement(rnd, depth+1, dirtyOK))
		case k < 7:
			sb.WriteString([]string{"text", " ", "a &amp; b", "\n  "}[rnd.Intn(4)])
		case k == 7:
			sb.WriteString("<![CDATA[ <raw/> ]]>")
		case k == 8 && dirtyOK:
			sb.WriteString([]string{"<!--c-->", "<?pi d?>", `<?xml version="1.0"?>`, `<?xml-stylesheet x="y"?>`, "<!DOCTYPE q>", "<stream:features/>",
				`<stream:error><not-authorized xmlns="urn:ietf:params:xml:ns:xmpp-streams"/></stream:error>`,
				`<stream:stream xmlns="jabber:client" xmlns:stream="http://etherx.jabber.org/streams">`,
				seVariants[rnd.Intn(len(seVariants))]}[rnd.Intn(9)])
		default:
			sb.WriteString("<e/>")
		}
	}
	sb.WriteString("</" + local + ">")
	return sb.String()
}

// chardata between elements: XML white space, Unicode-only white space, zero-width and
// format characters, controls, text
var wsAlphabet = []string{" ", "\n", "\t \r\n", " ", "\n", "\r", "\t", "\u00a0", "\u0085", "\u1680", "\u2000", "\u2003", "\u2028", "\u2029", "\u202f", "\u205f", "\u3000", "\u200b", "\u200d", "\ufeff", "\u180e", "\v", "\f", " \u00a0", "\u3000\n", "x", " x "}

func genBody(rnd *common.Rand, maxItems int) string {
	var sb strings.Builder
	n := 1 + rnd.Intn(maxItems)
	dirty := rnd.Chance(1, 2)
	for i := 0; i < n; i++ {
		switch k := rnd.Intn(20); {
		case k < 3:
			sb.WriteString(wsAlphabet[rnd.Intn(len(wsAlphabet))])
		case k < 16:
			sb.WriteString(genElement(rnd, 0, dirty && rnd.Chance(1, 4)))
		case dirty:
			sb.WriteString(topItems[10+rnd.Intn(len(topItems)-10)])
		default:
			sb.WriteString(" ")
		}
	}
	switch k := rnd.Intn(10); {
	case k < 6:
		sb.WriteString("</stream:stream>")
	case k == 6:
		sb.WriteString("<unclosed>")
	case k == 7:
		sb.WriteString("<a></b>")
	}
	s := sb.String()
	if rnd.Chance(1, 12) && len(s) > 2 {
		s = s[:rnd.Intn(len(s))]
	}
	return s
}

func genProgs(rnd *common.Rand, n int) []Prog {
	ps := make([]Prog, rnd.Intn(n+2))
	for i := range ps {
		p := Prog{Ret: "ok"}
		if rnd.Chance(1, 6) {
			p.Ret = Rets[rnd.Intn(len(Rets))]
		}
		nops := rnd.Intn(12)
		if rnd.Chance(1, 5) {
			nops = 30 // read beyond the end
		}
		for j := 0; j < nops; j++ {
			if rnd.Chance(1, 8) {
				p.Ops = append(p.Ops, Op{Write: wMessage(fmt.Sprintf("w%d", rnd.Intn(3)))})
			} else {
				p.Ops = append(p.Ops, Op{Read: true})
			}
		}
		ps[i] = p
	}
	return ps
}

// Run is the C08 runner.
func Run(r *common.Run) error {
	c := &ctx{r: r}
	if r.Replay != "" {
		lines, err := common.ReplayLines(r.Replay)
		if err != nil {
			return err
		}
		return c.replay(lines)
	}
	// corpus: minimal witnesses of past failures
	swallow := []Prog{progReads(6, "ok"), progReads(3, "ok")}
	for _, ns := range []string{NSClient, NSServer} {
		c.check(ns, []byte(`<message><!--c--><body>x</body></message><message id="second"/></stream:stream>`), swallow, "corpus")
		c.check(ns, []byte(`<message><a xmlns="urn:a"><?pi x?></a></message><message id="second"/></stream:stream>`), swallow, "corpus")
		c.check(ns, []byte(`<message xmlns:p="urn:p" p:from="zz" from="`+map[string]string{NSClient: "me@example.com", NSServer: "example.com"}[ns]+`"/></stream:stream>`), nil, "corpus")
		c.check(ns, []byte(`<iq type="get" id="1"/><message id="after"/></stream:stream>`), []Prog{{Ret: "eof"}}, "corpus")
	}

	// a stream error (or something else) where the stream header is expected
	for _, receive := range []bool{true, false} {
		for _, decl := range []string{"", `<?xml version="1.0"?>`} {
			for _, cond := range []string{"host-gone", "not-authorized", "system-shutdown", "see-other-host"} {
				se := `<stream:error xmlns:stream='` + NSStream + `'><` + cond + ` xmlns='urn:ietf:params:xml:ns:xmpp-streams'/></stream:error>`
				c.header(decl+se, receive)
				c.header(decl+se[:len(se)-9], receive)
				c.header(decl+`<stream:error xmlns:stream='`+NSStream+`'><`+cond+` xmlns='urn:ietf:params:xml:ns:xmpp-streams'/><text xmlns='urn:ietf:params:xml:ns:xmpp-streams'>bye</text></stream:error>`, receive)
			}
			c.header(decl+`<stream:error xmlns:stream='`+NSStream+`'/>`, receive)
			c.header(decl+`<message xmlns='jabber:client'/>`, receive)
			c.header(decl+`<stream:features xmlns:stream='`+NSStream+`'/>`, receive)
			c.header(decl+`junk`, receive)
			c.header(decl, receive)
		}
	}

	// exhaustive: every sequence of up to L items of the alphabet, closed or not, with a
	// few consumption patterns
	L := r.Pick(2, 3)
	patterns := [][]Prog{nil, {progReads(1, "ok"), progReads(2, "ok")}, {progReads(40, "ok"), progReads(40, "ok"), progReads(40, "ok")}}
	var rec func(prefix string, n int)
	rec = func(prefix string, n int) {
		for _, tail := range []string{"</stream:stream>", ""} {
			for pi, ps := range patterns {
				if r.Quick() && n == L && pi == 1 {
					continue
				}
				c.check(NSClient, []byte(prefix+tail), ps, "exhaustive")
			}
		}
		if n == L {
			return
		}
		for _, it := range topItems {
			rec(prefix+it, n+1)
		}
	}
	rec("", 0)
	r.Exhaustive = append(r.Exhaustive, fmt.Sprintf("all sequences of <= %d top-level items out of %d (elements, keep-alives, every stream-level construct at depth 0-2) x closed/unclosed x 3 consumption patterns", L, len(topItems)))

	// the local side closes its output before Serve or in the handler of the k-th element,
	// then the peer misbehaves: every top-level item, after 0..2 ordinary elements
	ordinary := []string{`<message id="o1"><body>hi</body></message>`, `<iq type="result" id="o2"/>`, `<x xmlns="urn:x"><y/></x>`, `<iq type="get" id="o3"><q xmlns="urn:q"/></iq>`}
	for _, it := range topItems {
		for pre := 0; pre <= 2; pre++ {
			prefix := ""
			for k := 0; k < pre; k++ {
				prefix += ordinary[(k+len(it))%3]
			}
			for _, tail := range []string{"</stream:stream>", ""} {
				c.checkX(true, NSClient, []byte(prefix+it+tail), nil, "closed-before")
				for at := 0; at <= pre; at++ {
					ps := make([]Prog, at+1)
					for k := range ps {
						ps[k] = progReads(k, "ok")
					}
					ps[at].Close = true
					c.checkX(false, NSClient, []byte(prefix+it+tail), ps, "closed-in-handler")
				}
			}
		}
	}
	c.checkX(true, NSServer, []byte(ordinary[3]+ordinary[0]+"</stream:stream>"), nil, "closed-before")
	c.checkX(false, NSClient, []byte(ordinary[0]+ordinary[0]+"<!--c--></stream:stream>"), []Prog{{Ret: "ok", Close: true, Ops: []Op{{Write: wMessage("w")}}}}, "closed-in-handler")

	// SetCloseDeadline between elements: a time in the future changes nothing (one invocation
	// per element, nil on the peer's close), a time in the past ends Serve with the deadline
	// error before the next element
	for _, dl := range []string{"future", "past"} {
		for cnt := 1; cnt <= 3; cnt++ {
			for at := 0; at < cnt; at++ {
				for _, tail := range []string{"</stream:stream>", "<!--c--></stream:stream>", " </stream:stream>", ""} {
					body := ""
					for k := 0; k < cnt; k++ {
						body += ordinary[(k+at)%len(ordinary)]
					}
					ps := make([]Prog, cnt)
					for k := range ps {
						ps[k] = progReads(k%3, "ok")
					}
					ps[at].Deadline = dl
					c.checkX(false, NSClient, []byte(body+tail), ps, "deadline-"+dl)
				}
			}
		}
	}
	c.checkX(false, NSServer, []byte(ordinary[0]+ordinary[3]+ordinary[0]+"</stream:stream>"), []Prog{{Ret: "ok", Deadline: "future"}, {Ret: "ok", Deadline: "future"}}, "deadline-future")

	// several SetCloseDeadline calls: in one handler (a deadline that has passed and then a
	// later one, in every order), spread over the handlers of consecutive elements, and before
	// Serve starts.  Every call sets THE deadline: a later one extends an earlier one.
	for _, seq := range []string{"21", "12", "11", "22", "211", "121", "221", "112", "31", "13"} {
		for cnt := 1; cnt <= 2; cnt++ {
			for at := 0; at < cnt; at++ {
				for ti, tail := range []string{"</stream:stream>", "<!--c--></stream:stream>", " </stream:stream>", ""} {
					if strings.Contains(seq, "3") && (ti%2 == 1 || cnt == 2 && at == 0) {
						continue
					}
					body := ""
					for k := 0; k < cnt; k++ {
						body += ordinary[(k+at)%len(ordinary)]
					}
					ps := make([]Prog, cnt)
					for k := range ps {
						ps[k] = progReads(k%3, "ok")
					}
					ps[at].DlSeq = seq
					c.checkX(false, NSClient, []byte(body+tail), ps, "deadline-seq")
				}
			}
		}
	}
	for _, pair := range [][2]string{{"1", "1"}, {"1", "2"}, {"2", "1"}, {"11", "1"}, {"1", "21"}, {"21", "12"}, {"21", "21"}} {
		body := ordinary[0] + ordinary[3] + ordinary[2]
		for _, tail := range []string{"</stream:stream>", ""} {
			c.checkX(false, NSClient, []byte(body+tail), []Prog{{Ret: "ok", DlSeq: pair[0]}, {Ret: "ok", DlSeq: pair[1], Ops: []Op{{Read: true}}}, progReads(1, "ok")}, "deadline-seq")
		}
	}
	for _, ns := range []string{NSClient, NSServer} {
		for _, pre := range []string{"1", "2", "21", "12", "11", "22", "221", "212", "31"} {
			for bi, body := range []string{"", ordinary[0], ordinary[3] + ordinary[0], " " + ordinary[2]} {
				for _, tail := range []string{"</stream:stream>", "<!--c-->", ""} {
					if strings.Contains(pre, "3") && bi%2 == 1 {
						continue
					}
					ps := []Prog{progReads(1, "ok"), progReads(0, "ok")}
					c.checkO(caseOpt{opt: Opts{FailAfter: -1, PreDl: pre}}, ns, []byte(body+tail), ps, "deadline-before")
					if bi == 2 {
						// ... and the handler of the first element moves it again
						ps[0].DlSeq = []string{"1", "2", "21"}[len(pre)%3]
						c.checkO(caseOpt{opt: Opts{FailAfter: -1, PreDl: pre}}, ns, []byte(body+tail), ps, "deadline-before")
					}
				}
			}
		}
	}

	// received stream errors of every shape (application-specific conditions, text, nested
	// content): at top level after 0..2 ordinary elements, nested one and two levels inside an
	// element, followed by more input or cut short; returned as that error, never seen by a
	// handler
	for _, ns := range []string{NSClient, NSServer} {
		for vi, se := range seVariants {
			for pre := 0; pre <= 2; pre++ {
				prefix := ""
				for k := 0; k < pre; k++ {
					prefix += ordinary[(k+vi)%len(ordinary)]
				}
				for _, tail := range []string{"</stream:stream>", ordinary[0] + "</stream:stream>", ""} {
					if ns == NSServer && (pre+vi)%2 == 0 {
						continue
					}
					c.check(ns, []byte(prefix+se+tail), nil, "stream-error")
					c.check(ns, []byte(prefix+`<message id="w1">`+se+`<body/></message>`+tail), []Prog{progReads(40, "ok"), progReads(40, "ok"), progReads(40, "ok")}, "stream-error")
					c.check(ns, []byte(prefix+`<x xmlns="urn:x"><y>t`+se+`</y></x>`+tail), []Prog{progReads(pre, "ok"), progReads(3, "ok"), progReads(40, "ok")}, "stream-error")
				}
			}
			// cut inside the error
			c.check(ns, []byte(ordinary[0]+se[:len(se)*2/3]), nil, "stream-error")
		}
	}
	for _, receive := range []bool{true, false} {
		for _, se := range seVariants {
			se = strings.Replace(se, "<stream:error", "<stream:error xmlns:stream='"+NSStream+"'", 1)
			c.header(se, receive)
			c.header(`<?xml version="1.0"?>`+se, receive)
		}
	}

	// partial writes: a handler leaves an element open (start tag only, start tag and text,
	// two start tags and one end tag) or writes an end tag nothing was open for; then every way
	// the stream can end, and elements that need or attempt another write
	pst := xml.StartElement{Name: name("message"), Attr: []xml.Attr{{Name: name("id"), Value: "part"}}}
	pin := xml.StartElement{Name: name("body")}
	partials := [][]xml.Token{
		{pst},
		{pst, xml.CharData("half")},
		{pst, pin, xml.CharData("x"), pin.End()},
		{pst, pin},
		{xml.EndElement{Name: name("stray")}},
	}
	endings := []string{
		"</stream:stream>", "", " </stream:stream>",
		`<stream:error><host-gone xmlns="urn:ietf:params:xml:ns:xmpp-streams"/></stream:error>`,
		"<!--c--></stream:stream>", "<?pi x?>", "junk", "<stream:features/>",
		`<stream:stream xmlns="jabber:client" xmlns:stream="http://etherx.jabber.org/streams">`,
		ordinary[3] + "</stream:stream>",
		ordinary[0] + "</stream:stream>",
		`<message id="d"><!--c--></message>`,
	}
	for pi, pw := range partials {
		for _, end := range endings {
			for pre := 0; pre <= 1; pre++ {
				body := ""
				var ps []Prog
				for k := 0; k < pre; k++ {
					body += ordinary[k]
					ps = append(ps, progReads(1, "ok"))
				}
				body += ordinary[(pi+pre)%3]
				ps = append(ps, Prog{Ret: "ok", Ops: []Op{{Read: true}, {Write: pw}}})
				// the handler of a later element tries to write a whole message
				ps = append(ps, Prog{Ret: "ok", Ops: []Op{{Write: wMessage("late")}}})
				c.checkX(false, NSClient, []byte(body+end), ps, "partial-write")
			}
		}
	}

	// what a handler returns: every error value of the alphabet, by the handler of the k-th of
	// 1..3 elements, after it read nothing / part / beyond the end of its element (the reads
	// past the end return io.EOF, which is what such handlers typically wrap and return); the
	// session ends with that error, nothing after that element is handled
	for _, ns := range []string{NSClient, NSServer} {
		for _, ret := range Rets {
			for cnt := 1; cnt <= 3; cnt++ {
				for at := 0; at < cnt; at++ {
					for ri, reads := range []int{0, 2, 40} {
						if ns == NSServer && ri != 2 {
							continue
						}
						body := ""
						ps := make([]Prog, cnt)
						for k := 0; k < cnt; k++ {
							body += ordinary[(k+at+ri)%len(ordinary)]
							ps[k] = progReads(k, "ok")
						}
						ps[at] = progReads(reads, ret)
						c.check(ns, []byte(body+"</stream:stream>"), ps, "handler-returns")
					}
				}
			}
		}
	}

	// the session's own address changes during negotiation (resource binding assigns another
	// bare address through UpdateAddr, or the peer's stream header names another `to`): the
	// from normalisation compares with the address the session has when it serves
	for _, ns := range []string{NSClient, NSServer} {
		old := map[string]string{NSClient: "me@example.com", NSServer: "example.com"}[ns]
		for _, na := range []string{"bound@example.org/r2", "me@example.com/other", "example.org", "ME2@example.com"} {
			nj := jid.MustParse(na)
			nb := nj.Bare().String()
			for _, how := range []string{"update", "header"} {
				for _, from := range []string{nb, nj.String(), old, "other@example.net", ""} {
					for _, el := range []string{
						`<message from="` + from + `" id="a1"><body>x</body></message>`,
						`<iq type="get" id="a2" from="` + from + `"><q xmlns="urn:q"/></iq>`,
						`<presence xmlns:p="urn:p" p:from="` + nb + `" from="` + from + `"/>`,
						`<x xmlns="urn:x" from="` + from + `"/>`,
					} {
						c.checkO(caseOpt{opt: Opts{Rebind: how, NewAddr: nj, FailAfter: -1}}, ns, []byte(el+`<message from="`+nb+`" id="last"/></stream:stream>`), []Prog{progReads(1, "ok")}, "rebind")
					}
				}
			}
		}
	}

	// local requests are pending (SendIQ parked) while the peer's elements are served: a
	// response goes to its waiter, which reads nothing / part (stopping inside a nested child) /
	// all of it and closes it; whatever it left unread, the next invocation begins at the next
	// top-level element
	responses := []string{
		`<iq type="result" id="p1"><query xmlns="urn:q"><item><sub>t</sub></item><item/></query><extra xmlns="urn:e"/></iq>`,
		`<iq type="error" id="p1"><query xmlns="urn:q"><a><b><c/></b></a></query><error type="cancel"><item-not-found xmlns="urn:ietf:params:xml:ns:xmpp-stanzas"/></error></iq>`,
		`<iq type="result" id="p1"/>`,
		`<iq type="result" id="p1">text<q xmlns="urn:q"/></iq>`,
	}
	followers := []string{
		`<message id="f1"><body>hi</body></message>`,
		`<iq type="get" id="f2"><q xmlns="urn:q"/></iq><presence/>`,
		``,
		`<iq type="result" id="p1"><late xmlns="urn:l"/></iq><message id="f3"/>`,
	}
	for _, ns := range []string{NSClient, NSServer} {
		for ri, resp := range responses {
			ntok := len(Tokens(ns, []byte(resp)))
			for reads := -1; reads <= ntok+1; reads++ {
				for fi, fol := range followers {
					if ns == NSServer && (fi+ri+reads)%3 != 0 {
						continue
					}
					for _, pn := range []xml.Name{{Local: "iq"}, {Space: ns, Local: "iq"}} {
						if pn.Space != "" && (reads+fi)%2 != 0 {
							continue
						}
						pre := ""
						if (reads+fi)%3 == 0 {
							pre = `<message id="pre"/>`
						}
						ps := []Prog{progReads(2, "ok"), progReads(40, "ok"), progReads(0, "ok")}
						c.checkO(caseOpt{opt: Opts{FailAfter: -1}, pends: []Pend{{ID: "p1", Name: pn, Reads: reads}}}, ns, []byte(pre+resp+fol+"</stream:stream>"), ps, "pending")
					}
				}
			}
		}
		// two requests pending, responses in the other order, a response nobody waits for
		two := []Pend{{ID: "p1", Name: name("iq"), Reads: 3}, {ID: "p2", Name: name("iq"), Reads: 2}}
		c.checkO(caseOpt{opt: Opts{FailAfter: -1}, pends: two}, ns, []byte(strings.ReplaceAll(responses[1], "p1", "p2")+responses[0]+strings.ReplaceAll(responses[0], "p1", "zz")+followers[0]+"</stream:stream>"), nil, "pending")
		// a stream-level construct inside a response ends the session with its error
		c.checkO(caseOpt{opt: Opts{FailAfter: -1}, pends: two[:1]}, ns, []byte(`<iq type="result" id="p1"><query xmlns="urn:q"><item/><!--c--><item/></query></iq>`+followers[0]+"</stream:stream>"), nil, "pending")
	}

	// sessions that use the WebSocket subprotocol (RFC 7395): the framing elements are stream
	// level there -- <close/> is the peer's closing element, <open/> (any other framing element)
	// a stream restart, at top level and inside elements -- everything else is as on TCP
	wsItems := []string{
		" ",
		`<message id="m1"><body>hi</body></message>`,
		`<iq type="get" id="g1"><q xmlns="urn:q"/></iq>`,
		`<x xmlns="urn:x"><y><z/>text</y><y/></x>`,
		`<open xmlns="` + NSFraming + `" to="example.com" version="1.0"/>`,
		`<close xmlns="` + NSFraming + `"/>`,
		`<close xmlns="` + NSFraming + `" see-other-uri="wss://other.example/"></close>`,
		`<stream xmlns="` + NSFraming + `"/>`,
		`<message id="m6"><fwd xmlns="urn:f"><close xmlns="` + NSFraming + `"/></fwd><body/></message>`,
		`<message id="m7"><open xmlns="` + NSFraming + `"/><body/></message>`,
		`<f:close xmlns:f="` + NSFraming + `"/>`,
		`<close xmlns="urn:other"/>`,
		`<!--top-->`,
		`<stream:error><host-gone xmlns="urn:ietf:params:xml:ns:xmpp-streams"/></stream:error>`,
		`</stream:stream>`,
		`junk`,
	}
	wsOpt := caseOpt{opt: Opts{FailAfter: -1, WS: true}}
	for _, ns := range []string{NSClient, NSServer} {
		for i, a := range append([]string{""}, wsItems...) {
			for j, b := range wsItems {
				if ns == NSServer && (i+j)%3 != 0 {
					continue
				}
				for _, tail := range []string{`<close xmlns="` + NSFraming + `"/>`, ""} {
					for pi, ps := range patterns {
						if r.Quick() && pi == 1 && (i+j)%2 == 0 {
							continue
						}
						c.checkO(wsOpt, ns, []byte(a+b+tail), ps, "websocket")
					}
				}
			}
		}
	}
	for _, it := range topItems {
		for _, pre := range []string{"", `<message id="o1"><body>hi</body></message>`} {
			c.checkO(wsOpt, NSClient, []byte(pre+it+`<presence/><close xmlns="`+NSFraming+`"/>`), patterns[2], "websocket-items")
		}
	}
	r.Exhaustive = append(r.Exhaustive, fmt.Sprintf("WebSocket sessions: all sequences of <= 2 items out of %d (framing open / close / other at depth 0-2, prefixed, look-alikes in other namespaces, ordinary elements, constructs) x closed by <close/> or not x consumption patterns, and every item of the TCP alphabet", len(wsItems)))

	// the same on sessions negotiated end to end by the websocket package
	{
		m := func(id string) string {
			return `<message xmlns="jabber:client" id="` + id + `"><body>hi</body></message>`
		}
		cl := `<close xmlns="` + NSFraming + `"/>`
		op := `<open xmlns="` + NSFraming + `" to="example.com" version="1.0"/>`
		se := `<stream:error xmlns:stream="` + NSStream + `"><host-gone xmlns="urn:ietf:params:xml:ns:xmpp-streams"/></stream:error>`
		bodies := []string{
			cl,
			m("a") + cl,
			m("a") + ` ` + m("b") + cl + m("never"),
			m("a") + op + m("never") + cl,
			op,
			`<iq xmlns="jabber:client" type="get" id="g1" from="a@example.org/r"><q xmlns="urn:q"/></iq>` + m("b") + cl,
			`<message xmlns="jabber:client" id="n1"><fwd xmlns="urn:f">` + cl + `</fwd><body/></message>` + m("never") + cl,
			`<message xmlns="jabber:client" id="n2">` + op + `<body/></message>` + m("never") + cl,
			m("a") + `<stream xmlns="` + NSFraming + `"/>` + cl,
			m("a") + `<close xmlns="urn:other"/>` + m("b") + cl,
			m("a") + se + m("never"),
			m("a") + `<!--c-->` + cl,
			m("a") + `junk` + cl,
			m("a") + `<presence xmlns="jabber:client" from="me@example.com"/>` + `<f:close xmlns:f="` + NSFraming + `"/>`,
			// (an input that simply ends between two elements is a clean io.EOF of the decoder on
			// this framing - no element is open - and not generated here)
		}
		for _, b := range bodies {
			for _, ps := range patterns {
				c.wsReal(b, ps, "websocket-real")
			}
		}
	}
	// requests that expect a response and are over when the input is served: the transmission
	// failed, or the caller gave up waiting.  Nobody waits any more: a response with that id is
	// an element like any other and goes to the handler, in arrival order
	for _, ns := range []string{NSClient, NSServer} {
		for ri, resp := range responses {
			for fi, fol := range followers {
				for pi, pn := range []xml.Name{{Local: "iq"}, {Space: ns, Local: "iq"}} {
					if ns == NSServer && (ri+fi+pi)%2 != 0 {
						continue
					}
					ps := []Prog{progReads(2, "ok"), progReads(40, "ok"), progReads(0, "ok"), progReads(1, "ok")}
					over := []Pend{{ID: "p1", Name: pn, Reads: -1, Fate: "g"}}
					c.checkO(caseOpt{opt: Opts{FailAfter: -1}, pends: over}, ns, []byte(`<message id="pre"/>`+resp+fol+"</stream:stream>"), ps, "request-over")
					// another request is still waiting
					c.checkO(caseOpt{opt: Opts{FailAfter: -1}, pends: []Pend{{ID: "p2", Name: name("iq"), Reads: 2}, over[0]}}, ns,
						[]byte(resp+strings.ReplaceAll(responses[0], "p1", "p2")+fol+"</stream:stream>"), ps, "request-over")
					// the transmission of the request failed: the output was closed / left broken
					failed := []Pend{{ID: "p1", Name: pn, Reads: -1, Fate: "f"}}
					fol2 := strings.ReplaceAll(fol, `type="get"`, `type="result"`)
					c.checkO(caseOpt{closed0: true, opt: Opts{FailAfter: -1}, pends: failed}, ns, []byte(`<message id="pre"/>`+resp+fol2+"</stream:stream>"), ps, "request-failed")
					c.checkO(caseOpt{opt: Opts{FailAfter: -1, PreBroken: true}, pends: failed}, ns, []byte(resp+fol2+`<presence/>`+resp+"</stream:stream>"), ps, "request-failed")
				}
			}
		}
	}

	// the output was left inside an element by an abandoned Send before Serve starts: what the
	// peer sends is served as ever, only an element that needs a reply ends the session
	for _, it := range topItems {
		for _, pre := range []string{"", `<message id="o1"><body>hi</body></message>`, `<iq type="get" id="o3"><q xmlns="urn:q"/></iq>`} {
			for _, tail := range []string{"</stream:stream>", ""} {
				c.checkO(caseOpt{opt: Opts{FailAfter: -1, PreBroken: true}}, NSClient, []byte(pre+it+tail), patterns[1], "broken-before")
			}
		}
	}
	// random
	rnd := r.Rnd
	n := r.Pick(2500, 40000)
	for i := 0; i < n; i++ {
		ns := NSClient
		if rnd.Chance(1, 3) {
			ns = NSServer
		}
		body := genBody(rnd, 5)
		if ns == NSServer {
			body = strings.ReplaceAll(body, `"me@example.com"`, `"example.com"`)
		}
		ps := genProgs(rnd, 5)
		if rnd.Chance(1, 10) && len(ps) > 0 {
			ps[rnd.Intn(len(ps))].Deadline = []string{"future", "future", "past"}[rnd.Intn(3)]
		}
		if rnd.Chance(1, 10) && len(ps) > 0 {
			ps[rnd.Intn(len(ps))].DlSeq = []string{"1", "2", "21", "12", "11", "212", "221"}[rnd.Intn(7)]
		}
		if rnd.Chance(1, 10) && len(ps) > 0 {
			k := rnd.Intn(len(ps))
			ps[k].Ops = append(ps[k].Ops, Op{Write: partials[rnd.Intn(len(partials))]})
		}
		if rnd.Chance(1, 8) && len(ps) > 0 {
			ps[rnd.Intn(len(ps))].Close = true
			// a handler cannot close after it wrote (it holds the output lock): Close comes first
		}
		co := caseOpt{closed0: rnd.Chance(1, 16), opt: Opts{FailAfter: -1}}
		if rnd.Chance(1, 20) {
			co.opt.PreDl = []string{"1", "2", "21", "12", "121"}[rnd.Intn(5)]
		}
		if rnd.Chance(1, 6) {
			co.opt.WS = true
			body = strings.ReplaceAll(body, "</stream:stream>", `<close xmlns="`+NSFraming+`"/>`)
		}
		if rnd.Chance(1, 24) && !co.closed0 {
			co.opt.PreBroken = true
		}
		if rnd.Chance(1, 8) {
			na := []string{"bound@example.org/r2", "me@example.com/x", "example.org", "b2@example.com"}[rnd.Intn(4)]
			co.opt.Rebind = []string{"update", "header"}[rnd.Intn(2)]
			co.opt.NewAddr = jid.MustParse(na)
			if rnd.Chance(1, 2) {
				old := map[string]string{NSClient: `"me@example.com"`, NSServer: `"example.com"`}[ns]
				body = strings.ReplaceAll(body, old, `"`+co.opt.NewAddr.Bare().String()+`"`)
			}
		}
		c.checkO(co, ns, []byte(body), ps, "random")
	}
	// random with pending requests: ids i0..i4 as the random elements use them
	for i := 0; i < n/8; i++ {
		ns := NSClient
		if rnd.Chance(1, 3) {
			ns = NSServer
		}
		body := genBody(rnd, 5)
		ps := genProgs(rnd, 5)
		var pends []Pend
		for k := 1 + rnd.Intn(2); k > 0; k-- {
			id := fmt.Sprintf("i%d", rnd.Intn(5))
			dup := false
			for _, q := range pends {
				dup = dup || q.ID == id
			}
			if dup {
				continue
			}
			pn := name("iq")
			if rnd.Chance(1, 3) {
				pn = xml.Name{Space: []string{NSClient, NSServer}[rnd.Intn(2)], Local: "iq"}
			}
			pends = append(pends, Pend{ID: id, Name: pn, Reads: rnd.Intn(8) - 1, Fate: []string{"", "", "", "g"}[rnd.Intn(4)]})
		}
		c.checkO(caseOpt{opt: Opts{FailAfter: -1}, pends: pends}, ns, []byte(body), ps, "random-pending")
	}
	return nil
}

func (c *ctx) replay(lines []string) error {
	for i, l := range lines {
		f := strings.Fields(l)
		if len(f) == 2 && f[0] == "#in" && i+1 < len(lines) {
			in, _ := common.UnHex(f[1])
			c.header(string(in), strings.HasSuffix(lines[i+1], " 1"))
			continue
		}
		if len(f) == 2 && f[0] == "#wsreal" && i > 0 {
			b, err := common.UnHex(f[1])
			if err != nil {
				return err
			}
			g := strings.Fields(lines[i-1])
			if len(g) < 7 {
				continue
			}
			progs, err := DecProgs(g[6])
			if err != nil {
				return err
			}
			c.wsReal(string(b), progs, "replay")
			continue
		}
		if len(f) < 2 || f[0] != "#body" || i == 0 {
			continue
		}
		body, err := common.UnHex(f[1])
		if err != nil {
			return err
		}
		g := strings.Fields(lines[i-1])
		closed0 := false
		if len(g) >= 8 && g[1] == "servex" {
			closed0 = strings.HasPrefix(g[2], "1")
			g = append(g[:2], g[3:]...)
		}
		if len(g) >= 9 && g[1] == "servepw" {
			// servepw ns lb jm pd reads toks progs: same fields as serve once pd, reads are dropped
			g = append(g[:5:5], g[7:]...)
			g[1] = "serve"
		}
		if len(g) < 7 {
			continue
		}
		ns := NSClient
		if strings.HasPrefix(g[2], "s") {
			ns = NSServer
		}
		progs, err := DecProgs(g[6])
		if err != nil {
			return err
		}
		co := caseOpt{closed0: closed0, opt: Opts{FailAfter: -1}}
		if i+1 < len(lines) {
			if o := strings.Fields(lines[i+1]); len(o) == 4 && o[0] == "#opts" {
				co.opt = DecOpts(o[1])
				co.pends = decPends(o[2], o[3])
			}
		}
		c.checkO(co, ns, body, progs, "replay")
	}
	return nil
}
