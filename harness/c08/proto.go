// Package c08 drives Session.Serve (properties C08 and, through the exported
// helpers, C07) on real sessions whose complete input is known up front.
//
// Protocol line (see lean/XmppModel/Model/ServeProto.lean):
//
//	serve <ns> <localBare> <jidmap> <toks> <progs>  ->  <invocations> <written> <result>
//
// The session is created with a negotiator that only consumes the stream
// header, so the session's decoder is in the same state as after a real
// negotiation (stream element open, default namespace declared).
package c08

import (
	"bytes"
	"context"
	"encoding/xml"
	"errors"
	"fmt"
	"io"
	"strings"
	"sync"
	"time"

	"mellium.im/xmlstream"
	"mellium.im/xmpp"
	"mellium.im/xmpp/jid"
	"mellium.im/xmpp/stanza"
	"mellium.im/xmpp/stream"

	"verifharness/common"
)

const (
	NSStream = "http://etherx.jabber.org/streams"
	NSClient = "jabber:client"
	NSServer = "jabber:server"
)

// Header returns the stream header the scripted peer sends.
func Header(ns string) string {
	return `<stream:stream xmlns="` + ns + `" xmlns:stream="` + NSStream + `" version="1.0">`
}

// Op is one step of a handler program.
type Op struct {
	Read  bool
	Write []xml.Token
	// Via says how the tokens are written: 0 = EncodeToken for each token; 1..4 =
	// Encode(value) with a value that is an xmlstream.Marshaler / an xmlstream.WriterTo / an
	// xml.TokenReader / a plain struct (only for `<iq type= id=/>`); 5, 6 =
	// EncodeElement(value, start) with a Marshaler / WriterTo whose outer element is replaced
	// by the first token of Write
	Via int
}

// Prog is a handler program: the steps and the value returned ("ok", "fail", "eof").
type Prog struct {
	Ops []Op
	Ret string
	// Close: the handler first closes the session's output (Session.Close), before it
	// reads or writes anything
	Close bool
	// Deadline: the handler first calls SetCloseDeadline with a time in the "future" or the "past"
	Deadline string
	// DlSeq: after that, one SetCloseDeadline call per digit, in order: 1 = a time in the future
	// (each later than the one before), 2 = a time in the past, 3 = a time in the near future,
	// then the handler waits until it has passed
	DlSeq string
	// Mut: the handler first edits the *xml.StartElement it was handed in place (handlers are
	// given a pointer into the serve loop's own variable): 1 = every unqualified type attribute
	// becomes "result", 2 = the name loses its namespace, 3 = every unqualified id attribute
	// becomes "mutated", 4 = the local name becomes "message", 5 = all attributes are dropped,
	// 6 = type becomes "error" and the name loses its namespace
	Mut int
}

// MutMax is the largest value of Prog.Mut.
const MutMax = 6

func mutate(start *xml.StartElement, m int) {
	set := func(l, v string) {
		for i := range start.Attr {
			if start.Attr[i].Name.Local == l && start.Attr[i].Name.Space == "" {
				start.Attr[i].Value = v
			}
		}
	}
	switch m {
	case 1:
		set("type", "result")
	case 2:
		start.Name.Space = ""
	case 3:
		set("id", "mutated")
	case 4:
		start.Name.Local = "message"
	case 5:
		start.Attr = nil
	case 6:
		set("type", "error")
		start.Name.Space = ""
	}
}

func (p Prog) Enc() string {
	f := []string{p.Ret}
	if p.Close {
		f = append(f, "c")
	}
	switch p.Deadline {
	case "future":
		f = append(f, "df")
	case "past":
		f = append(f, "dp")
	}
	if p.DlSeq != "" {
		f = append(f, "ds"+p.DlSeq)
	}
	if p.Mut != 0 {
		f = append(f, fmt.Sprintf("m%d", p.Mut))
	}
	for _, o := range p.Ops {
		switch {
		case o.Read:
			f = append(f, "r")
		case o.Via == 0:
			f = append(f, "w"+common.EncToks(o.Write))
		default:
			f = append(f, fmt.Sprintf("v%d", o.Via)+common.EncToks(o.Write))
		}
	}
	return strings.Join(f, ",")
}

func EncProgs(ps []Prog) string {
	if len(ps) == 0 {
		return "-"
	}
	s := make([]string, len(ps))
	for i, p := range ps {
		s[i] = p.Enc()
	}
	return strings.Join(s, "/")
}

// wrapErr wraps a sentinel the way fmt.Errorf("…: %w", err) does: it is not identical to the
// sentinel, errors.Is / errors.As find it.
type wrapErr struct {
	msg string
	err error
}

func (w wrapErr) Error() string { return w.msg + ": " + w.err.Error() }
func (w wrapErr) Unwrap() error { return w.err }

// values handed to Encode / EncodeElement

type tokMarshaler struct{ toks []xml.Token }

func (m tokMarshaler) TokenReader() xml.TokenReader { return &sliceReader{toks: copyToks(m.toks)} }

type tokWriterTo struct{ toks []xml.Token }

func (m tokWriterTo) WriteXML(w xmlstream.TokenWriter) (int, error) {
	return xmlstream.Copy(w, &sliceReader{toks: copyToks(m.toks)})
}

// TokenReader makes tokWriterTo acceptable where a Marshaler is demanded too.
func (m tokWriterTo) TokenReader() xml.TokenReader { return &sliceReader{toks: copyToks(m.toks)} }

type sliceReader struct {
	toks []xml.Token
	i    int
}

func (r *sliceReader) Token() (xml.Token, error) {
	if r.i >= len(r.toks) {
		return nil, io.EOF
	}
	r.i++
	return r.toks[r.i-1], nil
}

func copyToks(ts []xml.Token) []xml.Token {
	out := make([]xml.Token, len(ts))
	for i, t := range ts {
		out[i] = xml.CopyToken(t)
	}
	return out
}

type iqStruct struct {
	XMLName xml.Name `xml:"iq"`
	Type    string   `xml:"type,attr"`
	ID      string   `xml:"id,attr"`
}

// StructWritable reports whether the tokens are `<iq type=… id=…></iq>` without namespace,
// which the plain struct value of Via 4 marshals to.
func StructWritable(ts []xml.Token) bool {
	if len(ts) != 2 {
		return false
	}
	st, ok := ts[0].(xml.StartElement)
	return ok && st.Name == (xml.Name{Local: "iq"}) && len(st.Attr) == 2 &&
		st.Attr[0].Name == (xml.Name{Local: "type"}) && st.Attr[1].Name == (xml.Name{Local: "id"}) &&
		st.Attr[0].Value != "" && st.Attr[1].Value != ""
}

func writeVia(t xmlstream.TokenReadEncoder, o Op) error {
	switch o.Via {
	case 1:
		return t.Encode(tokMarshaler{o.Write})
	case 2:
		return t.Encode(tokWriterTo{o.Write})
	case 3:
		return t.Encode(&sliceReader{toks: copyToks(o.Write)})
	case 4:
		st := o.Write[0].(xml.StartElement)
		return t.Encode(iqStruct{Type: st.Attr[0].Value, ID: st.Attr[1].Value})
	}
	// EncodeElement: the value's outer element is a placeholder, the real start is given
	st, ok := o.Write[0].(xml.StartElement)
	if !ok || len(o.Write) < 2 {
		return errors.New("verif: EncodeElement needs an element")
	}
	ph := xml.StartElement{Name: xml.Name{Local: "placeholder"}}
	inner := append(append([]xml.Token{ph}, o.Write[1:len(o.Write)-1]...), ph.End())
	if o.Via == 5 {
		return t.EncodeElement(tokMarshaler{inner}, st.Copy())
	}
	return t.EncodeElement(tokWriterTo{inner}, st.Copy())
}

// ErrHandler is what a program with Ret "fail" returns.
var ErrHandler = errors.New("verif: handler failed")

// Dls is the sequence of SetCloseDeadline calls of the program, one digit per call.
func (p Prog) Dls() string {
	switch p.Deadline {
	case "future":
		return "1" + p.DlSeq
	case "past":
		return "2" + p.DlSeq
	}
	return p.DlSeq
}

// ExpiredAfter is the property's view of a sequence of SetCloseDeadline calls: every call sets
// THE deadline, so the last one decides whether the input context has ended.
func ExpiredAfter(dls string, e bool) bool {
	for _, d := range dls {
		switch d {
		case '1':
			e = false
		case '2', '3':
			e = true
		}
	}
	return e
}

// setDeadlines makes the calls of a digit sequence on the session.
func setDeadlines(s *xmpp.Session, dls string) {
	for i, d := range dls {
		switch d {
		case '1':
			_ = s.SetCloseDeadline(time.Now().Add(time.Duration(i+1) * time.Hour))
		case '2':
			_ = s.SetCloseDeadline(time.Unix(1, 0))
		case '3':
			_ = s.SetCloseDeadline(time.Now().Add(10 * time.Millisecond))
			time.Sleep(25 * time.Millisecond)
		}
	}
}

// Invocation records what one handler call saw.
type Invocation struct {
	Start xml.StartElement
	Obs   []string    // "t<tok>", "e", "z"
	Toks  []xml.Token // the tokens among Obs
	WErr  []string    // errors returned by EncodeToken
}

func (i Invocation) Enc() string {
	return strings.Join(append([]string{common.EncTok(i.Start)}, i.Obs...), ",")
}

// Exec runs program p against the reader/encoder handed to a handler and
// records the observations.
func Exec(p Prog, t xmlstream.TokenReadEncoder, inv *Invocation) error {
	for _, o := range p.Ops {
		if o.Read {
			tok, err := t.Token()
			switch {
			case err == nil && tok != nil:
				c := xml.CopyToken(tok)
				inv.Obs = append(inv.Obs, "t"+common.EncTok(c))
				inv.Toks = append(inv.Toks, c)
			case err == io.EOF && tok == nil:
				inv.Obs = append(inv.Obs, "z")
			case err == nil:
				inv.Obs = append(inv.Obs, "nil-nil")
			default:
				inv.Obs = append(inv.Obs, "e")
				if tok != nil {
					inv.Toks = append(inv.Toks, xml.CopyToken(tok))
				}
			}
			continue
		}
		if o.Via != 0 {
			if err := writeVia(t, o); err != nil {
				inv.WErr = append(inv.WErr, err.Error())
			}
			continue
		}
		for _, w := range o.Write {
			// the session's encoder rewrites the attribute slice of the token it is given in
			// place; hand it a copy so that the recorded program stays what was asked for
			if err := t.EncodeToken(xml.CopyToken(w)); err != nil {
				inv.WErr = append(inv.WErr, err.Error())
			}
		}
	}
	switch p.Ret {
	case "ok":
		return nil
	case "eof":
		return io.EOF
	case "stanzaerr":
		return stanza.Error{Type: stanza.Cancel, Condition: stanza.BadRequest}
	case "streamerr":
		return stream.PolicyViolation
	case "wrapeof":
		return wrapErr{"verif: handler ran out of input", io.EOF}
	case "wrapueof":
		return wrapErr{"verif: handler short read", io.ErrUnexpectedEOF}
	case "wrapstanza":
		return wrapErr{"verif: handler refuses", stanza.Error{Type: stanza.Cancel, Condition: stanza.BadRequest}}
	case "wrapstream":
		return wrapErr{"verif: handler gives up", stream.PolicyViolation}
	case "joineof":
		return errors.Join(ErrHandler, io.EOF)
	}
	return ErrHandler
}

// Result is everything observed from one Serve call.
type Result struct {
	Invs      []Invocation
	Out       []byte
	Err       error
	Panic     string
	Stall     bool
	LocalBare string
}

type rwPair struct {
	io.Reader
	io.Writer
}

// headerNegotiator consumes the stream header through the session's own
// decoder and declares the session ready.
func headerNegotiator(ns string) xmpp.Negotiator { return headerNegotiatorOpt(ns, Opts{FailAfter: -1}) }

func headerNegotiatorOpt(ns string, opt Opts) xmpp.Negotiator {
	return func(ctx context.Context, in, out *stream.Info, s *xmpp.Session, data interface{}) (xmpp.SessionState, io.ReadWriter, interface{}, error) {
		in.XMLNS, out.XMLNS = ns, ns
		in.Version, out.Version = stream.DefaultVersion, stream.DefaultVersion
		in.ID, out.ID = "sid-in", "sid-out"
		r := s.TokenReader()
		defer r.Close()
		tok, err := r.Token()
		if err != nil {
			return 0, nil, nil, err
		}
		if st, ok := tok.(xml.StartElement); !ok || st.Name.Local != "stream" {
			return 0, nil, nil, fmt.Errorf("verif: expected stream header, got %T", tok)
		}
		switch opt.Rebind {
		case "update":
			// what resource binding does with the address the server assigned
			if !s.UpdateAddr(opt.NewAddr) {
				return 0, nil, nil, errors.New("verif: UpdateAddr refused before Ready")
			}
		case "header":
			// what the stock negotiator does with the peer's stream header (`*in = newIn`)
			in.To = opt.NewAddr
		}
		return xmpp.Ready, nil, nil, nil
	}
}

// Serve creates a session (client side of a c2s stream for NSClient, an
// initiated s2s stream for NSServer) whose peer sends Header(ns)+body and then
// nothing more, and runs Serve with a handler made by mk from the recording
// callback.  mk == nil uses the recording handler directly: the k-th invocation
// executes progs[k] (no steps, nil, when the list is used up).
func Serve(ns string, local, remote jid.JID, body []byte, progs []Prog, mk func(rec xmpp.Handler) xmpp.Handler) (res Result) {
	return ServeHook(ns, local, remote, body, progs, mk, nil)
}

// ServeHook is Serve with a hook that runs on the established session before
// Serve is called (for instance to start local requests that stay pending);
// whatever the hook made the session write is not part of Result.Out.  The
// function the hook returns (if any) runs after Serve returned.
func ServeHook(ns string, local, remote jid.JID, body []byte, progs []Prog, mk func(rec xmpp.Handler) xmpp.Handler, before func(s *xmpp.Session, out *common.SafeBuffer) func()) (res Result) {
	return ServeOpt(Opts{FailAfter: -1}, ns, local, remote, body, progs, mk, before)
}

// ErrWriteFault is what the connection of a session with Opts.FailAfter >= 0 returns from
// Write once the fault is reached.
var ErrWriteFault = errors.New("verif: connection refused the write")

// Opts are the dimensions of a serve case beyond input and handler programs.
type Opts struct {
	// Rebind: the session's local address changes during negotiation, after NewSession was
	// given `local`: "update" = Session.UpdateAddr (resource binding), "header" = the
	// negotiator replaces the input stream's To (the peer's stream header names another
	// address); "" = no change
	Rebind string
	// NewAddr is the address the session ends up with when Rebind is set
	NewAddr jid.JID
	// FailAfter: the connection accepts that many Write calls after Serve started and refuses
	// every later one with ErrWriteFault; -1 = never fails
	FailAfter int
	// FailOnce: only that one Write call is refused, later ones are accepted again
	FailOnce bool
	// PreDl: SetCloseDeadline calls the application makes before Serve starts, one digit per
	// call (see Prog.DlSeq)
	PreDl string
	// WS: the session uses the WebSocket subprotocol (its context carried the marker the
	// websocket package's negotiator adds): the stream reader treats framing-namespace elements
	// as the peer's close / a restart
	WS bool
	// PreBroken: before Serve starts the application makes a Send call that is abandoned inside
	// an element (its token reader fails after the start tag): the output is left broken
	PreBroken bool
	// Watchdog: how long Serve may take before the case is a stall (0 = 10 s); not part of Enc
	Watchdog time.Duration
}

// Enc renders the options for the replay lines ("-" = defaults).
func (o Opts) Enc() string {
	var f []string
	if o.Rebind != "" {
		f = append(f, "rebind="+o.Rebind+"="+fmt.Sprintf("%x", o.NewAddr.String()))
	}
	if o.FailAfter >= 0 {
		f = append(f, fmt.Sprintf("failafter=%d", o.FailAfter))
	}
	if o.FailOnce {
		f = append(f, "failonce")
	}
	if o.PreDl != "" {
		f = append(f, "predl="+o.PreDl)
	}
	if o.WS {
		f = append(f, "ws")
	}
	if o.PreBroken {
		f = append(f, "prebroken")
	}
	return common.Join(f, ",")
}

// DecOpts is the inverse of Enc.
func DecOpts(s string) Opts {
	o := Opts{FailAfter: -1}
	if s == "-" {
		return o
	}
	for _, f := range strings.Split(s, ",") {
		p := strings.Split(f, "=")
		switch {
		case p[0] == "rebind" && len(p) == 3:
			o.Rebind = p[1]
			if a, err := unhexF(p[2]); err == nil {
				if j, err := jid.Parse(a); err == nil {
					o.NewAddr = j
				}
			}
		case p[0] == "failonce":
			o.FailOnce = true
		case p[0] == "ws":
			o.WS = true
		case p[0] == "prebroken":
			o.PreBroken = true
		case p[0] == "predl" && len(p) == 2:
			o.PreDl = p[1]
		case p[0] == "failafter" && len(p) == 2:
			fmt.Sscanf(p[1], "%d", &o.FailAfter)
		}
	}
	return o
}

// abandonReader yields one start tag and then fails: a Send call with it stops inside the element.
type abandonReader struct {
	start xml.StartElement
	done  bool
}

func (a *abandonReader) Token() (xml.Token, error) {
	if a.done {
		return nil, errors.New("verif: the payload reader failed")
	}
	a.done = true
	return a.start, nil
}

// NsFieldWS is the protocol field for the namespace of a session with the WebSocket flag ws.
func NsFieldWS(ns string, ws bool) string {
	if ws {
		return NsField(ns) + "w"
	}
	return NsField(ns)
}

// MarkWS rewrites the namespace field of a protocol line (the first field that is exactly `c`
// or `s`) for a session that uses the WebSocket subprotocol.
func MarkWS(line string, ws bool) string {
	if !ws {
		return line
	}
	f := strings.Split(line, " ")
	for i, x := range f {
		if x == "c" || x == "s" {
			f[i] = x + "w"
			break
		}
	}
	return strings.Join(f, " ")
}

// faultWriter passes writes through until it is armed and `left` writes have been accepted.
type faultWriter struct {
	w     io.Writer
	mu    sync.Mutex
	armed bool
	once  bool
	left  int
}

func (f *faultWriter) Write(p []byte) (int, error) {
	f.mu.Lock()
	defer f.mu.Unlock()
	if f.armed {
		if f.left == 0 || (f.left < 0 && !f.once) {
			f.left = -1
			return 0, ErrWriteFault
		}
		if f.left > 0 {
			f.left--
		}
	}
	return f.w.Write(p)
}

// ServeOpt is ServeHook with the further dimensions of Opts.
func ServeOpt(opt Opts, ns string, local, remote jid.JID, body []byte, progs []Prog, mk func(rec xmpp.Handler) xmpp.Handler, before func(s *xmpp.Session, out *common.SafeBuffer) func()) (res Result) {
	in := io.MultiReader(strings.NewReader(Header(ns)), bytes.NewReader(body))
	out := &common.SafeBuffer{}
	var state xmpp.SessionState
	if ns == NSServer {
		state |= xmpp.S2S
	}
	fw := &faultWriter{w: out, left: opt.FailAfter, once: opt.FailOnce}
	sctx := context.Background()
	if opt.WS {
		sctx = xmpp.VerifWebSocketContext(sctx)
	}
	s, err := xmpp.NewSession(sctx, remote, local, rwPair{in, fw}, state, headerNegotiatorOpt(ns, opt))
	if err != nil {
		res.Err = fmt.Errorf("verif: session setup: %w", err)
		return res
	}
	if opt.PreBroken {
		// a transmission that stops inside an element: the start tag goes out, the next read fails
		_ = s.Send(context.Background(), &abandonReader{start: xml.StartElement{Name: xml.Name{Local: "message"}, Attr: []xml.Attr{{Name: xml.Name{Local: "id"}, Value: "abandoned"}}}})
	}
	res.LocalBare = s.LocalAddr().Bare().String()
	k := 0
	rec := xmpp.HandlerFunc(func(t xmlstream.TokenReadEncoder, start *xml.StartElement) error {
		p := Prog{Ret: "ok"}
		if k < len(progs) {
			p = progs[k]
		}
		k++
		res.Invs = append(res.Invs, Invocation{Start: start.Copy()})
		if p.Close {
			_ = s.Close()
		}
		switch p.Deadline {
		case "future":
			_ = s.SetCloseDeadline(time.Now().Add(time.Hour))
		case "past":
			_ = s.SetCloseDeadline(time.Unix(1, 0))
		}
		setDeadlines(s, p.DlSeq)
		if p.Mut != 0 {
			mutate(start, p.Mut)
		}
		return Exec(p, t, &res.Invs[len(res.Invs)-1])
	})
	var h xmpp.Handler = rec
	if mk != nil {
		h = mk(rec)
	}
	var after func()
	if before != nil {
		after = before(s, out)
	}
	setDeadlines(s, opt.PreDl)
	skip := out.Len()
	if opt.FailAfter >= 0 {
		fw.mu.Lock()
		fw.armed = true
		fw.mu.Unlock()
	}
	wd := 10 * time.Second
	if opt.Watchdog > 0 {
		wd = opt.Watchdog
	}
	done := common.WithTimeout(wd, func() {
		res.Panic = common.Recover(func() { res.Err = s.Serve(h) })
	})
	if !done {
		res.Stall = true
	}
	if after != nil {
		after()
	}
	res.Out = out.Bytes()[skip:]
	return res
}

// ErrClass maps the value returned by Serve to the model's error classes.
func ErrClass(err error) string {
	var se stream.Error
	var ste stanza.Error
	var syn *xml.SyntaxError
	var we wrapErr
	switch {
	case err == nil:
		return "clean"
	case errors.Is(err, ErrWriteFault):
		return "write-fault"
	case errors.As(err, &se):
		return "se:" + se.Err
	case errors.As(err, &we):
		return "handler"
	case errors.Is(err, xmpp.ErrOutputStreamClosed):
		return "output-closed"
	case errors.Is(err, context.DeadlineExceeded), errors.Is(err, context.Canceled):
		return "deadline"
	case strings.Contains(err.Error(), "abandoned in the middle of an element"):
		return "output-broken"
	case errors.As(err, &ste):
		return "handler"
	case errors.Is(err, ErrHandler), err == io.ErrUnexpectedEOF, strings.Contains(err.Error(), "received IQ with invalid payload"):
		return "handler"
	case errors.As(err, &syn):
		return "decoder"
	}
	msg := err.Error()
	switch {
	case strings.Contains(msg, "unexpected stream-level chardata"):
		return "chardata"
	case strings.Contains(msg, "unexpected stream restart"):
		return "restart"
	case strings.Contains(msg, "unknown stream level element"):
		return "unknown-element"
	case strings.Contains(msg, "disallowed XML proc inst"):
		return "procinst"
	case strings.Contains(msg, "disallowed XML comment"):
		return "comment"
	case strings.Contains(msg, "disallowed XML directive"):
		return "directive"
	case strings.Contains(msg, "stream in a bad state"):
		return "bad-state"
	case strings.Contains(msg, "XML syntax error"), strings.Contains(msg, "invalid UTF-8"), strings.Contains(msg, "unexpected EOF"):
		return "decoder"
	case strings.Contains(msg, "jid:") || strings.Contains(msg, "JID") || strings.Contains(msg, "precis") || strings.Contains(msg, "idna") || strings.Contains(msg, "domain") || strings.Contains(msg, "localpart") || strings.Contains(msg, "resourcepart"):
		return "bad-jid"
	}
	return "other:" + common.HexS(msg)
}

// Tokens tokenises header+body with the real decoder and returns the tokens
// after the header (up to the first decoder error or the end of the input).
func Tokens(ns string, body []byte) []xml.Token {
	d := xml.NewDecoder(io.MultiReader(strings.NewReader(Header(ns)), bytes.NewReader(body)))
	var out []xml.Token
	first := true
	for {
		t, err := d.Token()
		if err != nil {
			return out
		}
		if first {
			first = false
			continue
		}
		out = append(out, xml.CopyToken(t))
	}
}

// Elem is one top-level element the session wrote.
type Elem struct {
	Toks               []xml.Token
	Local, Typ, ID, To string
	SU                 bool
	NStart             int
	StreamError        bool
	Cond               string
}

func attrVal(as []xml.Attr, l string) string {
	for _, a := range as {
		if a.Name.Local == l && a.Name.Space == "" {
			return a.Value
		}
	}
	return ""
}

func isRandomID(s string) bool {
	if len(s) < 16 {
		return false
	}
	for _, c := range s {
		if !strings.ContainsRune("0123456789abcdef", c) {
			return false
		}
	}
	return true
}

// Written parses what the session wrote: the top-level elements, whether the
// stream was closed, and an error if the output is not well-formed.
func Written(ns string, out []byte) (els []Elem, closed bool, err error) {
	d := xml.NewDecoder(io.MultiReader(strings.NewReader(Header(ns)), bytes.NewReader(out)))
	if _, err := d.Token(); err != nil {
		return nil, false, err
	}
	depth := 0
	var cur []xml.Token
	for {
		t, e := d.Token()
		if e == io.EOF {
			return els, closed, nil
		}
		if e != nil {
			var syn *xml.SyntaxError
			if errors.As(e, &syn) && strings.Contains(e.Error(), "unexpected EOF") && depth == 0 {
				return els, closed, nil
			}
			// an element a handler left open: report it as the last (partial) element
			if len(cur) > 0 {
				els = append(els, mkElem(cur))
			}
			if bytes.HasSuffix(bytes.TrimSpace(out), []byte("</stream:stream>")) {
				closed = true
			}
			return els, closed, e
		}
		t = xml.CopyToken(t)
		switch tt := t.(type) {
		case xml.StartElement:
			depth++
			cur = append(cur, t)
		case xml.EndElement:
			if depth == 0 {
				if tt.Name.Local == "stream" {
					closed = true
				}
				continue
			}
			depth--
			cur = append(cur, t)
			if depth == 0 {
				els = append(els, mkElem(cur))
				cur = nil
			}
		default:
			if depth > 0 {
				cur = append(cur, t)
			}
		}
	}
}

func mkElem(toks []xml.Token) Elem {
	st := toks[0].(xml.StartElement)
	e := Elem{Toks: toks, Local: st.Name.Local, Typ: attrVal(st.Attr, "type"), ID: attrVal(st.Attr, "id"), To: attrVal(st.Attr, "to")}
	if isRandomID(e.ID) {
		e.ID = ""
	}
	for i, t := range toks {
		if s, ok := t.(xml.StartElement); ok {
			e.NStart++
			if i > 0 && s.Name.Local == "service-unavailable" {
				e.SU = true
			}
			if i == 1 && st.Name.Space == NSStream && st.Name.Local == "error" {
				e.Cond = s.Name.Local
			}
		}
	}
	e.StreamError = st.Name.Space == NSStream && st.Name.Local == "error"
	return e
}

func (e Elem) Summary() string {
	su := "0"
	if e.SU {
		su = "1"
	}
	h := func(s string) string { return fmt.Sprintf("%x", s) }
	return strings.Join([]string{h(e.Local), h(e.Typ), h(e.ID), h(e.To), su, fmt.Sprint(e.NStart)}, ",")
}

// WrittenObs renders the written elements (without the final stream error)
// and the condition of the final stream error ("-" when none was written).
func WrittenObs(els []Elem) (string, string) {
	var s []string
	cond := "-"
	for _, e := range els {
		if e.StreamError {
			cond = e.Cond
			continue
		}
		s = append(s, e.Summary())
	}
	return common.Join(s, "/"), cond
}

// JidMap renders the oracle for jid.Parse on every unqualified from / to attribute
// of the start tokens in toks.
func JidMap(toks []xml.Token) string {
	seen := map[string]bool{}
	var f []string
	for _, t := range toks {
		st, ok := t.(xml.StartElement)
		if !ok {
			continue
		}
		for _, a := range st.Attr {
			if (a.Name.Local != "from" && a.Name.Local != "to") || a.Name.Space != "" || seen[a.Value] {
				continue
			}
			seen[a.Value] = true
			j, err := jid.Parse(a.Value)
			c := "X"
			if err == nil {
				c = fmt.Sprintf("%x", j.String())
			}
			f = append(f, fmt.Sprintf("%x", a.Value)+"="+c)
		}
	}
	return common.Join(f, ",")
}

// NsField is the protocol field for the namespace.
func NsField(ns string) string {
	if ns == NSServer {
		return "s"
	}
	return "c"
}

// CaseLine is the protocol line of a serve case.
func CaseLine(ns, localBare string, toks []xml.Token, progs []Prog) string {
	return strings.Join([]string{"serve", NsField(ns), common.HexS(localBare), JidMap(toks), common.EncToks(toks), EncProgs(progs)}, " ")
}

func EncInvs(invs []Invocation) string {
	if len(invs) == 0 {
		return "-"
	}
	s := make([]string, len(invs))
	for i, v := range invs {
		s[i] = v.Enc()
	}
	return strings.Join(s, "/")
}
