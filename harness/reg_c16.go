package main

import "verifharness/c16"

func init() { runners["C16"] = c16.Run; facts["C16"] = c16.Facts }
