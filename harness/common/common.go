// Package common holds what every property runner of the harness shares: the
// single PRNG all random choices derive from, hex helpers for the line
// protocol, and the Run recorder that writes cases.txt / impl.out /
// oracle.jsonl / stats.json into the work directory.
package common

import (
	"bufio"
	"crypto/sha256"
	"encoding/hex"
	"encoding/json"
	"fmt"
	"os"
	"path/filepath"
	"sort"
	"strings"
)

// Rand is a splitmix64 generator; every random choice of a run derives from
// one instance seeded with VERIF_SEED so a disagreement replays exactly.
type Rand struct{ s uint64 }

func NewRand(seed uint64) *Rand {
	// the seed goes through the splitmix finaliser first: otherwise seed+1 would be the
	// same stream as seed, one draw ahead
	z := seed + 0x632BE59BD9B4E019
	z = (z ^ (z >> 30)) * 0xBF58476D1CE4E5B9
	z = (z ^ (z >> 27)) * 0x94D049BB133111EB
	return &Rand{s: z ^ (z >> 31)}
}

func (r *Rand) Uint64() uint64 {
	r.s += 0x9E3779B97F4A7C15
	z := r.s
	z = (z ^ (z >> 30)) * 0xBF58476D1CE4E5B9
	z = (z ^ (z >> 27)) * 0x94D049BB133111EB
	return z ^ (z >> 31)
}

// Intn returns a value in [0,n).
func (r *Rand) Intn(n int) int {
	if n <= 0 {
		return 0
	}
	return int(r.Uint64() % uint64(n))
}

func (r *Rand) Bool() bool { return r.Uint64()&1 == 1 }

// Chance is true with probability num/den.
func (r *Rand) Chance(num, den int) bool { return r.Intn(den) < num }

// Fork derives an independent generator (for sharded work).
func (r *Rand) Fork() *Rand { return NewRand(r.Uint64()) }

// Hex encodes bytes for the line protocol ("-" for empty).
func Hex(b []byte) string {
	if len(b) == 0 {
		return "-"
	}
	return hex.EncodeToString(b)
}

func HexS(s string) string { return Hex([]byte(s)) }

func UnHex(s string) ([]byte, error) {
	if s == "-" {
		return nil, nil
	}
	return hex.DecodeString(s)
}

func B(b bool) string {
	if b {
		return "1"
	}
	return "0"
}

// Join joins list fields ("-" for empty).
func Join(l []string, sep string) string {
	if len(l) == 0 {
		return "-"
	}
	return strings.Join(l, sep)
}

// OracleFailure is one failure of the property's own predicate on the real
// code: a concrete failing input.
type OracleFailure struct {
	Property string   `json:"property"`
	Clause   string   `json:"clause"`
	Key      string   `json:"key"` // stable normal form of the (minimised) witness
	Case     []string `json:"case"`
	Detail   string   `json:"detail"`
}

// Run records everything a property runner produces.
type Run struct {
	Prop   string
	Tier   string
	Seed   uint64
	Dir    string
	Replay string // when non-empty: a replay file to re-run instead of generating
	Rnd    *Rand

	cases, impl *bufio.Writer
	cf, inf, of *os.File
	oracle      *json.Encoder

	Evaluations int
	Lines       int
	distinct    map[[8]byte]struct{}
	sampleRnd   *Rand // sampling of evidence examples must not consume generator draws
	Hist        map[string]int
	Samples     []string
	Failures    []OracleFailure
	Exhaustive  []string // names of finite domains enumerated completely
	Notes       []string
	Extra       map[string]interface{}
	failKeys    map[string]int
}

func NewRun(prop, tier string, seed uint64, dir, replay string) (*Run, error) {
	if err := os.MkdirAll(dir, 0o755); err != nil {
		return nil, err
	}
	r := &Run{Prop: prop, Tier: tier, Seed: seed, Dir: dir, Replay: replay, Rnd: NewRand(seed),
		distinct: map[[8]byte]struct{}{}, Hist: map[string]int{}, Extra: map[string]interface{}{}, sampleRnd: NewRand(seed ^ 0x5eed),
		failKeys: map[string]int{}}
	var err error
	if r.cf, err = os.Create(filepath.Join(dir, "cases.txt")); err != nil {
		return nil, err
	}
	if r.inf, err = os.Create(filepath.Join(dir, "impl.out")); err != nil {
		return nil, err
	}
	if r.of, err = os.Create(filepath.Join(dir, "oracle.jsonl")); err != nil {
		return nil, err
	}
	r.cases = bufio.NewWriterSize(r.cf, 1<<20)
	r.impl = bufio.NewWriterSize(r.inf, 1<<20)
	r.oracle = json.NewEncoder(r.of)
	return r, nil
}

// Quick reports whether this is the quick tier.
func (r *Run) Quick() bool { return r.Tier != "thorough" }

// Pick returns q in the quick tier and t in the thorough tier.
func (r *Run) Pick(q, t int) int {
	if r.Quick() {
		return q
	}
	return t
}

// Mark writes a comment line ("#…") to both streams; the driver echoes it.
func (r *Run) Mark(format string, a ...interface{}) {
	l := "#" + fmt.Sprintf(format, a...)
	fmt.Fprintln(r.cases, l)
	fmt.Fprintln(r.impl, l)
	r.Lines++
	r.maybeFlush()
}

// maybeFlush: with VERIF_FLUSH=1 (set by ./check for the race-detector run, which may end the
// process at any moment) every line reaches the files at once.
func (r *Run) maybeFlush() {
	if flushEach {
		r.cases.Flush()
		r.impl.Flush()
	}
}

var flushEach = os.Getenv("VERIF_FLUSH") == "1"

// Race reports whether this is the race-detector run of the thorough tier (tier "race"):
// runners restrict themselves to their concurrent scenarios.
func (r *Run) Race() bool { return r.Tier == "race" }

// Line records one protocol line for the model driver and the observation of
// the implementation it must reproduce (without the leading '=').
func (r *Run) Line(caseLine, implObs string) {
	fmt.Fprintln(r.cases, r.Prop+" "+caseLine)
	fmt.Fprintln(r.impl, "="+implObs)
	r.Lines++
	r.maybeFlush()
}

// Case counts one evaluated case. nontrivial says whether the case exercised
// a non-error branch or a distinct error kind; canon is the canonical form
// hashed for the distinct count; class feeds the input-distribution histogram.
func (r *Run) Case(canon string, nontrivial bool, class string) {
	r.Evaluations++
	if class != "" {
		r.Hist[class]++
	}
	if nontrivial {
		h := sha256.Sum256([]byte(canon))
		var k [8]byte
		copy(k[:], h[:8])
		r.distinct[k] = struct{}{}
	}
	if len(r.Samples) < 8 && (r.Evaluations < 4 || r.sampleRnd.Chance(1, 200)) {
		if len(canon) > 300 {
			canon = canon[:300] + "…"
		}
		r.Samples = append(r.Samples, canon)
	}
}

// Fail records an oracle failure (at most 20 per key are written out).
func (r *Run) Fail(clause, key string, lines []string, detail string) {
	k := clause + "|" + key
	r.failKeys[k]++
	if r.failKeys[k] > 20 {
		return
	}
	f := OracleFailure{Property: r.Prop, Clause: clause, Key: key, Case: lines, Detail: detail}
	r.Failures = append(r.Failures, f)
	_ = r.oracle.Encode(f)
}

// Close flushes the streams and writes stats.json.
func (r *Run) Close() error {
	r.cases.Flush()
	r.impl.Flush()
	r.cf.Close()
	r.inf.Close()
	r.of.Close()
	keys := make([]string, 0, len(r.failKeys))
	for k := range r.failKeys {
		keys = append(keys, k)
	}
	sort.Strings(keys)
	fk := map[string]int{}
	for _, k := range keys {
		fk[k] = r.failKeys[k]
	}
	st := map[string]interface{}{
		"property":            r.Prop,
		"tier":                r.Tier,
		"seed":                r.Seed,
		"evaluations":         r.Evaluations,
		"lines":               r.Lines,
		"distinct_nontrivial": len(r.distinct),
		"histogram":           r.Hist,
		"samples":             r.Samples,
		"oracle_failures":     fk,
		"exhaustive_domains":  r.Exhaustive,
		"notes":               r.Notes,
		"extra":               r.Extra,
	}
	b, _ := json.MarshalIndent(st, "", " ")
	return os.WriteFile(filepath.Join(r.Dir, "stats.json"), b, 0o644)
}

// ReplayLines returns the case lines of a replay file (lines of the "case"
// array of the JSON replay written by ./check).
func ReplayLines(path string) ([]string, error) {
	b, err := os.ReadFile(path)
	if err != nil {
		return nil, err
	}
	var v struct {
		Case []string `json:"case"`
	}
	if err := json.Unmarshal(b, &v); err != nil {
		return nil, err
	}
	return v.Case, nil
}
