package common

import (
	"bytes"
	"context"
	"io"
	"sync"
	"time"

	"mellium.im/xmpp"
	"mellium.im/xmpp/jid"
	"mellium.im/xmpp/stream"
)

// SafeBuffer is a goroutine-safe bytes.Buffer that records what a session writes.
type SafeBuffer struct {
	mu sync.Mutex
	b  bytes.Buffer
	// OnWrite, when set, is called (outside the lock) after every write.
	OnWrite func(p []byte)
	// Fail, when set, is returned by Write (nothing is recorded).
	Fail error
}

func (s *SafeBuffer) Write(p []byte) (int, error) {
	s.mu.Lock()
	if s.Fail != nil {
		err := s.Fail
		s.mu.Unlock()
		return 0, err
	}
	n, err := s.b.Write(p)
	cb := s.OnWrite
	s.mu.Unlock()
	if cb != nil {
		cb(p)
	}
	return n, err
}

// Bytes returns a copy of everything written so far.
func (s *SafeBuffer) Bytes() []byte {
	s.mu.Lock()
	defer s.mu.Unlock()
	return append([]byte(nil), s.b.Bytes()...)
}

func (s *SafeBuffer) Len() int {
	s.mu.Lock()
	defer s.mu.Unlock()
	return s.b.Len()
}

// Take returns and clears what was written so far.
func (s *SafeBuffer) Take() []byte {
	s.mu.Lock()
	defer s.mu.Unlock()
	b := append([]byte(nil), s.b.Bytes()...)
	s.b.Reset()
	return b
}

// ReadyNegotiator performs no I/O: it fills the stream infos and returns
// state|Ready, so a session is created on a raw connection without any
// handshake on the wire.
func ReadyNegotiator(state xmpp.SessionState, ns string) xmpp.Negotiator {
	return func(ctx context.Context, in, out *stream.Info, s *xmpp.Session, data interface{}) (xmpp.SessionState, io.ReadWriter, interface{}, error) {
		in.XMLNS, out.XMLNS = ns, ns
		in.Version, out.Version = stream.DefaultVersion, stream.DefaultVersion
		in.ID, out.ID = "sid-in", "sid-out"
		return state | xmpp.Ready, nil, nil, nil
	}
}

// RawSession is a real *xmpp.Session on an in-memory connection driven by a
// scripted raw peer: whatever is written to In is read by the session, whatever
// the session writes is collected in Out.
type RawSession struct {
	S   *xmpp.Session
	In  *io.PipeWriter
	Out *SafeBuffer
	pr  *io.PipeReader
}

type rawRW struct {
	io.Reader
	io.Writer
}

// NewRawSession creates an initiated (client side) session unless state has
// xmpp.Received, with the stream namespace ns ("jabber:client" or
// "jabber:server"), without any bytes on the wire.
func NewRawSession(state xmpp.SessionState, ns string, local, remote jid.JID) (*RawSession, error) {
	pr, pw := io.Pipe()
	out := &SafeBuffer{}
	rw := rawRW{Reader: pr, Writer: out}
	var s *xmpp.Session
	var err error
	if state&xmpp.Received != 0 {
		// ReceiveSession passes zero JIDs; use NewSession with the Received bit so
		// that the addresses are known (location=local, origin=remote).
		s, err = xmpp.NewSession(context.Background(), local, remote, rw, state, ReadyNegotiator(state, ns))
	} else {
		s, err = xmpp.NewSession(context.Background(), remote, local, rw, state, ReadyNegotiator(state, ns))
	}
	if err != nil {
		return nil, err
	}
	return &RawSession{S: s, In: pw, Out: out, pr: pr}, nil
}

// Feed writes peer bytes (blocks until the session has read them).
func (r *RawSession) Feed(b []byte) error {
	_, err := r.In.Write(b)
	return err
}

// WithTimeout runs f and reports false if it did not return within d (the
// goroutine is left behind: callers treat that as the observation STALL).
func WithTimeout(d time.Duration, f func()) bool {
	done := make(chan struct{})
	go func() {
		defer close(done)
		f()
	}()
	select {
	case <-done:
		return true
	case <-time.After(d):
		return false
	}
}

// Recover runs f and returns the recovered panic value as a string ("" if none).
func Recover(f func()) (p string) {
	defer func() {
		if r := recover(); r != nil {
			p = "PANIC: " + sprint(r)
		}
	}()
	f()
	return ""
}

func sprint(v interface{}) string {
	if e, ok := v.(error); ok {
		return e.Error()
	}
	if s, ok := v.(string); ok {
		return s
	}
	return "non-string panic"
}
