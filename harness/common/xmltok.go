package common

import (
	"encoding/hex"
	"encoding/xml"
	"io"
	"sort"
	"strings"
)

// Token-list encoding of the line protocol (see lean/XmppModel/Prelude/Xml.lean).

func hexF(s string) string { return hex.EncodeToString([]byte(s)) }

// EncTok encodes one xml.Token.
func EncTok(t xml.Token) string {
	switch t := t.(type) {
	case xml.StartElement:
		f := []string{"S", hexF(t.Name.Space), hexF(t.Name.Local)}
		for _, a := range t.Attr {
			f = append(f, hexF(a.Name.Space)+"="+hexF(a.Name.Local)+"="+hexF(a.Value))
		}
		return strings.Join(f, ":")
	case xml.EndElement:
		return "E:" + hexF(t.Name.Space) + ":" + hexF(t.Name.Local)
	case xml.CharData:
		return "C:" + hexF(string(t))
	case xml.Comment:
		return "M:" + hexF(string(t))
	case xml.ProcInst:
		return "P:" + hexF(t.Target) + ":" + hexF(string(t.Inst))
	case xml.Directive:
		return "D:" + hexF(string(t))
	case *xml.StartElement:
		if t == nil {
			return "NIL"
		}
		return EncTok(*t)
	}
	return "?"
}

// SortedAttrs returns a copy of the token list in which the attributes of every
// start element are sorted by (space, local, value): attribute order carries no
// meaning and the model drivers print theirs sorted the same way.
func SortedAttrs(ts []xml.Token) []xml.Token {
	out := make([]xml.Token, len(ts))
	for i, t := range ts {
		if s, ok := t.(xml.StartElement); ok {
			as := append([]xml.Attr(nil), s.Attr...)
			sort.SliceStable(as, func(a, b int) bool {
				ka := as[a].Name.Space + "\x00" + as[a].Name.Local + "\x00" + as[a].Value
				kb := as[b].Name.Space + "\x00" + as[b].Name.Local + "\x00" + as[b].Value
				return ka < kb
			})
			s.Attr = as
			t = s
		}
		out[i] = t
	}
	return out
}

// EncToks encodes a token list ("-" when empty).
func EncToks(ts []xml.Token) string {
	if len(ts) == 0 {
		return "-"
	}
	s := make([]string, len(ts))
	for i, t := range ts {
		s[i] = EncTok(t)
	}
	return strings.Join(s, ";")
}

// ReadAllTokens drains a token reader (copying each token); the error is
// returned unless it is io.EOF.
func ReadAllTokens(r xml.TokenReader) ([]xml.Token, error) {
	var out []xml.Token
	for {
		t, err := r.Token()
		if t != nil {
			out = append(out, xml.CopyToken(t))
		}
		if err == io.EOF {
			return out, nil
		}
		if err != nil {
			return out, err
		}
		if t == nil {
			return out, nil
		}
	}
}

// Tokenize parses bytes with the real encoding/xml decoder (non-strict
// settings are not used: the library always uses the default decoder).
func Tokenize(b []byte) ([]xml.Token, error) {
	d := xml.NewDecoder(strings.NewReader(string(b)))
	return ReadAllTokens(d)
}
