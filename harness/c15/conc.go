package c15

import (
	"bytes"
	"encoding/base64"
	"fmt"
	"io"
	"net"
	"sync"
	"time"

	"mellium.im/xmpp/ibb"

	"verifharness/common"
)

// runDuplexConcurrent: free running — one goroutine writes and flushes on the
// accepted connection, one reads from it, the peer injects data packets and
// acknowledges what it receives, then Close races with the pending Read and a
// last incoming packet.  For the race-detector run; small in the other tiers.
func runDuplexConcurrent(r *common.Run, carrier string, packets int) {
	p, err := newPeer()
	if err != nil {
		return
	}
	defer p.stop()
	ln := p.h.Listen(p.rs.S)
	acc := make(chan net.Conn, 1)
	go func() { c, _ := ln.Accept(); acc <- c }()
	p.feed(fmt.Sprintf(`<iq xmlns="jabber:client" type="set" id="o1" from="%s" to="me@example.net/h"><open xmlns="http://jabber.org/protocol/ibb" sid="S" block-size="16" stanza="%s"/></iq>`, peerJID, carrier))
	var nc net.Conn
	select {
	case nc = <-acc:
	case <-time.After(watchdog):
		return
	}
	conn := nc.(*ibb.Conn)
	p.pump(func() bool { return p.replies["o1"] != "" })
	lines := []string{fmt.Sprintf("#duplex concurrent carrier=%s packets=%d (free running)", carrier, packets)}

	var wg sync.WaitGroup
	var got bytes.Buffer
	var mu sync.Mutex
	wg.Add(2)
	go func() { // reader
		defer wg.Done()
		b := make([]byte, 7)
		for {
			n, err := conn.Read(b)
			mu.Lock()
			got.Write(b[:n])
			mu.Unlock()
			if err != nil {
				return
			}
		}
	}()
	var written []byte
	go func() { // writer
		defer wg.Done()
		for i := 0; i < packets; i++ {
			chunk := bytes.Repeat([]byte{byte('a' + i%26)}, 1+i%9)
			if _, err := conn.Write(chunk); err != nil {
				return
			}
			written = append(written, chunk...)
			if i%3 == 0 {
				if conn.Flush() != nil {
					return
				}
			}
		}
	}()
	// the peer injects packets while pumping (acknowledging the writer's stanzas)
	var sent []byte
	for i := 0; i < packets; i++ {
		chunk := bytes.Repeat([]byte{byte('A' + i%26)}, 1+i%5)
		sent = append(sent, chunk...)
		pl := base64.StdEncoding.EncodeToString(chunk)
		if carrier == "message" {
			p.feed(fmt.Sprintf(`<message xmlns="jabber:client" from="%s"><data xmlns="http://jabber.org/protocol/ibb" seq="%d" sid="S">%s</data></message>`, peerJID, i, pl))
		} else {
			p.feed(fmt.Sprintf(`<iq xmlns="jabber:client" type="set" id="in%d" from="%s"><data xmlns="http://jabber.org/protocol/ibb" seq="%d" sid="S">%s</data></iq>`, i, peerJID, i, pl))
		}
		for more := true; more; { // handle what the session has written so far (acknowledge data)
			select {
			case e, ok := <-p.in:
				if ok {
					p.handle(e)
				} else {
					more = false
				}
			default:
				more = false
			}
		}
	}
	// Close races with the reader and one more packet
	closed := make(chan error, 1)
	go func() {
		time.Sleep(time.Millisecond)
		closed <- conn.Close()
	}()
	p.feed(fmt.Sprintf(`<iq xmlns="jabber:client" type="set" id="last" from="%s"><data xmlns="http://jabber.org/protocol/ibb" seq="%d" sid="S">%s</data></iq>`, peerJID, packets, "Wg=="))
	done := make(chan struct{})
	go func() { wg.Wait(); close(done) }()
	ok := p.pump(func() bool {
		select {
		case <-done:
			return true
		default:
			return false
		}
	})
	if !ok {
		r.Fail("deliver", "concurrent-duplex-stalls", lines, "reader or writer did not finish after Close")
	}
	select {
	case <-closed:
	case <-time.After(watchdog):
		r.Fail("close", "close-does-not-return:concurrent", lines, "Close did not return")
	}
	mu.Lock()
	g := append([]byte(nil), got.Bytes()...)
	mu.Unlock()
	// everything that was acknowledged before the close must have been read, in order
	if !bytes.HasPrefix(append(append([]byte(nil), sent...), 'Z'), g) || len(g) < len(sent) {
		r.Fail("deliver", "concurrent-duplex-bytes-differ", lines, fmt.Sprintf("reader got %d bytes %q, peer sent %q", len(g), g, sent))
	}
	p.sync()
	var dec []byte
	for _, q := range p.packets {
		d, _ := base64.StdEncoding.DecodeString(q.payload)
		dec = append(dec, d...)
	}
	if ok && !bytes.Equal(dec, written) {
		r.Fail("deliver", "concurrent-duplex-sent-bytes-differ", lines, fmt.Sprintf("writer wrote %d bytes, stanzas carry %d", len(written), len(dec)))
	}
	_ = io.EOF
	r.Case(fmt.Sprintf("duplex-concurrent %s %d", carrier, packets), true, "concurrent")
}
