package c15

import (
	"bytes"
	"context"
	"encoding/base64"
	"fmt"
	"io"
	"net"
	"sync"
	"time"

	"mellium.im/xmpp/ibb"
	"mellium.im/xmpp/jid"
	"mellium.im/xmpp/stanza"

	"verifharness/common"
)

// runDuplexConcurrent: free running — one goroutine writes and flushes on the
// accepted connection, one reads from it, the peer injects data packets and
// acknowledges what it receives, then Close races with the pending Read and a
// last incoming packet.  For the race-detector run; small in the other tiers.
func runDuplexConcurrent(r *common.Run, carrier string, packets int) {
	p, err := newPeer()
	if err != nil {
		return
	}
	defer p.stop()
	ln := p.h.Listen(p.rs.S)
	acc := make(chan net.Conn, 1)
	go func() { c, _ := ln.Accept(); acc <- c }()
	p.feed(fmt.Sprintf(`<iq xmlns="jabber:client" type="set" id="o1" from="%s" to="me@example.net/h"><open xmlns="http://jabber.org/protocol/ibb" sid="S" block-size="16" stanza="%s"/></iq>`, peerJID, carrier))
	var nc net.Conn
	select {
	case nc = <-acc:
	case <-time.After(watchdog):
		return
	}
	conn := nc.(*ibb.Conn)
	p.pump(func() bool { return p.replies["o1"] != "" })
	lines := []string{fmt.Sprintf("#duplex concurrent carrier=%s packets=%d (free running)", carrier, packets)}

	var wg sync.WaitGroup
	var got bytes.Buffer
	var mu sync.Mutex
	wg.Add(2)
	go func() { // reader
		defer wg.Done()
		b := make([]byte, 7)
		for {
			n, err := conn.Read(b)
			mu.Lock()
			got.Write(b[:n])
			mu.Unlock()
			if err != nil {
				return
			}
		}
	}()
	var written []byte
	go func() { // writer
		defer wg.Done()
		for i := 0; i < packets; i++ {
			chunk := bytes.Repeat([]byte{byte('a' + i%26)}, 1+i%9)
			if _, err := conn.Write(chunk); err != nil {
				return
			}
			written = append(written, chunk...)
			if i%3 == 0 {
				if conn.Flush() != nil {
					return
				}
			}
		}
	}()
	// the peer injects packets while pumping (acknowledging the writer's stanzas)
	var sent []byte
	for i := 0; i < packets; i++ {
		chunk := bytes.Repeat([]byte{byte('A' + i%26)}, 1+i%5)
		sent = append(sent, chunk...)
		pl := base64.StdEncoding.EncodeToString(chunk)
		if carrier == "message" {
			p.feed(fmt.Sprintf(`<message xmlns="jabber:client" from="%s"><data xmlns="http://jabber.org/protocol/ibb" seq="%d" sid="S">%s</data></message>`, peerJID, i, pl))
		} else {
			p.feed(fmt.Sprintf(`<iq xmlns="jabber:client" type="set" id="in%d" from="%s"><data xmlns="http://jabber.org/protocol/ibb" seq="%d" sid="S">%s</data></iq>`, i, peerJID, i, pl))
		}
		for more := true; more; { // handle what the session has written so far (acknowledge data)
			select {
			case e, ok := <-p.in:
				if ok {
					p.handle(e)
				} else {
					more = false
				}
			default:
				more = false
			}
		}
	}
	// Close races with the reader and one more packet
	closed := make(chan error, 1)
	go func() {
		time.Sleep(time.Millisecond)
		closed <- conn.Close()
	}()
	p.feed(fmt.Sprintf(`<iq xmlns="jabber:client" type="set" id="last" from="%s"><data xmlns="http://jabber.org/protocol/ibb" seq="%d" sid="S">%s</data></iq>`, peerJID, packets, "Wg=="))
	done := make(chan struct{})
	go func() { wg.Wait(); close(done) }()
	ok := p.pump(func() bool {
		select {
		case <-done:
			return true
		default:
			return false
		}
	})
	if !ok {
		r.Fail("deliver", "concurrent-duplex-stalls", lines, "reader or writer did not finish after Close")
	}
	select {
	case <-closed:
	case <-time.After(watchdog):
		r.Fail("close", "close-does-not-return:concurrent", lines, "Close did not return")
	}
	mu.Lock()
	g := append([]byte(nil), got.Bytes()...)
	mu.Unlock()
	// everything that was acknowledged before the close must have been read, in order
	if !bytes.HasPrefix(append(append([]byte(nil), sent...), 'Z'), g) || len(g) < len(sent) {
		r.Fail("deliver", "concurrent-duplex-bytes-differ", lines, fmt.Sprintf("reader got %d bytes %q, peer sent %q", len(g), g, sent))
	}
	p.sync()
	var dec []byte
	for _, q := range p.packets {
		d, _ := base64.StdEncoding.DecodeString(q.payload)
		dec = append(dec, d...)
	}
	if ok && !bytes.Equal(dec, written) {
		r.Fail("deliver", "concurrent-duplex-sent-bytes-differ", lines, fmt.Sprintf("writer wrote %d bytes, stanzas carry %d", len(written), len(dec)))
	}
	_ = io.EOF
	r.Case(fmt.Sprintf("duplex-concurrent %s %d", carrier, packets), true, "concurrent")
}

// runTableConcurrent: the stream table under concurrent use.  The peer has 2k+1 streams open; a
// goroutine of the application opens and closes k streams of its own (OpenIQ registers, Close
// unregisters once the peer has answered).  The peer sends the close of one of ITS streams right
// behind every answer it gives (so the serve goroutine looks that stream up while the application
// goroutine, just woken by the answer, registers / unregisters its own), and data packets for the
// stream that stays open.  Free running; for the race detector, and as a functional check in the
// other tiers: every close and every packet is answered as if nothing else went on.
func runTableConcurrent(r *common.Run, carrier string, k int) {
	p, err := newPeer()
	if err != nil {
		return
	}
	defer p.stop()
	lines := []string{fmt.Sprintf("#stream table concurrent carrier=%s streams=%d (free running: the peer closes its streams while the application opens and closes others)", carrier, k)}
	ln := p.h.Listen(p.rs.S)
	np := 2*k + 1
	for i := 0; i < np; i++ {
		acc := make(chan net.Conn, 1)
		go func() { c, _ := ln.Accept(); acc <- c }()
		id := fmt.Sprintf("to%d", i)
		p.feed(fmt.Sprintf(`<iq xmlns="jabber:client" type="set" id="%s" from="%s" to="me@example.net/h"><open xmlns="http://jabber.org/protocol/ibb" sid="P%d" block-size="16" stanza="%s"/></iq>`, id, peerJID, i, carrier))
		select {
		case <-acc:
		case <-time.After(watchdog):
			r.Notes = append(r.Notes, "table-concurrent: setup failed")
			return
		}
		p.pump(func() bool { return p.replies[id] != "" })
	}
	done := make(chan string, 1)
	go func() {
		for i := 0; i < k; i++ {
			c, err := p.h.OpenIQ(context.Background(), stanza.IQ{To: jid.MustParse(peerJID)}, p.rs.S, carrier == "iq", 16, fmt.Sprintf("Q%d", i))
			if err != nil {
				done <- "OpenIQ: " + err.Error()
				return
			}
			if err = c.Close(); err != nil {
				done <- "Close: " + err.Error()
				return
			}
		}
		done <- ""
	}()
	next, nd := 0, 0
	res := "?"
	t := time.NewTimer(watchdog)
	defer t.Stop()
	for res == "?" {
		select {
		case e := <-p.in:
			name := ""
			if len(e.Children) > 0 {
				name = e.Children[0].XMLName.Local
			}
			if e.XMLName.Local == "iq" && e.Type == "set" && (name == "open" || name == "close") && next < np-1 {
				// the answer, and right behind it the close of one of the peer's own streams and a
				// packet for the stream that stays open
				p.feed(fmt.Sprintf(`<iq xmlns="jabber:client" type="result" id="%s" from="%s"/>`, e.ID, peerJID) +
					fmt.Sprintf(`<iq xmlns="jabber:client" type="set" id="tc%d" from="%s" to="me@example.net/h"><close xmlns="http://jabber.org/protocol/ibb" sid="P%d"/></iq>`, next, peerJID, next) +
					fmt.Sprintf(`<iq xmlns="jabber:client" type="set" id="td%d" from="%s" to="me@example.net/h"><data xmlns="http://jabber.org/protocol/ibb" seq="%d" sid="P%d">QQ==</data></iq>`, nd, peerJID, nd, np-1))
				next++
				nd++
			} else {
				p.handle(e)
			}
		case res = <-done:
		case <-t.C:
			res = "stalled"
			r.Fail("deliver", "concurrent-table-stalls", lines, "opening and closing streams while the peer closes others did not finish")
		}
	}
	if res != "" && res != "stalled" {
		r.Fail("deliver", "concurrent-table-open-or-close-failed", lines, res)
	}
	if !p.sync() {
		r.Fail("serve-continues", "serve-stalled-after-concurrent-table", lines, "the serve loop no longer answers")
	}
	for i := 0; i < nd; i++ {
		if rep := p.replies[fmt.Sprintf("td%d", i)]; rep != "ack" {
			r.Fail("deliver", "concurrent-table-packet-refused", lines, fmt.Sprintf("packet %d of the stream that stays open was answered %q", i, rep))
			break
		}
	}
	for i := 0; i < next; i++ {
		if rep := p.replies[fmt.Sprintf("tc%d", i)]; rep != "ack" {
			r.Fail("close", "concurrent-table-close-refused", lines, fmt.Sprintf("the peer's close of its open stream %d was answered %q", i, rep))
			break
		}
	}
	r.Case(fmt.Sprintf("table-concurrent %s %d", carrier, k), true, "concurrent")
}

// runPeerCloseWhileWriting: the peer's <close/> arrives while the application is inside Write /
// Flush on the same connection (review C, finding 1).  A goroutine of the application writes and
// flushes in a loop until Write fails; the scripted peer acknowledges data stanzas and, once it has
// seen `after` of them, sends its <close/> - with the IQ carrier BEFORE it acknowledges the stanza
// the writer is waiting on (the realistic case of a peer that aborts), then answers that stanza with
// item-not-found like a peer that has forgotten the stream.  Free running; for the race detector,
// and as a functional check in every tier: the close is answered, the writer ends, and the data
// stanzas carry the written bytes exactly once and in order (a prefix of what Write was given).
func runPeerCloseWhileWriting(r *common.Run, carrier string, after int) {
	p, err := newPeer()
	if err != nil {
		return
	}
	defer p.stop()
	lines := []string{fmt.Sprintf("#peer close while the application writes carrier=%s after=%d (free running)", carrier, after)}
	ln := p.h.Listen(p.rs.S)
	acc := make(chan net.Conn, 1)
	go func() { c, _ := ln.Accept(); acc <- c }()
	p.feed(fmt.Sprintf(`<iq xmlns="jabber:client" type="set" id="o1" from="%s" to="me@example.net/h"><open xmlns="http://jabber.org/protocol/ibb" sid="S" block-size="16" stanza="%s"/></iq>`, peerJID, carrier))
	var nc net.Conn
	select {
	case nc = <-acc:
	case <-time.After(watchdog):
		return
	}
	conn := nc.(*ibb.Conn)
	p.pump(func() bool { return p.replies["o1"] != "" })
	var attempted []byte // everything handed to Write, in order (also the chunk of a Write that failed)
	wdone := make(chan struct{})
	go func() {
		defer close(wdone)
		for i := 0; i < 4000; i++ {
			chunk := bytes.Repeat([]byte{byte('a' + i%26)}, 1+i%23)
			attempted = append(attempted, chunk...)
			if _, err := conn.Write(chunk); err != nil {
				return
			}
			if i%2 == 0 {
				if conn.Flush() != nil {
					return
				}
			}
		}
	}()
	seen, closeSent := 0, false
	t := time.NewTimer(watchdog)
	defer t.Stop()
	finished := false
	for !finished {
		select {
		case e := <-p.in:
			name := ""
			if len(e.Children) > 0 {
				name = e.Children[0].XMLName.Local
			}
			if name == "data" && (e.XMLName.Local == "iq" && e.Type == "set" || e.XMLName.Local == "message") {
				seen++
				if seen >= after && !closeSent {
					closeSent = true
					c := e.Children[0]
					p.packets = append(p.packets, pkt{c.Seq, c.SID, c.Data})
					cl := fmt.Sprintf(`<iq xmlns="jabber:client" type="set" id="pc1" from="%s" to="me@example.net/h"><close xmlns="http://jabber.org/protocol/ibb" sid="S"/></iq>`, peerJID)
					if e.XMLName.Local == "iq" {
						cl += fmt.Sprintf(`<iq xmlns="jabber:client" type="result" id="%s" from="%s"/>`, e.ID, peerJID)
					}
					p.feed(cl)
					continue
				}
				if closeSent && e.XMLName.Local == "iq" {
					// data after the close: the peer has no such stream any more
					c := e.Children[0]
					p.packets = append(p.packets, pkt{c.Seq, c.SID, c.Data})
					p.feed(fmt.Sprintf(`<iq xmlns="jabber:client" type="error" id="%s" from="%s"><error type="cancel"><item-not-found xmlns="urn:ietf:params:xml:ns:xmpp-stanzas"/></error></iq>`, e.ID, peerJID))
					continue
				}
			}
			p.handle(e)
		case <-wdone:
			finished = true
		case <-t.C:
			finished = true
			if !closeSent {
				r.Notes = append(r.Notes, "peer-close-while-writing: the close was never sent")
				return
			}
			r.Fail("close", "writer-does-not-end-after-peer-close:"+carrier, lines, "the peer closed the stream while the application was writing; its Write / Flush calls have not returned an error within the watchdog")
		}
	}
	if !closeSent {
		return
	}
	if !p.pump(func() bool { return p.replies["pc1"] != "" }) {
		r.Fail("close", "peer-close-not-answered-while-writing:"+carrier, lines, "the peer's <close/>, sent while the application was inside Write, was not answered")
	} else if p.replies["pc1"] != "ack" {
		r.Fail("close", "peer-close-refused-while-writing:"+carrier, lines, "the peer's <close/> was answered "+p.replies["pc1"])
	}
	if !p.sync() {
		r.Fail("serve-continues", "serve-stalled-after-peer-close-while-writing", lines, "the serve loop no longer answers")
	}
	<-wdoneOr(wdone)
	var dec []byte
	seqOK := true
	for i, q := range p.packets {
		d, _ := base64.StdEncoding.DecodeString(q.payload)
		dec = append(dec, d...)
		if q.seq != fmt.Sprint(i%65536) {
			seqOK = false
		}
	}
	if !bytes.HasPrefix(attempted, dec) {
		r.Fail("deliver", "bytes-duplicated-or-reordered-by-peer-close-while-writing", lines, fmt.Sprintf("the data stanzas carry %d bytes that are not a prefix of the %d bytes given to Write (first difference at %d)", len(dec), len(attempted), firstDiff(attempted, dec)))
	}
	if !seqOK {
		r.Fail("seq", "packet-numbers-not-consecutive-after-peer-close-while-writing", lines, "data stanzas are not numbered consecutively from 0")
	}
	r.Case(fmt.Sprintf("peer-close-while-writing %s %d", carrier, after), true, "concurrent")
}

func wdoneOr(c chan struct{}) chan struct{} {
	o := make(chan struct{})
	go func() {
		select {
		case <-c:
		case <-time.After(watchdog):
		}
		close(o)
	}()
	return o
}

func firstDiff(a, b []byte) int {
	for i := range b {
		if i >= len(a) || a[i] != b[i] {
			return i
		}
	}
	return len(b)
}
