package c15

import (
	"verifharness/common"
)

// File owned by the C06 builder (property C06, round C): the listener instance of "every
// correlated wait ends once with its own reply".  Every history over Accept, Expect, the end of
// an Expect's context, an incoming open request and Listener.Close of bounded length — among
// them an Expect that is replaced by a second call for the same stream before the request
// arrives, and an Expect that gave up.  Uses the C15 executor, model line and oracle unchanged.
func RunC06Listener(r *common.Run) {
	alphabet := []string{"A", "O", "E", "X", "K"}
	max := r.Pick(4, 5)
	n := 0
	var rec func(prefix []string)
	rec = func(prefix []string) {
		if len(prefix) > 1 {
			if len(r.Failures) >= 60 {
				return
			}
			r.Mark("case ibb-listener-all %d", n)
			n++
			runListener(r, append([]string{}, prefix...), "listener-exhaustive")
		}
		if len(prefix) == max+1 {
			return
		}
		for _, a := range alphabet {
			rec(append(append([]string{}, prefix...), a))
		}
	}
	rec([]string{"L"})
	r.Exhaustive = append(r.Exhaustive, "IBB listener: every history of <= 4 (thorough: 5) operations over Accept / Expect / cancel / open request / Close after Listen")
}
