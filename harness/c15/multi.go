package c15

import (
	"bytes"
	"context"
	"encoding/base64"
	"fmt"
	"io"
	"math/big"
	"net"
	"os"
	"strconv"
	"strings"
	"time"

	"mellium.im/xmpp/ibb"
	"mellium.im/xmpp/jid"
	"mellium.im/xmpp/stanza"

	"verifharness/common"
)

// Several streams on ONE Handler, session ids used again after a close (round D).
//
//	C15 multi <ops>   ops `,`-joined:
//	    o<sid>  the peer opens a stream with that sid and Accept takes it     O<sid>  we open it (OpenIQ, sid chosen by us)
//	    d<sid>:<seq>:<payload>  the peer's data packet for that sid (fields as in `recv`)
//	    c<sid>  the peer's <close/>      C<h>  local Close of connection h     r<h>:<n>  Read on connection h
//	connections are numbered 0,1,... in the order they were opened.
//	observation per op: o / ack|inf|unx|bad|res / c|inf / c / D<hex>|EOF
type mop struct {
	kind    byte
	sid, h  int
	seq     string
	payload string
	segs    []seg
	n       int
}

func (o mop) tok() string {
	switch o.kind {
	case 'o', 'O', 'c':
		return fmt.Sprintf("%c%d", o.kind, o.sid)
	case 'C':
		return fmt.Sprintf("C%d", o.h)
	case 'r':
		return fmt.Sprintf("r%d:%d", o.h, o.n)
	}
	d := rop{kind: 'd', known: true, attr: o.seq, raw: true, payload: o.payload, segs: o.segs}
	return fmt.Sprintf("d%d:%s", o.sid, strings.SplitN(d.tok(), ":", 3)[2])
}

func parseMultiOps(f string) []mop {
	var ops []mop
	for _, t := range strings.Split(f, ",") {
		if t == "" {
			continue
		}
		p := strings.Split(t, ":")
		num, _ := strconv.Atoi(p[0][1:])
		switch {
		case len(p) == 1 && strings.ContainsRune("oOc", rune(t[0])):
			ops = append(ops, mop{kind: t[0], sid: num})
		case len(p) == 1 && t[0] == 'C':
			ops = append(ops, mop{kind: 'C', h: num})
		case len(p) == 2 && t[0] == 'r':
			n, _ := strconv.Atoi(p[1])
			ops = append(ops, mop{kind: 'r', h: num, n: n})
		case len(p) == 3 && t[0] == 'd':
			seq := p[1]
			if strings.HasPrefix(seq, "x") {
				b, _ := common.UnHex(seq[1:])
				seq = string(b)
			}
			pl, segs := parsePayloadTok(p[2])
			ops = append(ops, mop{kind: 'd', sid: num, seq: seq, payload: pl, segs: segs})
		}
	}
	return ops
}

type mconn struct {
	c        *ibb.Conn
	sid      int
	exp      int
	accepted []byte
	got      []byte
	unread   int
	closed   bool
}

func runMulti(r *common.Run, carrier string, ops []mop, class string) {
	p, err := newPeer()
	if err != nil {
		r.Notes = append(r.Notes, "setup: "+err.Error())
		return
	}
	defer p.stop()
	ln := p.h.Listen(p.rs.S)
	// one acceptor for the whole case (an open that is refused must not leave an Accept call behind
	// that takes the next stream); it ends when the listener is closed
	accCh := make(chan net.Conn, 64)
	go func() {
		for {
			c, err := ln.Accept()
			if err != nil {
				return
			}
			accCh <- c
		}
	}()
	defer ln.Close()
	var conns []*mconn
	cur := map[int]int{}   // sid -> connection that owns it now
	used := map[int]bool{} // sids that had a stream before
	var toks, obs []string
	line := func() []string {
		return []string{fmt.Sprintf("%s multi %s", r.Prop, common.Join(toks, ",")), "#carrier=" + carrier}
	}
	problem := func(why string) {
		r.Hist["problem"]++
		obs = append(obs, "PROBLEM:"+strings.ReplaceAll(why, " ", "_"))
	}
	nid := 0
	for _, o := range ops {
		if len(obs) > 0 && strings.HasPrefix(obs[len(obs)-1], "PROBLEM") {
			break
		}
		nid++
		switch o.kind {
		case 'o', 'O':
			if _, open := cur[o.sid]; open {
				if o.kind == 'O' {
					continue // OpenIQ with a session id of our own that is still in use: not generated
				}
				// an <open/> for a session id that is IN USE (from the peer, or - o.n = 1 - from a third
				// party): it must be refused and must not disturb the stream that has the id
				id := fmt.Sprintf("mo%d", nid)
				from := peerJID
				if o.n == 1 {
					from = "mallory@example.org/m"
				}
				p.feed(fmt.Sprintf(`<iq xmlns="jabber:client" type="set" id="%s" from="%s" to="me@example.net/h"><open xmlns="http://jabber.org/protocol/ibb" sid="M%d" block-size="4" stanza="%s"/></iq>`, id, from, o.sid, carrier))
				toks = append(toks, o.tok())
				if !p.pump(func() bool { return p.replies[id] != "" }) {
					problem("no answer to an open for a session id in use")
					continue
				}
				if p.replies[id] == "ack" {
					r.Fail("open-iff-accepted", "open-for-session-id-in-use-accepted", line(), fmt.Sprintf("a stream with session id %d is open; a second <open/> for the same id (from %s) was answered with a result: the table entry of the stream in use is replaced, its later packets reach the wrong connection", o.sid, from))
					var c2 *ibb.Conn
					select {
					case c := <-accCh:
						c2, _ = c.(*ibb.Conn)
					case <-time.After(watchdog):
					}
					if c2 == nil {
						problem("accepted second open not handed over")
						continue
					}
					obs = append(obs, "o")
					cur[o.sid] = len(conns)
					conns = append(conns, &mconn{c: c2, sid: o.sid})
					continue
				}
				code, ok := replyCode[p.replies[id]]
				if !ok {
					code = "other:" + p.replies[id]
				}
				obs = append(obs, code)
				continue
			}
			sid := fmt.Sprintf("M%d", o.sid)
			var conn *ibb.Conn
			if o.kind == 'o' {
				acc := accCh
				id := fmt.Sprintf("mo%d", nid)
				p.feed(fmt.Sprintf(`<iq xmlns="jabber:client" type="set" id="%s" from="%s" to="me@example.net/h"><open xmlns="http://jabber.org/protocol/ibb" sid="%s" block-size="4" stanza="%s"/></iq>`, id, peerJID, sid, carrier))
				select {
				case c := <-acc:
					conn, _ = c.(*ibb.Conn)
				case <-time.After(watchdog):
				}
				if conn == nil || !p.pump(func() bool { return p.replies[id] != "" }) || p.replies[id] != "ack" {
					toks = append(toks, o.tok())
					problem("incoming open not accepted")
					continue
				}
			} else {
				och := make(chan *ibb.Conn, 1)
				go func() {
					c, _ := p.h.OpenIQ(context.Background(), stanza.IQ{To: jid.MustParse(peerJID)}, p.rs.S, carrier == "iq", 4, sid)
					och <- c
				}()
				if !p.pump(func() bool {
					select {
					case conn = <-och:
						return true
					default:
						return false
					}
				}) || conn == nil {
					toks = append(toks, o.tok())
					problem("OpenIQ failed")
					continue
				}
			}
			toks = append(toks, o.tok())
			obs = append(obs, "o")
			cur[o.sid] = len(conns)
			conns = append(conns, &mconn{c: conn, sid: o.sid})
		case 'd':
			id := fmt.Sprintf("md%d", nid)
			d := rop{payload: o.payload, segs: o.segs}
			if carrier == "message" {
				p.feed(fmt.Sprintf(`<message xmlns="jabber:client" id="%s" from="%s" to="me@example.net/h"><data xmlns="http://jabber.org/protocol/ibb" seq="%s" sid="M%d">%s</data></message>`, id, peerJID, xmlAttr(o.seq), o.sid, d.body()))
			} else {
				p.feed(fmt.Sprintf(`<iq xmlns="jabber:client" type="set" id="%s" from="%s" to="me@example.net/h"><data xmlns="http://jabber.org/protocol/ibb" seq="%s" sid="M%d">%s</data></iq>`, id, peerJID, xmlAttr(o.seq), o.sid, d.body()))
			}
			toks = append(toks, o.tok())
			if !p.sync() {
				problem("serve loop does not answer after a data packet")
				r.Fail("refuse", "serve-loop-ended:multi", line(), "a data packet ended or wedged the serve loop")
				continue
			}
			rep := p.replies[id]
			if carrier == "message" {
				rep = "ack"
				if e, ok := p.replies["msgerr:"+id]; ok {
					rep = e
				}
			}
			code, ok := replyCode[rep]
			if !ok {
				code = "other:" + rep
			}
			obs = append(obs, code)
			h, open := cur[o.sid]
			dec, derr := base64.StdEncoding.DecodeString(o.payload)
			wn, isNum := wireNumber(o.seq)
			inSeq := open && isNum && wn.Cmp(big.NewInt(int64(conns[h].exp))) == 0
			switch {
			case code == "ack" && !open:
				r.Fail("refuse", "packet-for-closed-or-unknown-stream-accepted", line(), fmt.Sprintf("no stream with sid %d is open (never opened, or closed) but its data packet was acknowledged", o.sid))
			case code == "ack" && (!inSeq || derr != nil):
				r.Fail("refuse", "bad-packet-accepted:multi", line(), fmt.Sprintf("packet seq %q payload %q for sid %d acknowledged; expected seq %d", o.seq, o.payload, o.sid, conns[h].exp))
			case code != "ack" && open && inSeq && derr == nil && isCanonical(o.seq):
				r.Fail("deliver", fmt.Sprintf("valid-packet-for-open-stream-refused:sid-used-before=%v", used[o.sid]), line(),
					fmt.Sprintf("the stream with sid %d (connection %d) is open and accepted, packet seq %s (%q) is valid and in sequence, but it was answered %s (sid used by an earlier, closed stream: %v; other streams open: %d): the bytes are lost", o.sid, h, o.seq, o.payload, code, used[o.sid], len(cur)-1))
			}
			if code == "ack" && open {
				conns[h].accepted = append(conns[h].accepted, dec...)
				conns[h].unread += len(dec)
				conns[h].exp = (conns[h].exp + 1) % 65536
			}
		case 'c':
			id := fmt.Sprintf("mc%d", nid)
			p.feed(fmt.Sprintf(`<iq xmlns="jabber:client" type="set" id="%s" from="%s" to="me@example.net/h"><close xmlns="http://jabber.org/protocol/ibb" sid="M%d"/></iq>`, id, peerJID, o.sid))
			toks = append(toks, o.tok())
			if !p.pump(func() bool { return p.replies[id] != "" }) {
				problem("no answer to close")
				continue
			}
			code := replyCode[p.replies[id]]
			h, open := cur[o.sid]
			switch {
			case code == "ack" && open:
				obs = append(obs, "c")
				conns[h].closed = true
				delete(cur, o.sid)
				used[o.sid] = true
			case code == "ack":
				obs = append(obs, "c")
				r.Fail("refuse", "close-for-unknown-stream-accepted", line(), fmt.Sprintf("no stream with sid %d is open but its <close/> was answered with a result", o.sid))
			default:
				if code == "" {
					code = "other:" + p.replies[id]
				}
				obs = append(obs, code)
				if open {
					r.Fail("close", "close-of-open-stream-refused", line(), fmt.Sprintf("the peer's <close/> for the open stream %d was answered %s", o.sid, p.replies[id]))
				}
			}
		case 'C':
			if o.h >= len(conns) {
				continue
			}
			toks = append(toks, o.tok())
			mc := conns[o.h]
			done := make(chan error, 1)
			go func() { done <- mc.c.Close() }()
			if !p.pump(func() bool {
				select {
				case <-done:
					return true
				default:
					return false
				}
			}) {
				problem("local Close does not return")
				continue
			}
			obs = append(obs, "c")
			if !mc.closed {
				mc.closed = true
				if cur[mc.sid] == o.h {
					delete(cur, mc.sid)
				}
				used[mc.sid] = true
			}
		case 'r':
			if o.h >= len(conns) || (conns[o.h].unread == 0 && !conns[o.h].closed) {
				continue // would block by design
			}
			mc := conns[o.h]
			toks = append(toks, o.tok())
			type res struct {
				b   []byte
				err error
			}
			ch := make(chan res, 1)
			go func() {
				b := make([]byte, o.n)
				k, err := mc.c.Read(b)
				ch <- res{b[:k], err}
			}()
			select {
			case x := <-ch:
				if len(x.b) == 0 && x.err == io.EOF {
					obs = append(obs, "EOF")
					if mc.unread > 0 {
						r.Fail("deliver", "eof-before-drained:multi", line(), fmt.Sprintf("connection %d: %d acknowledged bytes were never delivered", o.h, mc.unread))
					}
				} else {
					obs = append(obs, "D"+common.Hex(x.b))
					mc.got = append(mc.got, x.b...)
					if mc.unread -= len(x.b); mc.unread < 0 {
						mc.unread = 0
					}
				}
			case <-time.After(watchdog):
				obs = append(obs, "BLOCK")
				r.Fail("deliver", "read-blocks-with-data-or-after-close:multi", line(), fmt.Sprintf("connection %d: Read blocks although %d bytes are buffered / closed=%v", o.h, mc.unread, mc.closed))
				problem("read blocked")
			}
		}
	}
	for h, mc := range conns {
		if !bytes.HasPrefix(mc.accepted, mc.got) {
			r.Fail("deliver", "bytes-differ-from-acknowledged-payloads:multi", line(), fmt.Sprintf("connection %d (sid %d) read %x, the acknowledged packets of that stream decode to %x", h, mc.sid, mc.got, mc.accepted))
		}
	}
	l := "multi " + common.Join(toks, ",")
	r.Line(l, common.Join(obs, ","))
	if os.Getenv("VERIF_DEBUG") != "" {
		fmt.Fprintln(os.Stderr, l, "=>", common.Join(obs, ","))
	}
	r.Case(l+carrier, len(conns) > 0, class)
}

func md(sid, seq int, b []byte) mop {
	return mop{kind: 'd', sid: sid, seq: strconv.Itoa(seq), payload: b64(b)}
}

func multiCorpus() [][]mop {
	o := func(k byte, sid int) mop { return mop{kind: k, sid: sid} }
	rd := func(h, n int) mop { return mop{kind: 'r', h: h, n: n} }
	cl := func(h int) mop { return mop{kind: 'C', h: h} }
	var out [][]mop
	// an <open/> for a session id that is in use (from the peer / from a third party; stream opened by
	// either side): refused, the stream that has the id goes on undisturbed
	for _, open := range []byte{'o', 'O'} {
		out = append(out, []mop{o(open, 1), md(1, 0, []byte("ABC")), {kind: 'o', sid: 1}, md(1, 1, []byte("DEF")), {kind: 'o', sid: 1, n: 1}, md(1, 2, []byte("GHI")), rd(0, 64), o('c', 1), o('o', 1), md(1, 0, []byte("new")), rd(0, 8), rd(1, 8)})
	}
	// a session id is used again after the stream that had it was closed (by either side, opened by either side)
	for _, open := range []byte{'o', 'O'} {
		for _, closeLocal := range []bool{false, true} {
			c := o('c', 1)
			if closeLocal {
				c = cl(0)
			}
			out = append(out, []mop{o(open, 1), md(1, 0, []byte("ABC")), c, o(open, 1), md(1, 0, []byte("DEF")), md(1, 1, []byte("GHI")), rd(0, 8), rd(0, 8), rd(1, 8), o('c', 1), rd(1, 8)})
		}
	}
	out = append(out,
		// a packet for another stream in between
		[]mop{o('o', 1), md(1, 0, []byte("ABC")), o('c', 1), o('o', 2), md(2, 0, []byte("xyz")), o('o', 1), md(1, 0, []byte("DEF")), rd(0, 8), rd(2, 8), rd(1, 8)},
		// three generations of one sid, the middle one without any packet
		[]mop{o('O', 1), md(1, 0, []byte("A")), md(1, 1, []byte("B")), cl(0), o('o', 1), o('c', 1), o('O', 1), md(1, 1, []byte("no")), md(1, 0, []byte("C")), rd(0, 8), rd(1, 8), rd(2, 8)},
		// interleaved streams: counters and buffers are per stream
		[]mop{o('o', 1), o('O', 2), md(1, 0, []byte("a1")), md(2, 0, []byte("b1")), md(2, 1, []byte("b2")), md(1, 1, []byte("a2")), md(1, 1, []byte("a2")), md(2, 1, []byte("b2")), {kind: 'd', sid: 1, seq: "2", payload: "REVG!!!!"}, md(2, 2, []byte("b3")), rd(0, 64), rd(1, 64), o('c', 2), md(2, 3, []byte("late")), md(1, 2, []byte("a3")), rd(0, 64), rd(1, 64)},
		// packets and close for a sid that never existed / is closed, next to a live stream
		[]mop{md(3, 0, []byte("x")), o('c', 3), o('o', 1), md(3, 0, []byte("x")), md(1, 0, []byte("ok")), o('c', 1), o('c', 1), md(1, 1, []byte("late")), rd(0, 8), rd(0, 8)},
		// re-opened while the old connection still holds unread bytes; bodies in pieces
		[]mop{o('o', 2), md(2, 0, []byte("old-1")), md(2, 1, []byte("old-2")), o('c', 2), o('o', 2), {kind: 'd', sid: 2, seq: "0", payload: "QUJDREVG", segs: []seg{{'T', "QUJD"}, {'C', "REVG"}}}, rd(0, 3), rd(1, 64), rd(0, 64), rd(0, 8), cl(1), rd(1, 8)},
	)
	return out
}

func randMulti(rnd *common.Rand) []mop {
	var ops []mop
	type st struct {
		h, seq int
	}
	open := map[int]*st{}
	nconn := 0
	n := 5 + rnd.Intn(14)
	sids := 1 + rnd.Intn(3)
	for i := 0; i < n; i++ {
		sid := 1 + rnd.Intn(sids)
		s := open[sid]
		switch k := rnd.Intn(16); {
		case s == nil && k < 10:
			ops = append(ops, mop{kind: "oO"[rnd.Intn(2)], sid: sid})
			open[sid] = &st{h: nconn}
			nconn++
		case k < 8:
			b := make([]byte, rnd.Intn(7))
			for j := range b {
				b[j] = byte(rnd.Intn(256))
			}
			o := md(sid, 0, b)
			if s != nil {
				o.seq = strconv.Itoa(s.seq)
				s.seq++
			}
			if rnd.Chance(1, 6) {
				o.segs = splitSegs(rnd, o.payload)
			}
			ops = append(ops, o)
		case k == 8:
			seq := rnd.Intn(3)
			if s != nil {
				seq = s.seq + 1 + rnd.Intn(2)
			}
			ops = append(ops, mop{kind: 'd', sid: sid, seq: strconv.Itoa(seq), payload: "QUJD"})
		case k == 9:
			ops = append(ops, mop{kind: 'd', sid: sid, seq: "0", payload: []string{"REVG!!!!", "QUJ"}[rnd.Intn(2)]})
		case k == 12 && s != nil && rnd.Chance(1, 2):
			ops = append(ops, mop{kind: 'o', sid: sid, n: rnd.Intn(2)})
		case k < 13 && s != nil:
			if rnd.Bool() {
				ops = append(ops, mop{kind: 'c', sid: sid})
			} else {
				ops = append(ops, mop{kind: 'C', h: s.h})
			}
			delete(open, sid)
		case k == 13:
			ops = append(ops, mop{kind: 'c', sid: sid})
			delete(open, sid)
		default:
			if nconn > 0 {
				ops = append(ops, mop{kind: 'r', h: rnd.Intn(nconn), n: 1 + rnd.Intn(12)})
			}
		}
	}
	for h := 0; h < nconn; h++ {
		ops = append(ops, mop{kind: 'r', h: h, n: 64})
	}
	return ops
}
