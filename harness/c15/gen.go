package c15

import (
	"encoding/base64"
	"fmt"
	"math/big"
	"strconv"
	"strings"

	"verifharness/common"
)

func b64(b []byte) string { return base64.StdEncoding.EncodeToString(b) }

func dgood(seq int, b []byte) rop {
	return rop{kind: 'd', known: true, seq: seq, payload: b64(b), cls: "good"}
}

// seqAttr: a data packet for the stream whose seq attribute is the given text.
func seqAttr(text, payload string) rop {
	n, _ := strconv.Atoi(text)
	return rop{kind: 'd', known: true, seq: n, attr: text, raw: true, payload: payload, cls: "seqattr"}
}

// corpus of receiver histories (seq numbers are absolute).
func recvCorpus() []struct {
	maxbuf int
	ops    []rop
} {
	bad := func(seq int, pl, cls string) rop { return rop{kind: 'd', known: true, seq: seq, payload: pl, cls: cls} }
	rd := func(n int) rop { return rop{kind: 'r', n: n} }
	return []struct {
		maxbuf int
		ops    []rop
	}{
		{0, []rop{dgood(0, []byte("ABC")), rd(8), dgood(1, []byte("DEF")), dgood(2, []byte("G")), rd(2), rd(8)}},
		// DESIGN §5: corrupt packet after a good one, retransmission, next packet
		{0, []rop{dgood(0, []byte("ABC")), bad(1, "REVG!!!!", "corrupt"), dgood(1, []byte("DEF")), dgood(2, []byte("JKL")), rd(16)}},
		{0, []rop{bad(0, "QUJ", "truncated"), dgood(0, []byte("ABC")), rd(8)}},
		{0, []rop{bad(0, "QUJDRA", "truncated"), dgood(0, []byte("ABC")), rd(8)}},
		{0, []rop{bad(0, "QUJD\nREVG", "newline"), rd(8)}},
		{0, []rop{bad(0, "QQ==QUJD", "corrupt"), dgood(0, []byte("x")), rd(8)}},
		{8, []rop{dgood(0, []byte("ABCDEF")), {kind: 'd', known: true, seq: 1, payload: b64([]byte("GHIJKL")), cls: "oversize"}, rd(8), dgood(1, []byte("GHIJKL")), rd(8)}},
		{8, []rop{dgood(0, []byte("ABCDEFG")), dgood(1, []byte("H")), rd(16)}}, // exactly full: must fit
		{0, []rop{dgood(0, []byte("A")), {kind: 'd', known: true, seq: 5, payload: "QUJD", cls: "wrongseq"}, {kind: 'd', known: true, seq: 0, payload: "QUJD", cls: "wrongseq"}, dgood(1, []byte("B")), rd(8)}},
		{0, []rop{{kind: 'd', known: false, seq: 0, payload: "QUJD", cls: "unknownsid"}, dgood(0, []byte("A")), rd(8)}},
		{0, []rop{dgood(0, []byte("ABC")), {kind: 'c'}, dgood(1, []byte("DEF")), rd(2), rd(8), rd(8)}}, // peer closes: drain, EOF, later data refused
		{0, []rop{dgood(0, []byte("ABC")), {kind: 'C'}, dgood(1, []byte("DEF")), rd(8), rd(8)}},        // local close: later data must be refused, not panic
		{0, []rop{{kind: 'C'}, dgood(0, []byte("ABC")), dgood(0, []byte("ABC"))}},
		{0, []rop{dgood(0, nil), dgood(1, []byte("Z")), rd(4)}},
		// SetReadBuffer in the middle of a history: after a burst and a drain the limit is the
		// requested one (block size 4), not whatever the buffer once grew to
		{0, []rop{dgood(0, []byte("0123456789abcdefghijklmnopqrstuvwxyz0123456789")), rd(64), {kind: 'b', n: 8}, dgood(1, []byte("123456789")), dgood(1, []byte("12345678")), rd(64), dgood(2, []byte("1"))}},
		{0, []rop{dgood(0, []byte("0123456789abcdefghij")), dgood(1, []byte("0123456789abcdefghij")), {kind: 'b', n: 10}, dgood(2, []byte("x")), rd(64), dgood(2, []byte("0123456789a")), dgood(2, []byte("0123456789")), rd(64)}},
		{8, []rop{dgood(0, []byte("12345678")), {kind: 'b', n: 2}, rd(8), dgood(1, []byte("12345")), dgood(1, []byte("1234")), {kind: 'b', n: 0}, dgood(2, []byte("0123456789abcdefghijklmnopqrstuvwxyz")), rd(64), {kind: 'b', n: 12}, dgood(3, []byte("0123456789abc"))}},
		// after a close the reader drains with buffers much smaller than what is pending
		{0, []rop{dgood(0, []byte("0123456789abcdefghijklmnopqrstuvwxyz")), {kind: 'c'}, rd(1), rd(7), rd(1), rd(7), rd(7), rd(64), rd(1)}},
		{0, []rop{dgood(0, []byte("0123456789abcdefghij")), dgood(1, []byte("klmnopqrstuvwxyz")), {kind: 'C'}, rd(7), rd(7), rd(1), rd(64), rd(64)}},
		{0, []rop{dgood(0, []byte("abcdefgh")), rd(1), {kind: 'c'}, rd(1), rd(1), rd(64), rd(64)}},
		// the seq attribute as text: numbers outside 0..65535 that are congruent to the expected one,
		// numerals with leading zeros, attributes that are no numeral at all
		{0, []rop{dgood(0, []byte("AAA")), seqAttr("65537", "ZXZpbA=="), dgood(1, []byte("BBB")), rd(16)}},
		{0, []rop{seqAttr("65536", "ZXZpbA=="), dgood(0, []byte("AAA")), seqAttr("4294967297", "ZXZpbA=="), seqAttr("18446744073709551617", "ZXZpbA=="), dgood(1, []byte("BBB")), rd(16)}},
		{0, []rop{seqAttr("-1", "QUJD"), seqAttr("", "QUJD"), seqAttr("zero", "QUJD"), seqAttr("0x0", "QUJD"), seqAttr("0.0", "QUJD"), dgood(0, []byte("A")), seqAttr("01", "Qg=="), seqAttr("1e0", "QUJD"), rd(8)}},
		// packets of the peer that arrive while the local Close waits for the answer to its <close/>
		// (what the peer had written and flushes when it handles the request): delivered, then EOF
		{0, []rop{dgood(0, []byte("ABC")), {kind: 'C', tail: []rop{dgood(1, []byte("last words"))}}, dgood(2, []byte("late")), rd(64), rd(8)}},
		{0, []rop{{kind: 'C', tail: []rop{dgood(0, []byte("a")), dgood(1, []byte("bc")), bad(2, "REVG!!!!", "corrupt"), dgood(2, []byte("def"))}}, rd(2), rd(64), rd(8)}},
		{8, []rop{dgood(0, []byte("ABCDEF")), {kind: 'w', data: []byte("xy")}, {kind: 'C', tail: []rop{dgood(1, []byte("GH")), dgood(2, []byte("I")), dgood(2, []byte("J"))}}, rd(4), rd(64), rd(4)}},
		// the body of a <data/> element is XML character data: it may be serialised in several pieces
		// (text, CDATA sections, character references); the payload is ALL of it, in order
		{0, []rop{dgood(0, nil).segmented([]seg{{'T', "QUJD"}, {'C', "REVG"}}), rd(16)}},
		{0, []rop{dgood(0, []byte("xyz")), dgood(1, nil).segmented([]seg{{'C', "QUJD"}, {'T', "REVG"}, {'C', "R0hJ"}}), dgood(2, []byte("!")), rd(64)}},
		{0, []rop{dgood(0, nil).segmented([]seg{{'T', "QU"}, {'C', "JD"}}), dgood(1, nil).segmented([]seg{{'E', "REVG"}}), dgood(2, nil).segmented([]seg{{'T', "R0"}, {'E', "hJ"}, {'C', ""}, {'T', "SktM"}}), rd(64)}},
		{0, []rop{dgood(0, nil).segmented([]seg{{'C', "QQ"}, {'T', "=="}}), dgood(1, nil).segmented([]seg{{'C', ""}}), dgood(2, nil).segmented([]seg{{'T', "Qg=="}, {'C', ""}}), rd(8)}},
		{0, []rop{bad(0, "", "corrupt").segmented([]seg{{'T', "Q!JD"}, {'C', "REVG"}}), bad(0, "", "truncated").segmented([]seg{{'T', "QUJD"}, {'C', "RA"}}), bad(0, "", "truncated").segmented([]seg{{'T', "QUJDR"}, {'C', "REVG"}}), dgood(0, nil).segmented([]seg{{'T', "QUJD"}, {'C', "REVG"}}), rd(64)}},
		{8, []rop{dgood(0, []byte("ABCDEF")), rop{kind: 'd', known: true, seq: 1, cls: "oversize"}.segmented([]seg{{'C', "R0hJ"}, {'T', "SktM"}}), rd(8), dgood(1, nil).segmented([]seg{{'C', "R0hJ"}, {'T', "SktM"}}), rd(8)}},
		{0, []rop{dgood(0, []byte("ABC")), {kind: 'C', tail: []rop{dgood(1, nil).segmented([]seg{{'T', "bGFzdCB3"}, {'C', "b3Jkcw=="}})}}, rd(64), rd(8)}},
		// message carrier: the packet is one child among others of its <message/> (processing hints,
		// thread, body, white space, an element named data in another namespace, an IBB element nested
		// in another child) - before it, after it, on both sides; good and bad packets alike
		{0, []rop{dgood(0, []byte("plain, ")), dgood(1, []byte("hint after, ")).among(nil, []int{0}), dgood(2, []byte("hint before, ")).among([]int{0}, nil), dgood(3, []byte("thread and hint before")).among([]int{1, 0}, nil), rd(128)}},
		{0, []rop{dgood(0, []byte("ABC")).among([]int{2}, nil), dgood(1, []byte("DEF")).among([]int{3}, []int{3}), dgood(2, []byte("GHI")).among([]int{4}, nil), dgood(3, []byte("JKL")).among(nil, []int{4}), dgood(4, []byte("MNO")).among([]int{5}, []int{5}), rd(64)}},
		{0, []rop{bad(0, "REVG!!!!", "corrupt").among([]int{0}, nil), dgood(0, []byte("ABC")).among([]int{0, 1, 2, 3}, []int{3, 0}), rop{kind: 'd', known: true, seq: 5, payload: "QUJD", cls: "wrongseq"}.among([]int{1}, nil), rop{kind: 'd', known: false, seq: 1, payload: "QUJD", cls: "unknownsid"}.among([]int{0}, []int{0}), dgood(1, nil).segmented([]seg{{'T', "REVG"}, {'C', "R0hJ"}}).among([]int{0}, []int{1}), rd(64)}},
		{8, []rop{dgood(0, []byte("ABCDEF")).among([]int{0}, nil), rop{kind: 'd', known: true, seq: 1, payload: b64([]byte("GHIJKL")), cls: "oversize"}.among([]int{0}, nil), rd(8), dgood(1, []byte("GHIJKL")).among(nil, []int{2}), {kind: 'C', tail: []rop{dgood(2, []byte("mn")).among([]int{0}, nil)}}, rd(8), rd(8), rd(8)}},
		// stanzas that name the session id of the stream but come from somebody else (another resource
		// of the peer, its bare address, a third party, the server): not packets of this stream
		{0, []rop{dgood(0, []byte("ABC")), {kind: 'd', known: true, seq: 1, payload: "ZXZpbA==", cls: "othersender", sender: 3}, {kind: 'd', known: true, seq: 1, payload: "ZXZpbA==", cls: "othersender", sender: 1}, {kind: 'x', sender: 3}, dgood(1, []byte("DEF")), {kind: 'd', known: true, seq: 2, payload: "ZXZpbA==", cls: "othersender", sender: 2}, {kind: 'x', sender: 1}, {kind: 'd', known: true, seq: 2, payload: "ZXZpbA==", cls: "othersender", sender: 4}, {kind: 'x', sender: 4}, dgood(2, []byte("GHI")), rd(64), {kind: 'c'}, rd(8)}},
		// both directions at once on one connection
		{0, []rop{{kind: 'w', data: []byte("hello")}, dgood(0, []byte("ABC")), {kind: 'w', data: []byte("wo")}, bad(1, "REVG!!!!", "corrupt"), {kind: 'w', data: []byte("rld!")}, dgood(1, []byte("DEF")), rd(16), {kind: 'C'}}},
		{8, []rop{dgood(0, []byte("ABCDEF")), {kind: 'w', data: []byte("xy")}, {kind: 'c'}, {kind: 'w', data: []byte("late")}, rd(16), rd(4)}},
	}
}

func randRecv(rnd *common.Rand) (int, []rop) {
	maxbuf := []int{0, 0, 8, 12}[rnd.Intn(4)]
	var ops []rop
	seq := rnd.Intn(3) * 0 // streams start at 0
	n := 3 + rnd.Intn(12)
	closed := false
	for i := 0; i < n; i++ {
		switch k := rnd.Intn(16); {
		case k < 7:
			b := make([]byte, rnd.Intn(7))
			for j := range b {
				b[j] = byte(rnd.Intn(256))
			}
			ops = append(ops, dgood(seq, b))
			seq++ // optimistic: if it is refused (oversize) the next good one is out of sequence, which is fine
			if maxbuf > 0 && rnd.Chance(1, 2) {
				seq-- // retransmit the same number next
			}
		case k == 7:
			ops = append(ops, rop{kind: 'd', known: true, seq: seq, payload: []string{"REVG!!!!", "Q!JD", "QUJD=", "=QUJ", "QUJD*REVG"}[rnd.Intn(5)], cls: "corrupt"})
		case k == 8:
			ops = append(ops, rop{kind: 'd', known: true, seq: seq, payload: []string{"QUJ", "Q", "QUJDRA", "QUJDR"}[rnd.Intn(4)], cls: "truncated"})
		case k == 9:
			ops = append(ops, rop{kind: 'd', known: true, seq: seq + 1 + rnd.Intn(3), payload: "QUJD", cls: "wrongseq"})
		case k == 10 && rnd.Chance(1, 2):
			// the seq attribute as text: the expected number plus a multiple of 65536 (also beyond 32
			// and 64 bits), other numbers above 65535, leading zeros, text that is no numeral
			var a string
			switch rnd.Intn(6) {
			case 0:
				a = strconv.Itoa(seq + 65536*(1+rnd.Intn(3)))
			case 1:
				a = new(big.Int).Add(big.NewInt(int64(seq)), new(big.Int).Lsh(big.NewInt(1), uint([]int{16, 17, 32, 33, 64}[rnd.Intn(5)]))).String()
			case 2:
				a = strconv.Itoa(65536 + rnd.Intn(200000))
			case 3:
				a = strings.Repeat("0", 1+rnd.Intn(3)) + strconv.Itoa(seq+rnd.Intn(2))
			case 4:
				a = []string{"", "-1", "-0", "0x0", "1.0", "1e0", "seq", "0 0", "٠"}[rnd.Intn(9)]
			default:
				a = "-" + strconv.Itoa(65536-seq)
			}
			ops = append(ops, seqAttr(a, "QUJD"))
		case k == 10 && rnd.Chance(1, 2):
			if rnd.Chance(1, 3) {
				ops = append(ops, rop{kind: 'x', sender: 1 + rnd.Intn(4)})
			} else {
				ops = append(ops, rop{kind: 'd', known: true, seq: seq, payload: "ZXZpbA==", cls: "othersender", sender: 1 + rnd.Intn(4)})
			}
		case k == 10:
			ops = append(ops, rop{kind: 'd', known: false, seq: seq, payload: "QUJD", cls: "unknownsid"})
		case k == 11 && !closed && rnd.Chance(1, 2):
			closed = true
			c := rop{kind: "cC"[rnd.Intn(2)]}
			if c.kind == 'C' && rnd.Chance(2, 3) {
				// the peer's packets in flight while Close waits for the answer
				for k, m := 0, 1+rnd.Intn(3); k < m; k++ {
					if rnd.Chance(1, 5) {
						c.tail = append(c.tail, rop{kind: 'd', known: true, seq: seq, payload: []string{"REVG!!!!", "QUJ"}[rnd.Intn(2)], cls: "corrupt"})
						continue
					}
					b := make([]byte, 1+rnd.Intn(6))
					for j := range b {
						b[j] = byte(rnd.Intn(256))
					}
					c.tail = append(c.tail, dgood(seq, b))
					seq++
				}
			}
			ops = append(ops, c)
		case k == 14 && rnd.Chance(1, 2):
			ops = append(ops, rop{kind: 'b', n: []int{0, 1, 3, 4, 6, 8, 12, 20, 40}[rnd.Intn(9)]})
		case k == 15 && rnd.Chance(1, 3):
			b := make([]byte, 20+rnd.Intn(40)) // a burst that makes the read buffer grow
			for j := range b {
				b[j] = byte('a' + j%26)
			}
			ops = append(ops, dgood(seq, b))
			seq++
		case k == 12 || k == 13:
			b := make([]byte, rnd.Intn(9))
			for j := range b {
				b[j] = byte(rnd.Intn(256))
			}
			ops = append(ops, rop{kind: 'w', data: b})
		default:
			ops = append(ops, rop{kind: 'r', n: 1 + rnd.Intn(9)})
		}
	}
	ops = append(ops, rop{kind: 'r', n: 64})
	// how the body of a packet is serialised: about one packet in five (good or bad alike) is cut
	// into pieces at random places
	for i := range ops {
		if ops[i].kind == 'd' && rnd.Chance(1, 5) {
			ops[i] = ops[i].segmented(splitSegs(rnd, ops[i].payload))
		}
		for k := range ops[i].tail {
			if rnd.Chance(1, 5) {
				t := append([]rop(nil), ops[i].tail...)
				t[k] = t[k].segmented(splitSegs(rnd, t[k].payload))
				ops[i].tail = t
			}
		}
	}
	// the carrier message (used with the message carrier only): about one packet in five is one child
	// among 1..4 others, on either side
	shape := func(o rop) rop {
		var bf, af []int
		for k, m := 0, 1+rnd.Intn(4); k < m; k++ {
			if rnd.Bool() {
				bf = append(bf, rnd.Intn(6))
			} else {
				af = append(af, rnd.Intn(6))
			}
		}
		return o.among(bf, af)
	}
	for i := range ops {
		if ops[i].kind == 'd' && rnd.Chance(1, 5) {
			ops[i] = shape(ops[i])
		}
		for k := range ops[i].tail {
			if rnd.Chance(1, 5) {
				t := append([]rop(nil), ops[i].tail...)
				t[k] = shape(t[k])
				ops[i].tail = t
			}
		}
	}
	return maxbuf, ops
}

// splitSegs cuts a payload text into 1..4 pieces of random kinds (text, CDATA section, character
// references), now and then with an empty CDATA section in between.
func splitSegs(rnd *common.Rand, payload string) []seg {
	var ss []seg
	rest := payload
	for n := 1 + rnd.Intn(4); n > 0; n-- {
		cut := len(rest)
		if n > 1 {
			cut = rnd.Intn(len(rest) + 1)
		}
		ss = append(ss, seg{"TCCE"[rnd.Intn(4)], rest[:cut]})
		rest = rest[cut:]
		if rnd.Chance(1, 6) {
			ss = append(ss, seg{'C', ""})
		}
	}
	return ss
}

// setCarrier marks every data packet of a history (also those in flight at a close).
func setCarrier(ops []rop, msg bool) {
	for i := range ops {
		ops[i].msg = msg
		if len(ops[i].tail) > 0 {
			t := append([]rop(nil), ops[i].tail...)
			for k := range t {
				t[k].msg = msg
			}
			ops[i].tail = t
		}
	}
}

func parseRecvOps(f string) []rop {
	var ops []rop
	inTail := false
	for _, t := range strings.Split(f, ",") {
		p := strings.Split(t, ":")
		switch p[0] {
		case "d":
			if len(p) == 4 || len(p) == 5 {
				seq, err := strconv.Atoi(p[2])
				pl, segs := parsePayloadTok(p[3])
				o := rop{kind: 'd', known: p[1] == "1", seq: seq, payload: pl, segs: segs, cls: "replay"}
				if strings.HasPrefix(p[2], "x") {
					a, _ := common.UnHex(p[2][1:])
					o.attr, o.raw = string(a), true
				} else if err != nil || seq > 65535 {
					o.attr, o.raw = p[2], true
				}
				if len(p) == 5 {
					if bf, af, ok := parseShapeTok(p[4]); ok {
						o = o.among(bf, af)
					}
				}
				if inTail {
					ops[len(ops)-1].tail = append(ops[len(ops)-1].tail, o)
					continue
				}
				ops = append(ops, o)
			}
		case "x":
			ops = append(ops, rop{kind: 'x', sender: 3})
		case "b":
			n, _ := strconv.Atoi(p[1])
			ops = append(ops, rop{kind: 'b', n: n})
		case "h":
			ops = append(ops, rop{kind: 'C', tail: []rop{}})
			inTail = true
		case "c":
			if inTail {
				inTail = false
				continue
			}
			ops = append(ops, rop{kind: 'c'})
		case "r":
			n, _ := strconv.Atoi(p[1])
			ops = append(ops, rop{kind: 'r', n: n})
		}
	}
	return ops
}

func randSend(rnd *common.Rand, big bool) (bool, uint16, []sop) {
	acked := rnd.Bool()
	bs := []uint16{0, 1, 2, 3, 4, 5, 7, 16, 64, 1024, 4096}[rnd.Intn(11)]
	var ops []sop
	n := 1 + rnd.Intn(8)
	for i := 0; i < n; i++ {
		switch rnd.Intn(5) {
		case 0:
			ops = append(ops, sop{kind: 'f'})
		default:
			l := rnd.Intn(12)
			if rnd.Chance(1, 6) {
				l = int(bs) - 2 + rnd.Intn(5)
			}
			if big && rnd.Chance(1, 8) {
				l = 700 + rnd.Intn(3000)
			}
			if l < 0 {
				l = 0
			}
			b := make([]byte, l)
			for j := range b {
				b[j] = byte(rnd.Intn(256))
			}
			ops = append(ops, sop{kind: 'w', data: b})
		}
	}
	if rnd.Chance(3, 4) {
		ops = append(ops, sop{kind: 'C'})
	} else if rnd.Bool() {
		ops = append(ops, sop{kind: 'f'})
	}
	return acked, bs, ops
}

// RunWaits runs the scenarios in which a caller blocks on the stream (Read
// woken by data / close, stale signal, Close failing at each step): C06 uses
// them as its in-band bytestream instance.
func RunWaits(r *common.Run) {
	r.Mark("case ibb-wake 0")
	runWake(r, false)
	r.Mark("case ibb-wake 1")
	runWake(r, true)
	r.Mark("case ibb-wake 2")
	runStale(r)
	// several goroutines blocked in Read when the stream ends
	nr := 0
	for k := 2; k <= 4; k++ {
		for _, ev := range []string{"c", "C", "p,c", "p,C"} {
			r.Mark("case ibb-readers %d", nr)
			nr++
			runReaders(r, k, ev)
		}
	}
	for i, f := range []string{"none", "flush", "send", "reply", "deadline"} {
		r.Mark("case ibb-close-fail %d", i)
		runCloseFail(r, f, false)
		runCloseFail(r, f, true)
	}
	// the peer closes a stream that still holds unflushed / flushed data: the close path must
	// not wait on the serve goroutine for anything; then late replies to a finished stream
	nt := 0
	for _, carrier := range []string{"iq", "message"} {
		for n := 1; n <= 7; n++ {
			for _, flush := range []bool{false, true} {
				r.Mark("case ibb-peer-close %d", nt)
				nt++
				runTail(r, n%2 == 0, carrier, n, flush, true)
			}
		}
	}
	r.Mark("case ibb-late-replies")
	runLateReplies(r)
	// listener: Accept / Expect waits, also an Expect that has given up before its stream arrives
	for i, c := range []string{"L,A,O", "L,O,A", "L,E,O", "L,E,X,O,A", "L,A,E,O,O", "L,E,K,O", "L,A,K,O"} {
		r.Mark("case ibb-listener %d", i)
		runListener(r, strings.Split(c, ","), "listener-corpus")
	}
}

// Run is the C15 runner.
func Run(r *common.Run) error {
	if r.Replay != "" {
		lines, err := common.ReplayLines(r.Replay)
		if err != nil {
			return err
		}
		for _, l := range lines {
			f := strings.Fields(l)
			if len(f) < 3 || f[0] != "C15" {
				continue
			}
			switch f[1] {
			case "recv":
				mb, _ := strconv.Atoi(f[2])
				for _, carrier := range []string{"iq", "message"} {
					ops := parseRecvOps(f[3])
					setCarrier(ops, carrier == "message")
					runRecv(r, mb, carrier, ops, "replay")
				}
				runWake(r, false)
				runWake(r, true)
			case "multi":
				for _, carrier := range []string{"iq", "message"} {
					runMulti(r, carrier, parseMultiOps(f[2]), "replay")
				}
			case "readers":
				k, _ := strconv.Atoi(f[2])
				for _, ev := range []string{"c", "C"} {
					e := ev
					if strings.HasPrefix(f[3], "P") {
						e = "p," + ev
					}
					runReaders(r, k, e)
				}
			case "lsn":
				ops := strings.Split(f[2], ",")
				for i := range ops {
					if ops[i][0] == 'O' || ops[i][0] == 'E' {
						ops[i] = ops[i][:1]
					}
				}
				runListener(r, ops, "replay")
			case "close":
				runCloseFail(r, f[2], false)
				runCloseFail(r, f[2], true)
			case "open":
				runSend(r, f[2] == "1", true, 0, nil, "replay")
			case "emit":
				b, _ := common.UnHex(f[3])
				for _, bs := range []uint16{0, 3, 5} {
					runSend(r, true, true, bs, []sop{{kind: 'w', data: b}, {kind: 'C'}}, "replay")
					runSend(r, true, false, bs, []sop{{kind: 'w', data: b}, {kind: 'f'}}, "replay")
				}
			}
		}
		return nil
	}
	// free-running concurrent use of both directions (the race-detector run is this plus the
	// forced wake-up and close-fail scenarios)
	for i, carrier := range []string{"iq", "message"} {
		r.Mark("case duplex-concurrent %d", i)
		runDuplexConcurrent(r, carrier, r.Pick(20, 60))
	}
	for i, carrier := range []string{"iq", "message"} {
		r.Mark("case table-concurrent %d", i)
		runTableConcurrent(r, carrier, r.Pick(6, 12))
	}
	npc := 0
	for _, carrier := range []string{"iq", "message"} {
		for _, after := range []int{1, 2, r.Pick(5, 9)} {
			r.Mark("case peer-close-while-writing %d", npc)
			npc++
			runPeerCloseWhileWriting(r, carrier, after)
		}
	}
	if r.Race() {
		for i := 0; i < 16; i++ {
			r.Mark("case peer-close-while-writing-race %d", i)
			runPeerCloseWhileWriting(r, []string{"iq", "message"}[i%2], 1+i%7)
		}
		for i := 0; i < 4; i++ {
			r.Mark("case table-concurrent-race %d", i)
			runTableConcurrent(r, []string{"iq", "message"}[i%2], 8+4*i)
		}
		for i := 0; i < 6; i++ {
			r.Mark("case duplex-concurrent-race %d", i)
			runDuplexConcurrent(r, []string{"iq", "message"}[i%2], 40+10*i)
		}
		RunWaits(r)
		r.Notes = append(r.Notes, "race-detector run: concurrent duplex scenarios, forced wake-up and close-fail scenarios only")
		return nil
	}
	n := 0
	for _, c := range recvCorpus() {
		for _, carrier := range []string{"iq", "message"} {
			r.Mark("case recv-corpus %d", n)
			n++
			ops := append([]rop(nil), c.ops...)
			setCarrier(ops, carrier == "message")
			runRecv(r, c.maxbuf, carrier, ops, "recv-corpus")
		}
	}
	// several streams on one handler, session ids used again
	nm := 0
	for _, c := range multiCorpus() {
		for _, carrier := range []string{"iq", "message"} {
			r.Mark("case multi-corpus %d", nm)
			nm++
			runMulti(r, carrier, c, "multi-corpus")
		}
	}
	for i := 0; i < r.Pick(150, 2500) && len(r.Failures) < 60 && r.Hist["problem"] < 25; i++ {
		r.Mark("case multi-random %d", i)
		runMulti(r, []string{"iq", "message"}[r.Rnd.Intn(2)], randMulti(r.Rnd), "multi-random")
	}
	r.Mark("case wake 0")
	runWake(r, false)
	r.Mark("case wake 1")
	runWake(r, true)
	r.Mark("case wake 2")
	runStale(r)
	nrd := 0
	for k := 2; k <= 4; k++ {
		for _, ev := range []string{"c", "C", "p,c", "p,C"} {
			r.Mark("case readers %d", nrd)
			nrd++
			runReaders(r, k, ev)
		}
	}
	for i, f := range []string{"none", "flush", "send", "reply", "deadline"} {
		r.Mark("case close-fail %d", i)
		runCloseFail(r, f, false)
		runCloseFail(r, f, true)
	}
	r.Mark("case open")
	runSend(r, false, true, 0, nil, "send-corpus")
	runSend(r, false, false, 16, nil, "send-corpus")
	r.Mark("case open-fail")
	runOpenFail(r, "send")
	runOpenFail(r, "silent")
	// the tail of a write that is not a multiple of three: every length, with / without Flush,
	// closed by either side, both carriers, opened by either side
	nt := 0
	for _, opener := range []bool{false, true} {
		for _, carrier := range []string{"iq", "message"} {
			for n := 0; n <= 7; n++ {
				for _, flush := range []bool{false, true} {
					for _, peerCloses := range []bool{false, true} {
						r.Mark("case tail %d", nt)
						nt++
						runTail(r, opener, carrier, n, flush, peerCloses)
					}
				}
			}
		}
	}
	// listener life cycle x incoming open requests
	for i, c := range []string{"O", "L,A,O", "L,O,A", "L,K,O", "L,A,K,O", "L,O,A,K,O", "L,K,L,O,A", "L,K,A,O,L,A,O", "L,A,A,O,O,K,O", "L,O,A,O,A,K,A,O",
		"L,E,O", "L,E,X,O,A", "L,A,E,O,O", "L,E,K,O", "L,E,X,E,O", "L,E,E,O", "K,E", "L,K,E,L,E,X,O,A"} {
		r.Mark("case listener %d", i)
		runListener(r, strings.Split(c, ","), "listener-corpus")
	}
	for i := 0; i < r.Pick(150, 2000); i++ {
		r.Mark("case listener-random %d", i)
		n := 2 + r.Rnd.Intn(9)
		ops := make([]string, n)
		for k := range ops {
			ops[k] = []string{"L", "L", "K", "A", "A", "O", "O", "O", "E", "E", "X"}[r.Rnd.Intn(11)]
		}
		runListener(r, ops, "listener-random")
	}
	r.Mark("case wrap-quick")
	runWrapQuick(r)
	r.Mark("case late-replies")
	runLateReplies(r)
	for i, c := range []struct {
		acked bool
		bs    uint16
		ops   []sop
	}{
		{true, 0, []sop{{'w', []byte("hello world")}, {'C', nil}}},
		{false, 5, []sop{{'w', []byte("hello world")}, {'f', nil}, {'w', []byte("!")}, {'C', nil}}},
		{true, 3, []sop{{'w', []byte("ab")}, {'f', nil}, {'w', []byte("cdefg")}, {'f', nil}}},
		{true, 4, []sop{{'w', make([]byte, 2000)}, {'C', nil}}},
		{false, 1, []sop{{'w', []byte("xyz")}, {'w', []byte("uvw")}, {'C', nil}}},
	} {
		r.Mark("case send-corpus %d", i)
		runSend(r, true, c.acked, c.bs, c.ops, "send-corpus")
	}
	nR := r.Pick(500, 8000)
	for i := 0; i < nR && len(r.Failures) < 60 && r.Hist["problem"] < 25; i++ {
		r.Mark("case recv-random %d", i)
		mb, ops := randRecv(r.Rnd)
		carrier := []string{"iq", "message"}[r.Rnd.Intn(2)]
		setCarrier(ops, carrier == "message")
		runRecv(r, mb, carrier, ops, "recv-random")
	}
	nS := r.Pick(400, 6000)
	for i := 0; i < nS && len(r.Failures) < 60 && r.Hist["problem"] < 25; i++ {
		r.Mark("case send-random %d", i)
		acked, bs, ops := randSend(r.Rnd, true)
		runSend(r, true, acked, bs, ops, "send-random")
	}
	if !r.Quick() {
		// wrap-around of the 16 bit packet number, both directions
		r.Mark("case wrap-send")
		var ops []sop
		for i := 0; i < 65540; i++ {
			ops = append(ops, sop{'w', []byte{byte(i), byte(i >> 8), byte(i >> 16)}}, sop{'f', nil})
		}
		ops = append(ops, sop{'C', nil})
		runSend(r, true, false, 3, ops, "wrap")
		r.Mark("case wrap-recv")
		var rops []rop
		for i := 0; i < 65540; i++ {
			o := dgood(i%65536, []byte{byte(i)})
			o.msg = true
			rops = append(rops, o)
			if i%512 == 511 {
				rops = append(rops, rop{kind: 'r', n: 1024})
			}
		}
		rops = append(rops, rop{kind: 'r', n: 1024})
		runRecv(r, 0, "message", rops, "wrap")
	}
	r.Notes = append(r.Notes, fmt.Sprintf("receiver histories: corpus x 2 carriers + %d random; sender runs: corpus + %d random (block sizes 0..4096, both carriers); forced reader wake-up by data and by close", nR, nS))
	return nil
}
