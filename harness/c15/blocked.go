package c15

import (
	"runtime"
	"strings"
	"time"
)

// "The call waits" is read off the goroutine dump instead of guessed with a sleep: a goroutine
// whose stack contains fn and that is blocked in a select (as harness/c06/expect.go does).
func blockedIn(fn string) int {
	buf := make([]byte, 1<<20)
	buf = buf[:runtime.Stack(buf, true)]
	n := 0
	for _, g := range strings.Split(string(buf), "\n\n") {
		nl := strings.IndexByte(g, '\n')
		if nl < 0 {
			continue
		}
		if strings.Contains(g[:nl], "[select") && strings.Contains(g[nl:], fn+"(") {
			n++
		}
	}
	return n
}

// waitBlocked waits until exactly want goroutines (beyond base, left over from cases that
// stalled) are blocked in the select of fn.
func waitBlocked(fn string, base, want int) bool {
	for dl := time.Now().Add(watchdog); time.Now().Before(dl); {
		if blockedIn(fn)-base == want {
			return true
		}
		time.Sleep(50 * time.Microsecond)
	}
	return false
}

const (
	fnExpect = "mellium.im/xmpp/ibb.(*Listener).Expect"
	fnAccept = "mellium.im/xmpp/ibb.(*Listener).Accept"
)
