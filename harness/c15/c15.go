// Package c15 drives in-band bytestreams (ibb) on a real served session against
// a scripted raw peer (property C15).  Line syntax: lean/XmppModel/Driver/C15.lean.
package c15

import (
	"bytes"
	"context"
	"encoding/base64"
	"encoding/xml"
	"fmt"
	"io"
	"math/big"
	"net"
	"os"
	"strconv"
	"strings"
	"time"

	"mellium.im/xmpp/ibb"
	"mellium.im/xmpp/jid"
	"mellium.im/xmpp/mux"
	"mellium.im/xmpp/stanza"

	"verifharness/c06"
	"verifharness/common"
)

const watchdog = 4 * time.Second

type child struct {
	XMLName xml.Name
	SID     string  `xml:"sid,attr"`
	Seq     string  `xml:"seq,attr"`
	Data    string  `xml:",chardata"`
	Inner   []child `xml:",any"`
}

type elem struct {
	XMLName  xml.Name
	ID       string  `xml:"id,attr"`
	Type     string  `xml:"type,attr"`
	Children []child `xml:",any"`
}

// peer is the scripted remote entity: it parses everything the session writes
// and feeds stanzas in order.
type peer struct {
	rs         *common.RawSession
	ctl        *c06.Ctl
	h          *ibb.Handler
	feedCh     chan []byte
	in         chan elem
	pw         *io.PipeWriter
	done       chan struct{} // closed by stop
	dataErr    bool          // answer data IQs with an error
	closeMode  string        // how the peer answers <close/>: "" result, "err" error, "silent" not at all
	openSilent bool          // the peer does not answer <open/> at all
	openOK     bool          // answer of the peer to an <open/> request
	packets    []pkt         // data stanzas tapped from the session
	replies    map[string]string
	closes     int
	onClose    func() // called when the session's <close/> arrives, before it is answered
	nsync      int
	reqIDs     []string // ids of the open / data / close requests the session sent
}

type pkt struct {
	seq     string
	sid     string
	payload string
}

const peerJID = "peer@example.net/p"

func newPeer() (*peer, error) {
	ctl := c06.NewCtl("ibb.read.wait")
	rs, err := common.NewRawSession(0, "jabber:client", jid.MustParse("me@example.net/h"), jid.MustParse("example.net"))
	if err != nil {
		return nil, err
	}
	pr, pw := io.Pipe()
	p := &peer{rs: rs, ctl: ctl, h: &ibb.Handler{}, feedCh: make(chan []byte, 4096), in: make(chan elem, 4096), pw: pw, done: make(chan struct{}), openOK: true, replies: map[string]string{}}
	// Everything below ends when stop closes p.done: no goroutine (and with it the session, the
	// decoder and the buffers it references) outlives its case.
	tee := make(chan []byte, 4096)
	rs.Out.OnWrite = func(b []byte) {
		select {
		case tee <- append([]byte(nil), b...):
		case <-p.done:
		}
	}
	go func() {
		for {
			select {
			case b := <-tee:
				if _, err := pw.Write(b); err != nil {
					return
				}
			case <-p.done:
				return
			}
		}
	}()
	go func() {
		for {
			select {
			case b := <-p.feedCh:
				if rs.Feed(b) != nil {
					return
				}
			case <-p.done:
				return
			}
		}
	}()
	go func() {
		defer pr.Close()
		d := xml.NewDecoder(pr)
		for {
			tok, err := d.Token()
			if err != nil {
				return
			}
			if st, ok := tok.(xml.StartElement); ok {
				var e elem
				if d.DecodeElement(&e, &st) != nil {
					return
				}
				select {
				case p.in <- e:
				case <-p.done:
					return
				}
			}
		}
	}()
	m := mux.New("jabber:client", ibb.Handle(p.h))
	ctl.Go("serve", func() {
		err := rs.S.Serve(m)
		ctl.Emit("serve", "ret:"+fmt.Sprint(err), nil)
	})
	return p, nil
}

func (p *peer) stop() {
	p.ctl.Kill()
	close(p.done)
	p.pw.Close()
	p.rs.In.Close()
	common.WithTimeout(200*time.Millisecond, func() { p.rs.S.Close() })
}

func (p *peer) feed(s string) {
	select {
	case p.feedCh <- []byte(s):
	case <-p.done:
	}
}

func cond(c child) string {
	for _, i := range c.Inner {
		return i.XMLName.Local
	}
	return "?"
}

// pump handles elements written by the session until pred is true or the
// watchdog fires.  Requests of the session are answered like a server would.
func (p *peer) pump(pred func() bool) bool {
	t := time.NewTimer(watchdog)
	defer t.Stop()
	tick := time.NewTicker(100 * time.Microsecond)
	defer tick.Stop()
	for !pred() {
		select {
		case e, ok := <-p.in:
			if !ok {
				return pred()
			}
			p.handle(e)
		case <-tick.C:
		case <-t.C:
			return pred()
		}
	}
	return true
}

func (p *peer) handle(e elem) {
	name := e.XMLName.Local
	var c child
	if len(e.Children) > 0 {
		c = e.Children[0]
	}
	switch {
	case name == "iq" && (e.Type == "result" || e.Type == "error"):
		r := "ack"
		if e.Type == "error" {
			r = "?"
			for _, ch := range e.Children {
				if ch.XMLName.Local == "error" {
					r = cond(ch)
				}
			}
		}
		p.replies[e.ID] = r
	case name == "message" && e.Type == "error":
		r := "?"
		for _, ch := range e.Children {
			if ch.XMLName.Local == "error" {
				r = cond(ch)
			}
		}
		p.replies["msgerr"] = r
		p.replies["msgerr:"+e.ID] = r
	case name == "iq" && c.XMLName.Local == "open":
		p.reqIDs = append(p.reqIDs, e.ID)
		if p.openSilent {
		} else if p.openOK {
			p.feed(fmt.Sprintf(`<iq xmlns="jabber:client" type="result" id="%s" from="%s"/>`, e.ID, peerJID))
		} else {
			p.feed(fmt.Sprintf(`<iq xmlns="jabber:client" type="error" id="%s" from="%s"><error type="cancel"><not-acceptable xmlns="urn:ietf:params:xml:ns:xmpp-stanzas"/></error></iq>`, e.ID, peerJID))
		}
	case name == "iq" && c.XMLName.Local == "data":
		p.reqIDs = append(p.reqIDs, e.ID)
		p.packets = append(p.packets, pkt{c.Seq, c.SID, c.Data})
		if p.dataErr {
			p.feed(fmt.Sprintf(`<iq xmlns="jabber:client" type="error" id="%s" from="%s"><error type="cancel"><item-not-found xmlns="urn:ietf:params:xml:ns:xmpp-stanzas"/></error></iq>`, e.ID, peerJID))
		} else {
			p.feed(fmt.Sprintf(`<iq xmlns="jabber:client" type="result" id="%s" from="%s"/>`, e.ID, peerJID))
		}
	case name == "message" && c.XMLName.Local == "data":
		p.packets = append(p.packets, pkt{c.Seq, c.SID, c.Data})
	case name == "iq" && c.XMLName.Local == "close":
		p.reqIDs = append(p.reqIDs, e.ID)
		p.closes++
		if p.onClose != nil {
			p.onClose()
		}
		switch p.closeMode {
		case "err":
			p.feed(fmt.Sprintf(`<iq xmlns="jabber:client" type="error" id="%s" from="%s"><error type="cancel"><item-not-found xmlns="urn:ietf:params:xml:ns:xmpp-stanzas"/></error></iq>`, e.ID, peerJID))
		case "silent":
		default:
			p.feed(fmt.Sprintf(`<iq xmlns="jabber:client" type="result" id="%s" from="%s"/>`, e.ID, peerJID))
		}
	}
}

// sync: everything fed so far was processed and everything written was parsed.
func (p *peer) sync() bool {
	p.nsync++
	id := fmt.Sprintf("sync%d", p.nsync)
	p.feed(fmt.Sprintf(`<iq xmlns="jabber:client" type="get" id="%s" from="example.net"><ping xmlns="urn:xmpp:ping"/></iq>`, id))
	return p.pump(func() bool { _, ok := p.replies[id]; return ok })
}

func xmlAttr(s string) string {
	var b bytes.Buffer
	_ = xml.EscapeText(&b, []byte(s))
	return b.String()
}

func isCanonical(s string) bool { _, ok := canonicalSeq(s); return ok }

// wireNumber: the natural number a seq attribute denotes (decimal digits only).
func wireNumber(s string) (*big.Int, bool) {
	if s == "" {
		return nil, false
	}
	for _, c := range s {
		if c < '0' || c > '9' {
			return nil, false
		}
	}
	n, ok := new(big.Int).SetString(s, 10)
	return n, ok
}

var replyCode = map[string]string{"ack": "ack", "item-not-found": "inf", "unexpected-request": "unx", "bad-request": "bad", "resource-constraint": "res", "not-acceptable": "na"}

// ---------------------------------------------------------------- receiver

type rop struct {
	kind    byte // d c C r w b (w: the local side writes + flushes; b: SetReadBuffer(n))
	data    []byte
	known   bool
	seq     int
	payload string
	msg     bool
	n       int
	cls     string // nature of the packet (generator): good corrupt truncated oversize wrongseq unknownsid newline seqattr
	attr    string // the seq attribute as written on the wire (if raw), when it is not the plain decimal of seq
	raw     bool
	tail    []rop // kind 'C': data packets of the peer that arrive while Close waits for the answer
	segs    []seg // kind 'd': how the body of the <data/> element is serialised (nil: one piece of plain text)
	// kind 'd', message carrier only: the other children of the carrier <message/>, before and after
	// the <data/> element (codes: carrierChild); shaped=false: the packet is the only child
	shaped        bool
	before, after []int
	// kind 'd' / 'x': the stanza comes from somebody who is not the other end of the stream (index
	// into otherSenders, 0 = the stream's peer): whatever sid it names, it is not a packet of this stream
	sender int
}

// otherSenders: from attributes that are NOT the peer of the stream under test: another resource
// of the peer's account, its bare address, a third party, the peer's server.
var otherSenders = []string{peerJID, "peer@example.net/other", "peer@example.net", "mallory@example.org/m", "example.net"}

func (o rop) from() string { return otherSenders[o.sender%len(otherSenders)] }

// forStream: the packet names the stream: its sid AND its sender are the stream's.
func (o rop) forStream() bool { return o.known && o.sender == 0 }

// carrierChild: a top-level child of a carrier <message/> that is NOT the data packet of the stream
// (the same codes as in lean/XmppModel/Model/IbbCarrier.lean).
func carrierChild(code int, sid string) string {
	switch code {
	case 0:
		return `<no-copy xmlns="urn:xmpp:hints"/>`
	case 1:
		return `<thread>t1</thread>`
	case 2:
		return `<body>QUJD</body>`
	case 3:
		return " \n "
	case 4:
		return fmt.Sprintf(`<data xmlns="urn:example:other" seq="0" sid="%s">WFhY</data>`, sid)
	default:
		return fmt.Sprintf(`<x xmlns="urn:example:wrap"><data xmlns="http://jabber.org/protocol/ibb" seq="0" sid="%s">WFhY</data></x>`, sid)
	}
}

func carrierChildren(codes []int, sid string) string {
	var b strings.Builder
	for _, c := range codes {
		b.WriteString(carrierChild(c, sid))
	}
	return b.String()
}

func shapeTok(before, after []int) string {
	var b strings.Builder
	b.WriteString("M")
	for _, c := range before {
		b.WriteByte(byte('0' + c))
	}
	b.WriteString(".")
	for _, c := range after {
		b.WriteByte(byte('0' + c))
	}
	return b.String()
}

func parseShapeTok(f string) (before, after []int, ok bool) {
	if !strings.HasPrefix(f, "M") {
		return nil, nil, false
	}
	h := strings.SplitN(f[1:], ".", 2)
	if len(h) != 2 {
		return nil, nil, false
	}
	for _, c := range h[0] {
		before = append(before, int(c-'0'))
	}
	for _, c := range h[1] {
		after = append(after, int(c-'0'))
	}
	return before, after, true
}

// among: the same packet as one child among others of its carrier message.
func (o rop) among(before, after []int) rop {
	o.shaped, o.before, o.after = true, before, after
	return o
}

// seg is one piece of the serialised body of a <data/> element.  The payload of the packet is the
// character data of the element: what the pieces of kind T, C and E contribute, concatenated.
//
//	T plain text    C a CDATA section    E numeric character references (one per byte)
//
// (Comments and processing instructions are refused by the session itself - restricted XML - and
// are not generated.)
type seg struct {
	kind byte
	text string
}

func segsText(ss []seg) string {
	var b strings.Builder
	for _, s := range ss {
		b.WriteString(s.text)
	}
	return b.String()
}

func segsWire(ss []seg) string {
	var b strings.Builder
	for _, s := range ss {
		switch s.kind {
		case 'T':
			b.WriteString(s.text)
		case 'C':
			b.WriteString("<![CDATA[" + s.text + "]]>")
		case 'E':
			for i, c := range []byte(s.text) {
				if i%2 == 0 {
					fmt.Fprintf(&b, "&#%d;", c)
				} else {
					fmt.Fprintf(&b, "&#x%X;", c)
				}
			}
		}
	}
	return b.String()
}

func segsTok(ss []seg) string {
	var t []string
	for _, s := range ss {
		t = append(t, string(s.kind)+common.HexS(s.text))
	}
	return strings.Join(t, "+")
}

// parsePayloadTok: the payload field of a `d:` token: plain hex (one piece of text) or pieces
// `<K><hex>` joined by `+`.
func parsePayloadTok(f string) (string, []seg) {
	if f == "" || f == "-" || !strings.ContainsAny(f[:1], "TCE") {
		b, _ := common.UnHex(f)
		return string(b), nil
	}
	var ss []seg
	for _, t := range strings.Split(f, "+") {
		if t == "" {
			continue
		}
		b, _ := common.UnHex(t[1:])
		ss = append(ss, seg{t[0], string(b)})
	}
	return segsText(ss), ss
}

// segmented: the same packet with its body serialised in the given pieces.
func (o rop) segmented(ss []seg) rop {
	o.segs = ss
	o.payload = segsText(ss)
	return o
}

// body: the content of the <data/> element on the wire.
func (o rop) body() string {
	if o.segs != nil {
		return segsWire(o.segs)
	}
	return o.payload
}

func (o rop) payTok() string {
	if o.segs != nil {
		return segsTok(o.segs)
	}
	return common.HexS(o.payload)
}

// seqText: the seq attribute on the wire.
func (o rop) seqText() string {
	if o.raw {
		return o.attr
	}
	return strconv.Itoa(o.seq)
}

// canonical: the attribute is the plain decimal numeral of a natural number.
func canonicalSeq(s string) (int, bool) {
	if s == "" || len(s) > 18 || (len(s) > 1 && s[0] == '0') {
		return 0, false
	}
	for _, c := range s {
		if c < '0' || c > '9' {
			return 0, false
		}
	}
	n, _ := strconv.Atoi(s)
	return n, true
}

func (o rop) tok() string {
	switch o.kind {
	case 'd':
		shape := ""
		if o.msg && o.shaped {
			shape = ":" + shapeTok(o.before, o.after)
		}
		if _, ok := canonicalSeq(o.seqText()); !ok {
			return fmt.Sprintf("d:%s:x%s:%s%s", common.B(o.forStream()), common.HexS(o.seqText()), o.payTok(), shape)
		}
		return fmt.Sprintf("d:%s:%s:%s%s", common.B(o.forStream()), o.seqText(), o.payTok(), shape)
	case 'x':
		return "x"
	case 'r':
		return fmt.Sprintf("r:%d", o.n)
	case 'b':
		return fmt.Sprintf("b:%d:4", o.n)
	}
	return "c"
}

func runRecv(r *common.Run, maxbuf0 int, carrier string, ops []rop, class string) {
	maxbuf := maxbuf0
	p, err := newPeer()
	if err != nil {
		r.Notes = append(r.Notes, "setup: "+err.Error())
		return
	}
	defer p.stop()
	var toks, obs []string
	line := func() []string {
		return []string{fmt.Sprintf("%s recv %d %s", r.Prop, maxbuf0, common.Join(toks, ",")), "#carrier=" + carrier}
	}
	fail := func(why string) {
		r.Hist["problem"]++
		obs = append(obs, "PROBLEM:"+strings.ReplaceAll(why, " ", "_"))
	}
	ln := p.h.Listen(p.rs.S)
	acc := make(chan net.Conn, 1)
	go func() { c, _ := ln.Accept(); acc <- c }()
	p.feed(fmt.Sprintf(`<iq xmlns="jabber:client" type="set" id="o1" from="%s" to="me@example.net/h"><open xmlns="http://jabber.org/protocol/ibb" sid="S" block-size="4" stanza="%s"/></iq>`, peerJID, carrier))
	var conn *ibb.Conn
	select {
	case c := <-acc:
		conn, _ = c.(*ibb.Conn)
	case <-time.After(watchdog):
	}
	if conn == nil || !p.pump(func() bool { return p.replies["o1"] != "" }) || p.replies["o1"] != "ack" {
		r.Notes = append(r.Notes, "receiver setup failed")
		return
	}
	if maxbuf > 0 {
		conn.SetReadBuffer(maxbuf)
	}
	// independent oracle state
	var accepted, got []byte
	expSeq, unread, closed, nd := 0, 0, false, 0
	var send func(o rop) string
	var judge func(o rop, id, during string)
	_, _ = send, judge
	lastBad := "none"
	var packOps []string // the local writer's view of the history (other direction)
	wrote := false
	send = func(o rop) string {
		nd++
		id := fmt.Sprintf("d%d", nd)
		sid := "S"
		if !o.known {
			sid = "nosuch"
		}
		delete(p.replies, "msgerr")
		if o.msg {
			var bf, af string
			if o.shaped {
				bf, af = carrierChildren(o.before, sid), carrierChildren(o.after, sid)
			}
			p.feed(fmt.Sprintf(`<message xmlns="jabber:client" id="%s" from="%s" to="me@example.net/h">%s<data xmlns="http://jabber.org/protocol/ibb" seq="%s" sid="%s">%s</data>%s</message>`, id, o.from(), bf, xmlAttr(o.seqText()), sid, o.body(), af))
		} else {
			p.feed(fmt.Sprintf(`<iq xmlns="jabber:client" type="set" id="%s" from="%s" to="me@example.net/h"><data xmlns="http://jabber.org/protocol/ibb" seq="%s" sid="%s">%s</data></iq>`, id, o.from(), xmlAttr(o.seqText()), sid, o.body()))
		}
		return id
	}
	// judge: the reply to packet o (sent as id) against the independent oracle.  during: "" or the
	// phase of a local Close in which the packet arrived.
	judge = func(o rop, id, during string) {
		rep := p.replies[id]
		if o.msg {
			rep = "ack"
			if e, ok := p.replies["msgerr:"+id]; ok {
				rep = e
			} else if e, ok := p.replies["msgerr"]; ok && during == "" {
				rep = e
			}
		}
		code, ok := replyCode[rep]
		if !ok {
			code = "other:" + rep
		}
		obs = append(obs, code)
		dec, derr := base64.StdEncoding.DecodeString(o.payload)
		valid := o.forStream() && !closed && derr == nil && (maxbuf == 0 || unread+len(dec) <= maxbuf)
		// the number the packet carries: the seq attribute read as a decimal numeral of ANY size
		// (not reduced modulo anything); an attribute that is no numeral carries no number
		wireNum, isNum := wireNumber(o.seqText())
		inSeq := isNum && wireNum.Cmp(big.NewInt(int64(expSeq))) == 0
		switch {
		case code == "ack" && o.known && o.sender != 0:
			r.Fail("refuse", "packet-from-somebody-else-accepted", line(), fmt.Sprintf("a data packet that names the session id of the stream but comes from %q (the stream was opened by, and is with, %q) was acknowledged: anybody who can reach the session and knows or guesses the session id can put bytes into the stream", o.from(), peerJID))
		case code == "ack" && !inSeq:
			key := "out-of-sequence-packet-accepted"
			if !isNum {
				key = "packet-without-a-number-accepted"
			} else if wireNum.BitLen() > 16 {
				key = "packet-number-above-65535-accepted"
			}
			r.Fail("refuse", key, line(), fmt.Sprintf("packet with seq attribute %q acknowledged, expected seq was %d (packets are numbered 0..65535; a number outside that range or a different number is out of sequence)", o.seqText(), expSeq))
		case code == "ack" && derr == nil && maxbuf > 0 && unread+len(dec) > maxbuf:
			r.Fail("refuse", "oversize-packet-accepted", line(), fmt.Sprintf("the receive buffer is limited to %d bytes (as requested, raised only to the block size), %d are buffered, a packet of %d bytes was acknowledged instead of refused with resource-constraint", maxbuf, unread, len(dec)))
		case code == "ack" && derr != nil:
			r.Fail("refuse", "undecodable-packet-accepted", line(), fmt.Sprintf("payload %q acknowledged", o.payload))
		case code != "ack" && valid && inSeq && isCanonical(o.seqText()) && o.msg && o.shaped && len(o.before)+len(o.after) > 0:
			r.Fail("deliver", "valid-packet-among-other-children-of-its-message-refused", line(), fmt.Sprintf("packet seq %d (%q) is valid and in sequence; it is the <data xmlns='http://jabber.org/protocol/ibb'/> child of a <message/> that also has other children (before: %q, after: %q); it was answered %s: the packet of a message is its IBB data child wherever it stands", o.seq, o.payload, carrierChildren(o.before, "S"), carrierChildren(o.after, "S"), code))
		case code != "ack" && valid && inSeq && isCanonical(o.seqText()) && len(o.segs) > 1:
			r.Fail("deliver", "valid-packet-serialised-in-several-pieces-refused", line(), fmt.Sprintf("packet seq %d is valid and in sequence; the character data of its <data/> element (%q, serialised as %s) is the base64 text %q; it was answered %s", o.seq, o.body(), segsTok(o.segs), o.payload, code))
		case code != "ack" && valid && inSeq && isCanonical(o.seqText()) && during != "":
			r.Fail("deliver", "packet-in-flight-at-local-close-refused", line(), fmt.Sprintf("local Close had sent its <close/> and was waiting for the answer; packet seq %d (%q) of the peer, valid and in sequence, sent before the peer answered (what it had written and flushes when it handles the close), was answered %s: bytes the peer wrote are lost", o.seq, o.payload, code))
		case code != "ack" && valid && inSeq && isCanonical(o.seqText()):
			r.Fail("refuse", "valid-packet-refused-after:"+lastBad, line(), fmt.Sprintf("packet seq %d (%q) is valid and in sequence but was answered %s: an earlier refused packet disturbed the stream", o.seq, o.payload, code))
		}
		if code != "ack" {
			lastBad = o.cls
		}
		if code == "ack" {
			accepted = append(accepted, dec...)
			unread += len(dec)
			expSeq = (expSeq + 1) % 65536
		}
	}
	for _, o := range ops {
		if len(obs) > 0 && strings.HasPrefix(obs[len(obs)-1], "PROBLEM") {
			break
		}
		switch o.kind {
		case 'd':
			id := send(o)
			toks = append(toks, o.tok())
			if !p.sync() {
				for _, e := range p.ctl.Drain(nil) {
					if strings.HasPrefix(e.What, "panic:") {
						r.Fail("no-panic", "panic:"+strings.TrimPrefix(e.What, "panic:"), line(), "the serve goroutine panicked handling a data packet: "+e.What)
					} else if strings.HasPrefix(e.What, "ret:") {
						r.Fail("refuse", "serve-loop-ended:"+o.class(), line(), "a data packet ended the serve loop: "+e.What)
					}
				}
				fail("serve loop does not answer after packet " + id)
				continue
			}
			judge(o, id, "")
		case 'x':
			// a <close/> that names the session id but comes from somebody else: refused, nothing happens
			nd++
			id := fmt.Sprintf("x%d", nd)
			p.feed(fmt.Sprintf(`<iq xmlns="jabber:client" type="set" id="%s" from="%s" to="me@example.net/h"><close xmlns="http://jabber.org/protocol/ibb" sid="S"/></iq>`, id, o.from()))
			toks = append(toks, "x")
			if !p.sync() {
				fail("serve loop does not answer after a foreign close")
				continue
			}
			code, ok := replyCode[p.replies[id]]
			if !ok {
				code = "other:" + p.replies[id]
			}
			obs = append(obs, code)
			if code == "ack" && !closed {
				closed = true // what the code did, so that the rest of the history is judged consistently
				packOps = append(packOps, "C")
				r.Fail("refuse", "close-from-somebody-else-accepted", line(), fmt.Sprintf("a <close/> that names the session id of the stream but comes from %q (the stream is with %q) was answered with a result and closed the stream", o.from(), peerJID))
			}
		case 'b':
			// the limit is the REQUESTED one, raised only to the negotiated block size (4 here)
			conn.SetReadBuffer(o.n)
			maxbuf = o.n
			if maxbuf < 0 {
				maxbuf = 0
			}
			if maxbuf > 0 && maxbuf < 4 {
				maxbuf = 4
			}
			toks = append(toks, o.tok())
			obs = append(obs, "b")
		case 'w':
			done := make(chan error, 1)
			go func() {
				_, err := conn.Write(o.data)
				if err == nil {
					err = conn.Flush()
				}
				done <- err
			}()
			var werr error
			if !p.pump(func() bool {
				select {
				case werr = <-done:
					return true
				default:
					return false
				}
			}) {
				fail("local Write does not return")
				continue
			}
			if closed {
				if werr == nil && len(o.data) > 0 {
					r.Fail("close", "write-after-close-accepted", line(), "Write on a closed stream returned nil")
				}
			} else if werr != nil {
				fail("local Write failed: " + werr.Error())
				continue
			}
			wrote = true
			packOps = append(packOps, "w:"+common.Hex(o.data), "f")
		case 'c', 'C':
			packOps = append(packOps, "C")
			toks = append(toks, "c")
			if o.kind == 'c' {
				p.feed(fmt.Sprintf(`<iq xmlns="jabber:client" type="set" id="c1" from="%s" to="me@example.net/h"><close xmlns="http://jabber.org/protocol/ibb" sid="S"/></iq>`, peerJID))
				if !p.pump(func() bool { return p.replies["c1"] != "" }) {
					fail("no answer to close")
					continue
				}
			} else {
				// packets of the peer that reach us while Close waits for the answer to its <close/>
				// (in flight, or flushed by the peer when it handles the request)
				var ids []string
				if len(o.tail) > 0 {
					toks[len(toks)-1] = "h"
					obs = append(obs, "h")
					p.onClose = func() {
						for _, t := range o.tail {
							ids = append(ids, send(t))
						}
					}
				}
				done := make(chan error, 1)
				go func() { done <- conn.Close() }()
				ok := p.pump(func() bool {
					select {
					case <-done:
						return true
					default:
						return false
					}
				})
				p.onClose = nil
				if !ok {
					fail("local Close does not return")
					continue
				}
				if len(o.tail) > 0 {
					if !p.sync() || len(ids) != len(o.tail) {
						fail("serve loop does not answer after local Close with packets in flight")
						continue
					}
					for i, t := range o.tail {
						toks = append(toks, t.tok())
						judge(t, ids[i], "handshake")
					}
					toks = append(toks, "c")
				}
			}
			closed = true
			obs = append(obs, "c")
		case 'r':
			if unread == 0 && !closed {
				continue // would block by design
			}
			toks = append(toks, o.tok())
			type res struct {
				b   []byte
				err error
			}
			ch := make(chan res, 1)
			go func() {
				b := make([]byte, o.n)
				k, err := conn.Read(b)
				ch <- res{b[:k], err}
			}()
			select {
			case x := <-ch:
				if len(x.b) == 0 && x.err == io.EOF {
					obs = append(obs, "EOF")
					if unread > 0 {
						r.Fail("deliver", "eof-before-drained", line(), fmt.Sprintf("%d acknowledged bytes were never delivered", unread))
					}
				} else {
					o := "D" + common.Hex(x.b)
					got = append(got, x.b...)
					unread -= len(x.b)
					if unread < 0 {
						unread = 0
					}
					if x.err != nil {
						// an error together with data: a reader that stops at the error loses the rest
						o += "+ERR"
						if unread > 0 {
							r.Fail("deliver", "error-returned-with-data-before-drained", line(), fmt.Sprintf("Read returned %d bytes together with %v while %d bytes are still buffered", len(x.b), x.err, unread))
						}
					}
					obs = append(obs, o)
				}
			case <-time.After(watchdog):
				obs = append(obs, "BLOCK")
				r.Fail("deliver", "read-blocks-with-data-or-after-close", line(), fmt.Sprintf("Read blocks although %d bytes are buffered / closed=%v", unread, closed))
				fail("read blocked")
			}
		}
	}
	if !bytes.HasPrefix(accepted, got) {
		r.Fail("deliver", "bytes-differ-from-acknowledged-payloads", line(), fmt.Sprintf("read %x, acknowledged payloads decode to %x", got, accepted))
	}
	l := fmt.Sprintf("recv %d %s", maxbuf0, common.Join(toks, ","))
	r.Line(l, common.Join(obs, ","))
	if wrote && !(len(obs) > 0 && strings.HasPrefix(obs[len(obs)-1], "PROBLEM")) {
		// both directions on one connection: the stanzas the local writer produced must be
		// what the packetiser predicts from the writes alone, and the line above (which does
		// not mention the writes) must still be answered as observed
		p.sync()
		var pk []string
		for _, q := range p.packets {
			n, _ := strconv.Atoi(q.seq)
			pk = append(pk, fmt.Sprintf("%d:%s:%s", n, common.B(q.sid == "S"), common.HexS(q.payload)))
		}
		r.Line(fmt.Sprintf("pack 4 %s", common.Join(packOps, ",")), common.Join(pk, ","))
		// independent oracle for the local writer: once the stream is closed (by either side)
		// everything Write accepted before the close must have gone out
		if closed {
			var dec, wr []byte
			for _, q := range p.packets {
				d, _ := base64.StdEncoding.DecodeString(q.payload)
				dec = append(dec, d...)
			}
			for _, t := range packOps {
				if t == "C" {
					break
				}
				if strings.HasPrefix(t, "w:") {
					b, _ := common.UnHex(t[2:])
					wr = append(wr, b...)
				}
			}
			if !bytes.Equal(dec, wr) {
				r.Fail("deliver", "written-bytes-lost-at-close", line(), fmt.Sprintf("the local side wrote %x before the close, the data stanzas carry %x", wr, dec))
			}
		}
	}
	if os.Getenv("VERIF_DEBUG") != "" {
		fmt.Fprintln(os.Stderr, l, "=>", common.Join(obs, ","))
	}
	r.Case(l+carrier, len(accepted) > 0, class)
}

// class / after are filled by the generator for stable oracle keys.
func (o rop) class() string { return o.cls }

// ---------------------------------------------------------------- sender

type sop struct {
	kind byte // w f C
	data []byte
}

func runSend(r *common.Run, accept bool, acked bool, blockSize uint16, ops []sop, class string) {
	p, err := newPeer()
	if err != nil {
		r.Notes = append(r.Notes, "setup: "+err.Error())
		return
	}
	defer p.stop()
	p.openOK = accept
	type ores struct {
		c   *ibb.Conn
		err error
	}
	och := make(chan ores, 1)
	go func() {
		c, err := p.h.OpenIQ(context.Background(), stanza.IQ{To: jid.MustParse(peerJID)}, p.rs.S, acked, blockSize, "T")
		och <- ores{c, err}
	}()
	var o ores
	if !p.pump(func() bool {
		select {
		case o = <-och:
			return true
		default:
			return false
		}
	}) {
		r.Line("open "+common.B(accept), "STALL")
		r.Fail("open-iff-accepted", "open-does-not-return", []string{r.Prop + " open " + common.B(accept)}, "OpenIQ did not return")
		return
	}
	obs := "conn"
	if o.err != nil || o.c == nil {
		obs = "err"
	}
	r.Line("open "+common.B(accept), obs)
	r.Case(fmt.Sprintf("open %v %v %d", accept, acked, blockSize), true, class+"-open")
	if (obs == "conn") != accept {
		key := "conn-returned-although-peer-refused"
		if accept {
			key = "error-although-peer-accepted"
		}
		r.Fail("open-iff-accepted", key, []string{r.Prop + " open " + common.B(accept)}, fmt.Sprintf("peer accepted=%v, OpenIQ returned conn=%v err=%v", accept, o.c != nil, o.err))
	}
	if !accept {
		// after a refused open the sid must be unknown: data and close for it are refused
		for _, probe := range []struct{ id, xml string }{
			{"late1", `<data xmlns="http://jabber.org/protocol/ibb" seq="0" sid="T">QUJD</data>`},
			{"late2", `<close xmlns="http://jabber.org/protocol/ibb" sid="T"/>`},
		} {
			p.feed(fmt.Sprintf(`<iq xmlns="jabber:client" type="set" id="%s" from="%s" to="me@example.net/h">%s</iq>`, probe.id, peerJID, probe.xml))
			p.pump(func() bool { return p.replies[probe.id] != "" })
			code := replyCode[p.replies[probe.id]]
			r.Line("recv 0 d:0:0:"+common.HexS("QUJD"), code) // the model: a packet for an unknown sid
			if code != "inf" {
				r.Fail("open-iff-accepted", "sid-registered-after-refused-open", []string{r.Prop + " open 0", "#then " + probe.id + " for that sid"}, "after OpenIQ returned an error the peer's "+probe.id+" for that sid was answered "+p.replies[probe.id]+" instead of item-not-found")
			}
		}
		return
	}
	if o.c == nil {
		return
	}
	conn := o.c
	var written []byte
	closed := false
	done := make(chan string, 1)
	go func() {
		for _, op := range ops {
			var err error
			switch op.kind {
			case 'w':
				written = append(written, op.data...)
				var n int
				n, err = conn.Write(op.data)
				if err == nil && n != len(op.data) {
					err = fmt.Errorf("short write %d/%d", n, len(op.data))
				}
			case 'f':
				err = conn.Flush()
			case 'C':
				err = conn.Close()
				closed = err == nil
			}
			if err != nil {
				done <- "ERR:" + err.Error()
				return
			}
		}
		done <- ""
	}()
	res := "?"
	t := time.Now()
	for res == "?" && time.Since(t) < 40*watchdog {
		p.pump(func() bool {
			select {
			case res = <-done:
				return true
			default:
				return false
			}
		})
	}
	p.sync()
	var pk []string
	var dec []byte
	seqOK, decOK := true, true
	for i, q := range p.packets {
		n, _ := strconv.Atoi(q.seq)
		pk = append(pk, fmt.Sprintf("%d:%s:%s", n, common.B(q.sid == "T"), common.HexS(q.payload)))
		if n != i%65536 || q.sid != "T" {
			seqOK = false
		}
		d, err := base64.StdEncoding.DecodeString(q.payload)
		if err != nil {
			decOK = false
		}
		dec = append(dec, d...)
	}
	line := fmt.Sprintf("emit %s %s %s", common.B(closed), common.Hex(written), common.Join(pk, ","))
	lines := []string{r.Prop + " " + line, fmt.Sprintf("#acked=%v blocksize=%d", acked, blockSize)}
	o2 := "ok"
	if res != "" {
		o2 = "PROBLEM:" + strings.ReplaceAll(res, " ", "_")
		r.Fail("deliver", "write-or-close-failed", lines, res)
	}
	r.Line(line, o2)
	r.Case(line, len(written) > 0, class)
	if res == "" && len(ops) < 5000 {
		// the exact packetisation predicted by the Lean packetiser (bufio + base64 stream encoder)
		bsz := int(blockSize)
		if bsz == 0 {
			bsz = ibb.BlockSize
		}
		var ot []string
		for _, op := range ops {
			switch op.kind {
			case 'w':
				ot = append(ot, "w:"+common.Hex(op.data))
			case 'f':
				ot = append(ot, "f")
			case 'C':
				ot = append(ot, "C")
			}
		}
		r.Line(fmt.Sprintf("pack %d %s", bsz, common.Join(ot, ",")), common.Join(pk, ","))
	}
	switch {
	case !seqOK:
		r.Fail("seq", "packets-not-numbered-consecutively-from-zero", lines, "sequence numbers / sid of the data stanzas")
	case !decOK:
		r.Fail("deliver", "payload-not-base64", lines, "a data stanza carries an undecodable payload")
	case closed && !bytes.Equal(dec, written):
		r.Fail("deliver", "bytes-lost-or-changed-after-close", lines, fmt.Sprintf("written %d bytes, packets carry %d", len(written), len(dec)))
	case !bytes.HasPrefix(written, dec):
		r.Fail("deliver", "packets-are-not-a-prefix-of-the-written-bytes", lines, "data stanzas do not carry a prefix of what was written")
	}
	if closed && p.closes != 1 {
		r.Fail("close", fmt.Sprintf("close-sent-%d-times", p.closes), lines, "Close must send exactly one <close/>")
	}
}

// ---------------------------------------------------------------- reader wake-up (forced)

func runWake(r *common.Run, byClose bool) {
	p, err := newPeer()
	if err != nil {
		return
	}
	defer p.stop()
	ln := p.h.Listen(p.rs.S)
	acc := make(chan net.Conn, 1)
	go func() { c, _ := ln.Accept(); acc <- c }()
	p.feed(fmt.Sprintf(`<iq xmlns="jabber:client" type="set" id="o1" from="%s" to="me@example.net/h"><open xmlns="http://jabber.org/protocol/ibb" sid="S" block-size="4" stanza="iq"/></iq>`, peerJID))
	var conn net.Conn
	select {
	case conn = <-acc:
	case <-time.After(watchdog):
		return
	}
	p.pump(func() bool { return p.replies["o1"] != "" })
	type res struct {
		b   []byte
		err error
	}
	ch := make(chan res, 1)
	p.ctl.Go("rd", func() {
		b := make([]byte, 8)
		k, err := conn.Read(b)
		ch <- res{b[:k], err}
	})
	var skipped []c06.Ev
	if _, ok := p.ctl.Wait(watchdog, func(e c06.Ev) bool { return e.Who == "rd" && e.What == "park:ibb.read.wait" }, &skipped); !ok {
		r.Notes = append(r.Notes, "reader did not reach the yield point")
		return
	}
	line, want := "recv 0 d:1:0:"+common.HexS("QUJD")+",r:8", "ack,D414243"
	if byClose {
		line, want = "recv 0 c,r:8", "c,EOF"
		p.feed(fmt.Sprintf(`<iq xmlns="jabber:client" type="set" id="c1" from="%s"><close xmlns="http://jabber.org/protocol/ibb" sid="S"/></iq>`, peerJID))
		p.pump(func() bool { return p.replies["c1"] != "" })
	} else {
		p.feed(fmt.Sprintf(`<iq xmlns="jabber:client" type="set" id="d1" from="%s"><data xmlns="http://jabber.org/protocol/ibb" seq="0" sid="S">QUJD</data></iq>`, peerJID))
		p.pump(func() bool { return p.replies["d1"] != "" })
	}
	p.sync()
	p.ctl.Release("rd", "ibb.read.wait")
	obs := ""
	select {
	case x := <-ch:
		if byClose {
			obs = "c,"
			if len(x.b) == 0 && x.err == io.EOF {
				obs += "EOF"
			} else {
				obs += "D" + common.Hex(x.b)
			}
		} else {
			obs = replyCode[p.replies["d1"]] + ",D" + common.Hex(x.b)
		}
	case <-time.After(watchdog):
		obs = "BLOCK"
		r.Fail("deliver", "reader-lost-wake-up", []string{r.Prop + " " + line, "#forced: the reader was parked between its buffer-empty check and its wait while the packet / close was processed"}, "Read never returns although data (or the close) arrived")
	}
	_ = want
	r.Line(line, obs)
	r.Case(line+"wake", true, "wake")
	// the same run as a schedule of the reader LTS
	switch {
	case obs == "BLOCK" && byClose:
		r.Line("reader R,C,W", "delivered=0 eof=0 reading=1")
	case obs == "BLOCK":
		r.Line("reader R,P3,W", "delivered=0 eof=0 reading=1")
	case byClose:
		r.Line("reader R,C,W,K", fmt.Sprintf("delivered=0 eof=%s reading=0", common.B(strings.HasSuffix(obs, "EOF"))))
	default:
		r.Line("reader R,P3,W,K", fmt.Sprintf("delivered=%d eof=0 reading=0", (len(obs)-len("ack,D"))/2))
	}
}

// runStale: a wake-up signal left over from data that was read without waiting
// must not make a later Read return before new data (or the close) arrives.
func runStale(r *common.Run) {
	p, err := newPeer()
	if err != nil {
		return
	}
	defer p.stop()
	ln := p.h.Listen(p.rs.S)
	acc := make(chan net.Conn, 1)
	go func() { c, _ := ln.Accept(); acc <- c }()
	p.feed(fmt.Sprintf(`<iq xmlns="jabber:client" type="set" id="o1" from="%s" to="me@example.net/h"><open xmlns="http://jabber.org/protocol/ibb" sid="S" block-size="4" stanza="iq"/></iq>`, peerJID))
	var conn net.Conn
	select {
	case conn = <-acc:
	case <-time.After(watchdog):
		return
	}
	p.pump(func() bool { return p.replies["o1"] != "" })
	data := func(id string, seq int, pl string) {
		p.feed(fmt.Sprintf(`<iq xmlns="jabber:client" type="set" id="%s" from="%s"><data xmlns="http://jabber.org/protocol/ibb" seq="%d" sid="S">%s</data></iq>`, id, peerJID, seq, pl))
		p.pump(func() bool { return p.replies[id] != "" })
	}
	line := "recv 0 d:1:0:" + common.HexS("QUJD") + ",r:8,d:1:1:" + common.HexS("REVG") + ",r:8"
	lines := []string{r.Prop + " " + line, "#the second Read starts before the second packet is sent and must wait for it"}
	data("d1", 0, "QUJD")
	b := make([]byte, 8)
	k, _ := conn.Read(b)
	first := append([]byte(nil), b[:k]...)
	type res struct {
		b   []byte
		err error
	}
	ch := make(chan res, 1)
	go func() {
		b := make([]byte, 8)
		k, err := conn.Read(b)
		ch <- res{b[:k], err}
	}()
	obs := "ack,D" + common.Hex(first) + ","
	select {
	case x := <-ch:
		obs += "ack,EARLY"
		r.Fail("deliver", "read-returns-without-data-on-open-stream", lines, fmt.Sprintf("Read returned (%x, %v) although the buffer is empty and the stream is open", x.b, x.err))
	case <-time.After(20 * time.Millisecond):
		data("d2", 1, "REVG")
		select {
		case x := <-ch:
			obs += replyCode[p.replies["d2"]] + ",D" + common.Hex(x.b)
		case <-time.After(watchdog):
			obs += "ack,BLOCK"
			r.Fail("deliver", "reader-lost-wake-up", lines, "Read does not return after the packet it waited for")
		}
	}
	r.Line(line, obs)
	r.Case(line+"stale", true, "wake")
	switch {
	case strings.HasSuffix(obs, "EARLY"):
		r.Line("reader P3,R,R,W,K", "delivered=3 eof=0 reading=0")
	case strings.HasSuffix(obs, "BLOCK"):
		r.Line("reader P3,R,R,W,K,P3", "delivered=3 eof=0 reading=1")
	default:
		r.Line("reader P3,R,R,W,K,P3,W,K", fmt.Sprintf("delivered=%d eof=0 reading=0", len(first)+(len(obs)-strings.LastIndex(obs, ",D")-2)/2))
	}
}

// runCloseFail: Close fails at one of its steps (or not at all); whatever it
// returns, a Read that was pending or is issued afterwards must return and a
// later data packet must be refused.
func runCloseFail(r *common.Run, fault string, pending bool) {
	p, err := newPeer()
	if err != nil {
		return
	}
	defer p.stop()
	ln := p.h.Listen(p.rs.S)
	acc := make(chan net.Conn, 1)
	go func() { c, _ := ln.Accept(); acc <- c }()
	p.feed(fmt.Sprintf(`<iq xmlns="jabber:client" type="set" id="o1" from="%s" to="me@example.net/h"><open xmlns="http://jabber.org/protocol/ibb" sid="S" block-size="4" stanza="iq"/></iq>`, peerJID))
	var nc net.Conn
	select {
	case nc = <-acc:
	case <-time.After(watchdog):
		return
	}
	conn := nc.(*ibb.Conn)
	p.pump(func() bool { return p.replies["o1"] != "" })
	type res struct {
		n   int
		err error
	}
	rch := make(chan res, 1)
	read := func() {
		go func() {
			b := make([]byte, 8)
			k, err := conn.Read(b)
			rch <- res{k, err}
		}()
	}
	if pending {
		read()
		time.Sleep(2 * time.Millisecond) // let it reach its wait
	}
	switch fault {
	case "flush":
		p.dataErr = true
		if _, err := conn.Write([]byte("abc")); err != nil {
			r.Notes = append(r.Notes, "close-fail setup: Write failed")
			return
		}
	case "send":
		p.rs.Out.Fail = fmt.Errorf("verif: connection broken")
	case "reply":
		p.closeMode = "err"
	case "deadline":
		p.closeMode = "silent"
		conn.SetWriteDeadline(time.Now().Add(150 * time.Millisecond))
	}
	done := make(chan error, 1)
	go func() { done <- conn.Close() }()
	var cerr error
	line := "close " + fault
	lines := []string{r.Prop + " " + line, fmt.Sprintf("#a Read was pending before Close: %v", pending)}
	if !p.pump(func() bool {
		select {
		case cerr = <-done:
			return true
		default:
			return false
		}
	}) {
		r.Line(line, "ret=STALL")
		r.Fail("close", "close-does-not-return:"+fault, lines, "Close did not return")
		return
	}
	p.rs.Out.Fail = nil
	ret := "ok"
	if cerr != nil {
		ret = "err"
	}
	if !pending {
		read()
	}
	rd := "BLOCK"
	select {
	case x := <-rch:
		rd = "EOF"
		if x.n > 0 {
			rd = "DATA"
		}
	case <-time.After(watchdog):
		r.Fail("close", "read-blocks-after-close:"+fault, lines, fmt.Sprintf("Close returned %v; Read (pending before Close: %v) still blocks: the receiving side was not taken down", cerr, pending))
	}
	data := "skip"
	if fault != "send" {
		p.dataErr = false
		p.feed(fmt.Sprintf(`<iq xmlns="jabber:client" type="set" id="late" from="%s"><data xmlns="http://jabber.org/protocol/ibb" seq="0" sid="S"></data></iq>`, peerJID))
		p.pump(func() bool { return p.replies["late"] != "" })
		data = replyCode[p.replies["late"]]
		if data == "" {
			data = "other:" + p.replies["late"]
		}
		if data != "inf" {
			r.Fail("refuse", "data-accepted-after-close:"+fault, lines, "a data packet for the closed stream was answered "+data)
		}
	}
	r.Line(line, fmt.Sprintf("ret=%s read=%s data=%s", ret, rd, data))
	r.Case(line+fmt.Sprint(pending), true, "close-fail")
}

// runOpenFail: OpenIQ fails on each of its paths (error reply is covered by
// runSend): the request cannot be sent, or is never answered before the
// context ends.  Afterwards the sid must be unknown.
func runOpenFail(r *common.Run, how string) {
	p, err := newPeer()
	if err != nil {
		return
	}
	defer p.stop()
	p.openSilent = true
	ctx, cancel := context.WithTimeout(context.Background(), 60*time.Millisecond)
	defer cancel()
	if how == "send" {
		p.rs.Out.Fail = fmt.Errorf("verif: connection broken")
	}
	done := make(chan error, 1)
	go func() {
		c, err := p.h.OpenIQ(ctx, stanza.IQ{To: jid.MustParse(peerJID)}, p.rs.S, true, 0, "T")
		if err == nil && c == nil {
			err = fmt.Errorf("nil conn")
		}
		done <- err
	}()
	var oerr error
	lines := []string{r.Prop + " open 0", "#open fails: " + how}
	if !p.pump(func() bool {
		select {
		case oerr = <-done:
			return true
		default:
			return false
		}
	}) {
		r.Fail("open-iff-accepted", "open-does-not-return:"+how, lines, "OpenIQ did not return")
		return
	}
	p.rs.Out.Fail = nil
	obs := "err"
	if oerr == nil {
		obs = "conn"
		r.Fail("open-iff-accepted", "conn-returned-although-open-failed:"+how, lines, "OpenIQ returned a connection although the request was never accepted")
	}
	r.Line("open 0", obs)
	if how != "send" {
		p.feed(fmt.Sprintf(`<iq xmlns="jabber:client" type="set" id="late1" from="%s" to="me@example.net/h"><data xmlns="http://jabber.org/protocol/ibb" seq="0" sid="T">QUJD</data></iq>`, peerJID))
		p.pump(func() bool { return p.replies["late1"] != "" })
		code := replyCode[p.replies["late1"]]
		r.Line("recv 0 d:0:0:"+common.HexS("QUJD"), code)
		if code != "inf" {
			r.Fail("open-iff-accepted", "sid-registered-after-failed-open:"+how, lines, "data for the sid of a failed open was answered "+p.replies["late1"])
		}
	}
	r.Case("open-fail "+how, true, "open-fail")
}

// runTail: the writer ends on a length that is not a multiple of three, with or
// without a Flush, and then either side closes: everything written must be on
// the wire when the close has been processed.  opener: we opened the stream
// (the peer closes with an IQ to us) or we accepted it.
func runTail(r *common.Run, opener bool, carrier string, n int, flush, peerCloses bool) {
	p, err := newPeer()
	if err != nil {
		return
	}
	defer p.stop()
	var conn *ibb.Conn
	sid := "S"
	if opener {
		sid = "T"
		och := make(chan *ibb.Conn, 1)
		go func() {
			c, _ := p.h.OpenIQ(context.Background(), stanza.IQ{To: jid.MustParse(peerJID)}, p.rs.S, carrier == "iq", 4, "T")
			och <- c
		}()
		p.pump(func() bool {
			select {
			case conn = <-och:
				return true
			default:
				return false
			}
		})
	} else {
		ln := p.h.Listen(p.rs.S)
		acc := make(chan net.Conn, 1)
		go func() { c, _ := ln.Accept(); acc <- c }()
		p.feed(fmt.Sprintf(`<iq xmlns="jabber:client" type="set" id="o1" from="%s" to="me@example.net/h"><open xmlns="http://jabber.org/protocol/ibb" sid="S" block-size="4" stanza="%s"/></iq>`, peerJID, carrier))
		select {
		case c := <-acc:
			conn, _ = c.(*ibb.Conn)
		case <-time.After(watchdog):
		}
		p.pump(func() bool { return p.replies["o1"] != "" })
	}
	if conn == nil {
		r.Notes = append(r.Notes, "tail scenario: no connection")
		return
	}
	data := make([]byte, n)
	for i := range data {
		data[i] = byte('a' + i)
	}
	ops := []string{"w:" + common.Hex(data)}
	step := func(f func() error) error {
		done := make(chan error, 1)
		go func() { done <- f() }()
		var e error
		p.pump(func() bool {
			select {
			case e = <-done:
				return true
			default:
				return false
			}
		})
		return e
	}
	step(func() error { _, err := conn.Write(data); return err })
	if flush {
		step(conn.Flush)
		ops = append(ops, "f")
	}
	ops = append(ops, "C")
	if peerCloses {
		p.feed(fmt.Sprintf(`<iq xmlns="jabber:client" type="set" id="pc" from="%s" to="me@example.net/h"><close xmlns="http://jabber.org/protocol/ibb" sid="%s"/></iq>`, peerJID, sid))
		p.pump(func() bool { return p.replies["pc"] != "" })
	} else {
		step(conn.Close)
	}
	if !p.sync() {
		who := "local Close"
		if peerCloses {
			who = "the peer's close"
		}
		r.Fail("serve-continues", fmt.Sprintf("serve-stalled-after-close:peer=%v:flush=%v", peerCloses, flush), []string{fmt.Sprintf("%s pack 4 %s", r.Prop, common.Join(ops, ",")), fmt.Sprintf("#opener=%v carrier=%s n=%d", opener, carrier, n)},
			"after "+who+" with "+fmt.Sprint(n)+" bytes written the serve loop no longer answers (the flush of the close path waits for an acknowledgement only the serve loop could deliver)")
		r.Hist["problem"]++
		return
	}
	var pk []string
	var dec []byte
	for _, q := range p.packets {
		k, _ := strconv.Atoi(q.seq)
		pk = append(pk, fmt.Sprintf("%d:%s:%s", k, common.B(q.sid == sid), common.HexS(q.payload)))
		d, _ := base64.StdEncoding.DecodeString(q.payload)
		dec = append(dec, d...)
	}
	line := fmt.Sprintf("pack 4 %s", common.Join(ops, ","))
	r.Line(line, common.Join(pk, ","))
	r.Case(fmt.Sprintf("tail %v %s %d %v %v", opener, carrier, n, flush, peerCloses), true, "tail")
	if !bytes.Equal(dec, data) {
		who := "local Close"
		if peerCloses {
			who = "the peer's close"
		}
		r.Fail("deliver", fmt.Sprintf("tail-lost-at-close:peer=%v:flush=%v", peerCloses, flush), []string{r.Prop + " " + line, fmt.Sprintf("#opener=%v carrier=%s closed by %s", opener, carrier, who)},
			fmt.Sprintf("wrote %d bytes, %s processed, the data stanzas carry %d bytes", n, who, len(dec)))
	}
}

// runWrapQuick: the receiver's counter around 65535 -> 0 in the quick tier: 65534 empty
// packets (message carrier, no barrier in between), then packets with content across the wrap.
func runWrapQuick(r *common.Run) {
	p, err := newPeer()
	if err != nil {
		return
	}
	defer p.stop()
	ln := p.h.Listen(p.rs.S)
	acc := make(chan net.Conn, 1)
	go func() { c, _ := ln.Accept(); acc <- c }()
	p.feed(fmt.Sprintf(`<iq xmlns="jabber:client" type="set" id="o1" from="%s" to="me@example.net/h"><open xmlns="http://jabber.org/protocol/ibb" sid="S" block-size="4" stanza="message"/></iq>`, peerJID))
	var conn net.Conn
	select {
	case conn = <-acc:
	case <-time.After(watchdog):
		return
	}
	p.pump(func() bool { return p.replies["o1"] != "" })
	const start = 65534
	var sb strings.Builder
	for i := 0; i < start; i++ {
		fmt.Fprintf(&sb, `<message xmlns="jabber:client" from="%s"><data xmlns="http://jabber.org/protocol/ibb" seq="%d" sid="S"></data></message>`, peerJID, i)
		if i%2048 == 2047 {
			p.feed(sb.String())
			sb.Reset()
		}
	}
	p.feed(sb.String())
	delete(p.replies, "msgerr")
	if !p.sync() {
		r.Notes = append(r.Notes, "quick wrap: prefix not processed")
		return
	}
	if e, ok := p.replies["msgerr"]; ok {
		r.Fail("seq", "prefix-packet-refused", []string{r.Prop + " recvfrom 0 0 -"}, "one of the first 65534 consecutively numbered empty packets was refused: "+e)
		return
	}
	var toks, obs []string
	var want []byte
	for i, seq := range []int{65534, 65535, 0, 1, 2} {
		chunk := []byte{byte('A' + i)}
		pl := base64.StdEncoding.EncodeToString(chunk)
		id := fmt.Sprintf("w%d", i)
		p.feed(fmt.Sprintf(`<iq xmlns="jabber:client" type="set" id="%s" from="%s"><data xmlns="http://jabber.org/protocol/ibb" seq="%d" sid="S">%s</data></iq>`, id, peerJID, seq, pl))
		p.pump(func() bool { return p.replies[id] != "" })
		code := replyCode[p.replies[id]]
		toks = append(toks, fmt.Sprintf("d:1:%d:%s", seq, common.HexS(pl)))
		obs = append(obs, code)
		if code == "ack" {
			want = append(want, chunk...)
		} else {
			r.Fail("seq", "wrap-around-packet-refused", []string{fmt.Sprintf("%s recvfrom %d 0 %s", r.Prop, start, common.Join(toks, ","))}, fmt.Sprintf("packet number %d after %d accepted packets was answered %s", seq, start+i, p.replies[id]))
		}
	}
	b := make([]byte, 16)
	k, _ := conn.Read(b)
	toks = append(toks, "r:16")
	obs = append(obs, "D"+common.Hex(b[:k]))
	r.Line(fmt.Sprintf("recvfrom %d 0 %s", start, common.Join(toks, ",")), common.Join(obs, ","))
	r.Case("wrap-quick", true, "wrap")
	_ = want
}

// runLateReplies: a sender run (open, acknowledged writes, Close), then the peer
// answers every request of that run AGAIN (a duplicate result and a late error
// for the open, each data packet and the close): nobody waits for those any
// more, they must not be handed to anybody, and the serve loop goes on.
func runLateReplies(r *common.Run) {
	p, err := newPeer()
	if err != nil {
		return
	}
	defer p.stop()
	och := make(chan *ibb.Conn, 1)
	go func() {
		c, _ := p.h.OpenIQ(context.Background(), stanza.IQ{To: jid.MustParse(peerJID)}, p.rs.S, true, 4, "T")
		och <- c
	}()
	var conn *ibb.Conn
	p.pump(func() bool {
		select {
		case conn = <-och:
			return true
		default:
			return false
		}
	})
	if conn == nil {
		return
	}
	done := make(chan error, 1)
	go func() {
		_, err := conn.Write([]byte("late replies"))
		if err == nil {
			err = conn.Close()
		}
		done <- err
	}()
	p.pump(func() bool {
		select {
		case <-done:
			return true
		default:
			return false
		}
	})
	lines := []string{r.Prop + " pack 4 w:" + common.HexS("late replies") + ",C", "#then a duplicate result and a late error for every request of the run"}
	for _, id := range p.reqIDs {
		p.feed(fmt.Sprintf(`<iq xmlns="jabber:client" type="result" id="%s" from="%s"/>`, id, peerJID))
		p.feed(fmt.Sprintf(`<iq xmlns="jabber:client" type="error" id="%s" from="%s"><error type="cancel"><item-not-found xmlns="urn:ietf:params:xml:ns:xmpp-stanzas"/></error></iq>`, id, peerJID))
	}
	if !p.sync() {
		r.Fail("serve-continues", "serve-stalled-after-late-reply:ibb", lines, "after late / duplicate replies to the open, data and close requests of a finished stream the serve loop no longer answers")
	}
	r.Case("late-replies", true, "late")
}

// runListener: listener life cycle on the accepting side against incoming open
// requests.  ops: L Listen, K Listener.Close, A Accept (called in a goroutine),
// O an <open/> from the peer.  Observed per op as in the driver's `lsn` line;
// open-iff-accepted is judged from what the INITIATOR is told.
func runListener(r *common.Run, ops []string, class string) {
	p, err := newPeer()
	if err != nil {
		return
	}
	defer p.stop()
	baseE, baseA := blockedIn(fnExpect), blockedIn(fnAccept) // left over from cases that stalled
	var ln *ibb.Listener
	listening := false
	type acc struct {
		c   net.Conn
		err error
	}
	accCh := make(chan acc, 64)
	expCh := make(chan acc, 8)
	var expCancel context.CancelFunc
	expecting := -1 // number of the open request the waiting Expect call asked for
	// the waiting Expect call returns now (its outcome is caused by the op at index idx)
	collectExpect := func(obs []string, idx int, line func() []string) {
		select {
		case a := <-expCh:
			if a.err == nil && a.c != nil {
				obs[idx] += "+xc"
			} else {
				obs[idx] += "+xe"
			}
		case <-time.After(watchdog):
			obs[idx] += "+xSTALL"
			r.Fail("open-iff-accepted", "expect-does-not-return", line(), "an Expect call that should have ended did not return")
		}
		expecting = -1
	}
	waiting := 0      // Accept calls that have not returned
	pendingOpen := -1 // index (in obs) of an open whose reply is still in the handler
	pendingID := ""
	nOpen := 0
	obs := make([]string, 0, len(ops))
	var toks []string
	line := func() []string { return []string{r.Prop + " lsn " + common.Join(toks, ",")} }
	// collect n Accept results (they are caused by the op at index idx)
	collect := func(idx, n int) {
		for i := 0; i < n; i++ {
			select {
			case a := <-accCh:
				waiting--
				if a.err == nil && a.c != nil {
					obs[idx] += "+c"
				} else {
					obs[idx] += "+e"
				}
			case <-time.After(watchdog):
				obs[idx] += "+STALL"
				r.Fail("open-iff-accepted", "accept-does-not-return", line(), "an Accept call that should have ended did not return")
				return
			}
		}
	}
	reply := func(id string) string {
		if !p.pump(func() bool { return p.replies[id] != "" }) {
			return "STALL"
		}
		if p.replies[id] == "ack" {
			return "res"
		}
		if p.replies[id] == "not-acceptable" {
			return "na"
		}
		return "other:" + p.replies[id]
	}
	for _, op := range ops {
		if pendingOpen >= 0 && op[0] == 'O' {
			continue // the serve loop is inside the hand-off: a further request would just queue
		}
		toks = append(toks, op)
		idx := len(obs)
		switch op[0] {
		case 'L':
			ln = p.h.Listen(p.rs.S)
			listening = true
			obs = append(obs, "l")
		case 'K':
			if ln == nil || pendingOpen >= 0 {
				// (closing while the handler may or may not have reached its hand-off yet cannot be
				// ordered from outside: not generated)
				toks = toks[:len(toks)-1]
				continue
			}
			obs = append(obs, "k")
			ln.Close()
			n := waiting
			collect(idx, n)
			if expecting >= 0 {
				collectExpect(obs, idx, line)
			}
			listening = false
			if pendingOpen >= 0 {
				obs[pendingOpen] = reply(pendingID)
				pendingOpen = -1
			}
		case 'A':
			if ln == nil {
				toks = toks[:len(toks)-1]
				continue
			}
			obs = append(obs, "a")
			l := ln
			waiting++
			go func() { c, err := l.Accept(); accCh <- acc{c, err} }()
			switch {
			case !listening:
				collect(idx, 1)
			case pendingOpen >= 0:
				collect(idx, 1)
				obs[pendingOpen] = reply(pendingID)
				pendingOpen = -1
			default:
				// no sleep: the call has reached its select when the goroutine dump says so
				if !waitBlocked(fnAccept, baseA, waiting) {
					r.Notes = append(r.Notes, "listener: an Accept call did not reach its wait")
				}
			}
		case 'E':
			if ln == nil {
				toks = toks[:len(toks)-1]
				continue
			}
			toks[len(toks)-1] = fmt.Sprintf("E%d", nOpen+1)
			obs = append(obs, "e")
			ctx, cancel := context.WithCancel(context.Background())
			l, sid := ln, fmt.Sprintf("L%d", nOpen+1)
			prev := expecting >= 0
			go func() { c, err := l.Expect(ctx, jid.MustParse(peerJID), sid); expCh <- acc{c, err} }()
			if prev {
				collectExpect(obs, idx, line) // a second Expect for the same stream replaces the first
			}
			if !listening {
				collectExpect(obs, idx, line) // closed listener: returns at once
				cancel()
				break
			}
			expCancel, expecting = cancel, nOpen+1
			// no sleep: the call has registered its entry when it is blocked in its select
			if !waitBlocked(fnExpect, baseE, 1) {
				r.Notes = append(r.Notes, "listener: an Expect call did not reach its wait")
			}
		case 'X':
			if expecting < 0 {
				toks = toks[:len(toks)-1]
				continue
			}
			obs = append(obs, "x")
			expCancel()
			collectExpect(obs, idx, line)
		case 'O':
			nOpen++
			id := fmt.Sprintf("o%d", nOpen)
			sid := fmt.Sprintf("L%d", nOpen)
			toks[len(toks)-1] = fmt.Sprintf("O%d", nOpen)
			p.feed(fmt.Sprintf(`<iq xmlns="jabber:client" type="set" id="%s" from="%s" to="me@example.net/h"><open xmlns="http://jabber.org/protocol/ibb" sid="%s" block-size="16" stanza="iq"/></iq>`, id, peerJID, sid))
			switch {
			case listening && expecting == nOpen:
				obs = append(obs, reply(id))
				collectExpect(obs, idx, line)
			case !listening:
				rep := reply(id)
				obs = append(obs, rep)
				if rep == "res" {
					r.Fail("open-iff-accepted", "open-accepted-without-a-listener", line(), "the initiator was told the stream is open although no listener is registered (none yet, or the listener was closed): nobody can accept it")
				}
			case waiting > 0:
				obs = append(obs, reply(id))
				collect(idx, 1)
			default:
				obs = append(obs, "res") // provisional: the reply leaves the handler when the hand-off ends
				pendingOpen, pendingID = idx, id
			}
		}
	}
	// wind down: accept a stream that is still being handed over, end the waiting Accepts
	if pendingOpen >= 0 {
		toks = append(toks, "A")
		idx := len(obs)
		obs = append(obs, "a")
		l := ln
		waiting++
		go func() { c, err := l.Accept(); accCh <- acc{c, err} }()
		collect(idx, 1)
		obs[pendingOpen] = reply(pendingID)
		pendingOpen = -1
	}
	if ln != nil && (waiting > 0 || expecting >= 0) {
		toks = append(toks, "K")
		idx := len(obs)
		obs = append(obs, "k")
		ln.Close()
		collect(idx, waiting)
		if expecting >= 0 {
			collectExpect(obs, idx, line)
		}
		if pendingOpen >= 0 {
			obs[pendingOpen] = reply(pendingID)
		}
	}
	if !p.sync() {
		r.Fail("serve-continues", "serve-stalled-after-listener-history", line(), "the serve loop no longer answers (an open request was handed to a call that no longer waits for it)")
	}
	l := "lsn " + common.Join(toks, ",")
	r.Line(l, common.Join(obs, ","))
	if os.Getenv("VERIF_DEBUG") != "" {
		fmt.Fprintln(os.Stderr, l, "=>", common.Join(obs, ","))
	}
	r.Case(l, true, class)
}

// runReaders: k goroutines are parked in Read on an empty stream (each between its
// empty check and its wait, at the ibb.read.wait yield point); then a close by the
// peer or locally, or data followed by a close, happens; then all are released.
// Every Read must return within the watchdog: one signal has to wake them all.
func runReaders(r *common.Run, k int, events string) {
	p, err := newPeer()
	if err != nil {
		return
	}
	defer p.stop()
	ln := p.h.Listen(p.rs.S)
	acc := make(chan net.Conn, 1)
	go func() { c, _ := ln.Accept(); acc <- c }()
	p.feed(fmt.Sprintf(`<iq xmlns="jabber:client" type="set" id="o1" from="%s" to="me@example.net/h"><open xmlns="http://jabber.org/protocol/ibb" sid="S" block-size="16" stanza="iq"/></iq>`, peerJID))
	var conn net.Conn
	select {
	case conn = <-acc:
	case <-time.After(watchdog):
		return
	}
	p.pump(func() bool { return p.replies["o1"] != "" })
	type res struct {
		n   int
		err error
	}
	ch := make(chan res, k)
	var skipped []c06.Ev
	for i := 0; i < k; i++ {
		label := fmt.Sprintf("rd%d", i)
		p.ctl.Go(label, func() {
			b := make([]byte, 64)
			n, err := conn.Read(b)
			ch <- res{n, err}
		})
		if _, ok := p.ctl.Wait(watchdog, func(e c06.Ev) bool { return e.Who == label && e.What == "park:ibb.read.wait" }, &skipped); !ok {
			r.Notes = append(r.Notes, "readers: a reader did not reach the yield point")
			return
		}
	}
	var toks []string
	for _, ev := range strings.Split(events, ",") {
		switch ev {
		case "c": // the peer closes
			toks = append(toks, "C")
			p.feed(fmt.Sprintf(`<iq xmlns="jabber:client" type="set" id="pc" from="%s"><close xmlns="http://jabber.org/protocol/ibb" sid="S"/></iq>`, peerJID))
			p.pump(func() bool { return p.replies["pc"] != "" })
		case "C": // local Close
			toks = append(toks, "C")
			done := make(chan struct{})
			go func() { conn.Close(); close(done) }()
			p.pump(func() bool {
				select {
				case <-done:
					return true
				default:
					return false
				}
			})
		case "p":
			toks = append(toks, "P3")
			p.feed(fmt.Sprintf(`<iq xmlns="jabber:client" type="set" id="d1" from="%s"><data xmlns="http://jabber.org/protocol/ibb" seq="0" sid="S">QUJD</data></iq>`, peerJID))
			p.pump(func() bool { return p.replies["d1"] != "" })
		}
	}
	p.sync()
	for i := 0; i < k; i++ {
		p.ctl.Release(fmt.Sprintf("rd%d", i), "ibb.read.wait")
	}
	returned, delivered, eofs := 0, 0, 0
	deadline := time.After(watchdog)
collect:
	for returned < k {
		select {
		case x := <-ch:
			returned++
			delivered += x.n
			if x.n == 0 && x.err == io.EOF {
				eofs++
			}
		case <-deadline:
			break collect
		}
	}
	line := fmt.Sprintf("readers %d %s", k, common.Join(toks, ","))
	r.Line(line, fmt.Sprintf("returned=%d delivered=%d eofs=%d", returned, delivered, eofs))
	r.Case(line+events, true, "readers")
	if returned < k {
		r.Fail("deliver", "pending-reads-not-all-ended-by-close", []string{r.Prop + " " + line, "#events=" + events + " (c: the peer closes, C: local Close, p: a data packet)"},
			fmt.Sprintf("%d goroutines were blocked in Read when the stream was closed; only %d returned", k, returned))
	}
}
