package main

import (
	"context"
	"encoding/xml"
	"errors"
	"fmt"

	"mellium.im/xmpp/jid"
	"mellium.im/xmpp/stanza"

	"verifharness/common"
)

type failReader struct {
	t []xml.Token
	k int
	i int
}

func (f *failReader) Token() (xml.Token, error) {
	if f.i == f.k {
		return nil, errors.New("reader failed")
	}
	t := f.t[f.i]
	f.i++
	return t, nil
}

func main() {
	ctx := context.Background()
	body := xml.StartElement{Name: xml.Name{Local: "body"}}
	st := stanza.Message{Type: stanza.ChatMessage}.StartElement()
	toks := []xml.Token{st, body, xml.CharData("hi"), body.End(), st.End()}
	for k := 0; k <= len(toks); k++ {
		rs, _ := common.NewRawSession(0, "jabber:client", jid.MustParse("me@example.net/r"), jid.MustParse("example.net"))
		err := rs.S.Send(ctx, &failReader{t: toks, k: k})
		w1 := string(rs.Out.Bytes())
		err2 := rs.S.Send(ctx, stanza.Presence{}.Wrap(nil))
		fmt.Printf("k=%d first=%v wire1=%q second=%v wire=%q\n", k, err, w1, err2, rs.Out.Bytes())
	}
	// connection write error
	rs, _ := common.NewRawSession(0, "jabber:client", jid.MustParse("me@example.net/r"), jid.MustParse("example.net"))
	rs.Out.Fail = errors.New("conn failed")
	err := rs.S.Send(ctx, stanza.Message{}.Wrap(nil))
	rs.Out.Fail = nil
	err2 := rs.S.Send(ctx, stanza.Presence{}.Wrap(nil))
	fmt.Printf("connfail first=%v second=%v wire=%q\n", err, err2, rs.Out.Bytes())
}
