package main

import (
	"fmt"
	"net"
	"time"
)

func main() {
	c1, c2 := net.Pipe()
	_ = c2
	done := make(chan error, 1)
	go func() { b := make([]byte, 10); _, err := c1.Read(b); done <- err }()
	time.Sleep(20 * time.Millisecond)
	fmt.Println("set zero:", c1.SetReadDeadline(time.Time{}))
	select {
	case err := <-done:
		fmt.Println("read returned:", err)
	case <-time.After(200 * time.Millisecond):
		fmt.Println("read still blocked")
	}
}
