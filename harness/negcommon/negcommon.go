// Package negcommon holds what the negotiation-time runners (C03, C12) share: a
// scripted, goroutine-free connection on which xmpp.NewSession / ReceiveSession run
// to completion synchronously, and helpers to build peer headers and to cut what the
// library wrote into elements.
package negcommon

import (
	"bytes"
	"encoding/xml"
	"errors"
	"fmt"
	"io"
	"strings"
	"time"

	"mellium.im/xmpp/stanza"
	"mellium.im/xmpp/stream"
)

// Chunk is one message of the scripted peer.  It is delivered by exactly one
// sequence of Read calls that never crosses into the next chunk, so a decoder that
// is replaced at a stream restart never swallows bytes of the next stream.  Dyn
// chunks are computed when the library first asks for them, from everything the
// library has written so far (used to echo random ids).
type Chunk struct {
	Static []byte
	Dyn    func(written []byte) []byte
}

// S is a static chunk.
func S(s string) Chunk { return Chunk{Static: []byte(s)} }

// Conn is the scripted connection.  Reads past the end of the script return
// io.EOF (never block).
type Conn struct {
	chunks []Chunk
	i      int
	cur    []byte
	W      bytes.Buffer
	// R records every byte handed to the library
	R bytes.Buffer
	// Marks[i] is the number of bytes written when chunk i was first delivered.
	Marks []int
	// FailWriteAfter, when >= 0, makes Write fail once that many bytes were written.
	FailWriteAfter int
	// FailWriteCall, when > 0, makes that Write call (1-based) and every later one fail.
	FailWriteCall int
	writes        int
}

// ErrWrite is what a scripted write failure returns.
var ErrWrite = errors.New("scripted write failure")

func NewConn(chunks ...Chunk) *Conn { return &Conn{chunks: chunks, FailWriteAfter: -1} }

func (c *Conn) Read(p []byte) (int, error) {
	for len(c.cur) == 0 {
		if c.i >= len(c.chunks) {
			return 0, io.EOF
		}
		ch := c.chunks[c.i]
		c.i++
		c.Marks = append(c.Marks, c.W.Len())
		if ch.Dyn != nil {
			c.cur = ch.Dyn(append([]byte(nil), c.W.Bytes()...))
		} else {
			c.cur = ch.Static
		}
	}
	n := copy(p, c.cur)
	c.R.Write(c.cur[:n])
	c.cur = c.cur[n:]
	return n, nil
}

func (c *Conn) Write(p []byte) (int, error) {
	c.writes++
	if c.FailWriteCall > 0 && c.writes >= c.FailWriteCall {
		return 0, ErrWrite
	}
	if c.FailWriteAfter >= 0 && c.W.Len()+len(p) > c.FailWriteAfter {
		return 0, ErrWrite
	}
	return c.W.Write(p)
}

// Delivered is the number of chunks handed to the library so far.
func (c *Conn) Delivered() int { return c.i }

// Written returns everything the library wrote.
func (c *Conn) Written() []byte { return append([]byte(nil), c.W.Bytes()...) }

// Header is a peer stream header for the TCP framing.
func Header(xmlns, id, from, to string) string {
	var b strings.Builder
	b.WriteString(`<?xml version='1.0'?><stream:stream xmlns='` + xmlns + `' xmlns:stream='http://etherx.jabber.org/streams' version='1.0'`)
	if id != "" {
		b.WriteString(` id='` + Esc(id) + `'`)
	}
	if from != "" {
		b.WriteString(` from='` + Esc(from) + `'`)
	}
	if to != "" {
		b.WriteString(` to='` + Esc(to) + `'`)
	}
	b.WriteString(`>`)
	return b.String()
}

// Esc escapes text for use in an attribute value or character data.
func Esc(s string) string {
	var b bytes.Buffer
	_ = xml.EscapeText(&b, []byte(s))
	return b.String()
}

// Elem is a top-level element the library wrote after a stream header.
type Elem struct {
	Name  xml.Name
	Attr  []xml.Attr
	Text  string // concatenated character data directly inside the element
	Kids  []Elem
	Bytes string
}

// Child returns the first child with the given local name.
func (e Elem) Child(local string) (Elem, bool) {
	for _, k := range e.Kids {
		if k.Name.Local == local {
			return k, true
		}
	}
	return Elem{}, false
}

// AttrVal returns the value of the attribute with the given local name.
func (e Elem) AttrVal(local string) (string, bool) {
	for _, a := range e.Attr {
		if a.Name.Local == local {
			return a.Value, true
		}
	}
	return "", false
}

// Stream is one stream (header + top-level children) written by the library.
type Stream struct {
	Header xml.StartElement
	Elems  []Elem
	Closed bool
}

// ParseWritten tokenises everything the library wrote with the real decoder and
// cuts it into streams (a new `stream:stream` start at any depth begins a new
// stream, as after a restart).  err is the decoder's error other than io.EOF /
// unexpected EOF at the end (an open stream element is normal).
func ParseWritten(b []byte) (streams []Stream, err error) {
	// A restart makes the output a sequence of documents, each possibly starting
	// with an XML declaration: split on the declaration / stream start.
	parts := splitStreams(b)
	for _, p := range parts {
		st, e := parseOne(p)
		streams = append(streams, st)
		if e != nil && err == nil {
			err = e
		}
	}
	return streams, err
}

const decl = `<?xml version="1.0" encoding="UTF-8"?>`
const wsOpen = `<open xmlns="urn:ietf:params:xml:ns:xmpp-framing"`

// splitStreams cuts at every XML declaration (the library prints one before every
// TCP stream header) and at every WebSocket open element.
func splitStreams(b []byte) [][]byte {
	s := string(b)
	var cuts []int
	for i := 0; i < len(s); i++ {
		if strings.HasPrefix(s[i:], decl) || strings.HasPrefix(s[i:], wsOpen) {
			cuts = append(cuts, i)
		}
	}
	if len(cuts) == 0 || cuts[0] != 0 {
		cuts = append([]int{0}, cuts...)
	}
	var out [][]byte
	for k, c := range cuts {
		end := len(s)
		if k+1 < len(cuts) {
			end = cuts[k+1]
		}
		if end > c {
			out = append(out, []byte(s[c:end]))
		}
	}
	return out
}

func parseOne(b []byte) (Stream, error) {
	var st Stream
	d := xml.NewDecoder(bytes.NewReader(b))
	depth := 0
	var stack []*Elem
	var startOff int64
	ws := false
	for {
		off := d.InputOffset()
		tok, err := d.Token()
		if err != nil {
			if err == io.EOF {
				return st, nil
			}
			var se *xml.SyntaxError
			if errors.As(err, &se) && strings.Contains(se.Msg, "unexpected EOF") {
				return st, nil
			}
			return st, err
		}
		switch t := tok.(type) {
		case xml.StartElement:
			if depth == 0 && st.Header.Name.Local == "" {
				st.Header = t.Copy()
				if t.Name.Local == "open" {
					ws = true
					// the open element is self-closing: children follow at depth 0
					depth = 0
					if err := d.Skip(); err != nil {
						return st, err
					}
					continue
				}
				depth = 1
				continue
			}
			e := &Elem{Name: t.Name, Attr: append([]xml.Attr(nil), t.Attr...)}
			if len(stack) == 0 {
				startOff = off
			}
			stack = append(stack, e)
			depth++
		case xml.EndElement:
			depth--
			if len(stack) == 0 {
				st.Closed = true
				continue
			}
			e := stack[len(stack)-1]
			stack = stack[:len(stack)-1]
			if len(stack) == 0 {
				e.Bytes = string(b[startOff:d.InputOffset()])
				st.Elems = append(st.Elems, *e)
			} else {
				p := stack[len(stack)-1]
				p.Kids = append(p.Kids, *e)
			}
		case xml.CharData:
			if len(stack) > 0 {
				stack[len(stack)-1].Text += string(t)
			}
		}
		_ = ws
	}
}

// ErrClass maps an error returned by session negotiation to a small enum.
func ErrClass(err error) string {
	if err == nil {
		return "nil"
	}
	var se stream.Error
	if errors.As(err, &se) {
		return "stream:" + se.Err
	}
	for e := err; e != nil; e = errors.Unwrap(e) {
		// saslerr is an internal package: recognise its Error type by name
		if fmt.Sprintf("%T", e) == "saslerr.Error" {
			return "sasl:" + e.Error()
		}
	}
	var ste stanza.Error
	if errors.As(err, &ste) {
		return "stanza:" + string(ste.Condition)
	}
	var sx *xml.SyntaxError
	if errors.As(err, &sx) {
		if strings.Contains(sx.Msg, "unexpected EOF") {
			return "eof"
		}
		return "xmlsyntax"
	}
	if errors.Is(err, io.EOF) || errors.Is(err, io.ErrUnexpectedEOF) {
		return "eof"
	}
	msg := err.Error()
	switch {
	case strings.Contains(msg, "no matching SASL mechanisms"):
		return "nomech"
	case strings.Contains(msg, "unexpected payload"):
		return "unexpected"
	case strings.Contains(msg, "terminated authentication"):
		return "terminated"
	case strings.Contains(msg, "illegal base64"):
		return "b64"
	case strings.Contains(msg, "unexpected stream-level chardata"):
		return "chardata"
	case strings.Contains(msg, "does not match previously set"):
		return "addrmismatch"
	}
	return "other:" + fmt.Sprintf("%.60s", msg)
}

// ---- forced interleavings of several sessions --------------------------------------------

// Sched runs several session goroutines one at a time: a session runs until it reaches
// its next yield point (Park) or finishes, then the controller decides who moves next.
// No sleeps: every hand-over is a channel operation.  A nil *Sched never parks (free
// running, used for the race-detector runs).
type Sched struct {
	gos  []chan struct{}
	evt  chan schedEvent
	done []bool
	// Cur is the session that is running (valid inside callbacks of the code under test).
	Cur int
	// Trace lists the yield points in the order they were reached: "<session>:<point>".
	Trace []string
	// Stalled is set when a session did not reach a yield point within the watchdog time.
	Stalled bool
}

type schedEvent struct {
	i     int
	point string // "" = finished
}

func NewSched(n int) *Sched {
	s := &Sched{evt: make(chan schedEvent), done: make([]bool, n)}
	for i := 0; i < n; i++ {
		s.gos = append(s.gos, make(chan struct{}))
	}
	return s
}

// Park is called by session i at a yield point.
func (s *Sched) Park(i int, point string) {
	if s == nil {
		return
	}
	s.evt <- schedEvent{i, point}
	<-s.gos[i]
}

func (s *Sched) wait(i int) {
	select {
	case e := <-s.evt:
		if e.point == "" {
			s.done[e.i] = true
		} else {
			s.Trace = append(s.Trace, fmt.Sprintf("%d:%s", e.i, e.point))
		}
	case <-time.After(20 * time.Second):
		s.Stalled = true
		s.done[i] = true
	}
}

// Start launches session i and waits until it parks for the first time (or finishes).
func (s *Sched) Start(i int, f func()) {
	s.Cur = i
	go func() {
		f()
		s.evt <- schedEvent{i, ""}
	}()
	s.wait(i)
}

// Step lets session i run to its next yield point; false if it has already finished.
func (s *Sched) Step(i int) bool {
	if i < 0 || i >= len(s.done) || s.done[i] {
		return false
	}
	s.Cur = i
	s.gos[i] <- struct{}{}
	s.wait(i)
	return true
}

// Finish runs every session that is still parked to its end (in index order).
func (s *Sched) Finish() {
	for i := range s.done {
		for k := 0; k < 64 && s.Step(i); k++ {
		}
	}
}

// Interleavings enumerates every order of n sessions making k moves each.
func Interleavings(n, k int, f func([]int)) {
	left := make([]int, n)
	for i := range left {
		left[i] = k
	}
	cur := make([]int, 0, n*k)
	var rec func()
	rec = func() {
		if len(cur) == n*k {
			f(append([]int(nil), cur...))
			return
		}
		for i := 0; i < n; i++ {
			if left[i] > 0 {
				left[i]--
				cur = append(cur, i)
				rec()
				cur = cur[:len(cur)-1]
				left[i]++
			}
		}
	}
	rec()
}
