package main

import "verifharness/c12"

func init() { runners["C12"] = c12.Run }
