package main

import "verifharness/c12"

func init() { runners["C12"] = c12.Run; facts["C12"] = c12.Facts }
