package c03

import (
	"bytes"
	"context"
	"encoding/base64"
	"fmt"
	"io"
	"strings"
	"sync"

	"mellium.im/sasl"
	"mellium.im/xmpp"
	"mellium.im/xmpp/jid"

	"verifharness/common"
	nc "verifharness/negcommon"
)

// Several sessions on ONE feature value (what a server does with xmpp.SASLServer, what a
// client library does with xmpp.SASL), in every interleaving of their yield points.
//
//	concs <sched> <accept> <cred>…   receiving sessions on one xmpp.SASLServer(perm, PLAIN):
//	      cred = <userhex>/<passhex> sent by session i in <auth mechanism='PLAIN'/>; accept =
//	      the credentials the permission callback accepts; yield points of a session: R (its
//	      <auth/> is about to be read), P (the callback was entered, before it reads
//	      Credentials()), Q (it has read them, before it judges).  sched: which session moves
//	      next.  Answer: per session "<authn> <err> <sent> <perms>", joined by " ; ".
//	concc <sched> <user>…            initiating sessions user_i@example.net on one
//	      xmpp.SASL("", "secret", PLAIN): yield points S (Start entered), T (payload computed).
//	      Answer: per session "<authn> <err> <sent>".

type cred struct{ user, pass string }

func (c cred) field() string { return common.HexS(c.user) + "/" + common.HexS(c.pass) }

func parseCred(f string) (cred, error) {
	i := strings.Index(f, "/")
	if i < 0 {
		return cred{}, fmt.Errorf("bad credentials %q", f)
	}
	u, e1 := common.UnHex(f[:i])
	p, e2 := common.UnHex(f[i+1:])
	if e1 != nil || e2 != nil {
		return cred{}, fmt.Errorf("bad credentials %q", f)
	}
	return cred{string(u), string(p)}, nil
}

func schedField(s []int) string {
	var l []string
	for _, i := range s {
		l = append(l, fmt.Sprint(i))
	}
	return common.Join(l, ",")
}

func runConcServer(r *common.Run, sched []int, accept []cred, creds []cred, class string) {
	n := len(creds)
	free := r.Race()
	var S *nc.Sched
	if !free {
		S = nc.NewSched(n)
	}
	accepted := func(u, p string) bool {
		for _, a := range accept {
			if a.user == u && a.pass == p {
				return true
			}
		}
		return false
	}
	var mu sync.Mutex
	perms := make([][]string, n)
	perm := func(neg *sasl.Negotiator) bool {
		i := -1
		if S != nil {
			i = S.Cur
			S.Park(i, "P")
		}
		u, p, id := neg.Credentials()
		if S != nil {
			S.Park(i, "Q")
		}
		// the slices are looked at only now: what they alias may have been overwritten
		us, ps, ids := string(u), string(p), string(id)
		v := accepted(us, ps)
		if i >= 0 {
			mu.Lock()
			perms[i] = append(perms[i], fmt.Sprintf("%s/%s/%s=%s", common.HexS(us), common.HexS(ps), common.HexS(ids), common.B(v)))
			mu.Unlock()
		}
		return v
	}
	feat := xmpp.SASLServer(perm, sasl.Plain) // ONE feature value for all sessions
	res := make([]negResult, n)
	conns := make([]*nc.Conn, n)
	run := func(i int) func() {
		payload := base64.StdEncoding.EncodeToString([]byte("\x00" + creds[i].user + "\x00" + creds[i].pass))
		conns[i] = nc.NewConn(nc.S(nc.Header("jabber:client", "", "", "example.net")), nc.Chunk{Dyn: func([]byte) []byte {
			S.Park(i, "R")
			return []byte("<auth xmlns='" + nsSASL + "' mechanism='PLAIN'>" + payload + "</auth>")
		}})
		return func() { res[i] = negotiate(conns[i], true, feat) }
	}
	if free {
		var wg sync.WaitGroup
		start := make(chan struct{})
		for i := 0; i < n; i++ {
			f := run(i)
			wg.Add(1)
			go func() { defer wg.Done(); <-start; f() }()
		}
		close(start)
		wg.Wait()
	} else {
		for i := 0; i < n; i++ {
			S.Start(i, run(i))
		}
		for _, i := range sched {
			S.Step(i)
		}
		S.Finish()
	}
	var acc, cl []string
	for _, a := range accept {
		acc = append(acc, a.field())
	}
	for _, c := range creds {
		cl = append(cl, c.field())
	}
	line := fmt.Sprintf("concs %s %s %s", schedField(sched), common.Join(acc, ","), strings.Join(cl, " "))
	lines := []string{r.Prop + " " + line}
	var obs []string
	for i := 0; i < n; i++ {
		if res[i].panicV != "" {
			obs = append(obs, "PANIC")
			r.Fail("server-no-panic", "concurrent", lines, res[i].panicV)
			continue
		}
		var t trace
		streams, _ := nc.ParseWritten(conns[i].Written())
		var sent []string
		if len(streams) > 0 {
			for _, e := range streams[0].Elems {
				switch {
				case e.Name.Space == nsSASL && e.Name.Local == "success":
					sent = append(sent, "succ/"+canonPayload(e.Text))
				case e.Name.Space == nsSASL && e.Name.Local == "failure":
					cond := "none"
					if len(e.Kids) > 0 {
						cond = e.Kids[0].Name.Local
					}
					sent = append(sent, "fail/"+cond)
				case e.Name.Space == nsSASL && e.Name.Local == "challenge":
					sent = append(sent, "chal/"+canonPayload(e.Text))
				}
			}
		}
		authn := res[i].called > 0 && res[i].mask&xmpp.Authn != 0
		obs = append(obs, fmt.Sprintf("%s %s %s %s", common.B(authn), errClass(res[i], &t), common.Join(sent, ","), common.Join(perms[i], ",")))
		// ---- oracle: the verdict of a session is the verdict of its own credentials ----
		want := accepted(creds[i].user, creds[i].pass)
		if authn != want {
			k := "refused-credentials-authenticated"
			if want {
				k = "accepted-credentials-refused"
			}
			r.Fail("sessions-independent", k, lines, fmt.Sprintf("session %d sent %q/%q (accepted: %v) and ended with Authn=%v", i, creds[i].user, creds[i].pass, want, authn))
		}
		if !free {
			own := fmt.Sprintf("%s/%s/%s=%s", common.HexS(creds[i].user), common.HexS(creds[i].pass), "-", common.B(want))
			if len(perms[i]) != 1 || perms[i][0] != own {
				r.Fail("sessions-independent", "callback-saw-other-credentials", lines, fmt.Sprintf("session %d sent %s, its permission callback saw %v", i, own, perms[i]))
			}
		}
		succ := len(sent) > 0 && strings.HasPrefix(sent[len(sent)-1], "succ/")
		if succ != want {
			r.Fail("sessions-independent", "success-element", lines, fmt.Sprintf("session %d: <success/> written = %v, own credentials accepted = %v", i, succ, want))
		}
	}
	if S != nil && S.Stalled {
		r.Fail("sessions-no-stall", "server", lines, "a session did not reach its next yield point: "+strings.Join(S.Trace, " "))
	}
	if free {
		// the race-detector run judges by itself; the lines are not compared with the model
		r.Mark("case %s", line)
		r.Case(line, true, class)
		return
	}
	r.Line(line, strings.Join(obs, " ; "))
	r.Case(line, true, class)
}

func runConcClient(r *common.Run, sched []int, users []string, class string) {
	n := len(users)
	free := r.Race()
	var S *nc.Sched
	if !free {
		S = nc.NewSched(n)
	}
	mech := sasl.Mechanism{
		Name: "PLAIN",
		Start: func(neg *sasl.Negotiator) (bool, []byte, interface{}, error) {
			i := -1
			if S != nil {
				i = S.Cur
				S.Park(i, "S")
			}
			more, resp, c, err := sasl.Plain.Start(neg)
			if S != nil {
				S.Park(i, "T")
			}
			return more, resp, c, err
		},
		Next: sasl.Plain.Next,
	}
	feat := xmpp.SASL("", "secret", mech) // ONE feature value for all sessions
	res := make([]negResult, n)
	conns := make([]*nc.Conn, n)
	run := func(i int) func() {
		origin := jid.MustParse(users[i] + "@example.net")
		conns[i] = nc.NewConn(
			nc.S(nc.Header("jabber:client", "sid1", "example.net", origin.String())),
			nc.S("<stream:features><mechanisms xmlns='"+nsSASL+"'><mechanism>PLAIN</mechanism></mechanisms></stream:features>"),
			nc.S("<success xmlns='"+nsSASL+"'/>"),
		)
		return func() {
			r := &res[i]
			r.conn = conns[i]
			f := instrument(feat, r)
			neg := xmpp.NewNegotiator(func(*xmpp.Session, *xmpp.StreamConfig) xmpp.StreamConfig {
				return xmpp.StreamConfig{Features: []xmpp.StreamFeature{f}}
			})
			r.panicV = common.Recover(func() {
				s, err := xmpp.NewSession(context.Background(), jid.MustParse("example.net"), origin, conns[i], xmpp.Secure, neg)
				r.sessErr = err
				if s != nil {
					r.state = s.State()
				}
			})
		}
	}
	if free {
		var wg sync.WaitGroup
		start := make(chan struct{})
		for i := 0; i < n; i++ {
			f := run(i)
			wg.Add(1)
			go func() { defer wg.Done(); <-start; f() }()
		}
		close(start)
		wg.Wait()
	} else {
		for i := 0; i < n; i++ {
			S.Start(i, run(i))
		}
		for _, i := range sched {
			S.Step(i)
		}
		S.Finish()
	}
	var ul []string
	for _, u := range users {
		ul = append(ul, common.HexS(u))
	}
	line := fmt.Sprintf("concc %s %s", schedField(sched), strings.Join(ul, " "))
	lines := []string{r.Prop + " " + line}
	var obs []string
	for i := 0; i < n; i++ {
		if res[i].panicV != "" {
			obs = append(obs, "PANIC")
			r.Fail("client-no-panic", "concurrent", lines, res[i].panicV)
			continue
		}
		var t trace
		streams, _ := nc.ParseWritten(conns[i].Written())
		var sent []string
		payload := ""
		if len(streams) > 0 {
			for _, e := range streams[0].Elems {
				if e.Name.Space == nsSASL && e.Name.Local == "auth" {
					m, _ := e.AttrVal("mechanism")
					sent = append(sent, "auth/"+encName(m)+"/"+canonPayload(e.Text))
					b, _ := base64.StdEncoding.DecodeString(e.Text)
					payload = string(b)
				}
			}
		}
		authn := res[i].called > 0 && res[i].mask&xmpp.Authn != 0
		obs = append(obs, fmt.Sprintf("%s %s %s", common.B(authn), errClass(res[i], &t), common.Join(sent, ",")))
		if want := "\x00" + users[i] + "\x00secret"; payload != want {
			r.Fail("sessions-independent", "client-sent-other-credentials", lines, fmt.Sprintf("session %d (%s) sent %q", i, users[i], payload))
		}
		if !authn {
			r.Fail("sessions-independent", "client-not-authenticated", lines, fmt.Sprintf("session %d did not authenticate: %s", i, errClass(res[i], &t)))
		}
	}
	if S != nil && S.Stalled {
		r.Fail("sessions-no-stall", "client", lines, "a session did not reach its next yield point: "+strings.Join(S.Trace, " "))
	}
	if free {
		r.Mark("case %s", line)
		r.Case(line, true, class)
		return
	}
	r.Line(line, strings.Join(obs, " ; "))
	r.Case(line, true, class)
}

var credPool = []cred{
	{"user", "secret"},                     // accepted
	{"user", "secreX"},                     // refused, same lengths
	{"u", "no"},                            // refused, shorter
	{"administrator", "a-longer-password"}, // accepted, longer
}

var acceptPool = []cred{credPool[0], credPool[3]}

func genConcurrent(r *common.Run, rnd *common.Rand) {
	if r.Race() {
		// free-running sessions for the race detector
		for rep := 0; rep < 150; rep++ {
			cs := []cred{credPool[rep%4], credPool[(rep/4)%4], credPool[(rep/16)%4]}
			runConcServer(r, nil, acceptPool, cs[:2+rep%2], "race-srv")
			runConcClient(r, nil, []string{"user", "usex", "administrator"}[:2+rep%2], "race-cli")
		}
		return
	}
	// two sessions: every pair of credentials x every interleaving of R,P,Q / S,T
	for _, c0 := range credPool {
		for _, c1 := range credPool {
			nc.Interleavings(2, 3, func(s []int) { runConcServer(r, s, acceptPool, []cred{c0, c1}, "conc-srv2") })
		}
	}
	for _, u0 := range []string{"user", "usex", "u", "administrator"} {
		for _, u1 := range []string{"user", "usex", "u", "administrator"} {
			nc.Interleavings(2, 2, func(s []int) { runConcClient(r, s, []string{u0, u1}, "conc-cli2") })
		}
	}
	// three sessions: all interleavings in the thorough tier, a sample otherwise
	three := [][]cred{{credPool[1], credPool[0], credPool[1]}, {credPool[0], credPool[1], credPool[3]}, {credPool[2], credPool[3], credPool[1]}}
	if !r.Quick() {
		for _, cs := range three {
			nc.Interleavings(3, 3, func(s []int) { runConcServer(r, s, acceptPool, cs, "conc-srv3") })
		}
		nc.Interleavings(3, 2, func(s []int) { runConcClient(r, s, []string{"user", "usex", "administrator"}, "conc-cli3") })
	} else {
		var all [][]int
		nc.Interleavings(3, 3, func(s []int) { all = append(all, s) })
		for k := 0; k < 60; k++ {
			runConcServer(r, all[rnd.Intn(len(all))], acceptPool, three[k%3], "conc-srv3")
		}
		nc.Interleavings(3, 2, func(s []int) {
			if rnd.Chance(1, 3) {
				runConcClient(r, s, []string{"user", "usex", "administrator"}, "conc-cli3")
			}
		})
	}
}

func replayConc(r *common.Run, f []string) error {
	var sched []int
	if f[1] != "-" {
		for _, x := range strings.Split(f[1], ",") {
			var i int
			if _, err := fmt.Sscanf(x, "%d", &i); err != nil {
				return err
			}
			sched = append(sched, i)
		}
	}
	switch f[0] {
	case "concx":
		var sc []cliScript
		for _, x := range f[2:] {
			i := strings.Index(x, ":")
			if i < 0 {
				return fmt.Errorf("bad concx session %q", x)
			}
			var c cliScript
			c.adv = decNames(x[:i])
			if x[i+1:] != "-" {
				c.peer = strings.Split(x[i+1:], ",")
			}
			sc = append(sc, c)
		}
		return runConcClientMixed(r, sched, sc, "replay")
	case "concm":
		var sc [][]string
		for _, x := range f[2:] {
			if x == "-" {
				sc = append(sc, nil)
			} else {
				sc = append(sc, strings.Split(x, ","))
			}
		}
		return runConcMixed(r, sched, sc, "replay")
	case "concs":
		if len(f) < 4 {
			return fmt.Errorf("bad concs line")
		}
		var acc, cs []cred
		if f[2] != "-" {
			for _, x := range strings.Split(f[2], ",") {
				c, err := parseCred(x)
				if err != nil {
					return err
				}
				acc = append(acc, c)
			}
		}
		for _, x := range f[3:] {
			c, err := parseCred(x)
			if err != nil {
				return err
			}
			cs = append(cs, c)
		}
		runConcServer(r, sched, acc, cs, "replay")
	case "concc":
		var us []string
		for _, x := range f[2:] {
			b, err := common.UnHex(x)
			if err != nil {
				return err
			}
			us = append(us, string(b))
		}
		runConcClient(r, sched, us, "replay")
	}
	return nil
}

// ---- round E: sessions with DIFFERENT mechanisms and exchanges on one feature value ----
//
//	concm <sched> <script>…   receiving sessions on one xmpp.SASLServer(perm, PLAIN, X-ECHO);
//	      script = the peer's elements (server-role event syntax, "," separated); every element
//	      is a yield point (it is handed over when the schedule moves the session), so the
//	      loops of the sessions interleave element by element.  X-ECHO takes two messages and
//	      answers each with the reversed message (a challenge, then <success/> with data): what
//	      a session writes depends on every byte it read, so a buffer, a negotiator or a
//	      selected mechanism that leaks from one session into another shows.  perm accepts
//	      user/secret.  Answer: per session "<authn> <err> <sent> <perms>", joined by " ; ".

func echoMech() sasl.Mechanism {
	rev := func(b []byte) []byte {
		o := make([]byte, len(b))
		for i := range b {
			o[len(b)-1-i] = b[i]
		}
		return o
	}
	return sasl.Mechanism{
		Name: "X-ECHO",
		Start: func(*sasl.Negotiator) (bool, []byte, interface{}, error) {
			return false, nil, nil, sasl.ErrInvalidState
		},
		Next: func(m *sasl.Negotiator, c []byte, _ interface{}) (bool, []byte, interface{}, error) {
			switch m.State() & sasl.StepMask {
			case sasl.AuthTextSent:
				return true, rev(c), nil, nil
			case sasl.ResponseSent:
				return false, rev(c), nil, nil
			}
			return false, nil, nil, sasl.ErrTooManySteps
		},
	}
}

func runConcMixed(r *common.Run, sched []int, scripts [][]string, class string) error {
	n := len(scripts)
	S := nc.NewSched(n)
	var mu sync.Mutex
	perms := make([][]string, n)
	perm := func(neg *sasl.Negotiator) bool {
		i := S.Cur
		u, p, id := neg.Credentials()
		us, ps, ids := string(u), string(p), string(id)
		v := us == "user" && ps == "secret"
		mu.Lock()
		perms[i] = append(perms[i], fmt.Sprintf("%s/%s/%s=%s", common.HexS(us), common.HexS(ps), common.HexS(ids), common.B(v)))
		mu.Unlock()
		return v
	}
	feat := xmpp.SASLServer(perm, sasl.Plain, echoMech()) // ONE feature value for all sessions
	res := make([]negResult, n)
	conns := make([]*nc.Conn, n)
	for i := 0; i < n; i++ {
		i := i
		chunks := []nc.Chunk{nc.S(nc.Header("jabber:client", "", "", "example.net"))}
		for _, ev := range scripts[i] {
			x, err := srvEventXML(ev)
			if err != nil {
				return err
			}
			chunks = append(chunks, nc.Chunk{Dyn: func(w []byte) []byte {
				S.Park(i, "R")
				if bytes.Contains(w, []byte("<success")) {
					return nil
				}
				return []byte(x)
			}})
		}
		conns[i] = nc.NewConn(chunks...)
		S.Start(i, func() { res[i] = negotiate(conns[i], true, feat) })
	}
	for _, i := range sched {
		S.Step(i)
	}
	S.Finish()
	var sl []string
	for _, s := range scripts {
		sl = append(sl, common.Join(s, ","))
	}
	line := fmt.Sprintf("concm %s %s", schedField(sched), strings.Join(sl, " "))
	lines := []string{r.Prop + " " + line}
	var obs []string
	for i := 0; i < n; i++ {
		if res[i].panicV != "" {
			obs = append(obs, "PANIC")
			r.Fail("server-no-panic", "concurrent-mixed", lines, res[i].panicV)
			continue
		}
		var t trace
		streams, _ := nc.ParseWritten(conns[i].Written())
		var sent []string
		if len(streams) > 0 {
			for _, e := range streams[0].Elems {
				switch {
				case e.Name.Space == nsSASL && e.Name.Local == "success":
					sent = append(sent, "succ/"+canonPayload(e.Text))
				case e.Name.Space == nsSASL && e.Name.Local == "failure":
					cond := "none"
					if len(e.Kids) > 0 {
						cond = e.Kids[0].Name.Local
					}
					sent = append(sent, "fail/"+cond)
				case e.Name.Space == nsSASL && e.Name.Local == "challenge":
					sent = append(sent, "chal/"+canonPayload(e.Text))
				}
			}
		}
		authn := res[i].called > 0 && res[i].mask&xmpp.Authn != 0
		obs = append(obs, fmt.Sprintf("%s %s %s %s", common.B(authn), errClass(res[i], &t), common.Join(sent, ","), common.Join(perms[i], ",")))
		// ---- oracle (independent of the model): a session is authenticated only by its OWN
		// complete exchange: an <auth/> of its own for PLAIN with the accepted credentials, or
		// an <auth/> for X-ECHO followed by a <response/>, both decodable
		own := false
		sc := scripts[i]
		if len(sc) >= 1 && sc[0] == "APLAIN/v"+hexOf("\x00user\x00secret") {
			own = true
		}
		if len(sc) >= 2 && strings.HasPrefix(sc[0], "AX-ECHO/") && strings.HasPrefix(sc[1], "R") &&
			!strings.Contains(sc[0], "bad") && !strings.Contains(sc[1], "bad") {
			own = true
		}
		if authn && !own {
			r.Fail("sessions-independent", "authenticated-by-another-sessions-exchange", lines,
				fmt.Sprintf("session %d (script %v) is authenticated although its own exchange is not a complete, accepted one", i, sc))
		}
	}
	if S.Stalled {
		r.Fail("sessions-no-stall", "server-mixed", lines, "a session did not reach its next yield point: "+strings.Join(S.Trace, " "))
	}
	r.Line(line, strings.Join(obs, " ; "))
	r.Case(line, true, class)
	return nil
}

func hexOf(s string) string { return fmt.Sprintf("%x", s) }

var mixedScripts = [][]string{
	{"AX-ECHO/v" + "616263", "Rv" + strings.Repeat("7a", 40)}, // X-ECHO, short then long
	{"APLAIN/v" + fmt.Sprintf("%x", "\x00user\x00secret")},    // PLAIN accepted
	{"Rv01"}, // a bare <response/>
	{"AX-ECHO/v" + strings.Repeat("31", 64), "Rv02", "Rv03"},       // X-ECHO, long then short, one element too many
	{"APLAIN/v" + fmt.Sprintf("%x", "\x00user\x00secreX"), "Rv04"}, // PLAIN refused, then a response
	{"AX-ECHO/-", "R-"}, // X-ECHO with empty messages
	{"AX-ECHO/v" + "0a0b", "APLAIN/v" + fmt.Sprintf("%x", "\x00u\x00no")}, // a second <auth/> replaces the negotiator
}

func genConcMixed(r *common.Run, rnd *common.Rand) {
	if r.Race() {
		return
	}
	// two sessions: every ordered pair of scripts x every interleaving of their elements (each
	// element and the end of the script is a yield point)
	for a, sa := range mixedScripts {
		for b, sb := range mixedScripts {
			if r.Quick() && (a+b)%2 == 1 && a != 2 && b != 2 {
				continue
			}
			na, nb := len(sa), len(sb)
			interleave2(na, nb, func(s []int) {
				_ = runConcMixed(r, s, [][]string{sa, sb}, "conc-mixed2")
			})
		}
	}
	// three sessions: random triples, random schedules
	for k := 0; k < r.Pick(40, 400); k++ {
		var sc [][]string
		var sched []int
		for i := 0; i < 3; i++ {
			s := mixedScripts[rnd.Intn(len(mixedScripts))]
			sc = append(sc, s)
			for j := 0; j < len(s); j++ {
				sched = append(sched, i)
			}
		}
		for i := len(sched) - 1; i > 0; i-- {
			j := rnd.Intn(i + 1)
			sched[i], sched[j] = sched[j], sched[i]
		}
		_ = runConcMixed(r, sched, sc, "conc-mixed3")
	}
}

// interleave2 enumerates every interleaving of na moves of session 0 and nb moves of session 1
func interleave2(na, nb int, f func([]int)) {
	var rec func(a, b int, cur []int)
	rec = func(a, b int, cur []int) {
		if a == 0 && b == 0 {
			f(append([]int(nil), cur...))
			return
		}
		if a > 0 {
			rec(a-1, b, append(cur, 0))
		}
		if b > 0 {
			rec(a, b-1, append(cur, 1))
		}
	}
	rec(na, nb, nil)
}

// ---- round E: initiating sessions with DIFFERENT advertised lists and exchanges on one value ----
//
//	concx <sched> <adv>:<script>…   initiating sessions user@example.net on one
//	      xmpp.SASL("", "secret", X-ECHOC, PLAIN); adv = what the peer advertises to that session
//	      (names, "-" = an empty list), script = the peer's elements (client-role event syntax).
//	      The features list, the entry of the feature's Negotiate (between Parse and the use of
//	      the parsed list) and every element are yield points.  X-ECHOC starts with "hi" and
//	      answers its two challenges with the reversed challenge.  Answer: per session
//	      "<authn> <err> <sent>", joined by " ; ".

func echoClientMech() sasl.Mechanism {
	rev := func(b []byte) []byte {
		o := make([]byte, len(b))
		for i := range b {
			o[len(b)-1-i] = b[i]
		}
		return o
	}
	return sasl.Mechanism{
		Name: "X-ECHOC",
		Start: func(*sasl.Negotiator) (bool, []byte, interface{}, error) {
			return true, []byte("hi"), nil, nil
		},
		Next: func(m *sasl.Negotiator, c []byte, _ interface{}) (bool, []byte, interface{}, error) {
			switch m.State() & sasl.StepMask {
			case sasl.AuthTextSent:
				return true, rev(c), nil, nil
			case sasl.ResponseSent:
				return false, rev(c), nil, nil
			}
			return false, nil, nil, sasl.ErrTooManySteps
		},
	}
}

type cliScript struct {
	adv  []string
	peer []string
}

func (c cliScript) field() string { return encNames(c.adv) + ":" + common.Join(c.peer, ",") }

func runConcClientMixed(r *common.Run, sched []int, scripts []cliScript, class string) error {
	n := len(scripts)
	S := nc.NewSched(n)
	feat := xmpp.SASL("", "secret", echoClientMech(), sasl.Plain) // ONE feature value for all sessions
	res := make([]negResult, n)
	conns := make([]*nc.Conn, n)
	origin := jid.MustParse("user@example.net")
	for i := 0; i < n; i++ {
		i := i
		adv := advXML(scripts[i].adv)
		chunks := []nc.Chunk{nc.S(nc.Header("jabber:client", "sid1", "example.net", origin.String())),
			{Dyn: func([]byte) []byte { S.Park(i, "F"); return []byte(adv) }}}
		for _, ev := range scripts[i].peer {
			x, err := cliEventXML(ev)
			if err != nil {
				return err
			}
			chunks = append(chunks, nc.Chunk{Dyn: func(w []byte) []byte {
				S.Park(i, "R")
				if bytes.Count(w, []byte("<?xml")) > 1 {
					return nil
				}
				return []byte(x)
			}})
		}
		conns[i] = nc.NewConn(chunks...)
		S.Start(i, func() {
			rr := &res[i]
			rr.conn = conns[i]
			f := instrument(feat, rr)
			// a yield point between the feature's Parse (the advertised list is read) and its
			// Negotiate (the list is used)
			inner := f.Negotiate
			f.Negotiate = func(ctx context.Context, s *xmpp.Session, data interface{}) (xmpp.SessionState, io.ReadWriter, error) {
				S.Park(i, "N")
				return inner(ctx, s, data)
			}
			neg := xmpp.NewNegotiator(func(*xmpp.Session, *xmpp.StreamConfig) xmpp.StreamConfig {
				return xmpp.StreamConfig{Features: []xmpp.StreamFeature{f}}
			})
			rr.panicV = common.Recover(func() {
				s, err := xmpp.NewSession(context.Background(), jid.MustParse("example.net"), origin, conns[i], xmpp.Secure, neg)
				rr.sessErr = err
				if s != nil {
					rr.state = s.State()
				}
			})
		})
	}
	for _, i := range sched {
		S.Step(i)
	}
	S.Finish()
	var sl []string
	for _, s := range scripts {
		sl = append(sl, s.field())
	}
	line := fmt.Sprintf("concx %s %s", schedField(sched), strings.Join(sl, " "))
	lines := []string{r.Prop + " " + line}
	var obs []string
	for i := 0; i < n; i++ {
		if res[i].panicV != "" {
			obs = append(obs, "PANIC")
			r.Fail("client-no-panic", "concurrent-mixed", lines, res[i].panicV)
			continue
		}
		var t trace
		streams, _ := nc.ParseWritten(conns[i].Written())
		var sent []string
		usedMech := ""
		if len(streams) > 0 {
			for _, e := range streams[0].Elems {
				switch {
				case e.Name.Space == nsSASL && e.Name.Local == "auth":
					m, _ := e.AttrVal("mechanism")
					usedMech = m
					sent = append(sent, "auth/"+encName(m)+"/"+canonPayload(e.Text))
				case e.Name.Space == nsSASL && e.Name.Local == "response":
					sent = append(sent, "resp/"+canonPayload(e.Text))
				}
			}
		}
		authn := res[i].called > 0 && res[i].mask&xmpp.Authn != 0
		ec := errClass(res[i], &t)
		if res[i].called == 0 {
			ec = "notcalled"
		}
		obs = append(obs, fmt.Sprintf("%s %s %s", common.B(authn), ec, common.Join(sent, ",")))
		// ---- oracle (independent of the model) ----
		advertised := func(m string) bool {
			for _, a := range scripts[i].adv {
				if a == m {
					return true
				}
			}
			return false
		}
		if usedMech != "" && !advertised(usedMech) {
			r.Fail("sessions-independent", "client-used-mechanism-advertised-to-another-session", lines,
				fmt.Sprintf("session %d sent <auth mechanism=%q/> although its peer advertised %v", i, usedMech, scripts[i].adv))
		}
		if authn {
			p := scripts[i].peer
			okOwn := usedMech != "" && advertised(usedMech) && len(p) > 0
			if okOwn {
				// its own script must hold a <success/> and, for X-ECHOC, the two challenges before it
				succ := -1
				for k, ev := range p {
					if ev[0] == 's' {
						succ = k
						break
					}
				}
				okOwn = succ >= 0 && (usedMech == "PLAIN" && succ == 0 || usedMech == "X-ECHOC" && succ >= 1)
			}
			if !okOwn {
				r.Fail("sessions-independent", "client-authenticated-by-another-sessions-exchange", lines,
					fmt.Sprintf("session %d (advertised %v, script %v) is authenticated although its own exchange is not a complete one", i, scripts[i].adv, p))
			}
		}
	}
	if S.Stalled {
		r.Fail("sessions-no-stall", "client-mixed", lines, "a session did not reach its next yield point: "+strings.Join(S.Trace, " "))
	}
	r.Line(line, strings.Join(obs, " ; "))
	r.Case(line, true, class)
	return nil
}

var mixedCliScripts = []cliScript{
	{[]string{"X-ECHOC"}, []string{"cv010203", "cv" + strings.Repeat("7a", 40), "s-"}}, // the complete exchange
	{[]string{"PLAIN"}, []string{"s-"}},                                                // PLAIN
	{nil, []string{"s-"}},                                                              // nothing advertised, a bare <success/>
	{[]string{"X-ECHOC", "PLAIN"}, []string{"s-"}},                                     // premature <success/>
	{[]string{"PLAIN", "X-ECHOC"}, []string{"cv01", "sv0203"}},                         // done on <success/> with data
	{[]string{"X-ECHOC"}, []string{"f"}},                                               // refused
	{[]string{"X-OTHER"}, []string{"cv05", "s-"}},                                      // nothing in common
}

func genConcClientMixed(r *common.Run, rnd *common.Rand) {
	if r.Race() {
		return
	}
	for a, sa := range mixedCliScripts {
		for b, sb := range mixedCliScripts {
			if r.Quick() && (a+b)%2 == 1 && a != 2 && b != 2 && a != 6 && b != 6 {
				continue
			}
			interleave2(len(sa.peer)+2, len(sb.peer)+2, func(s []int) {
				_ = runConcClientMixed(r, s, []cliScript{sa, sb}, "conc-cli-mixed2")
			})
		}
	}
	for k := 0; k < r.Pick(40, 400); k++ {
		var sc []cliScript
		var sched []int
		for i := 0; i < 3; i++ {
			s := mixedCliScripts[rnd.Intn(len(mixedCliScripts))]
			sc = append(sc, s)
			for j := 0; j <= len(s.peer)+1; j++ {
				sched = append(sched, i)
			}
		}
		for i := len(sched) - 1; i > 0; i-- {
			j := rnd.Intn(i + 1)
			sched[i], sched[j] = sched[j], sched[i]
		}
		_ = runConcClientMixed(r, sched, sc, "conc-cli-mixed3")
	}
}
