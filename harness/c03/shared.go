package c03

// Round E: the syntactic fact about state shared between the sessions that use one
// xmpp.SASL / xmpp.SASLServer value, made tolerant of refactorings (review A, C03 finding 1).
//
// Nothing is looked up by the name of an unexported function, a local or a file: the walk
// starts at the exported constructors SASL and SASLServer (API names), follows every call or
// reference to a top-level function of the package (any file, up to depth 8) and tells apart
//
//   - build time: code that runs when the feature value is built (the bodies of the functions
//     reached from the roots outside every function literal), and
//   - session time: the function literals found there (the closures of the feature value) and
//     every function reached from them.
//
// Reported as shared writes (the fact must be the empty list):
//
//   - v            a variable of a build-time function (parameter, result, local outside the
//                  literals) that a literal assigns to, increments, ranges into or takes the
//                  address of;
//   - v.m()        a method called inside a literal on such a variable when it is a *local* of
//                  the build-time function (a captured mutex, map wrapper, pool, cache …);
//   - pkg:v        a package-level variable that any reached function assigns to, increments,
//                  ranges into or takes the address of;
//   - pkg:v.m()    a method called on a package-level variable (sync.Pool, sync.Map, a cache).
//
// Reported as captured fresh objects (must be empty too): a local of a build-time function whose
// initial value contains a call into another package outside a list of packages without state
// (strings, bytes, strconv, …) — directly or inside a same-package helper it calls — and that a
// literal uses: an object made once per feature value and then used by every session (a
// negotiator, a nonce, a random value, a buffer).  A value computed by a pure helper of the
// package and only read (names := mechNames(mechanisms)) is not reported.
//
// Not seen: mutation through methods of parameters of the build-time function (the
// application's own values), function values stored in struct fields, reflection.

import (
	"go/ast"
	"go/parser"
	"go/token"
	"os"
	"path/filepath"
	"sort"
	"strings"
)

var statelessPkgs = map[string]bool{
	"strings": true, "bytes": true, "strconv": true, "sort": true, "fmt": true, "errors": true,
	"unicode": true, "utf8": true, "base64": true, "hex": true, "path": true, "xml": true, "ns": true,
}

type sharedFacts struct {
	ok        bool
	writes    []string
	fresh     []string
	buildFns  int
	sessUnits int
}

func baseIdent(e ast.Expr) *ast.Ident {
	for {
		switch x := e.(type) {
		case *ast.ParenExpr:
			e = x.X
		case *ast.IndexExpr:
			e = x.X
		case *ast.SelectorExpr:
			e = x.X
		case *ast.StarExpr:
			e = x.X
		case *ast.SliceExpr:
			e = x.X
		default:
			id, _ := e.(*ast.Ident)
			return id
		}
	}
}

func sharedState(repo string) (sf sharedFacts) {
	fset := token.NewFileSet()
	ents, err := os.ReadDir(repo)
	if err != nil {
		return sf
	}
	var files []*ast.File
	for _, e := range ents {
		n := e.Name()
		if e.IsDir() || !strings.HasSuffix(n, ".go") || strings.HasSuffix(n, "_test.go") {
			continue
		}
		f, err := parser.ParseFile(fset, filepath.Join(repo, n), nil, 0)
		if err != nil {
			return sf
		}
		if f.Name.Name != "xmpp" {
			continue
		}
		files = append(files, f)
	}
	funcs := map[string]*ast.FuncDecl{}
	methods := map[string][]*ast.FuncDecl{} // by method name, whatever the receiver type
	pkgVars := map[string]bool{}
	pkgSpecs := map[*ast.ValueSpec]bool{}
	imports := map[string]bool{}
	for _, f := range files {
		for _, im := range f.Imports {
			p := strings.Trim(im.Path.Value, "\"")
			name := p[strings.LastIndex(p, "/")+1:]
			if im.Name != nil {
				name = im.Name.Name
			}
			imports[name] = true
		}
		for _, d := range f.Decls {
			switch x := d.(type) {
			case *ast.FuncDecl:
				if x.Recv == nil && x.Body != nil {
					funcs[x.Name.Name] = x
				}
				if x.Recv != nil && x.Body != nil {
					methods[x.Name.Name] = append(methods[x.Name.Name], x)
				}
			case *ast.GenDecl:
				if x.Tok == token.VAR {
					for _, s := range x.Specs {
						vs := s.(*ast.ValueSpec)
						pkgSpecs[vs] = true
						for _, id := range vs.Names {
							if id.Name == "_" {
								continue
							}
							pkgVars[id.Name] = true
						}
					}
				}
			}
		}
	}
	if funcs["SASL"] == nil || funcs["SASLServer"] == nil {
		return sf
	}
	isPkgVar := func(id *ast.Ident) bool {
		if id == nil || !pkgVars[id.Name] {
			return false
		}
		if id.Obj == nil {
			return true // resolved in another file of the package
		}
		vs, ok := id.Obj.Decl.(*ast.ValueSpec)
		return ok && pkgSpecs[vs]
	}
	topFunc := func(id *ast.Ident) *ast.FuncDecl {
		fd := funcs[id.Name]
		if fd == nil {
			return nil
		}
		if id.Obj != nil && id.Obj.Kind != ast.Fun {
			return nil // a local that shadows the function
		}
		return fd
	}
	// an imported-package call that may create or hold state
	statefulCall := func(n ast.Node) bool {
		found := false
		ast.Inspect(n, func(n ast.Node) bool {
			if ce, ok := n.(*ast.CallExpr); ok {
				if se, ok := ce.Fun.(*ast.SelectorExpr); ok {
					if id, ok := se.X.(*ast.Ident); ok && id.Obj == nil && imports[id.Name] && !pkgVars[id.Name] && !statelessPkgs[id.Name] {
						found = true
					}
				}
			}
			return true
		})
		return found
	}

	writes := map[string]bool{}
	fresh := map[string]bool{}
	// types of the package of which build-time code makes a value (T{…}, &T{…}, new(T)): the
	// methods of such a value can be what the feature value's function fields are
	builtTypes := map[string]bool{}
	recvType := func(fd *ast.FuncDecl) string {
		if fd.Recv == nil || len(fd.Recv.List) == 0 {
			return ""
		}
		t := fd.Recv.List[0].Type
		if st, ok := t.(*ast.StarExpr); ok {
			t = st.X
		}
		if id, ok := t.(*ast.Ident); ok {
			return id.Name
		}
		return ""
	}
	type item struct {
		fd    *ast.FuncDecl
		build bool
		depth int
	}
	seen := map[*ast.FuncDecl]int{} // 1 = visited at session time, 2 = visited at build time, 3 = both
	work := []item{{funcs["SASL"], true, 0}, {funcs["SASLServer"], true, 0}}
	for len(work) > 0 {
		it := work[0]
		work = work[1:]
		bit := 1
		if it.build {
			bit = 2
		}
		if seen[it.fd]&bit != 0 || it.depth > 8 {
			continue
		}
		seen[it.fd] |= bit
		fd := it.fd
		if it.build {
			sf.buildFns++
		} else {
			sf.sessUnits++
		}
		var lits []*ast.FuncLit
		ast.Inspect(fd.Body, func(n ast.Node) bool {
			if fl, ok := n.(*ast.FuncLit); ok {
				lits = append(lits, fl)
			}
			return true
		})
		inLit := func(p token.Pos) bool {
			for _, fl := range lits {
				if fl.Pos() <= p && p < fl.End() {
					return true
				}
			}
			return false
		}
		if it.build {
			sf.sessUnits += len(lits)
		}
		// a local or parameter of fd declared outside its literals
		ownVar := func(id *ast.Ident) bool {
			if id == nil || id.Obj == nil || id.Obj.Kind != ast.Var {
				return false
			}
			dp := id.Obj.Pos()
			return dp >= fd.Pos() && dp < fd.End() && !inLit(dp)
		}
		isParam := func(id *ast.Ident) bool {
			_, ok := id.Obj.Decl.(*ast.Field)
			return ok
		}
		isRecv := func(id *ast.Ident) bool {
			if id == nil || id.Obj == nil || fd.Recv == nil || len(fd.Recv.List) == 0 || !builtTypes[recvType(fd)] {
				return false
			}
			f, ok := id.Obj.Decl.(*ast.Field)
			return ok && f == fd.Recv.List[0]
		}
		target := func(e ast.Expr, at token.Pos) {
			id := baseIdent(e)
			if id == nil {
				return
			}
			if _, plain := e.(*ast.Ident); !plain && !it.build && isRecv(id) {
				// a field of the value the feature's methods were taken from: one per feature value
				writes["recv:"+id.Name] = true
				return
			}
			if isPkgVar(id) {
				writes["pkg:"+id.Name] = true
				return
			}
			if it.build && inLit(at) && ownVar(id) {
				writes[id.Name] = true
			}
		}
		if it.build {
			ast.Inspect(fd.Body, func(n ast.Node) bool {
				switch x := n.(type) {
				case *ast.CompositeLit:
					if id, ok := x.Type.(*ast.Ident); ok {
						builtTypes[id.Name] = true
					}
				case *ast.CallExpr:
					if id, ok := x.Fun.(*ast.Ident); ok && id.Name == "new" && len(x.Args) == 1 {
						if t, ok := x.Args[0].(*ast.Ident); ok {
							builtTypes[t.Name] = true
						}
					}
				}
				return true
			})
		}
		notRef := map[*ast.Ident]bool{} // field names: selectors and keys of composite literals
		called := map[*ast.SelectorExpr]bool{}
		ast.Inspect(fd.Body, func(n ast.Node) bool {
			switch x := n.(type) {
			case *ast.CallExpr:
				if se, ok := x.Fun.(*ast.SelectorExpr); ok {
					called[se] = true
				}
			case *ast.SelectorExpr:
				notRef[x.Sel] = true
			case *ast.KeyValueExpr:
				if id, ok := x.Key.(*ast.Ident); ok {
					notRef[id] = true
				}
			}
			return true
		})
		ast.Inspect(fd.Body, func(n ast.Node) bool {
			switch x := n.(type) {
			case *ast.AssignStmt:
				if x.Tok != token.DEFINE {
					for _, l := range x.Lhs {
						target(l, x.Pos())
					}
				}
			case *ast.IncDecStmt:
				target(x.X, x.Pos())
			case *ast.RangeStmt:
				if x.Tok == token.ASSIGN {
					if x.Key != nil {
						target(x.Key, x.Pos())
					}
					if x.Value != nil {
						target(x.Value, x.Pos())
					}
				}
			case *ast.UnaryExpr:
				if x.Op == token.AND {
					if _, lit := x.X.(*ast.CompositeLit); !lit {
						target(x.X, x.Pos())
					}
				}
			case *ast.SelectorExpr:
				// a method of the package, called or taken as a value (StreamFeature{Negotiate: f.negotiate})
				if ms := methods[x.Sel.Name]; len(ms) > 0 {
					if id, ok := x.X.(*ast.Ident); !ok || !(id.Obj == nil && imports[id.Name] && !pkgVars[id.Name]) {
						build := it.build && !inLit(x.Pos()) && called[x]
						for _, m := range ms {
							if m != fd && builtTypes[recvType(m)] {
								work = append(work, item{m, build, it.depth + 1})
							}
						}
					}
				}
			case *ast.CallExpr:
				if se, ok := x.Fun.(*ast.SelectorExpr); ok {
					id := baseIdent(se.X)
					if _, direct := se.X.(*ast.Ident); !direct && !it.build && isRecv(id) {
						writes["recv:"+id.Name+"."+se.Sel.Name+"()"] = true
					}
					if isPkgVar(id) {
						writes["pkg:"+id.Name+"."+se.Sel.Name+"()"] = true
					} else if it.build && inLit(x.Pos()) && ownVar(id) && !isParam(id) {
						writes[id.Name+"."+se.Sel.Name+"()"] = true
					}
				}
			case *ast.Ident:
				if callee := topFunc(x); callee != nil && callee != fd && !notRef[x] {
					build := it.build && !inLit(x.Pos())
					work = append(work, item{callee, build, it.depth + 1})
				}
			}
			return true
		})
		if it.build {
			// objects made once per feature value and used by the closures
			cand := map[*ast.Object]string{}
			risky := func(e ast.Expr) bool {
				if statefulCall(e) {
					return true
				}
				r := false
				ast.Inspect(e, func(n ast.Node) bool {
					if _, ok := n.(*ast.FuncLit); ok {
						return false
					}
					if ce, ok := n.(*ast.CallExpr); ok {
						if id, ok := ce.Fun.(*ast.Ident); ok {
							if callee := topFunc(id); callee != nil && statefulCall(callee.Body) {
								r = true
							}
						}
					}
					return true
				})
				return r
			}
			ast.Inspect(fd.Body, func(n ast.Node) bool {
				switch x := n.(type) {
				case *ast.FuncLit:
					return false
				case *ast.AssignStmt:
					if x.Tok == token.DEFINE {
						for i, l := range x.Lhs {
							id, ok := l.(*ast.Ident)
							if !ok || id.Obj == nil {
								continue
							}
							rhs := x.Rhs[0]
							if len(x.Rhs) == len(x.Lhs) {
								rhs = x.Rhs[i]
							}
							if risky(rhs) {
								cand[id.Obj] = id.Name
							}
						}
					}
				case *ast.ValueSpec:
					for i, id := range x.Names {
						if id.Obj != nil && i < len(x.Values) && risky(x.Values[i]) {
							cand[id.Obj] = id.Name
						}
					}
				}
				return true
			})
			for _, fl := range lits {
				ast.Inspect(fl.Body, func(n ast.Node) bool {
					if id, ok := n.(*ast.Ident); ok && id.Obj != nil {
						if name, ok := cand[id.Obj]; ok {
							fresh[name] = true
						}
					}
					return true
				})
			}
		}
	}
	for n := range writes {
		sf.writes = append(sf.writes, n)
	}
	for n := range fresh {
		sf.fresh = append(sf.fresh, n)
	}
	sort.Strings(sf.writes)
	sort.Strings(sf.fresh)
	sf.ok = true
	return sf
}
