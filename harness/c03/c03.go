// Package c03 drives the SASL stream feature of mellium.im/xmpp (property C03)
// through full xmpp.NewSession / xmpp.ReceiveSession runs on a scripted connection.
//
// Protocol lines (fields space separated, lists ','-joined, '-' = empty list):
//
//	cli <cmechs> <adv> <steps> <peer>  ->  <authn> <err> <used> <sent> <calls>
//	srv <smechs> <steps> <perm> <peer> ->  <authn> <err> <sent> <perms>
//	srvw <n> <smechs> <steps> <perm> <peer> -> same; the receiver's connection accepts n
//	    SASL elements and fails every write after them
//
// cmechs/smechs: configured mechanism names in order.  A name starting with "M" is a
// scripted mechanism; PLAIN (server side) is the real sasl.Plain, modelled concretely;
// any other real mechanism (client side) is wrapped and its observed step results are
// written into <steps>, so the model checks the control flow around it.
//
// steps: results of successive Step calls of the mechanism in use: m<pl> (more, with
// response), d<pl> (done), a (sasl.ErrAuthn), e (other error); past the end = e.
// pl (payload): '-' empty, 'eq' a single '=', 'sh' two base64 characters ('sh1', 'sh3': one,
// three), 'bad' undecodable ('bad5': a stray character after a complete quantum, 'badp':
// padding in the middle), v<hex> the base64 encoding of these bytes.
//
// peer (client role): c<pl> challenge, s<pl> success, f failure, o unknown element in
// the SASL namespace, n <success/> in another namespace, w white space; the script
// ends with EOF.  peer (server role): A<mech>/<pl> auth, R<pl> response, B abort,
// F failure, O unknown SASL element, N <auth/> in another namespace, W white space.
//
// Round C:
//
//	srvp <pol> <smechs> <steps> <perm> <peer>   like srv; steps may hold pe / ps / pv (the
//	    Step panics with an error / a string / another value) and perm may be panic-e /
//	    panic-s / panic-v (the application's permission callback panics).  pol: three
//	    characters 0/1 - which of these panics the implementation was seen to recover and turn
//	    into an error return (probed once per run; sasl.go recovers none: 000).  A panic that
//	    travels up through ReceiveSession is the error class "panic".
//	clip <pol> <cmechs> <adv> <steps> <peer>    the same on the initiating side
//	srvc <looks> <k> <smechs> <steps> <perm> <peer>   like srv with a negotiation context that
//	    is done from the k-th test of the receiving loop on (0: before the first element is
//	    handled; k >= 1: it becomes done while the k-th Step runs).  looks: whether the
//	    implementation was seen to look at the context in that loop (probed; sasl.go: 0).
//
// Round D:
//
//	srvg <top> <mid> <when> <smechs> <steps> <perm> <peer>   like srv with a negotiation context
//	    that becomes done at the moment <when>: F<j> while peer element j is in flight (F0: before
//	    the receiving loop's first test), S<k> inside the k-th Step (k >= 1), W<w> while the w-th
//	    SASL element (from 0) is being written (cancelled inside the connection's Write).
//	    top / mid: at which iterations of its loop the implementation was seen to test the context
//	    before reading / after the Step (probed; one 0/1 per iteration 0..3, the last for all later
//	    ones; sasl.go: 0000 0000).  (srvc lines of round C are still replayed.)
//
// sent: what the library wrote: auth/<mech>/<pl>, resp/<pl>, chal/<pl>, succ/<pl>,
// fail/<condition>.  calls: the challenges handed to Step after Start (pl syntax).
// perm: 'none' | 'any' | <userhex>/<passhex> - which credentials the permission
// callback accepts; perms: its invocations <user>/<pass>/<ident>=<verdict>.
package c03

import (
	"bytes"
	"context"
	"crypto/sha1"
	"encoding/base64"
	"encoding/hex"
	"errors"
	"fmt"
	"io"
	"regexp"
	"strings"

	"mellium.im/sasl"
	"mellium.im/xmpp"
	"mellium.im/xmpp/jid"

	"verifharness/common"
	nc "verifharness/negcommon"
)

const nsSASL = "urn:ietf:params:xml:ns:xmpp-sasl"

// ---- payloads -----------------------------------------------------------------------

type payload struct {
	kind string // v, -, eq, sh, bad
	b    []byte
}

func (p payload) wire() string {
	switch p.kind {
	case "v":
		return base64.StdEncoding.EncodeToString(p.b)
	case "eq":
		return "="
	case "sh":
		return "AA"
	case "sh1":
		return "A"
	case "sh3":
		return "AAA"
	case "bad":
		return "!!!!"
	case "bad5": // one character after a complete quantum
		return "AAAAA"
	case "badp": // padding in the middle
		return "AA=A"
	case "bv": // a decodable prefix (the base64 of b) followed by a quantum of garbage
		return base64.StdEncoding.EncodeToString(p.b) + "!!!!"
	case "bd": // a decodable prefix followed by one dangling character
		return base64.StdEncoding.EncodeToString(p.b) + "A"
	}
	return ""
}

func (p payload) field() string {
	if p.kind == "v" || p.kind == "bv" || p.kind == "bd" {
		return p.kind + hex.EncodeToString(p.b)
	}
	return p.kind
}

func parsePayload(s string) (payload, error) {
	switch s {
	case "-", "eq", "sh", "bad", "sh1", "sh3", "bad5", "badp":
		return payload{kind: s}, nil
	}
	if strings.HasPrefix(s, "v") {
		b, err := hex.DecodeString(s[1:])
		if err != nil || len(b) == 0 {
			return payload{}, fmt.Errorf("bad payload %q", s)
		}
		return payload{kind: "v", b: b}, nil
	}
	if strings.HasPrefix(s, "bv") || strings.HasPrefix(s, "bd") {
		b, err := hex.DecodeString(s[2:])
		if err != nil || len(b) == 0 {
			return payload{}, fmt.Errorf("bad payload %q", s)
		}
		return payload{kind: s[:2], b: b}, nil
	}
	return payload{}, fmt.Errorf("bad payload %q", s)
}

// canonPayload maps character data the library wrote to the payload syntax.
func canonPayload(text string) string {
	switch text {
	case "":
		return "-"
	case "=":
		return "eq"
	}
	b, err := base64.StdEncoding.DecodeString(text)
	if err != nil || len(b) == 0 {
		return "raw" + hex.EncodeToString([]byte(text))
	}
	return "v" + hex.EncodeToString(b)
}

func bytesPayload(b []byte) string {
	if len(b) == 0 {
		return "-"
	}
	return "v" + hex.EncodeToString(b)
}

// ---- mechanism names in protocol fields --------------------------------------------

var plainNameRe = regexp.MustCompile(`^[A-Za-z0-9_.+-]+$`)

// encName writes a mechanism name as a protocol field: itself when it is made of
// [A-Za-z0-9_.+-] (and is not the empty-list marker "-"), otherwise '%' + hex.
func encName(n string) string {
	if n != "-" && plainNameRe.MatchString(n) {
		return n
	}
	return "%" + hex.EncodeToString([]byte(n))
}

func decName(f string) string {
	if strings.HasPrefix(f, "%") {
		b, _ := hex.DecodeString(f[1:])
		return string(b)
	}
	return f
}

func encNames(l []string) string {
	var out []string
	for _, n := range l {
		out = append(out, encName(n))
	}
	return common.Join(out, ",")
}

func decNames(f string) []string {
	if f == "-" {
		return nil
	}
	var out []string
	for _, n := range strings.Split(f, ",") {
		out = append(out, decName(n))
	}
	return out
}

// ---- mechanisms -----------------------------------------------------------------------

type step struct {
	kind string // m, d, a, e
	resp []byte
}

func (s step) field() string {
	switch s.kind {
	case "m", "d":
		return s.kind + bytesPayload(s.resp)
	}
	return s.kind
}

func parseStep(f string) (step, error) {
	if f == "a" || f == "e" || f == "pe" || f == "ps" || f == "pv" {
		return step{kind: f}, nil
	}
	if len(f) >= 2 && (f[0] == 'm' || f[0] == 'd') {
		if f[1:] == "-" {
			return step{kind: f[:1]}, nil
		}
		if f[1] == 'v' {
			b, err := hex.DecodeString(f[2:])
			if err == nil && len(b) > 0 {
				return step{kind: f[:1], resp: b}, nil
			}
		}
	}
	return step{}, fmt.Errorf("bad step %q", f)
}

var errScripted = errors.New("scripted mechanism error")

// trace of one negotiation
type trace struct {
	used      string // name of the mechanism whose Start/Next ran first
	usedSet   bool
	results   []step   // observed result of every Step (in order)
	calls     []string // challenges handed to Next (payload syntax)
	afterErr  bool     // a Step ran after a Step that returned an error
	afterDone bool     // a Step ran after a Step that returned more=false
	errored   bool
	done      bool
	perms     []string
	lastErr   error
	// a Step (or the permission callback below it) panicked with a value injected by the case
	panicked bool
	// onStep, when set, is called when the n-th Step (1-based) of the negotiation starts
	onStep func(n int)
	nSteps int
}

// the three classes of panic values: an error, a string, anything else
var errInjected = errors.New("c03: injected panic")

type injectedVal struct{ n int }

func panicValue(kind string) interface{} {
	switch kind {
	case "pe":
		return errInjected
	case "ps":
		return "c03: injected panic"
	}
	return injectedVal{42}
}

func panicKind(v interface{}) string {
	switch v.(type) {
	case error:
		return "pe"
	case string:
		return "ps"
	}
	return "pv"
}

func (t *trace) stepStarts() {
	t.nSteps++
	if t.onStep != nil {
		t.onStep(t.nSteps)
	}
}

// recordPanic records a Step that did not return.
func (t *trace) recordPanic(name string, v interface{}) {
	if !t.usedSet {
		t.used, t.usedSet = name, true
	}
	if t.errored {
		t.afterErr = true
	}
	if t.done {
		t.afterDone = true
	}
	if e, ok := v.(error); ok {
		t.lastErr = e
	}
	t.results = append(t.results, step{kind: panicKind(v)})
	t.errored = true
	t.panicked = true
}

func (t *trace) record(name string, more bool, resp []byte, err error) {
	if !t.usedSet {
		t.used, t.usedSet = name, true
	}
	if t.errored {
		t.afterErr = true
	}
	if t.done {
		t.afterDone = true
	}
	if err != nil {
		t.lastErr = err
	}
	switch {
	case errors.Is(err, sasl.ErrAuthn):
		t.results = append(t.results, step{kind: "a"})
		t.errored = true
	case err != nil:
		t.results = append(t.results, step{kind: "e"})
		t.errored = true
	case more:
		t.results = append(t.results, step{kind: "m", resp: append([]byte(nil), resp...)})
	default:
		t.results = append(t.results, step{kind: "d", resp: append([]byte(nil), resp...)})
		t.done = true
	}
}

// scripted returns a mechanism that follows the step script; the position is kept in
// the negotiator's cache, so every new negotiator starts at the beginning.
func scripted(name string, script []step, t *trace) sasl.Mechanism {
	at := func(data interface{}) int {
		if i, ok := data.(int); ok {
			return i
		}
		return 0
	}
	do := func(i int) (bool, []byte, interface{}, error) {
		var s step
		if i < len(script) {
			s = script[i]
		} else {
			s = step{kind: "e"}
		}
		var more bool
		var err error
		t.stepStarts()
		switch s.kind {
		case "pe", "ps", "pv":
			v := panicValue(s.kind)
			t.recordPanic(name, v)
			panic(v)
		case "m":
			more = true
		case "a":
			err = sasl.ErrAuthn
		case "e":
			err = errScripted
		}
		t.record(name, more, s.resp, err)
		return more, s.resp, i + 1, err
	}
	return sasl.Mechanism{
		Name:  name,
		Start: func(n *sasl.Negotiator) (bool, []byte, interface{}, error) { return do(0) },
		Next: func(n *sasl.Negotiator, challenge []byte, data interface{}) (bool, []byte, interface{}, error) {
			t.calls = append(t.calls, bytesPayload(challenge))
			return do(at(data))
		},
	}
}

// wrapped records what a real mechanism does.
func wrapped(m sasl.Mechanism, t *trace) sasl.Mechanism {
	return sasl.Mechanism{
		Name: m.Name,
		Start: func(n *sasl.Negotiator) (bool, []byte, interface{}, error) {
			t.stepStarts()
			defer func() {
				if v := recover(); v != nil {
					t.recordPanic(m.Name, v)
					panic(v)
				}
			}()
			more, resp, c, err := m.Start(n)
			t.record(m.Name, more, resp, err)
			return more, resp, c, err
		},
		Next: func(n *sasl.Negotiator, challenge []byte, data interface{}) (bool, []byte, interface{}, error) {
			t.calls = append(t.calls, bytesPayload(challenge))
			t.stepStarts()
			defer func() {
				if v := recover(); v != nil {
					t.recordPanic(m.Name, v)
					panic(v)
				}
			}()
			more, resp, c, err := m.Next(n, challenge, data)
			t.record(m.Name, more, resp, err)
			return more, resp, c, err
		},
	}
}

func realMech(name string) (sasl.Mechanism, bool) {
	switch name {
	case "PLAIN":
		return sasl.Plain, true
	case "SCRAM-SHA-1":
		return sasl.ScramSha1, true
	case "SCRAM-SHA-256":
		return sasl.ScramSha256, true
	case "SCRAM-SHA-1-PLUS":
		return sasl.ScramSha1Plus, true
	case "ANONYMOUS":
		return sasl.Anonymous, true
	}
	return sasl.Mechanism{}, false
}

func buildMechs(names []string, script []step, t *trace, allScripted bool) []sasl.Mechanism {
	var ms []sasl.Mechanism
	for _, n := range names {
		if m, ok := realMech(n); ok && !allScripted {
			ms = append(ms, wrapped(m, t))
		} else {
			ms = append(ms, scripted(n, script, t))
		}
	}
	return ms
}

// ---- running one negotiation ---------------------------------------------------------

type negResult struct {
	called  int // number of times the SASL feature's Negotiate ran
	mask    xmpp.SessionState
	rwSet   bool
	err     error
	state   xmpp.SessionState // final session state
	sessErr error
	panicV  string
	conn    *nc.Conn
}

func instrument(f xmpp.StreamFeature, res *negResult) xmpp.StreamFeature {
	orig := f.Negotiate
	f.Negotiate = func(ctx context.Context, s *xmpp.Session, data interface{}) (xmpp.SessionState, io.ReadWriter, error) {
		res.called++
		m, rw, err := orig(ctx, s, data)
		res.mask, res.rwSet, res.err = m, rw != nil, err
		return m, rw, err
	}
	return f
}

func negotiate(conn *nc.Conn, recv bool, f xmpp.StreamFeature) (res negResult) {
	return negotiateCtx(context.Background(), conn, recv, f)
}

// hookConn lets a case act at the moment the library makes its n-th Write call (the context
// becomes done while an element is being written).
type hookConn struct {
	*nc.Conn
	writes  int
	onWrite func(n int)
}

func (h *hookConn) Write(p []byte) (int, error) {
	h.writes++
	if h.onWrite != nil {
		h.onWrite(h.writes)
	}
	return h.Conn.Write(p)
}

func negotiateCtx(ctx context.Context, conn *nc.Conn, recv bool, f xmpp.StreamFeature) (res negResult) {
	return negotiateRW(ctx, conn, conn, recv, f)
}

func negotiateRW(ctx context.Context, conn *nc.Conn, rw io.ReadWriter, recv bool, f xmpp.StreamFeature) (res negResult) {
	res.conn = conn
	feat := instrument(f, &res)
	neg := xmpp.NewNegotiator(func(*xmpp.Session, *xmpp.StreamConfig) xmpp.StreamConfig {
		return xmpp.StreamConfig{Features: []xmpp.StreamFeature{feat}}
	})
	res.panicV = common.Recover(func() {
		var s *xmpp.Session
		var err error
		if recv {
			s, err = xmpp.ReceiveSession(ctx, rw, xmpp.Secure, neg)
		} else {
			s, err = xmpp.NewSession(ctx, jid.MustParse("example.net"), jid.MustParse("user@example.net"), rw, xmpp.Secure, neg)
		}
		res.sessErr = err
		if s != nil {
			res.state = s.State()
		}
	})
	return res
}

// errClass maps the error returned by the feature to the model's enum.
func errClass(res negResult, t *trace) string {
	if res.called == 0 {
		return "notcalled"
	}
	err := res.err
	if res.panicV != "" && t.panicked {
		// the injected panic travelled up through Negotiate and the session constructor
		return "panic"
	}
	switch {
	case err == nil:
		return "nil"
	case errors.Is(err, nc.ErrWrite):
		return "write"
	case errors.Is(err, context.Canceled):
		return "ctx"
	case errors.Is(err, sasl.ErrAuthn):
		return "authnerr"
	case t.lastErr != nil && errors.Is(err, t.lastErr):
		return "mecherr"
	}
	c := nc.ErrClass(err)
	if strings.HasPrefix(c, "sasl:") {
		return "saslfailure"
	}
	if t.panicked && strings.HasPrefix(c, "other:") {
		// the implementation recovered the injected panic and made an error of its own of it
		return "mecherr"
	}
	return c
}

// ---- client role -----------------------------------------------------------------------

type cliCase struct {
	mechs []string
	adv   []string
	steps []step // scripted steps (for real mechanisms: filled from the observation)
	peer  []string
	// dyn, when set, replaces the static peer script: event k is computed from what the
	// library wrote (used for a real SCRAM exchange); it returns the event in field
	// syntax ("" = end of script).
	dyn func(k int, written []byte) string
	// allScripted: every configured mechanism is a scripted one, whatever its name
	// (line operation "clis")
	allScripted bool
	// hostile environment (line operation "clie"): wfail > 0: the wfail-th SASL element the
	// initiator writes, and every later write, fails; cancel >= 0: the context is cancelled
	// when that many peer elements have been delivered (0: with the features list)
	env    bool
	wfail  int
	cancel int
	// cancelW > 0: the context becomes done while the cancelW-th SASL element (from 1) the
	// initiator writes is inside the connection's Write (line field "w<n>", n from 0)
	cancelW int
	// pol != "": operation "clip" (steps may panic; pol = the probed recovery policy)
	pol string
}

func cliEventXML(ev string) (string, error) {
	switch ev[0] {
	case 'c', 's':
		p, err := parsePayload(ev[1:])
		if err != nil {
			return "", err
		}
		name := "challenge"
		if ev[0] == 's' {
			name = "success"
		}
		return "<" + name + " xmlns='" + nsSASL + "'>" + p.wire() + "</" + name + ">", nil
	}
	switch ev {
	case "f":
		return "<failure xmlns='" + nsSASL + "'><not-authorized/></failure>", nil
	case "f0":
		return "<failure xmlns='" + nsSASL + "'/>", nil
	case "fu":
		return "<failure xmlns='" + nsSASL + "'><something-new/></failure>", nil
	case "ft":
		return "<failure xmlns='" + nsSASL + "'><text xml:lang='en'>no</text></failure>", nil
	case "fm":
		return "<failure xmlns='" + nsSASL + "'><aborted/><not-authorized/></failure>", nil
	case "fn":
		return "<failure xmlns='" + nsSASL + "'><not-authorized xmlns='urn:example:other'/></failure>", nil
	case "fx":
		return "<failure xmlns='" + nsSASL + "'><not-authorized></failure>", nil
	case "o":
		return "<continue xmlns='" + nsSASL + "'/>", nil
	case "n":
		return "<success xmlns='urn:example:other'/>", nil
	case "w":
		return " ", nil
	}
	return "", fmt.Errorf("bad client-role peer event %q", ev)
}

func fieldSteps(st []step) string {
	var l []string
	for _, s := range st {
		l = append(l, s.field())
	}
	return common.Join(l, ",")
}

func (c cliCase) line() string {
	if c.env {
		b, k := "-", "-"
		if c.wfail > 0 {
			b = fmt.Sprint(c.wfail - 1)
		}
		if c.cancel >= 0 {
			k = fmt.Sprint(c.cancel)
		}
		if c.cancelW > 0 {
			k = fmt.Sprintf("w%d", c.cancelW-1)
		}
		return fmt.Sprintf("clie %s %s %s %s %s %s", b, k, encNames(c.mechs), encNames(c.adv), fieldSteps(c.steps), common.Join(c.peer, ","))
	}
	if c.pol != "" {
		return fmt.Sprintf("clip %s %s %s %s %s", c.pol, encNames(c.mechs), encNames(c.adv), fieldSteps(c.steps), common.Join(c.peer, ","))
	}
	op := "cli"
	if c.allScripted {
		op = "clis"
	}
	return fmt.Sprintf("%s %s %s %s %s", op, encNames(c.mechs), encNames(c.adv), fieldSteps(c.steps), common.Join(c.peer, ","))
}

const tailOK = "<?xml version='1.0'?><stream:stream xmlns='jabber:client' xmlns:stream='http://etherx.jabber.org/streams' version='1.0' id='sid2' from='example.net' to='user@example.net'><stream:features/>"

func runClient(r *common.Run, c cliCase, class string) error {
	var t trace
	mechs := buildMechs(c.mechs, c.steps, &t, c.allScripted)
	if len(mechs) == 0 {
		return fmt.Errorf("client case without mechanisms")
	}
	var adv strings.Builder
	adv.WriteString("<stream:features><mechanisms xmlns='" + nsSASL + "'>")
	for _, a := range c.adv {
		adv.WriteString("<mechanism>" + nc.Esc(a) + "</mechanism>")
	}
	adv.WriteString("</mechanisms></stream:features>")
	ctx, cancelCtx := context.WithCancel(context.Background())
	defer cancelCtx()
	advXML := adv.String()
	chunks := []nc.Chunk{nc.S(nc.Header("jabber:client", "sid1", "example.net", "user@example.net")), {Dyn: func([]byte) []byte {
		if c.env && c.cancel == 0 {
			cancelCtx()
		}
		return []byte(advXML)
	}}}
	var delivered []string // events in delivery order
	restarted := func(w []byte) bool { return bytes.Count(w, []byte("<?xml")) > 1 }
	nEvChunks := len(c.peer)
	if c.dyn != nil {
		nEvChunks = 8
	}
	for k := 0; k < nEvChunks; k++ {
		k := k
		chunks = append(chunks, nc.Chunk{Dyn: func(w []byte) []byte {
			// after the stream restart that follows a successful exchange the rest of the
			// SASL script is dropped: the peer continues with the new stream
			if restarted(w) {
				return nil
			}
			var ev string
			if c.dyn != nil {
				ev = c.dyn(k, w)
			} else {
				ev = c.peer[k]
			}
			if ev == "" {
				return nil
			}
			x, err := cliEventXML(ev)
			if err != nil {
				return nil
			}
			delivered = append(delivered, ev)
			if c.env && c.cancel == len(delivered) {
				cancelCtx()
			}
			return []byte(x)
		}})
	}
	// after a successful exchange the stream restarts: let the session complete
	chunks = append(chunks, nc.Chunk{Dyn: func(w []byte) []byte {
		if restarted(w) {
			return []byte(tailOK)
		}
		return nil
	}})
	for _, ev := range c.peer {
		if _, err := cliEventXML(ev); err != nil {
			return err
		}
	}
	conn := nc.NewConn(chunks...)
	if c.env && c.wfail > 0 {
		// write 1 is the stream header
		conn.FailWriteCall = 1 + c.wfail
	}
	var rw io.ReadWriter = conn
	if c.env && c.cancelW > 0 {
		// write 1 is the stream header
		rw = &hookConn{Conn: conn, onWrite: func(n int) {
			if n == 1+c.cancelW {
				cancelCtx()
			}
		}}
	}
	res := negotiateRW(ctx, conn, rw, false, xmpp.SASL("", "secret", mechs...))
	if c.dyn != nil {
		c.peer = delivered
	}
	nEv := len(c.peer)
	isReal := false
	if _, ok := realMech(t.used); ok && !c.allScripted && t.used != "" {
		isReal = true
		c.steps = t.results
	}

	// what the library sent in the first stream
	streams, perr := nc.ParseWritten(conn.Written())
	var sent []string
	if len(streams) > 0 {
		for _, e := range streams[0].Elems {
			switch {
			case e.Name.Space == nsSASL && e.Name.Local == "auth":
				m, _ := e.AttrVal("mechanism")
				sent = append(sent, "auth/"+encName(m)+"/"+canonPayload(e.Text))
			case e.Name.Space == nsSASL && e.Name.Local == "response":
				sent = append(sent, "resp/"+canonPayload(e.Text))
			default:
				sent = append(sent, "?"+e.Name.Local)
			}
		}
	}
	authn := res.called > 0 && res.mask&xmpp.Authn != 0
	errc := errClass(res, &t)
	used := "-"
	if t.usedSet {
		used = encName(t.used)
	}
	obs := fmt.Sprintf("%s %s %s %s %s", common.B(authn), errc, used, common.Join(sent, ","), common.Join(t.calls, ","))
	injected := res.panicV != "" && t.panicked
	if res.panicV != "" && !injected {
		obs = "PANIC"
	}
	line := c.line()
	if isReal {
		// real mechanisms use random nonces: replace every payload by an index in order
		// of first appearance (in the line first, then in the observation)
		line, obs = canonPayloads(line, obs)
	}
	r.Line(line, obs)
	r.Case(line, true, class+":"+errc)

	// ---- property oracle on the real code (independent of the model) ----
	lines := []string{r.Prop + " " + line}
	// events consumed by the library
	consumed := len(delivered)
	_ = nEv
	last := "none"
	if consumed > 0 {
		last = c.peer[consumed-1][:1]
	}
	lastStep := "none"
	if n := len(t.results); n > 0 {
		lastStep = t.results[n-1].kind
	}
	if res.panicV != "" && !injected {
		r.Fail("client-no-panic", "panic", lines, res.panicV)
		return nil
	}
	if perr != nil {
		r.Fail("client-output-wellformed", "xml", lines, perr.Error())
	}
	sessAuthn := res.state&xmpp.Authn != 0
	if t.panicked && (authn || sessAuthn) {
		r.Fail("client-authn-step-panicked", "step="+lastStep, lines, "the session is authenticated although a Step of the mechanism panicked")
	}
	if authn != sessAuthn {
		r.Fail("client-state-follows-mask", fmt.Sprintf("mask=%v;state=%v", authn, sessAuthn), lines, "the session's Authn bit differs from the mask returned by Negotiate")
	}
	if authn || sessAuthn {
		switch {
		case res.err != nil:
			r.Fail("client-authn-with-error", "err="+errc, lines, "Authn returned together with an error")
		case last != "s":
			r.Fail("client-authn-without-success", "last="+last+";step="+lastStep, lines,
				"the session is authenticated although the last element read from the receiver is not <success/>")
		case lastStep != "d" || t.errored:
			r.Fail("client-authn-mechanism-incomplete", "last="+last+";step="+lastStep, lines,
				"the session is authenticated although the mechanism did not complete without error")
		}
		for i := 0; i+1 < consumed; i++ {
			if k := c.peer[i][:1]; k != "c" {
				r.Fail("client-authn-after-bad-element", "elem="+k, lines, "authenticated although an element other than <challenge/> preceded the final <success/>")
				break
			}
		}
		for i := 0; i < consumed; i++ {
			if p := c.peer[i][1:]; (c.peer[i][0] == 'c' || c.peer[i][0] == 's') && p != "-" && p[0] != 'v' {
				r.Fail("client-authn-undecodable-payload", "payload="+p, lines, "authenticated although a payload was not valid base64")
				break
			}
		}
	}
	if t.afterErr {
		r.Fail("client-no-step-after-error", "step-after-error", lines, "Step called on a mechanism that had returned an error")
	}
	member := func(l []string, x string) bool {
		for _, y := range l {
			if x == y {
				return true
			}
		}
		return false
	}
	if t.usedSet {
		first, found := "", false
		for _, m := range c.mechs {
			if member(c.adv, m) {
				first, found = m, true
				break
			}
		}
		switch {
		case !member(c.adv, t.used):
			r.Fail("client-mechanism-selection", "used-not-offered", lines, fmt.Sprintf("mechanism %q is stepped, the receiver offered %q", t.used, c.adv))
		case !member(c.mechs, t.used):
			r.Fail("client-mechanism-selection", "used-not-configured", lines, fmt.Sprintf("mechanism %q is stepped, configured are %q", t.used, c.mechs))
		case !found || first != t.used:
			r.Fail("client-mechanism-selection", "used-not-first-common", lines, fmt.Sprintf("mechanism %q used, first common one is %q", t.used, first))
		}
	} else if len(sent) > 0 {
		r.Fail("client-mechanism-selection", "sent-without-mechanism", lines, "elements sent although no mechanism was selected")
	}
	// the mechanism named in <auth/> is, by exact string equality, one the receiver offered,
	// one that is configured, and the one that is stepped
	if len(streams) > 0 {
		for _, e := range streams[0].Elems {
			if e.Name.Space == nsSASL && e.Name.Local == "auth" {
				m, _ := e.AttrVal("mechanism")
				switch {
				case !member(c.adv, m):
					r.Fail("client-mechanism-selection", "auth-names-unoffered-mechanism", lines, fmt.Sprintf("<auth mechanism=%q/> but the receiver offered %q", m, c.adv))
				case !member(c.mechs, m):
					r.Fail("client-mechanism-selection", "auth-names-unconfigured-mechanism", lines, fmt.Sprintf("<auth mechanism=%q/> but configured are %q", m, c.mechs))
				case !t.usedSet || m != t.used:
					r.Fail("client-mechanism-selection", "auth-names-other-mechanism", lines, "auth names "+m+" but "+t.used+" is stepped")
				}
			}
		}
	}
	if authn {
		onWire := false
		for _, x := range sent {
			if strings.HasPrefix(x, "auth/") {
				onWire = true
			}
		}
		if !onWire {
			r.Fail("client-authn-auth-not-sent", "no-auth-on-wire", lines, "authenticated although no <auth/> element reached the connection")
		}
	}
	if authn && !t.usedSet {
		r.Fail("client-mechanism-selection", "authn-without-mechanism", lines, "authenticated although no mechanism ran")
	}
	return nil
}

var payloadRe = regexp.MustCompile(`v[0-9a-f]{2,}`)

// canonPayloads renames the byte strings of a case (v<hex> tokens) to vf0<nn> in order
// of first appearance, consistently in the line and the observation.
func canonPayloads(line, obs string) (string, string) {
	names := map[string]string{}
	ren := func(s string) string {
		return payloadRe.ReplaceAllStringFunc(s, func(m string) string {
			if n, ok := names[m]; ok {
				return n
			}
			n := fmt.Sprintf("vf0%02x", len(names))
			names[m] = n
			return n
		})
	}
	line = ren(line)
	return line, ren(obs)
}

// ---- server role -----------------------------------------------------------------------

type srvCase struct {
	mechs []string
	steps []step
	perm  string
	peer  []string
	// wfail > 0: the wfail-th SASL element the receiver writes (and every later write) fails
	wfail int
	// allScripted: every configured mechanism is scripted whatever its name (operation "srvs")
	allScripted bool
	// pol != "": operation "srvp" (steps / the permission callback may panic)
	pol string
	// ctxOn: operation "srvg": the negotiation context becomes done at the moment `when`:
	// F<j> while peer element j is in flight (j = 0: before the loop's first test), S<k> inside
	// the k-th Step (k >= 1), W<w> while the w-th SASL element (from 0) is being written.
	// top / mid: at which iterations the implementation was seen to test the context (probed).
	ctxOn    bool
	when     string
	top, mid string
}

// moments: every moment at which the context of an exchange of n peer elements can become
// done: element j in flight, inside Step k, while SASL element w is being written
func moments(n int) []string {
	out := []string{"F0"}
	for j := 0; j < n; j++ {
		if j > 0 {
			out = append(out, fmt.Sprintf("F%d", j))
		}
		out = append(out, fmt.Sprintf("S%d", j+1), fmt.Sprintf("W%d", j))
	}
	return out
}

// whenOf: the round C numbering (0: first element in flight; k >= 1: inside the k-th Step)
func whenOf(k int) string {
	if k == 0 {
		return "F0"
	}
	return fmt.Sprintf("S%d", k)
}

func parseWhen(w string) (kind byte, n int, err error) {
	if len(w) < 2 || strings.IndexByte("FSW", w[0]) < 0 {
		return 0, 0, fmt.Errorf("bad moment %q", w)
	}
	if _, e := fmt.Sscanf(w[1:], "%d", &n); e != nil || (w[0] == 'S' && n == 0) {
		return 0, 0, fmt.Errorf("bad moment %q", w)
	}
	return w[0], n, nil
}

func (c srvCase) line() string {
	if c.wfail > 0 {
		return fmt.Sprintf("srvw %d %s %s %s %s", c.wfail-1, encNames(c.mechs), fieldSteps(c.steps), c.perm, common.Join(c.peer, ","))
	}
	if c.pol != "" {
		return fmt.Sprintf("srvp %s %s %s %s %s", c.pol, encNames(c.mechs), fieldSteps(c.steps), c.perm, common.Join(c.peer, ","))
	}
	if c.ctxOn {
		return fmt.Sprintf("srvg %s %s %s %s %s %s %s", c.top, c.mid, c.when, encNames(c.mechs), fieldSteps(c.steps), c.perm, common.Join(c.peer, ","))
	}
	op := "srv"
	if c.allScripted {
		op = "srvs"
	}
	return fmt.Sprintf("%s %s %s %s %s", op, encNames(c.mechs), fieldSteps(c.steps), c.perm, common.Join(c.peer, ","))
}

func srvEventXML(ev string) (string, error) {
	switch ev[0] {
	case 'A':
		i := strings.Index(ev, "/")
		if i < 0 {
			return "", fmt.Errorf("bad auth event %q", ev)
		}
		p, err := parsePayload(ev[i+1:])
		if err != nil {
			return "", err
		}
		return "<auth xmlns='" + nsSASL + "' mechanism='" + nc.Esc(decName(ev[1:i])) + "'>" + p.wire() + "</auth>", nil
	case 'R':
		p, err := parsePayload(ev[1:])
		if err != nil {
			return "", err
		}
		return "<response xmlns='" + nsSASL + "'>" + p.wire() + "</response>", nil
	}
	switch ev {
	case "B":
		return "<abort xmlns='" + nsSASL + "'/>", nil
	case "F":
		return "<failure xmlns='" + nsSASL + "'><aborted/></failure>", nil
	case "F0":
		return "<failure xmlns='" + nsSASL + "'/>", nil
	case "Fu":
		return "<failure xmlns='" + nsSASL + "'><something-new/></failure>", nil
	case "Ft":
		return "<failure xmlns='" + nsSASL + "'><text>no</text></failure>", nil
	case "O":
		return "<continue xmlns='" + nsSASL + "'/>", nil
	case "N":
		return "<auth xmlns='urn:example:other' mechanism='PLAIN'>AGEAYg==</auth>", nil
	case "W":
		return " ", nil
	}
	return "", fmt.Errorf("bad server-role peer event %q", ev)
}

func permFunc(spec string, t *trace) (func(*sasl.Negotiator) bool, error) {
	var user, pass []byte
	switch spec {
	case "none", "any":
	case "panic-e", "panic-s", "panic-v":
		// the callback does not return a verdict: its user store is unreachable and it bails
		// out by panicking
		return func(n *sasl.Negotiator) bool {
			n.Credentials()
			panic(panicValue("p" + spec[len("panic-"):]))
		}, nil
	default:
		i := strings.Index(spec, "/")
		if i < 0 {
			return nil, fmt.Errorf("bad perm spec %q", spec)
		}
		var e1, e2 error
		user, e1 = common.UnHex(spec[:i])
		pass, e2 = common.UnHex(spec[i+1:])
		if e1 != nil || e2 != nil {
			return nil, fmt.Errorf("bad perm spec %q", spec)
		}
	}
	return func(n *sasl.Negotiator) bool {
		u, p, id := n.Credentials()
		var v bool
		switch spec {
		case "none":
		case "any":
			v = true
		default:
			v = bytes.Equal(u, user) && bytes.Equal(p, pass)
		}
		t.perms = append(t.perms, fmt.Sprintf("%s/%s/%s=%s", common.Hex(u), common.Hex(p), common.Hex(id), common.B(v)))
		return v
	}, nil
}

// execServer runs one receiving session of the case on the code under test.
func execServer(c srvCase, tp *trace) (res negResult, delivered []string, conn *nc.Conn, err error) {
	t := tp
	mechs := buildMechs(c.mechs, c.steps, t, c.allScripted)
	if len(mechs) == 0 {
		return res, nil, nil, fmt.Errorf("server case without mechanisms")
	}
	perm, err := permFunc(c.perm, t)
	if err != nil {
		return res, nil, nil, err
	}
	ctx, cancelCtx := context.WithCancel(context.Background())
	defer cancelCtx()
	var wk byte
	var wn int
	if c.ctxOn {
		if wk, wn, err = parseWhen(c.when); err != nil {
			return res, nil, nil, err
		}
	}
	if wk == 'S' {
		t.onStep = func(n int) {
			if n == wn {
				cancelCtx()
			}
		}
	}
	chunks := []nc.Chunk{nc.S(nc.Header("jabber:client", "", "", "example.net"))}
	restarted := func(w []byte) bool { return bytes.Count(w, []byte("<?xml")) > 1 }
	for k, ev := range c.peer {
		ev, k := ev, k
		x, err := srvEventXML(ev)
		if err != nil {
			return res, nil, nil, err
		}
		chunks = append(chunks, nc.Chunk{Dyn: func(w []byte) []byte {
			if restarted(w) || bytes.Contains(w, []byte("<success")) {
				return nil
			}
			delivered = append(delivered, ev)
			if wk == 'F' && k == wn {
				// this element is in flight (the first one: the context is done before the
				// loop's first test)
				cancelCtx()
			}
			return []byte(x)
		}})
	}
	chunks = append(chunks, nc.Chunk{Dyn: func(w []byte) []byte {
		if bytes.Contains(w, []byte("<success")) {
			return []byte(nc.Header("jabber:client", "", "", "example.net"))
		}
		return nil
	}})
	conn = nc.NewConn(chunks...)
	if c.wfail > 0 {
		// writes 1 and 2 are the stream header and the features list
		conn.FailWriteCall = 2 + c.wfail
	}
	var rw io.ReadWriter = conn
	if wk == 'W' {
		rw = &hookConn{Conn: conn, onWrite: func(n int) {
			if n == 3+wn {
				cancelCtx()
			}
		}}
	}
	res = negotiateRW(ctx, conn, rw, true, xmpp.SASLServer(perm, mechs...))
	return res, delivered, conn, nil
}

func countSent(conn *nc.Conn, local string) int {
	streams, _ := nc.ParseWritten(conn.Written())
	n := 0
	if len(streams) > 0 {
		for _, e := range streams[0].Elems {
			if e.Name.Space == nsSASL && e.Name.Local == local {
				n++
			}
		}
	}
	return n
}

func runServer(r *common.Run, c srvCase, class string) error {
	var t trace
	res, delivered, conn, err := execServer(c, &t)
	if err != nil {
		return err
	}

	streams, perr := nc.ParseWritten(conn.Written())
	var sent []string
	var advertised []string
	if len(streams) > 0 {
		for _, e := range streams[0].Elems {
			switch {
			case e.Name.Local == "features":
				if ms, ok := e.Child("mechanisms"); ok {
					for _, k := range ms.Kids {
						if k.Name.Local == "mechanism" {
							advertised = append(advertised, k.Text)
						}
					}
				}
			case e.Name.Space == nsSASL && e.Name.Local == "challenge":
				sent = append(sent, "chal/"+canonPayload(e.Text))
			case e.Name.Space == nsSASL && e.Name.Local == "success":
				sent = append(sent, "succ/"+canonPayload(e.Text))
			case e.Name.Space == nsSASL && e.Name.Local == "failure":
				cond := "none"
				if len(e.Kids) > 0 {
					cond = e.Kids[0].Name.Local
				}
				sent = append(sent, "fail/"+cond)
			default:
				sent = append(sent, "?"+e.Name.Local)
			}
		}
	}
	authn := res.called > 0 && res.mask&xmpp.Authn != 0
	errc := errClass(res, &t)
	obs := fmt.Sprintf("%s %s %s %s adv:%s", common.B(authn), errc, common.Join(sent, ","), common.Join(t.perms, ","), encNames(advertised))
	injected := res.panicV != "" && t.panicked
	if res.panicV != "" && !injected {
		obs = "PANIC"
	}
	// a real mechanism other than PLAIN (which the model has concretely) on the receiving side:
	// its observed Step results are the mechanism parameter of the model
	isReal := false
	if _, ok := realMech(t.used); ok && t.usedSet && !c.allScripted && t.used != "PLAIN" {
		isReal = true
		c.steps = t.results
	}
	line := c.line()
	if isReal {
		line, obs = canonPayloads(line, obs)
	}
	r.Line(line, obs)
	r.Case(line, true, class+":"+errc)

	// ---- property oracle ----
	lines := []string{r.Prop + " " + line}
	if res.panicV != "" && !injected {
		r.Fail("server-no-panic", "panic", lines, res.panicV)
		return nil
	}
	if perr != nil {
		r.Fail("server-output-wellformed", "xml", lines, perr.Error())
	}
	for _, x := range sent {
		if strings.HasPrefix(x, "fail/") {
			ok := false
			for _, d := range definedConds {
				if x == "fail/"+d {
					ok = true
				}
			}
			if !ok {
				r.Fail("server-failure-condition-defined", x, lines, "the receiving side refused with a <failure/> that carries no defined condition; an initiating entity cannot tell why")
			}
		}
	}
	consumed := len(delivered)
	for _, a := range advertised {
		if strings.HasSuffix(a, "-PLUS") {
			r.Fail("server-advertises-supported", "plus-advertised", lines, "the receiving side advertises "+a+", which its SASL library cannot serve")
		}
		ok := false
		for _, m := range c.mechs {
			if m == a {
				ok = true
			}
		}
		if !ok {
			r.Fail("server-advertises-supported", "unconfigured-advertised", lines, "advertised mechanism "+a+" is not configured")
		}
	}
	if t.usedSet {
		ok := false
		for _, a := range advertised {
			if a == t.used {
				ok = true
			}
		}
		if !ok {
			r.Fail("server-mechanism-offered", "stepped-not-advertised", lines, fmt.Sprintf("mechanism %q is stepped but was not advertised (%q)", t.used, advertised))
		}
	}
	// an <auth/> that names a mechanism the receiving side did not offer ends the exchange, with
	// <invalid-mechanism/>, whatever came before (independent of the Authn bit)
	for i := 0; res.called > 0 && i < consumed && i < len(c.peer); i++ {
		if c.peer[i][0] != 'A' && c.peer[i][0] != 'R' {
			break // the exchange ends at this element anyway
		}
		if c.peer[i][0] != 'A' || !strings.Contains(c.peer[i], "/") {
			continue
		}
		name := decName(c.peer[i][1:strings.Index(c.peer[i], "/")])
		offered := false
		for _, a := range advertised {
			if a == name && name != "" {
				offered = true
			}
		}
		if offered {
			continue
		}
		lastSent := ""
		if len(sent) > 0 {
			lastSent = sent[len(sent)-1]
		}
		switch {
		case consumed > i+1:
			r.Fail("server-unoffered-mechanism-refused", "exchange-continued", lines, fmt.Sprintf("<auth mechanism=%q/> was not offered, yet the receiving side went on to read another element", name))
		case errc != "write" && res.panicV == "" && lastSent != "fail/invalid-mechanism":
			r.Fail("server-unoffered-mechanism-refused", "not-refused", lines, fmt.Sprintf("<auth mechanism=%q/> was not offered and was answered with %q instead of <invalid-mechanism/>", name, lastSent))
		}
		break
	}
	sessAuthn := res.state&xmpp.Authn != 0
	if authn != sessAuthn {
		r.Fail("server-state-follows-mask", fmt.Sprintf("mask=%v;state=%v", authn, sessAuthn), lines, "the session's Authn bit differs from the mask returned by Negotiate")
	}
	if t.afterErr {
		r.Fail("server-no-step-after-error", "step-after-error", lines, "Step called on a mechanism that had returned an error")
	}
	if t.panicked && (authn || sessAuthn) {
		r.Fail("server-authn-step-panicked", "step="+t.results[len(t.results)-1].kind, lines,
			"authenticated although a Step of the mechanism (or the permission callback below it) panicked instead of completing")
	}
	if authn || sessAuthn {
		// the last <auth/> consumed must name a configured mechanism and everything after it must be <response/>
		la := -1
		for i := 0; i < consumed; i++ {
			if c.peer[i][0] == 'A' {
				la = i
			}
		}
		lastStep := "none"
		if n := len(t.results); n > 0 {
			lastStep = t.results[n-1].kind
		}
		switch {
		case res.err != nil:
			r.Fail("server-authn-with-error", "err="+errc, lines, "Authn returned together with an error")
		case la < 0:
			r.Fail("server-authn-without-auth", "no-auth", lines, "authenticated although no <auth/> was received")
		case lastStep != "d":
			r.Fail("server-authn-mechanism-incomplete", "step="+lastStep, lines, "authenticated although the mechanism did not complete without error")
		default:
			name := decName(c.peer[la][1:strings.Index(c.peer[la], "/")])
			ok := false
			for _, m := range c.mechs {
				if m == name {
					ok = true
				}
			}
			if !ok || name != t.used && !multiAuth(c.peer[:consumed]) {
				r.Fail("server-mechanism-offered", "auth-unconfigured", lines, "authenticated with mechanism "+name+" (stepped: "+t.used+")")
			}
			for i := la; i < consumed; i++ {
				pl := c.peer[i][1:]
				if c.peer[i][0] == 'A' {
					pl = c.peer[i][strings.Index(c.peer[i], "/")+1:]
				}
				if strings.HasPrefix(pl, "b") {
					r.Fail("server-authn-undecodable-payload", "payload="+pl[:2], lines, "authenticated although a payload of the exchange was not valid base64")
					break
				}
			}
			for i := la + 1; i < consumed; i++ {
				if c.peer[i][0] != 'R' {
					r.Fail("server-authn-after-bad-element", "elem="+c.peer[i][:1], lines, "authenticated although an element other than <response/> followed <auth/>")
					break
				}
			}
			if name == "PLAIN" && !c.allScripted {
				// the permission callback must have accepted exactly the transmitted credentials
				p, _ := parsePayload(c.peer[la][strings.Index(c.peer[la], "/")+1:])
				parts := bytes.Split(p.b, []byte{0})
				good := false
				if p.kind == "v" && len(parts) == 3 && len(t.perms) > 0 {
					want := fmt.Sprintf("%s/%s/%s=1", common.Hex(parts[1]), common.Hex(parts[2]), common.Hex(parts[0]))
					good = t.perms[len(t.perms)-1] == want
				}
				if !good {
					r.Fail("server-authn-needs-permission", "plain", lines, "PLAIN authenticated without an accepting permission verdict for the transmitted credentials")
				}
			}
		}
		if len(sent) == 0 || !strings.HasPrefix(sent[len(sent)-1], "succ/") {
			r.Fail("server-authn-signals-success", "no-success-sent", lines, "authenticated without sending <success/>")
		}
		if isReal {
			// a real mechanism other than PLAIN: the application's callback must have accepted
			accepted := false
			for _, p := range t.perms {
				if strings.HasSuffix(p, "=1") {
					accepted = true
				}
			}
			if !accepted {
				r.Fail("server-authn-needs-permission", strings.ToLower(t.used)+"-callback-not-consulted", lines,
					"authenticated through "+t.used+" although the application's permission callback accepted nothing (verdicts: "+common.Join(t.perms, ",")+")")
			}
		}
		if strings.HasPrefix(t.used, "SCRAM-") && !c.allScripted {
			// xmpp.SASLServer hands the SASL library no salted credentials: the real SCRAM
			// mechanisms cannot verify anybody's proof, so nobody can have been accepted
			r.Fail("server-authn-needs-permission", "scram-unverifiable", lines, "authenticated through "+t.used+" although the receiving side has no salted credentials to verify the client proof against")
		}
	} else {
		for _, s := range sent {
			if strings.HasPrefix(s, "succ/") {
				r.Fail("server-success-without-authn", "success-sent", lines, "<success/> sent but the session is not authenticated")
			}
		}
	}
	return nil
}

func multiAuth(evs []string) bool {
	n := 0
	for _, e := range evs {
		if e[0] == 'A' {
			n++
		}
	}
	return n > 1
}

// ---- generators -------------------------------------------------------------------------

var cliAlphabet = []string{"cv01", "c-", "ceq", "cbad", "sv02", "s-", "sbad", "f", "f0", "ft", "o", "n", "w"}

// every content a <failure/> element may have: a defined condition, none, an unknown one,
// text only, several, one in a foreign namespace, malformed content
var failureForms = []string{"f", "f0", "fu", "ft", "fm", "fn", "fx"}

func cliStepScripts() [][]step {
	m := func(b ...byte) step { return step{kind: "m", resp: b} }
	d := func(b ...byte) step { return step{kind: "d", resp: b} }
	e := step{kind: "e"}
	return [][]step{
		{d(0xA1)},               // one step (PLAIN shaped)
		{d()},                   // one step, empty initial response
		{m(0xA1), d()},          // two steps
		{m(0xA1), m(0xA2), d()}, // three steps (SCRAM shaped)
		{m(), m(0xA2), d(0xA3)}, // three steps, final response non-empty
		{m(0xA1), e},            // error on the first challenge
		{m(0xA1), m(0xA2), e},   // error on the second challenge
		{e},                     // error at Start
		{m(0xA1), m(0xA2), m(0xA3), m(0xA4), d()}, // five steps
	}
}

// nearMisses: names a sloppy comparison could confuse with base.
func nearMisses(base string) []string {
	return []string{
		base, base + "-PLUS", base + "-", strings.ToLower(base), base + " ", " " + base, "",
		base + base, base[:len(base)-1] + "", base + "-PLUS-PLUS", "-PLUS", base + "-plus",
	}
}

func enumerate(alpha []string, n int, f func([]string)) {
	cur := make([]string, n)
	var rec func(i int)
	rec = func(i int) {
		if i == n {
			f(append([]string(nil), cur...))
			return
		}
		for _, a := range alpha {
			cur[i] = a
			rec(i + 1)
		}
	}
	rec(0)
}

// scramPeer plays a real SCRAM-SHA-1 server (mellium.im/sasl) in one of several
// shapes: 0 = server-final in <success/>; 1 = server-final in a <challenge/> followed
// by an empty <success/>; 2 = server-final in a <challenge/>, then EOF; 3 = server-final
// in a <challenge/> followed by <failure/>; 4 = premature empty <success/> instead of
// the first challenge; 5 = wrong password on the server.
func scramPeer(shape int) func(k int, written []byte) string {
	salt := []byte("salty-salt")
	pass := []byte("secret")
	if shape == 5 {
		pass = []byte("other")
	}
	salted := sasl.SCRAMSaltPassword(sha1.New, pass, salt, 4096)
	srv := sasl.NewServer(sasl.ScramSha1, func(*sasl.Negotiator) bool { return true },
		sasl.SaltedCredentials(func(u, id []byte, mech string) ([]byte, []byte, int64, error) {
			return salt, salted, 4096, nil
		}))
	finished := false
	return func(k int, written []byte) string {
		streams, _ := nc.ParseWritten(written)
		if len(streams) == 0 || len(streams[0].Elems) == 0 {
			return ""
		}
		if finished {
			switch shape {
			case 1:
				if k < 4 {
					finished = false
					shape = -1
					return "s-"
				}
			case 3:
				shape = -1
				return "f"
			}
			return ""
		}
		if shape == -1 {
			return ""
		}
		if shape == 4 && k == 0 {
			return "s-"
		}
		last := streams[0].Elems[len(streams[0].Elems)-1]
		var in []byte
		if last.Text != "=" {
			in, _ = base64.StdEncoding.DecodeString(last.Text)
		}
		var more bool
		var resp []byte
		var err error
		if p := common.Recover(func() { more, resp, err = srv.Step(in) }); p != "" || err != nil {
			return "f"
		}
		pl := bytesPayload(resp)
		if more {
			return "c" + pl
		}
		finished = true
		if shape == 0 || shape == 4 || shape == 5 {
			return "s" + pl
		}
		return "c" + pl
	}
}

var srvAlphabet = []string{"AM1/v01", "AM1/-", "AM1/eq", "AM1/bad", "AM1/sh", "AMX/v01", "Rv02", "R-", "Rbad", "B", "F", "O", "N", "W"}

func srvStepScripts() [][]step {
	m := func(b ...byte) step { return step{kind: "m", resp: b} }
	d := func(b ...byte) step { return step{kind: "d", resp: b} }
	return [][]step{
		{d()},
		{d(0xB1)},
		{m(0xB1), d()},
		{m(), m(0xB2), d(0xB3)},
		{{kind: "a"}},
		{m(0xB1), {kind: "a"}},
		{{kind: "e"}},
		{m(0xB1), {kind: "e"}},
	}
}

func plainPayloads() []string {
	mk := func(parts ...string) string {
		return "v" + hex.EncodeToString([]byte(strings.Join(parts, "\x00")))
	}
	return []string{
		mk("", "user", "secret"), mk("", "user", "wrong"), mk("admin", "user", "secret"), mk("", "other", "secret"),
		mk("user", "secret"), mk("", "user", "secret", "x"), mk("", "", ""), "-", "eq", "sh", "bad",
		// undecodable, but the decodable prefix is the accepted credentials
		"b" + mk("", "user", "secret"), "bd" + mk("", "user", "secret")[1:], "b" + mk("", "user", "secretX"), "bd" + mk("", "user", "secretXY")[1:],
	}
}

// ---- what the implementation does where it is free (probed once per run) ----------------

type policies struct {
	srvPanic string // which panic values negotiateServer recovers: 3 x 0/1 (error, string, other)
	cliPanic string // the same for negotiateClient
	// at which iterations of its loop negotiateServer was seen to give up with the context's
	// error: before reading the element (top) / after the Step, before writing (mid); one
	// character per iteration 0..3, the last one standing for all later iterations
	top, mid string
}

const plainAccepted = "AHVzZXIAc2VjcmV0" // \x00user\x00secret

// probe runs three tiny exchanges per role with a Step that panics and one with a context
// that is done before the first element is handled, and notes what the implementation does
// with them.  Nothing here is a verdict: every answer is allowed by the model
// (C03_server_panic_policy, C03_server_ctx hold for all of them); the answers only select
// which member of the model family the differential runs compare against.
func probe() policies {
	var p policies
	bit := func(b bool) string {
		if b {
			return "1"
		}
		return "0"
	}
	for _, k := range []string{"e", "s", "v"} {
		// receiving side: PLAIN, the application's callback panics
		var t trace
		perm, _ := permFunc("panic-"+k, &t)
		conn := nc.NewConn(nc.S(nc.Header("jabber:client", "", "", "example.net")),
			nc.S("<auth xmlns='"+nsSASL+"' mechanism='PLAIN'>"+plainAccepted+"</auth>"))
		res := negotiate(conn, true, xmpp.SASLServer(perm, wrapped(sasl.Plain, &t)))
		p.srvPanic += bit(t.panicked && res.panicV == "")
		// initiating side: the second Step panics
		var tc trace
		m := scripted("M1", []step{{kind: "m", resp: []byte{1}}, {kind: "p" + k}}, &tc)
		cc := nc.NewConn(nc.S(nc.Header("jabber:client", "sid1", "example.net", "user@example.net")),
			nc.S("<stream:features><mechanisms xmlns='"+nsSASL+"'><mechanism>M1</mechanism></mechanisms></stream:features>"),
			nc.S("<challenge xmlns='"+nsSASL+"'>AQ==</challenge>"))
		resc := negotiate(cc, false, xmpp.SASL("", "secret", m))
		p.cliPanic += bit(tc.panicked && resc.panicV == "")
	}
	// the context: a six-Step mechanism, the context becomes done just before the top test of
	// iteration i (first element in flight / while challenge i-1 is written) resp. inside the
	// Step of iteration i; where the run ends tells which test noticed
	mm := step{kind: "m", resp: []byte{1}}
	pc := srvCase{mechs: []string{"M1"}, steps: []step{mm, mm, mm, mm, mm, {kind: "d"}}, perm: "any",
		peer: []string{"AM1/v01", "R-", "R-", "R-", "R-", "R-"}, ctxOn: true}
	for i := 0; i < 4; i++ {
		pc.when = "F0"
		if i > 0 {
			pc.when = fmt.Sprintf("W%d", i-1)
		}
		var t trace
		res, _, conn, err := execServer(pc, &t)
		gaveUp := err == nil && res.called > 0 && res.panicV == "" && errors.Is(res.err, context.Canceled) && res.mask&xmpp.Authn == 0
		p.top += bit(gaveUp && t.nSteps == i)
		pc.when = fmt.Sprintf("S%d", i+1)
		var t2 trace
		res, _, conn, err = execServer(pc, &t2)
		gaveUp = err == nil && res.called > 0 && res.panicV == "" && errors.Is(res.err, context.Canceled) && res.mask&xmpp.Authn == 0
		p.mid += bit(gaveUp && t2.nSteps == i+1 && countSent(conn, "challenge") == i)
	}
	return p
}

// Run is the C03 runner.
func Run(r *common.Run) error {
	// common.NewRand(seed+1) is common.NewRand(seed) shifted by one draw, and r.Case
	// consumes draws: fork once so that different seeds give unrelated case streams
	rnd := r.Rnd.Fork()
	if r.Replay != "" {
		lines, err := common.ReplayLines(r.Replay)
		if err != nil {
			return err
		}
		for _, l := range lines {
			if err := replayLine(r, l); err != nil {
				return err
			}
		}
		return nil
	}

	// ---- corpus: past witnesses first ----
	for _, l := range corpus {
		if err := replayLine(r, "C03 "+l); err != nil {
			return err
		}
	}

	// ---- several sessions on one feature value ----
	genConcurrent(r, rnd)
	genConcMixed(r, rnd)
	genConcClientMixed(r, rnd)
	if !r.Race() {
		genProbes(r)
	}
	if r.Race() {
		return nil
	}

	pol := probe()
	r.Exhaustive = append(r.Exhaustive, fmt.Sprintf("probed: panics recovered by negotiateServer (error,string,other)=%s, by negotiateClient=%s; negotiateServer tests the context before reading (iterations 0..3+)=%s, after the Step=%s", pol.srvPanic, pol.cliPanic, pol.top, pol.mid))
	genRoundC(r, rnd, pol)
	genRoundD(r, rnd, pol)

	// ---- client role, scripted mechanisms: exhaustive over short peer scripts ----
	depth := r.Pick(3, 4)
	scripts := cliStepScripts()
	for si, sc := range scripts {
		for n := 0; n <= depth; n++ {
			alpha := cliAlphabet
			if n == 4 {
				alpha = []string{"cv01", "c-", "cbad", "sv02", "s-", "f", "o", "w"}
			}
			enumerate(alpha, n, func(peer []string) {
				_ = runClient(r, cliCase{mechs: []string{"M1"}, adv: []string{"M1"}, steps: sc, peer: peer}, fmt.Sprintf("cli-script%d", si))
			})
		}
	}
	r.Exhaustive = append(r.Exhaustive, fmt.Sprintf("client role: all peer scripts of length <= %d over %d events x %d mechanism shapes", depth, len(cliAlphabet), len(scripts)))

	// ---- client role: <failure/> in every form at every point of the exchange ----
	for si, sc := range scripts {
		for _, f := range failureForms {
			for _, peer := range [][]string{{f}, {f, "s-"}, {"cv01", f}, {"cv01", f, "s-"}, {"cv01", "cv02", f}, {"cv01", "cv02", "cv03", f}, {"s-", f}, {f, f}} {
				_ = runClient(r, cliCase{mechs: []string{"M1"}, adv: []string{"M1"}, steps: sc, peer: peer}, fmt.Sprintf("cli-failure%d", si))
			}
		}
	}
	for _, f := range failureForms {
		for _, m := range []string{"PLAIN", "ANONYMOUS"} {
			_ = runClient(r, cliCase{mechs: []string{m}, adv: []string{m}, peer: []string{f}}, "cli-real-failure")
			_ = runClient(r, cliCase{mechs: []string{m}, adv: []string{m}, peer: []string{f, "s-"}}, "cli-real-failure")
		}
	}

	// ---- client role: mechanism selection, exhaustive over small lists ----
	names := []string{"M1", "M2", "M3"}
	var lists [][]string
	for mask := 0; mask < 8; mask++ {
		var l []string
		for i, n := range names {
			if mask&(1<<i) != 0 {
				l = append(l, n)
			}
		}
		lists = append(lists, l)
		if len(l) == 2 {
			lists = append(lists, []string{l[1], l[0]})
		}
		if len(l) == 3 {
			lists = append(lists, []string{l[2], l[0], l[1]}, []string{l[1], l[2], l[0]})
		}
	}
	for _, cl := range lists {
		if len(cl) == 0 {
			continue
		}
		for _, adv := range append(lists, []string{"MX"}, []string{"M2", "M2", "M1"}, []string{"m1"}, []string{"M1x"}) {
			_ = runClient(r, cliCase{mechs: cl, adv: adv, steps: []step{{kind: "d", resp: []byte{1}}}, peer: []string{"s-"}}, "cli-select")
		}
	}

	// ---- mechanism names: near misses around the real names (both roles) ----
	for _, base := range []string{"PLAIN", "SCRAM-SHA-1", "SCRAM-SHA-256", "X"} {
		u := nearMisses(base)
		var offers [][]string
		offers = append(offers, nil)
		for i := range u {
			offers = append(offers, []string{u[i]}, []string{u[i], u[i]})
			for j := i + 1; j < len(u); j++ {
				offers = append(offers, []string{u[i], u[j]}, []string{u[j], u[i]})
			}
		}
		one := []step{{kind: "d", resp: []byte{1}}}
		// every single configured name against every offer of at most two names
		for _, m := range u {
			for _, adv := range offers {
				_ = runClient(r, cliCase{mechs: []string{m}, adv: adv, steps: one, peer: []string{"s-"}, allScripted: true}, "cli-names")
			}
		}
		// two configured names (thorough: all ordered pairs; quick: random ones)
		if !r.Quick() {
			for _, m1 := range u {
				for _, m2 := range u {
					for _, adv := range offers {
						_ = runClient(r, cliCase{mechs: []string{m1, m2}, adv: adv, steps: one, peer: []string{"s-"}, allScripted: true}, "cli-names2")
					}
				}
			}
		}
		for i := 0; i < r.Pick(250, 2000); i++ {
			pick := func(n int) []string {
				var l []string
				for k := 0; k < n; k++ {
					l = append(l, u[rnd.Intn(len(u))])
				}
				return l
			}
			_ = runClient(r, cliCase{mechs: pick(1 + rnd.Intn(3)), adv: pick(rnd.Intn(4)), steps: one, peer: []string{"s-"}, allScripted: true}, "cli-names-random")
		}
		// receiving side: every configured name (alone / with the base) x every name in <auth/>
		for _, m := range u {
			for _, cfg := range [][]string{{m}, {m, base}, {base, m}} {
				for _, a := range u {
					_ = runServer(r, srvCase{mechs: cfg, steps: []step{{kind: "d"}}, perm: "any", peer: []string{"A" + encName(a) + "/v01"}, allScripted: true}, "srv-names")
				}
			}
		}
	}
	// the real mechanisms against offers of their channel-binding / bare variants only
	for _, c := range []struct{ cfg, adv []string }{
		{[]string{"SCRAM-SHA-1"}, []string{"SCRAM-SHA-1-PLUS"}},
		{[]string{"SCRAM-SHA-256", "SCRAM-SHA-1"}, []string{"SCRAM-SHA-256-PLUS", "SCRAM-SHA-1-PLUS"}},
		{[]string{"SCRAM-SHA-1-PLUS"}, []string{"SCRAM-SHA-1"}},
		{[]string{"PLAIN"}, []string{"PLAIN-PLUS", "plain", "PLAIN "}},
		{[]string{"SCRAM-SHA-1-PLUS", "SCRAM-SHA-1"}, []string{"SCRAM-SHA-1-PLUS-PLUS", "SCRAM-SHA-1"}},
		{[]string{"ANONYMOUS"}, []string{"ANONYMOUS-PLUS"}},
	} {
		_ = runClient(r, cliCase{mechs: c.cfg, adv: c.adv, peer: []string{"s-"}}, "cli-real-names")
	}

	// ---- client role: real mechanisms ----
	for _, peer := range [][]string{{"s-"}, {"sv02"}, {"f"}, {"cv01"}, {"cv01", "s-"}, {}, {"w"}, {"s-", "s-"}, {"sbad"}, {"seq"}} {
		_ = runClient(r, cliCase{mechs: []string{"PLAIN"}, adv: []string{"PLAIN"}, peer: peer}, "cli-plain")
		_ = runClient(r, cliCase{mechs: []string{"ANONYMOUS"}, adv: []string{"ANONYMOUS"}, peer: peer}, "cli-anon")
	}
	// NOTE: mellium.im/sasl v0.3.2 scramClientNext spins forever on a server-first
	// message without any well-formed field (e.g. the single byte 0x01): only
	// syntactically plausible challenges are sent to the real SCRAM client.
	sf := "v" + hex.EncodeToString([]byte("r=abc,s=QUJD,i=4096"))
	for _, peer := range [][]string{{"s-"}, {"s" + sf}, {"f"}, {"c" + sf}, {"c" + sf, "s-"}, {}, {"w"}, {"sbad"}, {"c" + sf, "c" + sf}} {
		_ = runClient(r, cliCase{mechs: []string{"SCRAM-SHA-1"}, adv: []string{"PLAIN", "SCRAM-SHA-1"}, peer: peer}, "cli-scram-static")
	}
	// channel-binding variants on a connection without TLS state: the client falls back to
	// "no channel binding support" (the receiving side of *-PLUS is not exercised:
	// mellium.im/sasl v0.3.2 panics with "does not implemented yet" when a client selects it)
	for _, peer := range [][]string{{}, {"s-"}, {"f"}, {"c" + sf}, {"c" + sf, "s-"}} {
		_ = runClient(r, cliCase{mechs: []string{"SCRAM-SHA-1-PLUS", "SCRAM-SHA-1"}, adv: []string{"SCRAM-SHA-1", "SCRAM-SHA-1-PLUS"}, peer: peer}, "cli-scram-plus")
	}
	for shape := 0; shape <= 5; shape++ {
		_ = runClient(r, cliCase{mechs: []string{"SCRAM-SHA-1", "PLAIN"}, adv: []string{"PLAIN", "SCRAM-SHA-1"}, dyn: scramPeer(shape)}, fmt.Sprintf("cli-scram-shape%d", shape))
	}

	// ---- client role: write failures and cancellation at every position ----
	for _, sc := range scripts {
		for _, peer := range [][]string{{}, {"s-"}, {"cv01"}, {"cv01", "s-"}, {"cv01", "cv02", "s-"}, {"cv01", "cv02", "cv03", "s-"}, {"sv01"}, {"cv01", "f"}, {"cbad"}} {
			for wf := 0; wf <= 4; wf++ {
				for k := -1; k <= 3; k++ {
					if wf == 0 && k < 0 {
						continue
					}
					_ = runClient(r, cliCase{mechs: []string{"M1"}, adv: []string{"M1"}, steps: sc, peer: peer, env: true, wfail: wf, cancel: k}, "cli-env")
				}
			}
		}
	}

	// ---- client role: random longer scripts ----
	nr := r.Pick(1500, 20000)
	for i := 0; i < nr; i++ {
		sc := scripts[rnd.Intn(len(scripts))]
		n := 3 + rnd.Intn(5)
		peer := make([]string, n)
		for k := range peer {
			if rnd.Chance(3, 5) {
				peer[k] = []string{"cv01", "c-", "cv0203"}[rnd.Intn(3)]
			} else {
				peer[k] = cliAlphabet[rnd.Intn(len(cliAlphabet))]
			}
		}
		_ = runClient(r, cliCase{mechs: []string{"M2", "M1"}, adv: []string{"M1", "M3"}, steps: sc, peer: peer}, "cli-random")
	}

	// ---- server role, scripted mechanism ----
	sdepth := r.Pick(2, 3)
	sscripts := srvStepScripts()
	for si, sc := range sscripts {
		for n := 0; n <= sdepth; n++ {
			enumerate(srvAlphabet, n, func(peer []string) {
				_ = runServer(r, srvCase{mechs: []string{"M1", "M2"}, steps: sc, perm: "any", peer: peer}, fmt.Sprintf("srv-script%d", si))
			})
		}
	}
	r.Exhaustive = append(r.Exhaustive, fmt.Sprintf("server role: all peer scripts of length <= %d over %d events x %d mechanism shapes", sdepth, len(srvAlphabet), len(sscripts)))

	// ---- server role, real PLAIN with the permission callback ----
	uh, ph := hex.EncodeToString([]byte("user")), hex.EncodeToString([]byte("secret"))
	for _, perm := range []string{uh + "/" + ph, "none", "any"} {
		for _, p := range plainPayloads() {
			for _, pre := range [][]string{{}, {"AM1/v01"}, {"Rv01"}, {"APLAIN/" + plainPayloads()[1]}} {
				for _, post := range [][]string{{}, {"Rv01"}} {
					peer := append(append(append([]string{}, pre...), "APLAIN/"+p), post...)
					_ = runServer(r, srvCase{mechs: []string{"PLAIN", "M1"}, steps: []step{{kind: "m", resp: []byte{1}}, {kind: "a"}}, perm: perm, peer: peer}, "srv-plain")
				}
			}
		}
		_ = runServer(r, srvCase{mechs: []string{"M1"}, steps: []step{{kind: "d"}}, perm: perm, peer: []string{"APLAIN/" + plainPayloads()[0]}}, "srv-plain-unconfigured")
	}

	// ---- server role: <failure/> from the initiator in every form ----
	for _, sc := range sscripts {
		for _, f := range []string{"F", "F0", "Fu", "Ft"} {
			for _, peer := range [][]string{{f}, {"AM1/v01", f}, {"AM1/v01", "Rv02", f}, {f, "AM1/v01"}} {
				_ = runServer(r, srvCase{mechs: []string{"M1"}, steps: sc, perm: "any", peer: peer}, "srv-failure")
			}
		}
	}

	// ---- server role: write failures at every position ----
	for _, sc := range sscripts {
		for _, peer := range [][]string{{"AM1/v01"}, {"AM1/v01", "Rv02"}, {"AM1/v01", "Rv02", "R-"}, {"AMX/v01"}, {"Rv01"}, {"B"}, {"AM1/v01", "B"}, {"AM1/bad"}} {
			for wf := 1; wf <= 3; wf++ {
				_ = runServer(r, srvCase{mechs: []string{"M1"}, steps: sc, perm: "any", peer: peer, wfail: wf}, "srv-writefail")
			}
		}
	}
	for _, perm := range []string{uh + "/" + ph, "none"} {
		for wf := 1; wf <= 2; wf++ {
			_ = runServer(r, srvCase{mechs: []string{"PLAIN"}, perm: perm, peer: []string{"APLAIN/" + plainPayloads()[0]}, wfail: wf}, "srv-writefail-plain")
		}
	}

	// ---- server role: random ----
	nr = r.Pick(1000, 15000)
	for i := 0; i < nr; i++ {
		sc := sscripts[rnd.Intn(len(sscripts))]
		n := 2 + rnd.Intn(5)
		peer := make([]string, n)
		for k := range peer {
			switch {
			case k == 0 && rnd.Chance(4, 5):
				peer[k] = []string{"AM1/v01", "AM2/-", "APLAIN/" + plainPayloads()[rnd.Intn(4)]}[rnd.Intn(3)]
			case rnd.Chance(3, 5):
				peer[k] = []string{"Rv02", "R-", "Req"}[rnd.Intn(3)]
			default:
				peer[k] = srvAlphabet[rnd.Intn(len(srvAlphabet))]
			}
		}
		perm := []string{"any", "none", uh + "/" + ph}[rnd.Intn(3)]
		_ = runServer(r, srvCase{mechs: []string{"M2", "PLAIN", "M1"}, steps: sc, perm: perm, peer: peer}, "srv-random")
	}
	return nil
}

// stepShapes: every mechanism shape with at most maxMore Steps that say "more" - each with an
// empty or a non-empty response - followed by a Step that is done (empty / non-empty final
// data), fails with sasl.ErrAuthn, or fails otherwise.  The response bytes differ by position
// (base+position) so that a response written at the wrong point shows.  (The hand-picked
// shapes of the earlier rounds had an empty response only at the first Step.)
func stepShapes(maxMore int, base byte) [][]step {
	var out [][]step
	var rec func(prefix []step)
	rec = func(prefix []step) {
		k := byte(len(prefix))
		for _, last := range []step{{kind: "d"}, {kind: "d", resp: []byte{base + k}}, {kind: "a"}, {kind: "e"}} {
			out = append(out, append(append([]step(nil), prefix...), last))
		}
		if len(prefix) == maxMore {
			return
		}
		rec(append(append([]step(nil), prefix...), step{kind: "m"}))
		rec(append(append([]step(nil), prefix...), step{kind: "m", resp: []byte{base + k}}))
	}
	rec(nil)
	return out
}

// respSizes: lengths of a mechanism's response around the base64 quantum (0..4), and around the
// sizes at which buffered writers / decoders of 512, 1024, 4096 bytes roll over.
var respSizes = []int{0, 1, 2, 3, 4, 5, 6, 300, 383, 384, 385, 767, 768, 769, 3071, 3072, 3073, 5000}

func sizedResp(n int, seed byte) []byte {
	b := make([]byte, n)
	for i := range b {
		b[i] = seed + byte(i*7)
	}
	return b
}

// genRoundD: the full space of small mechanism shapes (where the response of a Step that says
// "more" may be empty at ANY position) x short peer scripts, both roles; responses of every size
// class at every position.
func genRoundD(r *common.Run, rnd *common.Rand, pol policies) {
	cshapes := stepShapes(3, 0xA0)
	for si, sc := range cshapes {
		for n := 0; n <= 2; n++ {
			enumerate(cliAlphabet, n, func(peer []string) {
				_ = runClient(r, cliCase{mechs: []string{"M1"}, adv: []string{"M1"}, steps: sc, peer: peer}, fmt.Sprintf("cli-shape%d", si%4))
			})
		}
		alpha := []string{"cv01", "c-", "sv02", "s-", "f", "cbad"}
		if !r.Quick() {
			alpha = cliAlphabet
		}
		enumerate(alpha, 3, func(peer []string) {
			_ = runClient(r, cliCase{mechs: []string{"M1"}, adv: []string{"M1"}, steps: sc, peer: peer}, fmt.Sprintf("cli-shape%d", si%4))
		})
		// the complete exchange of this shape, the final element in both forms, and the
		// premature <success/> at every point of it
		nm := len(sc) - 1
		var full []string
		for k := 0; k < nm; k++ {
			full = append(full, []string{"cv01", "c-"}[k%2])
		}
		for cut := 0; cut <= nm; cut++ {
			for _, fin := range []string{"s-", "sv02"} {
				peer := append(append([]string{}, full[:cut]...), fin)
				_ = runClient(r, cliCase{mechs: []string{"M1"}, adv: []string{"M1"}, steps: sc, peer: peer}, "cli-shape-cut")
				_ = runClient(r, cliCase{mechs: []string{"M1"}, adv: []string{"M1"}, steps: sc, peer: append(peer, "s-")}, "cli-shape-cut")
			}
		}
	}
	r.Exhaustive = append(r.Exhaustive, fmt.Sprintf("client role: all %d mechanism shapes (<= 3 Steps saying more, each with an empty or non-empty response, x 4 endings) x all peer scripts of length <= 2 over %d events", len(cshapes), len(cliAlphabet)))
	sshapes := stepShapes(3, 0xB0)
	for si, sc := range sshapes {
		for n := 0; n <= 2; n++ {
			enumerate(srvAlphabet, n, func(peer []string) {
				_ = runServer(r, srvCase{mechs: []string{"M1", "M2"}, steps: sc, perm: "any", peer: peer}, fmt.Sprintf("srv-shape%d", si%4))
			})
		}
		alpha := []string{"AM1/v01", "AM1/-", "Rv02", "R-", "B", "Rbad"}
		if !r.Quick() {
			alpha = srvAlphabet
		}
		enumerate(alpha, 3, func(peer []string) {
			_ = runServer(r, srvCase{mechs: []string{"M1", "M2"}, steps: sc, perm: "any", peer: peer}, fmt.Sprintf("srv-shape%d", si%4))
		})
		nm := len(sc) - 1
		peer := []string{"AM1/v01"}
		for k := 0; k < nm; k++ {
			peer = append(peer, []string{"R-", "Rv02"}[k%2])
		}
		for cut := 1; cut <= len(peer); cut++ {
			_ = runServer(r, srvCase{mechs: []string{"M1", "M2"}, steps: sc, perm: "any", peer: peer[:cut]}, "srv-shape-cut")
			_ = runServer(r, srvCase{mechs: []string{"M1", "M2"}, steps: sc, perm: "any", peer: append(append([]string{}, peer[:cut]...), "R-")}, "srv-shape-cut")
		}
	}
	r.Exhaustive = append(r.Exhaustive, fmt.Sprintf("server role: all %d mechanism shapes x all peer scripts of length <= 2 over %d events", len(sshapes), len(srvAlphabet)))

	// ---- responses of every size class at every position of a three-Step exchange ----
	for _, n := range respSizes {
		for pos := 0; pos < 3; pos++ {
			kinds := []string{"m", "m", "d"}
			var cs, ss []step
			for k := 0; k < 3; k++ {
				st := step{kind: kinds[k], resp: []byte{0xC0 + byte(k)}}
				if k == pos {
					st.resp = sizedResp(n, byte(0x11*(k+1)))
				}
				cs, ss = append(cs, st), append(ss, st)
			}
			for _, peer := range [][]string{{"cv01", "cv02", "s-"}, {"cv01", "sv02"}, {"cv01", "cv02"}, {"sv01"}} {
				_ = runClient(r, cliCase{mechs: []string{"M1"}, adv: []string{"M1"}, steps: cs, peer: peer}, "cli-size")
			}
			for _, peer := range [][]string{{"AM1/v01", "Rv02", "R-"}, {"AM1/v01", "Rv02"}, {"AM1/v01", "B"}} {
				_ = runServer(r, srvCase{mechs: []string{"M1"}, steps: ss, perm: "any", peer: peer}, "srv-size")
			}
		}
	}
	// ---- initiating side: the context becomes done while the w-th element is being written ----
	for _, sc := range append(cliStepScripts(), stepShapes(2, 0xA0)...) {
		for _, peer := range [][]string{{}, {"s-"}, {"cv01"}, {"cv01", "s-"}, {"cv01", "cv02", "s-"}, {"cv01", "cv02", "cv03", "s-"}, {"sv01"}, {"cv01", "f"}} {
			for w := 1; w <= 4; w++ {
				for _, wf := range []int{0, w, w + 1} {
					_ = runClient(r, cliCase{mechs: []string{"M1"}, adv: []string{"M1"}, steps: sc, peer: peer, env: true, wfail: wf, cancel: -1, cancelW: w}, "cli-env-write")
				}
			}
		}
	}

	// ---- receiving side: the real SCRAM mechanisms and ANONYMOUS configured on SASLServer ----
	// (a real SCRAM client's messages; SASLServer has no salted credentials, so SCRAM can only
	// fail closed; whatever the mechanism does is observed and replayed through the model)
	hx := func(s string) string { return "v" + hex.EncodeToString([]byte(s)) }
	firsts := []string{hx("n,,n=user,r=fyko+d2lbbFgONRv9qkxdawL"), hx("n,,n=user"), hx("n,a=admin,n=user,r=abc"), hx("y,,n=user,r=abc"),
		hx("p=tls-unique,,n=user,r=abc"), hx("c=biws,r=abc,p=AAAA"), hx("garbage"), hx(",,,"), hx("n,,n=,r="), "-", "eq", "sh", "bad", plainPayloads()[0]}
	final := hx("c=biws,r=fyko+d2lbbFgONRv9qkxdawL3rfcNHYJY1ZVvWVs7j,p=v0X8v3Bz2T0CJGbJQyF0X+HI4Ts=")
	for _, mech := range []string{"SCRAM-SHA-1", "SCRAM-SHA-256", "ANONYMOUS"} {
		for _, cfg := range [][]string{{mech}, {mech, "PLAIN"}, {"M1", mech}} {
			for _, perm := range []string{"any", "none"} {
				for _, f := range firsts {
					for _, post := range [][]string{{}, {"R" + final}, {"R-"}, {"R" + final, "R-"}, {"B"}} {
						peer := append([]string{"A" + mech + "/" + f}, post...)
						_ = runServer(r, srvCase{mechs: cfg, steps: []step{{kind: "d"}}, perm: perm, peer: peer}, "srv-real-"+mech)
					}
				}
				_ = runServer(r, srvCase{mechs: cfg, steps: []step{{kind: "d"}}, perm: perm, peer: []string{"R" + final}}, "srv-real-"+mech)
				for _, w := range []string{"F0", "S1", "W0"} {
					_ = runServer(r, srvCase{mechs: cfg, steps: []step{{kind: "d"}}, perm: perm, peer: []string{"A" + mech + "/" + firsts[0], "R" + final}, ctxOn: true, when: w, top: pol.top, mid: pol.mid}, "srv-real-ctx-"+mech)
				}
			}
		}
	}

	// ---- random shapes: longer, empty responses anywhere ----
	nr := r.Pick(400, 6000)
	for i := 0; i < nr; i++ {
		var sc []step
		for k, ns := 0, rnd.Intn(6); k < ns; k++ {
			st := step{kind: "m"}
			if rnd.Chance(1, 2) {
				st.resp = sizedResp(1+rnd.Intn(5), byte(k))
			}
			sc = append(sc, st)
		}
		last := step{kind: []string{"d", "d", "d", "a", "e"}[rnd.Intn(5)]}
		if last.kind == "d" && rnd.Chance(1, 2) {
			last.resp = []byte{0xDD}
		}
		sc = append(sc, last)
		n := rnd.Intn(len(sc) + 2)
		cp := make([]string, n)
		for k := range cp {
			switch {
			case rnd.Chance(1, 5):
				cp[k] = cliAlphabet[rnd.Intn(len(cliAlphabet))]
			case rnd.Chance(1, 4):
				cp[k] = []string{"s-", "sv02"}[rnd.Intn(2)]
			default:
				cp[k] = []string{"cv01", "c-", "cv0203"}[rnd.Intn(3)]
			}
		}
		_ = runClient(r, cliCase{mechs: []string{"M1"}, adv: []string{"M1"}, steps: sc, peer: cp}, "cli-shape-random")
		sp := []string{[]string{"AM1/v01", "AM1/-", "AM1/eq"}[rnd.Intn(3)]}
		for k := 1; k < n; k++ {
			if rnd.Chance(1, 6) {
				sp = append(sp, srvAlphabet[rnd.Intn(len(srvAlphabet))])
			} else {
				sp = append(sp, []string{"Rv02", "R-", "Req"}[rnd.Intn(3)])
			}
		}
		_ = runServer(r, srvCase{mechs: []string{"M1"}, steps: sc, perm: "any", peer: sp}, "srv-shape-random")
	}
}

// genRoundC: Steps and permission callbacks that panic (with an error, a string, another
// value) at every position, both roles; a negotiation context that is done at every test of
// the receiving loop.
func genRoundC(r *common.Run, rnd *common.Rand, pol policies) {
	m := func(b ...byte) step { return step{kind: "m", resp: b} }
	uh, ph := hex.EncodeToString([]byte("user")), hex.EncodeToString([]byte("secret"))
	sdepth := r.Pick(2, 3)
	// ---- past witnesses (with the policies of the code under test) ----
	d := step{kind: "d"}
	for _, peer := range [][]string{{"B"}, {"Rv01"}, {"AMX/v01"}, {"AM1/bad"}} {
		// the loop was left on a done context and the success tail ran
		_ = runServer(r, srvCase{mechs: []string{"M1", "M2"}, steps: []step{d}, perm: "any", peer: peer, ctxOn: true, when: whenOf(0), top: pol.top, mid: pol.mid}, "srv-ctx-corpus")
	}
	_ = runServer(r, srvCase{mechs: []string{"PLAIN"}, perm: "none", peer: []string{"APLAIN/" + plainPayloads()[0]}, ctxOn: true, when: whenOf(0), top: pol.top, mid: pol.mid}, "srv-ctx-corpus")
	_ = runServer(r, srvCase{mechs: []string{"M1"}, steps: []step{m(1), m(2), d}, perm: "any", peer: []string{"AM1/v01", "Rv02"}, ctxOn: true, when: whenOf(1), top: pol.top, mid: pol.mid}, "srv-ctx-corpus")
	// a recovered panic whose value is not an error read as "completed without error"
	_ = runServer(r, srvCase{mechs: []string{"M1", "M2"}, steps: []step{{kind: "ps"}}, perm: "any", peer: []string{"AM1/-"}, pol: pol.srvPanic}, "srv-panic-corpus")
	_ = runServer(r, srvCase{mechs: []string{"PLAIN"}, perm: "panic-s", peer: []string{"APLAIN/" + plainPayloads()[0]}, pol: pol.srvPanic}, "srv-panic-corpus")
	_ = runServer(r, srvCase{mechs: []string{"PLAIN"}, perm: "panic-v", peer: []string{"APLAIN/" + plainPayloads()[0]}, pol: pol.srvPanic}, "srv-panic-corpus")
	// ---- receiving side: the k-th Step panics ----
	for _, pk := range []string{"pe", "ps", "pv"} {
		for si, sc := range [][]step{{{kind: pk}}, {m(0xB1), {kind: pk}}, {m(), m(0xB2), {kind: pk}}} {
			for n := 0; n <= sdepth; n++ {
				if n == 3 && si != 2 {
					continue
				}
				enumerate(srvAlphabet, n, func(peer []string) {
					_ = runServer(r, srvCase{mechs: []string{"M1", "M2"}, steps: sc, perm: "any", peer: peer, pol: pol.srvPanic}, "srv-panic-"+pk)
				})
			}
			_ = runServer(r, srvCase{mechs: []string{"M1"}, steps: sc, perm: "any", peer: []string{"AM1/v01", "Rv02", "R-", "R-"}, pol: pol.srvPanic}, "srv-panic-"+pk)
		}
		// ---- receiving side: real PLAIN, the application's permission callback panics ----
		for _, p := range plainPayloads() {
			for _, pre := range [][]string{{}, {"AM1/v01"}, {"Rv01"}, {"APLAIN/" + plainPayloads()[1]}} {
				for _, post := range [][]string{{}, {"Rv01"}} {
					peer := append(append(append([]string{}, pre...), "APLAIN/"+p), post...)
					_ = runServer(r, srvCase{mechs: []string{"PLAIN", "M1"}, steps: []step{m(1), {kind: "a"}}, perm: "panic-" + pk[1:], peer: peer, pol: pol.srvPanic}, "srv-plain-panic-"+pk)
				}
			}
		}
		// ---- initiating side: Start / the Step for the k-th challenge panics ----
		for _, sc := range [][]step{{{kind: pk}}, {m(0xA1), {kind: pk}}, {m(0xA1), m(0xA2), {kind: pk}}} {
			for n := 0; n <= 2; n++ {
				enumerate(cliAlphabet, n, func(peer []string) {
					_ = runClient(r, cliCase{mechs: []string{"M1"}, adv: []string{"M1"}, steps: sc, peer: peer, pol: pol.cliPanic}, "cli-panic-"+pk)
				})
			}
			for _, peer := range [][]string{{"cv01", "cv02", "s-"}, {"cv01", "cv02", "sv03"}, {"cv01", "sv02"}, {"cv01", "cv02", "cv03", "s-"}} {
				_ = runClient(r, cliCase{mechs: []string{"M1"}, adv: []string{"M1"}, steps: sc, peer: peer, pol: pol.cliPanic}, "cli-panic-"+pk)
			}
		}
	}
	// ---- payloads at the boundaries of the two base64 decoders, both roles ----
	sscripts := srvStepScripts()
	for _, pl := range []string{"eq", "sh1", "sh", "sh3", "bad", "bad5", "badp", "bv01", "bd0102", "bv" + hex.EncodeToString([]byte("\x00user\x00secret"))} {
		for si, sc := range cliStepScripts() {
			for _, peer := range [][]string{{"c" + pl}, {"c" + pl, "s-"}, {"cv01", "c" + pl}, {"cv01", "c" + pl, "s-"}, {"s" + pl}, {"cv01", "s" + pl}, {"cv01", "cv02", "s" + pl}} {
				_ = runClient(r, cliCase{mechs: []string{"M1"}, adv: []string{"M1"}, steps: sc, peer: peer}, fmt.Sprintf("cli-b64-%d", si))
			}
		}
		for si, sc := range sscripts {
			for _, peer := range [][]string{{"AM1/" + pl}, {"AM1/" + pl, "R-"}, {"AM1/v01", "R" + pl}, {"AM1/v01", "R" + pl, "R-"}, {"AM1/" + pl, "R" + pl}} {
				_ = runServer(r, srvCase{mechs: []string{"M1"}, steps: sc, perm: "any", peer: peer}, fmt.Sprintf("srv-b64-%d", si))
			}
		}
		for _, perm := range []string{"any", "none"} {
			_ = runServer(r, srvCase{mechs: []string{"PLAIN"}, perm: perm, peer: []string{"APLAIN/" + pl}}, "srv-b64-plain")
		}
	}
	// ---- receiving side: the context is done at the k-th loop test ----
	for si, sc := range sscripts {
		for n := 0; n <= sdepth; n++ {
			enumerate(srvAlphabet, n, func(peer []string) {
				for _, w := range moments(n) {
					_ = runServer(r, srvCase{mechs: []string{"M1", "M2"}, steps: sc, perm: "any", peer: peer, ctxOn: true, when: w, top: pol.top, mid: pol.mid}, fmt.Sprintf("srv-ctx%d", si))
				}
			})
		}
		for _, w := range moments(4) {
			_ = runServer(r, srvCase{mechs: []string{"M1"}, steps: sc, perm: "any", peer: []string{"AM1/v01", "Rv02", "R-", "R-"}, ctxOn: true, when: w, top: pol.top, mid: pol.mid}, fmt.Sprintf("srv-ctx%d", si))
		}
	}
	for _, perm := range []string{uh + "/" + ph, "none", "any"} {
		for _, p := range plainPayloads() {
			for _, pre := range [][]string{{}, {"Rv01"}, {"APLAIN/" + plainPayloads()[1]}} {
				for _, w := range []string{"F0", "S1", "W0", "F1", "S2", "W1"} {
					peer := append(append([]string{}, pre...), "APLAIN/"+p)
					_ = runServer(r, srvCase{mechs: []string{"PLAIN", "M1"}, steps: []step{m(1), {kind: "a"}}, perm: perm, peer: peer, ctxOn: true, when: w, top: pol.top, mid: pol.mid}, "srv-plain-ctx")
				}
			}
		}
	}
	// ---- random: longer scripts, panics and done contexts anywhere ----
	nr := r.Pick(600, 8000)
	for i := 0; i < nr; i++ {
		n := 1 + rnd.Intn(5)
		peer := make([]string, n)
		for k := range peer {
			switch {
			case k == 0 && rnd.Chance(4, 5):
				peer[k] = []string{"AM1/v01", "AM2/-", "APLAIN/" + plainPayloads()[rnd.Intn(4)]}[rnd.Intn(3)]
			case rnd.Chance(3, 5):
				peer[k] = []string{"Rv02", "R-", "Req"}[rnd.Intn(3)]
			default:
				peer[k] = srvAlphabet[rnd.Intn(len(srvAlphabet))]
			}
		}
		var sc []step
		for k, ns := 0, rnd.Intn(4); k < ns; k++ {
			sc = append(sc, m(byte(0xB0+k)))
		}
		if rnd.Chance(1, 2) {
			sc = append(sc, step{kind: []string{"pe", "ps", "pv"}[rnd.Intn(3)]})
			perm := []string{"any", "none", uh + "/" + ph, "panic-e", "panic-s", "panic-v"}[rnd.Intn(6)]
			_ = runServer(r, srvCase{mechs: []string{"M2", "PLAIN", "M1"}, steps: sc, perm: perm, peer: peer, pol: pol.srvPanic}, "srv-panic-random")
		} else {
			sc = append(sc, step{kind: []string{"d", "d", "a", "e"}[rnd.Intn(4)]})
			perm := []string{"any", "none", uh + "/" + ph}[rnd.Intn(3)]
			_ = runServer(r, srvCase{mechs: []string{"M2", "PLAIN", "M1"}, steps: sc, perm: perm, peer: peer, ctxOn: true, when: moments(n)[rnd.Intn(3*n)], top: pol.top, mid: pol.mid}, "srv-ctx-random")
		}
	}
}

// corpus: minimal witnesses of past findings (protocol lines without the property id).
var corpus = []string{
	// sasl.go client loop: mechanism completes on a <challenge/>, no <success/> ever read
	"cli M1 M1 mv01,mv02,d- cv01,cv02",
	"cli M1 M1 mv01,d- cv01",
	// premature <success/> while the mechanism wants more, then completion on a challenge
	"cli M1 M1 mv01,mv02,d- sv01,cv02",
	// premature <success/> accepted when the mechanism's response at that Step is empty
	"cli M1 M1 mv01,m-,d- sv02",
	"cli M1 M1 m-,m-,d- s-",
}

func replayLine(r *common.Run, l string) error {
	f := strings.Fields(l)
	if len(f) > 0 && f[0] == r.Prop {
		f = f[1:]
	}
	if len(f) == 0 || strings.HasPrefix(l, "#") {
		return nil
	}
	list := func(s string) []string {
		if s == "-" {
			return nil
		}
		return strings.Split(s, ",")
	}
	steps := func(s string) ([]step, error) {
		var out []step
		for _, x := range list(s) {
			st, err := parseStep(x)
			if err != nil {
				return nil, err
			}
			out = append(out, st)
		}
		return out, nil
	}
	switch {
	case f[0] == "gate" || f[0] == "gaterun" || f[0] == "gs2" || f[0] == "opts" || f[0] == "optstls" || f[0] == "failc":
		return replayProbe(r, l)
	case f[0] == "concs" || f[0] == "concc" || f[0] == "concm" || f[0] == "concx":
		return replayConc(r, f)
	case f[0] == "clie" && len(f) == 7:
		st, err := steps(f[5])
		if err != nil {
			return err
		}
		c := cliCase{mechs: decNames(f[3]), adv: decNames(f[4]), steps: st, peer: list(f[6]), env: true, cancel: -1}
		if f[1] != "-" {
			fmt.Sscanf(f[1], "%d", &c.wfail)
			c.wfail++
		}
		if strings.HasPrefix(f[2], "w") {
			fmt.Sscanf(f[2][1:], "%d", &c.cancelW)
			c.cancelW++
		} else if f[2] != "-" {
			fmt.Sscanf(f[2], "%d", &c.cancel)
		}
		return runClient(r, c, "replay")
	case f[0] == "clip" && len(f) == 6:
		st, err := steps(f[4])
		if err != nil {
			return err
		}
		return runClient(r, cliCase{mechs: decNames(f[2]), adv: decNames(f[3]), steps: st, peer: list(f[5]), pol: f[1]}, "replay")
	case f[0] == "srvp" && len(f) == 6:
		st, err := steps(f[3])
		if err != nil {
			return err
		}
		return runServer(r, srvCase{mechs: decNames(f[2]), steps: st, perm: f[4], peer: list(f[5]), pol: f[1]}, "replay")
	case f[0] == "srvc" && len(f) == 7:
		st, err := steps(f[4])
		if err != nil {
			return err
		}
		// a round C line: looks at the top of every iteration or nowhere
		k := 0
		fmt.Sscanf(f[2], "%d", &k)
		return runServer(r, srvCase{mechs: decNames(f[3]), steps: st, perm: f[5], peer: list(f[6]), ctxOn: true, when: whenOf(k), top: f[1], mid: "0"}, "replay")
	case f[0] == "srvg" && len(f) == 8:
		st, err := steps(f[5])
		if err != nil {
			return err
		}
		return runServer(r, srvCase{mechs: decNames(f[4]), steps: st, perm: f[6], peer: list(f[7]), ctxOn: true, when: f[3], top: f[1], mid: f[2]}, "replay")
	case (f[0] == "cli" || f[0] == "clis") && len(f) == 5:
		st, err := steps(f[3])
		if err != nil {
			return err
		}
		return runClient(r, cliCase{mechs: decNames(f[1]), adv: decNames(f[2]), steps: st, peer: list(f[4]), allScripted: f[0] == "clis"}, "replay")
	case f[0] == "srvw" && len(f) == 6:
		st, err := steps(f[3])
		if err != nil {
			return err
		}
		n := 0
		fmt.Sscanf(f[1], "%d", &n)
		return runServer(r, srvCase{mechs: decNames(f[2]), steps: st, perm: f[4], peer: list(f[5]), wfail: n + 1}, "replay")
	case (f[0] == "srv" || f[0] == "srvs") && len(f) == 5:
		st, err := steps(f[2])
		if err != nil {
			return err
		}
		return runServer(r, srvCase{mechs: decNames(f[1]), steps: st, perm: f[3], peer: list(f[4]), allScripted: f[0] == "srvs"}, "replay")
	}
	return fmt.Errorf("cannot replay line %q", l)
}
