package c03

// Round E: probe facts.  `harness facts C03` runs the code under test on complete finite
// domains and emits the resulting tables as Lean definitions; Props/C03.lean proves that the
// model agrees with every row.  No source pattern is involved: a refactoring that keeps the
// behaviour keeps the tables, a change of behaviour changes a row.
//
//   - saslGateMasks: Necessary / Prohibited of xmpp.SASL(…) and xmpp.SASLServer(…) for EVERY
//     list of one or two of the exported mechanisms (a mask that depends on the mechanisms
//     list shows up in some row).
//   - saslGateRuns: complete sessions started in every subset of {Secure, Authn}, both roles,
//     every exported mechanism: was the feature offered / tried and was its Negotiate run?
//   - saslNegOpts: what the negotiator handed to the selected mechanism was created with
//     (TLS connection state, the peer's mechanism list, the credentials), as seen from inside
//     the mechanism's first Step, for every kind of connection (no TLS state, a zero state,
//     TLS 1.2 with tls-unique data, TLS 1.3), both roles, several advertised lists.

import (
	"context"
	"crypto/tls"
	"encoding/base64"
	"fmt"
	"io"
	"strings"

	"mellium.im/sasl"
	"mellium.im/xmpp"
	"mellium.im/xmpp/jid"

	"verifharness/common"
	nc "verifharness/negcommon"
)

// exportedMechs are the mechanisms mellium.im/sasl exports, in a fixed order.
func exportedMechs() []sasl.Mechanism {
	return []sasl.Mechanism{sasl.Plain, sasl.Anonymous, sasl.ScramSha1, sasl.ScramSha1Plus, sasl.ScramSha256, sasl.ScramSha256Plus}
}

func leanStrs(l []string) string {
	q := make([]string, len(l))
	for i, s := range l {
		q[i] = fmt.Sprintf("%q", s)
	}
	return "[" + strings.Join(q, ", ") + "]"
}

func leanBytes(b []byte) string {
	q := make([]string, len(b))
	for i, c := range b {
		q[i] = fmt.Sprintf("%d", c)
	}
	return "[" + strings.Join(q, ", ") + "]"
}

func leanBool(b bool) string {
	if b {
		return "true"
	}
	return "false"
}

// gateMasks: (role, mechanism names, Necessary, Prohibited) for every list of <= 2 exported mechanisms
func gateMasks() (out string) {
	defer func() {
		if recover() != nil {
			out = "none"
		}
	}()
	ms := exportedMechs()
	var lists [][]sasl.Mechanism
	for _, a := range ms {
		lists = append(lists, []sasl.Mechanism{a})
	}
	for _, a := range ms {
		for _, b := range ms {
			lists = append(lists, []sasl.Mechanism{a, b})
		}
	}
	var rows []string
	for _, l := range lists {
		var names []string
		for _, m := range l {
			names = append(names, m.Name)
		}
		c := xmpp.SASL("", "secret", l...)
		s := xmpp.SASLServer(func(*sasl.Negotiator) bool { return false }, l...)
		rows = append(rows, fmt.Sprintf("(\"cli\", %s, %d, %d)", leanStrs(names), uint(c.Necessary), uint(c.Prohibited)))
		rows = append(rows, fmt.Sprintf("(\"srv\", %s, %d, %d)", leanStrs(names), uint(s.Necessary), uint(s.Prohibited)))
		if probeSink != nil {
			probeSink("gate cli "+encNames(names), fmt.Sprintf("%d %d", uint(c.Necessary), uint(c.Prohibited)))
			probeSink("gate srv "+encNames(names), fmt.Sprintf("%d %d", uint(s.Necessary), uint(s.Prohibited)))
		}
	}
	return "some [\n  " + strings.Join(rows, ",\n  ") + "]"
}

// probeSink, when set (by Run), receives every row of the probe tables as a protocol line and
// its observation: the tables are then also compared with the driver row by row and judged by
// the oracle, so that a deviation is reported with the concrete input.
var probeSink func(line, obs string)

// stateConn is a scripted connection that reports a TLS connection state, the way a
// *tls.Conn (or the library's own wrappers) does.
type stateConn struct {
	*nc.Conn
	st tls.ConnectionState
}

func (c stateConn) ConnectionState() tls.ConnectionState { return c.st }

// connKinds: 0 = the connection has no ConnectionState method; 1 = it has one and reports the
// zero state (TLS not (yet) up); 2 = TLS 1.2 with tls-unique data; 3 = TLS 1.3 (no tls-unique)
func connOfKind(k int, c *nc.Conn) io.ReadWriter {
	switch k {
	case 1:
		return stateConn{c, tls.ConnectionState{}}
	case 2:
		return stateConn{c, tls.ConnectionState{Version: tls.VersionTLS12, HandshakeComplete: true, TLSUnique: []byte{7, 8, 9}}}
	case 3:
		return stateConn{c, tls.ConnectionState{Version: tls.VersionTLS13, HandshakeComplete: true}}
	}
	return c
}

// session runs one complete session with the single feature f on rw.
func probeSession(rw io.ReadWriter, recv bool, st xmpp.SessionState, f xmpp.StreamFeature) (called int, panicV string) {
	orig := f.Negotiate
	f.Negotiate = func(ctx context.Context, s *xmpp.Session, data interface{}) (xmpp.SessionState, io.ReadWriter, error) {
		called++
		return orig(ctx, s, data)
	}
	neg := xmpp.NewNegotiator(func(*xmpp.Session, *xmpp.StreamConfig) xmpp.StreamConfig {
		return xmpp.StreamConfig{Features: []xmpp.StreamFeature{f}}
	})
	panicV = common.Recover(func() {
		if recv {
			_, _ = xmpp.ReceiveSession(context.Background(), rw, st, neg)
		} else {
			_, _ = xmpp.NewSession(context.Background(), jid.MustParse("example.net"), jid.MustParse("user@example.net"), rw, st, neg)
		}
	})
	return called, panicV
}

func advXML(adv []string) string {
	var sb strings.Builder
	sb.WriteString("<stream:features><mechanisms xmlns='" + nsSASL + "'>")
	for _, a := range adv {
		sb.WriteString("<mechanism>" + nc.Esc(a) + "</mechanism>")
	}
	sb.WriteString("</mechanisms></stream:features>")
	return sb.String()
}

// gateRuns: (role, initial state bits, mechanism, offered-or-tried, Negotiate ran)
//
// initiating side: the peer advertises the mechanism; "tried" = an <auth/> was written.
// receiving side: the peer sends an <auth/> for the mechanism right after its header;
// "offered" = a <mechanisms/> list was written.
func gateRuns() (out string) {
	defer func() {
		if recover() != nil {
			out = "none"
		}
	}()
	var rows []string
	for _, recv := range []bool{false, true} {
		for bits := 0; bits < 4; bits++ {
			var st xmpp.SessionState
			if bits&1 != 0 {
				st |= xmpp.Secure
			}
			if bits&2 != 0 {
				st |= xmpp.Authn
			}
			for _, m := range exportedMechs() {
				var conn *nc.Conn
				var f xmpp.StreamFeature
				role := "cli"
				if recv {
					role = "srv"
					conn = nc.NewConn(nc.S(nc.Header("jabber:client", "", "", "example.net")),
						nc.S("<auth xmlns='"+nsSASL+"' mechanism='"+m.Name+"'>AHUAcA==</auth>"))
					f = xmpp.SASLServer(func(*sasl.Negotiator) bool { return true }, m)
				} else {
					conn = nc.NewConn(nc.S(nc.Header("jabber:client", "sid1", "example.net", "user@example.net")),
						nc.S(advXML([]string{m.Name})))
					f = xmpp.SASL("", "p", m)
				}
				called, pv := probeSession(conn, recv, st, f)
				if pv != "" {
					return "none"
				}
				w := string(conn.Written())
				seen := strings.Contains(w, "<auth")
				if recv {
					seen = strings.Contains(w, "<mechanisms")
				}
				rows = append(rows, fmt.Sprintf("(%q, %d, %q, %s, %s)", role, uint(st), m.Name, leanBool(seen), leanBool(called > 0)))
				if probeSink != nil {
					probeSink(fmt.Sprintf("gaterun %s %d %s", role, uint(st), encName(m.Name)), common.B(seen)+" "+common.B(called > 0))
				}
			}
		}
	}
	return "some [\n  " + strings.Join(rows, ",\n  ") + "]"
}

// optsSeen is what the recording mechanism saw through its negotiator in its first Step
type optsSeen struct {
	ran     bool
	tls     bool
	version uint16
	unique  []byte
	remote  []string
	user    string
	pass    string
	ident   string
}

func recorder(name string, o *optsSeen) sasl.Mechanism {
	see := func(m *sasl.Negotiator) {
		if o.ran {
			return
		}
		o.ran = true
		if st := m.TLSState(); st != nil {
			o.tls, o.version, o.unique = true, st.Version, append([]byte(nil), st.TLSUnique...)
		}
		o.remote = append([]string(nil), m.RemoteMechanisms()...)
		u, p, i := m.Credentials()
		o.user, o.pass, o.ident = string(u), string(p), string(i)
	}
	return sasl.Mechanism{
		Name: name,
		Start: func(m *sasl.Negotiator) (bool, []byte, interface{}, error) {
			see(m)
			return false, nil, nil, nil
		},
		Next: func(m *sasl.Negotiator, _ []byte, _ interface{}) (bool, []byte, interface{}, error) {
			see(m)
			return false, nil, nil, nil
		},
	}
}

// negOpts: (role, connection kind, advertised list, (tls seen, version, tls-unique),
// remote mechanisms seen, (user, password, identity))
func negOpts() (out string) {
	defer func() {
		if recover() != nil {
			out = "none"
		}
	}()
	advs := [][]string{{"X-REC"}, {"PLAIN", "X-REC"}, {"X-REC", "X-REC-PLUS", "SCRAM-SHA-1-PLUS"}}
	var rows []string
	for _, recv := range []bool{false, true} {
		for kind := 0; kind < 4; kind++ {
			for ai, adv := range advs {
				if recv && ai > 0 {
					continue
				}
				var o optsSeen
				var conn *nc.Conn
				var f xmpp.StreamFeature
				role := "cli"
				if recv {
					role = "srv"
					conn = nc.NewConn(nc.S(nc.Header("jabber:client", "", "", "example.net")),
						nc.S("<auth xmlns='"+nsSASL+"' mechanism='X-REC'>AHUAcA==</auth>"))
					f = xmpp.SASLServer(func(*sasl.Negotiator) bool { return true }, recorder("X-REC", &o))
				} else {
					conn = nc.NewConn(nc.S(nc.Header("jabber:client", "sid1", "example.net", "user@example.net")),
						nc.S(advXML(adv)), nc.S("<success xmlns='"+nsSASL+"'/>"))
					f = xmpp.SASL("ident", "pw", recorder("X-REC", &o))
				}
				_, pv := probeSession(connOfKind(kind, conn), recv, xmpp.Secure, f)
				if pv != "" || !o.ran {
					return "none"
				}
				if probeSink != nil {
					probeSink(fmt.Sprintf("opts %s %d %s", role, kind, encNames(adv)), fmt.Sprintf("%s %d %s %s %s/%s/%s", common.B(o.tls), o.version,
						common.Hex(o.unique), encNames(o.remote), common.HexS(o.user), common.HexS(o.pass), common.HexS(o.ident)))
				}
				rows = append(rows, fmt.Sprintf("(%q, %d, %s, (%s, %d, %s), %s, (%q, %q, %q))", role, kind, leanStrs(adv),
					leanBool(o.tls), o.version, leanBytes(o.unique), leanStrs(o.remote), o.user, o.pass, o.ident))
			}
		}
	}
	return "some [\n  " + strings.Join(rows, ",\n  ") + "]"
}

// scramGs2: real SCRAM clients of the dependency over every connection kind: which mechanism
// is selected and which channel-binding flag its client-first message carries
// ("n", "y", "p=tls-unique", "p=tls-exporter"; "-" when no <auth/> was written)
func scramGs2() (out string) {
	defer func() {
		if recover() != nil {
			out = "none"
		}
	}()
	byName := map[string]sasl.Mechanism{}
	for _, m := range exportedMechs() {
		byName[m.Name] = m
	}
	lists := [][]string{{"SCRAM-SHA-1"}, {"SCRAM-SHA-1-PLUS"}, {"SCRAM-SHA-1-PLUS", "SCRAM-SHA-1"}, {"SCRAM-SHA-256-PLUS", "SCRAM-SHA-1"}}
	advs := [][]string{{"SCRAM-SHA-1"}, {"SCRAM-SHA-1-PLUS"}, {"SCRAM-SHA-1", "SCRAM-SHA-1-PLUS"}, {"SCRAM-SHA-256-PLUS", "SCRAM-SHA-256"}}
	var rows []string
	for kind := 0; kind < 4; kind++ {
		for _, cl := range lists {
			for _, adv := range advs {
				var ms []sasl.Mechanism
				for _, n := range cl {
					ms = append(ms, byName[n])
				}
				conn := nc.NewConn(nc.S(nc.Header("jabber:client", "sid1", "example.net", "user@example.net")), nc.S(advXML(adv)))
				_, pv := probeSession(connOfKind(kind, conn), false, xmpp.Secure, xmpp.SASL("", "pw", ms...))
				if pv != "" {
					return "none"
				}
				used, flag := "-", "-"
				if streams, err := nc.ParseWritten(conn.Written()); err == nil && len(streams) > 0 {
					for _, e := range streams[0].Elems {
						if e.Name.Space == nsSASL && e.Name.Local == "auth" {
							used, _ = e.AttrVal("mechanism")
							raw, derr := base64.StdEncoding.DecodeString(strings.TrimSpace(e.Text))
							if derr != nil {
								return "none"
							}
							flag = string(raw)
							if i := strings.Index(flag, ","); i >= 0 {
								flag = flag[:i]
							}
						}
					}
				}
				rows = append(rows, fmt.Sprintf("(%d, %s, %s, %q, %q)", kind, leanStrs(cl), leanStrs(adv), used, flag))
				if probeSink != nil {
					u := "-"
					if used != "-" {
						u = encName(used)
					}
					probeSink(fmt.Sprintf("gs2 %d %s %s", kind, encNames(cl), encNames(adv)), u+" "+flag)
				}
			}
		}
	}
	return "some [\n  " + strings.Join(rows, ",\n  ") + "]"
}

// definedConds are the SASL failure conditions of RFC 6120 §6.5
var definedConds = []string{"aborted", "account-disabled", "credentials-expired", "encryption-required", "incorrect-encoding",
	"invalid-authzid", "invalid-mechanism", "malformed-request", "mechanism-too-weak", "not-authorized", "temporary-auth-failure"}

// failConds: a <failure/> with every defined condition, an unknown one and none at all, sent to
// both roles: (role, condition, Authn, the error is the peer's SASL failure, its text)
func failConds() (out string) {
	defer func() {
		if recover() != nil {
			out = "none"
		}
	}()
	var rows []string
	conds := append(append([]string(nil), definedConds...), "something-new", "")
	for _, recv := range []bool{false, true} {
		for _, c := range conds {
			el := "<failure xmlns='" + nsSASL + "'/>"
			if c != "" {
				el = "<failure xmlns='" + nsSASL + "'><" + c + "/></failure>"
			}
			var conn *nc.Conn
			var f xmpp.StreamFeature
			role := "cli"
			if recv {
				role = "srv"
				conn = nc.NewConn(nc.S(nc.Header("jabber:client", "", "", "example.net")), nc.S(el))
				f = xmpp.SASLServer(func(*sasl.Negotiator) bool { return true }, sasl.Plain)
			} else {
				conn = nc.NewConn(nc.S(nc.Header("jabber:client", "sid1", "example.net", "user@example.net")), nc.S(advXML([]string{"PLAIN"})), nc.S(el))
				f = xmpp.SASL("", "pw", sasl.Plain)
			}
			var mask xmpp.SessionState
			var nerr error
			orig := f.Negotiate
			f.Negotiate = func(ctx context.Context, s *xmpp.Session, data interface{}) (xmpp.SessionState, io.ReadWriter, error) {
				m, rw, err := orig(ctx, s, data)
				mask, nerr = m, err
				return m, rw, err
			}
			called, pv := probeSession(conn, recv, xmpp.Secure, f)
			if pv != "" || called == 0 {
				return "none"
			}
			isSasl, text := false, "<nil>"
			if nerr != nil {
				isSasl, text = strings.HasPrefix(nc.ErrClass(nerr), "sasl:"), nerr.Error()
			}
			rows = append(rows, fmt.Sprintf("(%q, %q, %s, %s, %q)", role, c, leanBool(mask&xmpp.Authn != 0), leanBool(isSasl), text))
			if probeSink != nil {
				cf := c
				if cf == "" {
					cf = "-"
				}
				probeSink(fmt.Sprintf("failc %s %s", role, cf), fmt.Sprintf("%s %s %s", common.B(mask&xmpp.Authn != 0), common.B(isSasl), common.HexS(text)))
			}
		}
	}
	return "some [\n  " + strings.Join(rows, ",\n  ") + "]"
}

func probeFacts(sb *strings.Builder) {
	sb.WriteString("\n/-- PROBE: a <failure/> carrying every defined condition, an unknown one, none: (role, condition, Authn, the error is the SASL failure, its text) -/\n")
	fmt.Fprintf(sb, "def saslFailureConds : Option (List (String × String × Bool × Bool × String)) := %s\n", failConds())
	sb.WriteString("\n/-- PROBE: sessions on a real *tls.Conn (in-process handshake): (role, TLS version, tee, (recording mechanism ran, TLS state seen, version seen, tls-unique seen is the connection's)) -/\n")
	fmt.Fprintf(sb, "def saslNegOptsTLS : Option (List (String × Nat × Bool × (Bool × Bool × Nat × Bool))) := %s\n", realTLSOpts())
	sb.WriteString("\n/-- PROBE: real SCRAM clients: (connection kind, configured, advertised, mechanism in <auth/>, channel-binding flag of the client-first message) -/\n")
	fmt.Fprintf(sb, "def saslScramGs2 : Option (List (Nat × List String × List String × String × String)) := %s\n", scramGs2())
	sb.WriteString("\n/-- PROBE: (role, mechanism names, `Necessary`, `Prohibited`) of the feature values the code under test builds for every list of one or two exported mechanisms -/\n")
	fmt.Fprintf(sb, "def saslGateMasks : Option (List (String × List String × Nat × Nat)) := %s\n", gateMasks())
	sb.WriteString("\n/-- PROBE: complete sessions started in every subset of {Secure = 1, Authn = 2}: (role, initial state, mechanism, offered / tried, `Negotiate` ran) -/\n")
	fmt.Fprintf(sb, "def saslGateRuns : Option (List (String × Nat × String × Bool × Bool)) := %s\n", gateRuns())
	sb.WriteString("\n/-- PROBE: what the selected mechanism sees through its negotiator: (role, connection kind, advertised, (TLS state seen, version, tls-unique), remote mechanisms, (user, password, identity)) -/\n")
	fmt.Fprintf(sb, "def saslNegOpts : Option (List (String × Nat × List String × (Bool × Nat × List Nat) × List String × (String × String × String))) := %s\n", negOpts())
}

// genProbes runs the probe tables as cases: one line per row (compared with the driver) and an
// oracle on the real code that is independent of the model.
func genProbes(r *common.Run) { genProbesOnly(r, "") }

// replayProbe re-runs the table the line belongs to and judges that row only
func replayProbe(r *common.Run, l string) error {
	genProbesOnly(r, strings.TrimPrefix(l, r.Prop+" "))
	return nil
}

func genProbesOnly(r *common.Run, only string) {
	probeSink = func(line, obs string) {
		if only != "" && line != only {
			return
		}
		r.Line(line, obs)
		f := strings.Fields(line)
		r.Case(line, true, "probe-"+f[0])
		lines := []string{r.Prop + " " + line}
		o := strings.Fields(obs)
		switch f[0] {
		case "gate":
			if obs != fmt.Sprintf("%d %d", uint(xmpp.Secure), uint(xmpp.Authn)) {
				r.Fail("feature-gated-by-session-state", f[1], lines, "the SASL feature built for these mechanisms is not (Necessary: Secure, Prohibited: Authn): "+obs)
			}
		case "gaterun":
			var st uint
			fmt.Sscanf(f[2], "%d", &st)
			open := st&uint(xmpp.Secure) != 0 && st&uint(xmpp.Authn) == 0
			if len(o) == 2 && (o[0] == "1" || o[1] == "1") && !open {
				k := "unsecured"
				if st&uint(xmpp.Authn) != 0 {
					k = "already-authenticated"
				}
				r.Fail("sasl-runs-only-when-allowed", f[1]+"-"+k, lines, "SASL was offered / tried / negotiated in a session state in which it must not be: offered-or-tried="+o[0]+" negotiated="+o[1])
			}
		case "gs2":
			// a -PLUS mechanism in <auth/> on a connection with a TLS state must announce binding
			if len(o) == 2 && strings.HasSuffix(decName(o[0]), "-PLUS") && (f[1] == "2" || f[1] == "3") && !strings.HasPrefix(o[1], "p=") {
				r.Fail("client-channel-binding-lost", "kind="+f[1], lines, "a -PLUS mechanism was used on a connection with a TLS state without channel binding: flag "+o[1])
			}
			if len(o) == 2 && o[0] != "-" {
				adv := decNames(f[3])
				ok := false
				for _, a := range adv {
					if a == decName(o[0]) {
						ok = true
					}
				}
				if !ok {
					r.Fail("client-mechanism-selection", "not-advertised", lines, "the mechanism in <auth/> was not advertised")
				}
			}
		case "failc":
			if len(o) >= 2 && (o[0] != "0" || o[1] != "1") {
				r.Fail("failure-ends-unauthenticated", f[1], lines, "a <failure/> must end the exchange unauthenticated with the peer's failure as error (authn is-sasl-failure text): "+obs)
			}
		case "optstls":
			if len(o) == 4 && (o[0] != "1" || o[1] != "1" || o[2] != f[2] || o[3] != "1") {
				k := "tee=" + f[3]
				r.Fail("negotiator-tls-state", f[1]+"-real-tls-"+k, lines, "on a real TLS connection the mechanism's negotiator must be given the state of that connection (ran seen version tls-unique-ok): "+obs)
			}
		case "opts":
			if len(o) >= 1 {
				want := f[2] == "2" || f[2] == "3"
				if (o[0] == "1") != want {
					r.Fail("negotiator-tls-state", f[1]+"-kind="+f[2], lines, "the mechanism's negotiator sees a TLS state iff the connection reports one with a version: seen="+o[0])
				}
				if f[1] == "cli" && len(o) >= 4 && o[3] != f[3] {
					r.Fail("negotiator-remote-mechanisms", "cli", lines, "the initiating side's mechanism must see exactly the mechanisms the peer advertised ("+f[3]+"), it sees "+o[3])
				}
			}
		}
	}
	defer func() { probeSink = nil }()
	tab := ""
	if only != "" {
		tab = strings.Fields(only)[0]
	}
	if tab == "" || tab == "gate" {
		_ = gateMasks()
	}
	if tab == "" || tab == "gaterun" {
		_ = gateRuns()
	}
	if tab == "" || tab == "opts" {
		_ = negOpts()
	}
	if tab == "" || tab == "gs2" {
		_ = scramGs2()
	}
	if tab == "" || tab == "failc" {
		_ = failConds()
	}
	if tab == "" || tab == "optstls" {
		_ = realTLSOpts()
	}
}
