package c03

// Round E: the options of the negotiator over a REAL TLS layer (review A, C03 finding 4).
//
// The session runs on a *tls.Conn (client or server end of an in-process handshake over
// net.Pipe, TLS 1.2 and TLS 1.3), with and without the negotiator's tee (StreamConfig.TeeIn /
// TeeOut, which wraps the connection).  A recording mechanism reports the TLS state its
// negotiator was given; it is compared with the state of the *tls.Conn the session runs on.

import (
	"bytes"
	"context"
	"crypto/ecdsa"
	"crypto/elliptic"
	"crypto/rand"
	"crypto/tls"
	"crypto/x509"
	"crypto/x509/pkix"
	"fmt"
	"io"
	"math/big"
	"net"
	"strings"
	"sync"
	"time"

	"mellium.im/sasl"
	"mellium.im/xmpp"
	"mellium.im/xmpp/jid"

	"verifharness/common"
	nc "verifharness/negcommon"
)

var (
	certOnce sync.Once
	certVal  tls.Certificate
	certErr  error
)

func harnessCert() (tls.Certificate, error) {
	certOnce.Do(func() {
		key, err := ecdsa.GenerateKey(elliptic.P256(), rand.Reader)
		if err != nil {
			certErr = err
			return
		}
		tmpl := &x509.Certificate{
			SerialNumber: big.NewInt(1),
			Subject:      pkix.Name{CommonName: "c03 harness"},
			NotBefore:    time.Now().Add(-time.Hour),
			NotAfter:     time.Now().Add(24 * time.Hour),
			KeyUsage:     x509.KeyUsageDigitalSignature,
			ExtKeyUsage:  []x509.ExtKeyUsage{x509.ExtKeyUsageServerAuth},
			DNSNames:     []string{"example.net"},
		}
		der, err := x509.CreateCertificate(rand.Reader, tmpl, tmpl, &key.PublicKey, key)
		if err != nil {
			certErr = err
			return
		}
		certVal = tls.Certificate{Certificate: [][]byte{der}, PrivateKey: key}
	})
	return certVal, certErr
}

type lockedBuf struct {
	mu sync.Mutex
	b  bytes.Buffer
}

func (l *lockedBuf) Write(p []byte) (int, error) {
	l.mu.Lock()
	defer l.mu.Unlock()
	return l.b.Write(p)
}

func (l *lockedBuf) Len() int {
	l.mu.Lock()
	defer l.mu.Unlock()
	return l.b.Len()
}

type tlsRow struct {
	ran, seen     bool
	version       uint16
	uniqueLen     int
	uniqueMatches bool
	connUniqueLen int
}

// readUntil reads from c until the accumulated input contains one of the markers
func readUntil(c io.Reader, acc *bytes.Buffer, markers ...string) bool {
	buf := make([]byte, 4096)
	for {
		for _, m := range markers {
			if bytes.Contains(acc.Bytes(), []byte(m)) {
				return true
			}
		}
		n, err := c.Read(buf)
		acc.Write(buf[:n])
		if err != nil {
			for _, m := range markers {
				if bytes.Contains(acc.Bytes(), []byte(m)) {
					return true
				}
			}
			return false
		}
	}
}

func realTLSRow(recv bool, ver uint16, tee bool) (row tlsRow, err error) {
	cert, err := harnessCert()
	if err != nil {
		return row, err
	}
	c1, c2 := net.Pipe()
	defer c1.Close()
	defer c2.Close()
	dl := time.Now().Add(10 * time.Second)
	_ = c1.SetDeadline(dl)
	_ = c2.SetDeadline(dl)
	srvCfg := &tls.Config{Certificates: []tls.Certificate{cert}, MinVersion: ver, MaxVersion: ver}
	cliCfg := &tls.Config{InsecureSkipVerify: true, ServerName: "example.net", MinVersion: ver, MaxVersion: ver} // #nosec: in-process test peer
	var lib, peer *tls.Conn
	if recv {
		lib, peer = tls.Server(c1, srvCfg), tls.Client(c2, cliCfg)
	} else {
		lib, peer = tls.Client(c1, cliCfg), tls.Server(c2, srvCfg)
	}
	var wg sync.WaitGroup
	wg.Add(1)
	go func() {
		defer wg.Done()
		defer peer.Close()
		if peer.Handshake() != nil {
			return
		}
		var acc bytes.Buffer
		if recv {
			// the peer is the initiating entity
			_, _ = io.WriteString(peer, nc.Header("jabber:client", "", "", "example.net"))
			if !readUntil(peer, &acc, "</stream:features>", "<stream:features/>") {
				return
			}
			_, _ = io.WriteString(peer, "<auth xmlns='"+nsSASL+"' mechanism='X-REC'>=</auth>")
			readUntil(peer, &acc, "<success", "<failure", "</stream:stream>")
		} else {
			if !readUntil(peer, &acc, ">") {
				return
			}
			_, _ = io.WriteString(peer, nc.Header("jabber:client", "sid1", "example.net", "user@example.net")+advXML([]string{"X-REC"}))
			if !readUntil(peer, &acc, "</auth>", "<auth xmlns='"+nsSASL+"' mechanism='X-REC'/>") {
				return
			}
			_, _ = io.WriteString(peer, "<success xmlns='"+nsSASL+"'/>")
			// the initiating entity restarts the stream: read its new header, then hang up
			acc.Reset()
			readUntil(peer, &acc, "<stream:stream")
		}
	}()
	var o optsSeen
	var f xmpp.StreamFeature
	if recv {
		f = xmpp.SASLServer(func(*sasl.Negotiator) bool { return true }, recorder("X-REC", &o))
	} else {
		f = xmpp.SASL("ident", "pw", recorder("X-REC", &o))
	}
	var teeIn, teeOut lockedBuf
	neg := xmpp.NewNegotiator(func(*xmpp.Session, *xmpp.StreamConfig) xmpp.StreamConfig {
		cfg := xmpp.StreamConfig{Features: []xmpp.StreamFeature{f}}
		if tee {
			cfg.TeeIn, cfg.TeeOut = &teeIn, &teeOut
		}
		return cfg
	})
	ctx, cancel := context.WithTimeout(context.Background(), 10*time.Second)
	defer cancel()
	pv := common.Recover(func() {
		if recv {
			_, _ = xmpp.ReceiveSession(ctx, lib, xmpp.Secure, neg)
		} else {
			_, _ = xmpp.NewSession(ctx, jid.MustParse("example.net"), jid.MustParse("user@example.net"), lib, xmpp.Secure, neg)
		}
	})
	_ = lib.Close()
	wg.Wait()
	if pv != "" {
		return row, fmt.Errorf("panic: %s", pv)
	}
	cs := lib.ConnectionState()
	if tee && (teeIn.Len() == 0 || teeOut.Len() == 0) {
		// the tee was configured but copied nothing: the row would not be about a tee'd session
		o.ran = false
	}
	row = tlsRow{ran: o.ran, seen: o.tls, version: o.version, uniqueLen: len(o.unique),
		uniqueMatches: bytes.Equal(o.unique, cs.TLSUnique), connUniqueLen: len(cs.TLSUnique)}
	return row, nil
}

// realTLSOpts: (role, TLS version, tee, (mechanism ran, TLS state seen, version seen,
// tls-unique seen is the connection's (and non-empty below TLS 1.3)))
func realTLSOpts() (out string) {
	defer func() {
		if recover() != nil {
			out = "none"
		}
	}()
	var rows []string
	for _, recv := range []bool{false, true} {
		for _, ver := range []uint16{tls.VersionTLS12, tls.VersionTLS13} {
			for _, tee := range []bool{false, true} {
				row, err := realTLSRow(recv, ver, tee)
				if err != nil {
					return "none"
				}
				role := "cli"
				if recv {
					role = "srv"
				}
				uok := row.uniqueMatches && (ver == tls.VersionTLS13 || row.uniqueLen > 0)
				rows = append(rows, fmt.Sprintf("(%q, %d, %s, (%s, %s, %d, %s))", role, ver, leanBool(tee), leanBool(row.ran), leanBool(row.seen), row.version, leanBool(uok)))
				if probeSink != nil {
					probeSink(fmt.Sprintf("optstls %s %d %s", role, ver, common.B(tee)), fmt.Sprintf("%s %s %d %s", common.B(row.ran), common.B(row.seen), row.version, common.B(uok)))
				}
			}
		}
	}
	return "some [\n  " + strings.Join(rows, ",\n  ") + "]"
}
