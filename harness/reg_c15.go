package main

import "verifharness/c15"

func init() { runners["C15"] = c15.Run; facts["C15"] = c15.Facts }
