package c19

import (
	"encoding/xml"
	"fmt"
	"reflect"
	"strings"
	"time"

	"mellium.im/xmlstream"

	"verifharness/common"
)

// spec describes one payload type for layer 3: how its values are generated,
// which writer paths it has, whether it decodes, how a value is rendered
// canonically and what the documented normal form of a value is.
type spec[T any] struct {
	name string
	gen  func(g *gen) T
	// writer paths
	marshalVal bool // xml.Marshal(v)
	marshalPtr bool // xml.Marshal(&v)
	tr         func(v *T) xml.TokenReader
	wx         func(v *T, w xmlstream.TokenWriter) (int, error)
	// decoding
	dec   bool
	canon func(v *T) string
	norm  func(v T) T      // expected normal form of the original; nil = identity
	valid func(v *T) bool  // marshalling must succeed (nil = always)
	rt    func(v *T) bool  // value is in the round-trip domain (nil = always)
	text  func(v *T) []string // free text of the value (to decide XML representability); nil = use reflection
	// rtNote names the documented limit of the round-trip domain; when set, values
	// outside the domain that do not round trip are reported under clause
	// "time-range" with this key (a finding of its own, never mixed with "roundtrip")
	rtNote string
	// witnesses are minimal values that once violated the property; they are run
	// first on every run, independently of the PRNG (`val <type> <index> 2`)
	witnesses []T
}

// entry is the type-erased view used by the runner.
type entry struct {
	name string
	dec  bool
	nWit int
	one  func(c *ctx, sub uint64, bad bool, class string)
	wit  func(c *ctx, index int)
	// enum evaluates the value the generator builds from a script of choices
	// (enumeration mode) and returns the radix of every choice point it met
	enum func(c *ctx, script []int) []int
	// unmarshal feeds bytes to the type's unmarshaller under recover
	unmarshal func(b []byte) (panicked string, err error)
	// seeds returns printed encodings of a generated value (mutation seeds)
	seeds func(sub uint64) [][]byte
	// decoded runs the property's equations on the value a document decodes to (a value
	// constructible through the exported API: UnmarshalXML is part of it)
	decoded func(c *ctx, b []byte, lines []string)
}

var registry []entry

type pathRes struct {
	name     string
	out      []byte
	toks     []xml.Token // raw tokens (token paths only)
	err      error
	panicked string
}

func guard(name string, f func() ([]byte, []xml.Token, error)) (res pathRes) {
	res.name = name
	done := make(chan struct{})
	go func() {
		defer close(done)
		defer func() {
			if p := recover(); p != nil {
				res.panicked = fmt.Sprint(p)
			}
		}()
		res.out, res.toks, res.err = f()
	}()
	select {
	case <-done:
	case <-time.After(20 * time.Second):
		res.panicked = "TIMEOUT"
	}
	return res
}

// panicClass is a coarse, stable normal form of a panic message.
func panicClass(p string) string {
	switch {
	case p == "TIMEOUT":
		return "timeout"
	case strings.Contains(p, "nil pointer"):
		return "nil-deref"
	case strings.Contains(p, "slice bounds"):
		return "slice-bounds"
	case strings.Contains(p, "index out of range"):
		return "index"
	case strings.Contains(p, "nil map"):
		return "nil-map"
	case strings.Contains(p, "makeslice"):
		return "makeslice"
	case strings.Contains(p, "interface conversion"):
		return "type-assert"
	case strings.Contains(p, "unknown hash"):
		return "unknown-hash"
	}
	if len(p) > 24 {
		p = p[:24]
	}
	return strings.Map(func(r rune) rune {
		if r == ' ' || r == '=' {
			return '_'
		}
		return r
	}, p)
}

// scriptString renders a choice script ("-" when empty).
func scriptString(sc []int) string {
	if len(sc) == 0 {
		return "-"
	}
	p := make([]string, len(sc))
	for i, d := range sc {
		p[i] = fmt.Sprint(d)
	}
	return strings.Join(p, ".")
}

func parseScript(s string) []int {
	if s == "-" || s == "" {
		return nil
	}
	var out []int
	for _, p := range strings.Split(s, ".") {
		d := 0
		fmt.Sscan(p, &d)
		out = append(out, d)
	}
	return out
}

// enumerate walks the tree of generator choices breadth first (fewest non-default choices
// first): a script fixes the first len(script) choices, later ones take their first
// alternative; its successors set exactly one later choice to a non-default alternative.
// Every script without trailing zeros is visited once.  Returns the number of values
// evaluated and whether the whole tree was covered within the cap.
func enumerate(cap int, run func(script []int) []int) (n int, complete bool) {
	queue := [][]int{nil}
	for len(queue) > 0 {
		if n >= cap {
			return n, false
		}
		sc := queue[0]
		queue = queue[1:]
		rad := run(sc)
		n++
		for p := len(sc); p < len(rad); p++ {
			for d := 1; d < rad[p]; d++ {
				if len(queue)+n > 4*cap {
					break
				}
				ns := make([]int, p+1)
				copy(ns, sc)
				ns[p] = d
				queue = append(queue, ns)
			}
		}
	}
	return n, true
}

// errClass is a coarse, stable normal form of an error message.
func errClass(err error) string {
	m := err.Error()
	if len(m) > 32 {
		m = m[:32]
	}
	return strings.Map(func(r rune) rune {
		if (r >= 'a' && r <= 'z') || (r >= 'A' && r <= 'Z') || (r >= '0' && r <= '9') || r == ':' || r == '-' {
			return r
		}
		return '_'
	}, m)
}

// collectText gathers every string reachable from v (exported or not) so the
// runner can decide whether the value is representable in XML 1.0.
func collectText(v reflect.Value, out *[]string, depth int) {
	if depth > 8 || !v.IsValid() {
		return
	}
	switch v.Kind() {
	case reflect.String:
		*out = append(*out, v.String())
	case reflect.Ptr, reflect.Interface:
		if !v.IsNil() {
			collectText(v.Elem(), out, depth+1)
		}
	case reflect.Struct:
		if v.Type() == reflect.TypeOf(time.Time{}) {
			return
		}
		for i := 0; i < v.NumField(); i++ {
			collectText(v.Field(i), out, depth+1)
		}
	case reflect.Slice, reflect.Array:
		if v.Type().Elem().Kind() == reflect.Uint8 {
			return
		}
		for i := 0; i < v.Len(); i++ {
			collectText(v.Index(i), out, depth+1)
		}
	case reflect.Map:
		it := v.MapRange()
		for it.Next() {
			collectText(it.Key(), out, depth+1)
			collectText(it.Value(), out, depth+1)
		}
	}
}

func register[T any](s spec[T]) {
	e := entry{name: s.name, dec: s.dec, nWit: len(s.witnesses)}
	paths := func(v *T) []pathRes {
		var ps []pathRes
		if s.marshalVal {
			ps = append(ps, guard("MarshalVal", func() ([]byte, []xml.Token, error) { b, err := xml.Marshal(*v); return b, nil, err }))
		}
		if s.marshalPtr {
			ps = append(ps, guard("MarshalPtr", func() ([]byte, []xml.Token, error) { b, err := xml.Marshal(v); return b, nil, err }))
		}
		if s.tr != nil {
			ps = append(ps, guard("TokenReader", func() ([]byte, []xml.Token, error) { return encodeTokens(s.tr(v)) }))
		}
		if s.wx != nil {
			ps = append(ps, guard("WriteXML", func() ([]byte, []xml.Token, error) {
				var buf strings.Builder
				e := xml.NewEncoder(&buf)
				if _, err := s.wx(v, e); err != nil {
					return nil, nil, err
				}
				if err := e.Flush(); err != nil {
					return nil, nil, err
				}
				return []byte(buf.String()), nil, nil
			}))
		}
		return ps
	}
	unmarshal := func(b []byte) (out *T, panicked string, err error) {
		done := make(chan struct{})
		go func() {
			defer close(done)
			defer func() {
				if p := recover(); p != nil {
					panicked = fmt.Sprint(p)
				}
			}()
			var v T
			err = xml.Unmarshal(b, &v)
			out = &v
		}()
		select {
		case <-done:
		case <-time.After(20 * time.Second):
			panicked = "TIMEOUT"
		}
		return
	}
	// sameDecoded: two printed forms stand for the same value (decoded and rendered canonically;
	// for writer-only types: the same element tree up to the order of differently named siblings)
	sameDecoded := func(a, b []byte) bool {
		if s.dec && s.canon != nil {
			da, pa, ea := unmarshal(a)
			db, pb, eb := unmarshal(b)
			if pa != "" || pb != "" || ea != nil || eb != nil {
				return pa == pb && (ea == nil) == (eb == nil) && ea != nil
			}
			return s.canon(da) == s.canon(db)
		}
		ta, ea := reparse(a)
		tb, eb := reparse(b)
		return ea == nil && eb == nil && common.EncToks(canonOrder(ta)) == common.EncToks(canonOrder(tb))
	}
	e.unmarshal = func(b []byte) (string, error) {
		if !s.dec {
			return "", nil
		}
		_, p, err := unmarshal(b)
		return p, err
	}
	e.seeds = func(sub uint64) [][]byte {
		g := &gen{r: common.NewRand(sub)}
		v := s.gen(g)
		var out [][]byte
		for _, p := range paths(&v) {
			if p.panicked == "" && p.err == nil && len(p.out) > 0 {
				out = append(out, p.out)
			}
		}
		return out
	}
	// second: a decoded value is a value of the type like any other.  Every writer path
	// must accept it (no panic, well-formed output) and what it writes must decode to an
	// equivalent value again: the normal forms the decoder produces are fixed points of
	// decode∘encode.  This reaches values no generator builds field by field (state only an
	// unmarshaller sets, values decoded from arbitrary and mutated documents).
	second := func(c *ctx, lines []string, d *T, from string) {
		r := c.r
		if s.valid != nil && !s.valid(d) {
			return
		}
		var texts []string
		if s.text != nil {
			texts = s.text(d)
		} else {
			collectText(reflect.ValueOf(*d), &texts, 0)
		}
		for _, t := range texts {
			if !xmlValid(t) {
				return
			}
		}
		inRT := s.canon != nil && (s.rt == nil || s.rt(d))
		want := ""
		if inRT {
			n := *d
			if s.norm != nil {
				n = s.norm(n)
			}
			want = s.canon(&n)
		}
		for _, p := range paths(d) {
			switch {
			case p.panicked != "":
				r.Fail("no-panic", s.name+"/"+p.name+"/"+panicClass(p.panicked), lines,
					fmt.Sprintf("%s of the value decoded from %s panicked: %s", p.name, from, p.panicked))
			case p.err != nil:
				// the decoder accepted something the writer refuses: not a clause of C19
			default:
				if err := wellFormed(p.out); err != nil {
					r.Fail("well-formed", s.name+"/"+p.name, lines,
						fmt.Sprintf("%s of the value decoded from %s is not well-formed: %v\n%q", p.name, from, err, p.out))
					continue
				}
				if !inRT {
					continue
				}
				d2, pan, err := unmarshal(p.out)
				switch {
				case pan != "":
					r.Fail("unmarshal-total", s.name+"/own-output/"+panicClass(pan), lines,
						fmt.Sprintf("unmarshalling %q panicked: %s", p.out, pan))
				case err != nil:
					r.Fail("roundtrip", s.name+"/decode-error/"+errClass(err), lines,
						fmt.Sprintf("the value decoded from %s is written by %s as %q, which does not decode: %v", from, p.name, p.out, err))
				default:
					if got := s.canon(d2); got != want {
						r.Fail("roundtrip", s.name+"/"+firstDiff(want, got), lines,
							fmt.Sprintf("value decoded from %s: %s\nwritten by %s as %q\ndecodes to %s", from, want, p.name, p.out, got))
					}
				}
			}
		}
	}
	e.decoded = func(c *ctx, b []byte, lines []string) {
		if !s.dec {
			return
		}
		d, pan, err := unmarshal(b)
		if pan != "" || err != nil || d == nil {
			return
		}
		second(c, lines, d, fmt.Sprintf("%q", b))
	}
	var eval func(c *ctx, sub uint64, bad bool, class string, fixed *T, eg *gen)
	e.one = func(c *ctx, sub uint64, bad bool, class string) { eval(c, sub, bad, class, nil, nil) }
	e.enum = func(c *ctx, script []int) []int {
		g := &gen{enum: true, script: script}
		eval(c, 0, false, "exhaustive", nil, g)
		return g.radices
	}
	e.wit = func(c *ctx, index int) {
		if index >= 0 && index < len(s.witnesses) {
			w := s.witnesses[index]
			eval(c, uint64(index), false, "corpus", &w, nil)
		}
	}
	eval = func(c *ctx, sub uint64, bad bool, class string, fixed *T, eg *gen) {
		r := c.r
		g := &gen{r: common.NewRand(sub), bad: bad}
		if eg != nil {
			g = eg
		}
		var v T
		gp := guard("gen", func() ([]byte, []xml.Token, error) {
			if fixed != nil {
				v = *fixed
			} else {
				v = s.gen(g)
			}
			return nil, nil, nil
		})
		line := fmt.Sprintf("val %s %d %s", s.name, sub, common.B(bad))
		if fixed != nil {
			line = fmt.Sprintf("val %s %d 2", s.name, sub)
		}
		if eg != nil {
			line = fmt.Sprintf("val %s %s 3", s.name, scriptString(eg.script))
		}
		lines := []string{r.Prop + " " + line}
		r.Line(line, "-")
		if gp.panicked != "" {
			r.Case(line, true, class+"/"+s.name)
			r.Fail("no-panic", s.name+"/construct/"+panicClass(gp.panicked), lines, "constructing the value panicked: "+gp.panicked)
			return
		}
		var texts []string
		if s.text != nil {
			texts = s.text(&v)
		} else {
			collectText(reflect.ValueOf(v), &texts, 0)
		}
		repr := true
		for _, t := range texts {
			if !xmlValid(t) {
				repr = false
			}
		}
		valid := s.valid == nil || s.valid(&v)
		canonNow := func() (d string) {
			if s.canon != nil {
				defer func() { _ = recover() }()
				d = s.canon(&v)
			}
			return d
		}
		canon0 := canonNow()
		ps := paths(&v)
		r.Case(line, true, class+"/"+s.name)
		// a second call of every writer path on the same value (writers are reads: they neither
		// consume nor change the value) must print what the first call printed
		if valid {
			for i, p2 := range paths(&v) {
				p := ps[i]
				if p.panicked != "" || p.err != nil {
					continue
				}
				switch {
				case p2.panicked != "":
					r.Fail("no-panic", s.name+"/"+p.name+"/second-call/"+panicClass(p2.panicked), lines, "the second call panicked: "+p2.panicked)
				case p2.err == nil && string(p2.out) == string(p.out):
				case p2.err == nil && sameDecoded(p.out, p2.out):
					// printed differently (children the type keeps in a map), but the same value
				default:
					r.Fail("same-value", s.name+"/second-call/"+p.name, lines,
						fmt.Sprintf("%s called twice on the same value: first %q, then %q err=%v", p.name, p.out, p2.out, p2.err))
				}
			}
			if c1 := canonNow(); c1 != canon0 {
				r.Fail("same-value", s.name+"/changed-by-writer/"+firstDiff(canon0, c1), lines,
					fmt.Sprintf("the writer paths changed the value they were called on\nbefore %s\nafter  %s", canon0, c1))
			}
		}
		describe := func() string {
			d := ""
			if s.canon != nil {
				func() {
					defer func() { _ = recover() }()
					d = "value: " + s.canon(&v)
				}()
			}
			for _, p := range ps {
				d += fmt.Sprintf("\n%s: %q err=%v panic=%q", p.name, p.out, p.err, p.panicked)
			}
			return d
		}
		ok := make([]pathRes, 0, len(ps))
		for _, p := range ps {
			if p.toks != nil || p.name == "TokenReader" {
				// layer 1 tie: the model's nesting check on the real token stream
				bl := "bal " + common.EncToks(p.toks)
				if p.panicked == "" && p.err == nil {
					if repr {
						r.Line(bl, common.B(balancedToks(p.toks)))
						c.skelLine(s.name+".TokenReader", p.toks)
						// the model of what the encoder prints for these raw tokens (Model/Reencode.lean)
						// against the strict reading of what it did print
						r.Line("wf "+common.EncToks(p.toks), common.B(wellFormed(p.out) == nil))
					}
					if !balancedToks(p.toks) {
						r.Fail("well-formed", s.name+"/TokenReader/unbalanced", append(lines, r.Prop+" "+bl), "token stream is not balanced\n"+describe())
					}
				}
			}
			switch {
			case p.panicked != "":
				if valid {
					r.Fail("no-panic", s.name+"/"+p.name+"/"+panicClass(p.panicked), lines, "panic: "+p.panicked+"\n"+describe())
				}
			case p.err != nil:
				if valid && repr {
					r.Fail("marshal-error", s.name+"/"+p.name, lines, "error: "+p.err.Error()+"\n"+describe())
				}
			default:
				if err := wellFormed(p.out); err != nil {
					r.Fail("well-formed", s.name+"/"+p.name, lines, "printed XML is not well-formed: "+err.Error()+"\n"+describe())
				} else {
					ok = append(ok, p)
				}
			}
		}
		if !repr || !valid || len(ok) == 0 {
			return
		}
		if !s.dec {
			// no decoding direction: the writer paths must print the same XML
			var first []xml.Token
			for i, p := range ok {
				toks, err := reparse(p.out)
				if err != nil {
					continue
				}
				if i == 0 {
					first = toks
				} else if common.EncToks(toks) != common.EncToks(first) {
					r.Fail("same-value", s.name+"/"+ok[0].name+"-vs-"+p.name, lines, "writer paths print different XML\n"+describe())
				}
			}
			return
		}
		inRT := s.rt == nil || s.rt(&v)
		want := ""
		if inRT {
			n := v
			if s.norm != nil {
				n = s.norm(v)
			}
			want = s.canon(&n)
		}
		firstCanon, firstName := "", ""
		for i, p := range ok {
			d, pan, err := unmarshal(p.out)
			switch {
			case pan != "":
				r.Fail("unmarshal-total", s.name+"/own-output/"+panicClass(pan), lines, "unmarshalling the type's own output panicked: "+pan+"\n"+describe())
				continue
			case err != nil:
				if inRT {
					r.Fail("roundtrip", s.name+"/decode-error/"+errClass(err), lines, "the type's own output does not decode: "+err.Error()+"\n"+describe())
				} else if s.rtNote != "" {
					r.Fail("time-range", s.name+"/"+s.rtNote, lines, "written but not readable: "+err.Error()+"\n"+describe())
				}
				continue
			}
			got := s.canon(d)
			if firstName == "" {
				second(c, lines, d, "the output of "+p.name)
			}
			if i == 0 || firstName == "" {
				firstCanon, firstName = got, p.name
			} else if got != firstCanon {
				r.Fail("same-value", s.name+"/"+firstName+"-vs-"+p.name+"/"+firstDiff(firstCanon, got), lines,
					fmt.Sprintf("%s decodes to %s\n%s decodes to %s\n%s", firstName, firstCanon, p.name, got, describe()))
			}
			if inRT && got != want {
				r.Fail("roundtrip", s.name+"/"+firstDiff(want, got), lines,
					fmt.Sprintf("decoded %s\nwant    %s\n%s", got, want, describe()))
			}
		}
	}
	registry = append(registry, e)
}
