package c19

import (
	"encoding/xml"
	"fmt"
	"math"
	"net/http"
	"sort"
	"strings"
	"time"

	"mellium.im/xmlstream"
	"mellium.im/xmpp/bin"
	"mellium.im/xmpp/blocklist"
	"mellium.im/xmpp/bookmarks"
	"mellium.im/xmpp/carbons"
	"mellium.im/xmpp/commands"
	"mellium.im/xmpp/crypto"
	"mellium.im/xmpp/delay"
	"mellium.im/xmpp/disco"
	"mellium.im/xmpp/disco/info"
	"mellium.im/xmpp/disco/items"
	"mellium.im/xmpp/file"
	"mellium.im/xmpp/form"
	"mellium.im/xmpp/forward"
	"mellium.im/xmpp/history"
	"mellium.im/xmpp/jid"
	"mellium.im/xmpp/muc"
	"mellium.im/xmpp/oob"
	"mellium.im/xmpp/paging"
	"mellium.im/xmpp/pubsub"
	"mellium.im/xmpp/receipts"
	"mellium.im/xmpp/roster"
	"mellium.im/xmpp/stanza"
	"mellium.im/xmpp/styling"
	"mellium.im/xmpp/upload"
	"mellium.im/xmpp/version"
	"mellium.im/xmpp/xtime"
)

var hashes = []crypto.Hash{crypto.SHA1, crypto.SHA224, crypto.SHA256, crypto.SHA384, crypto.SHA512, crypto.SHA3_256, crypto.SHA3_512, crypto.BLAKE2b_256, crypto.BLAKE2b_512}

func (g *gen) hash() crypto.Hash { return hashes[g.intn(len(hashes))] }

func up(g *gen) *uint64 {
	if g.boolean() {
		return nil
	}
	v := g.u64()
	return &v
}

func inRange(t time.Time) bool {
	if t.IsZero() {
		return true
	}
	y := t.UTC().Year()
	return y >= 0 && y <= 9999 && t.Year() >= 0 && t.Year() <= 9999
}

// offsetMinutes is the zone offset truncated the way a "Z07:00" layout prints it.
func offsetMinutes(t time.Time) int {
	_, off := t.Zone()
	neg := off < 0
	if neg {
		off = -off
	}
	m := off / 60
	if neg {
		return -m
	}
	return m
}

func iq(g *gen) stanza.IQ {
	types := []stanza.IQType{stanza.GetIQ, stanza.SetIQ, stanza.ResultIQ, stanza.ErrorIQ}
	return stanza.IQ{ID: g.opt(), To: g.jid(), From: g.jid(), Lang: "", Type: types[g.intn(len(types))]}
}

func canonIQ(q stanza.IQ) string {
	return (&kv{}).s("id", q.ID).j("to", q.To).j("from", q.From).s("type", string(q.Type)).String()
}

func canonIdent(i info.Identity) string {
	return (&kv{}).s("category", i.Category).s("type", i.Type).s("name", i.Name).s("lang", i.Lang).String()
}

func canonRosterItem(it roster.Item) string {
	return (&kv{}).j("jid", it.JID).s("name", it.Name).s("subscription", it.Subscription).ss("group", it.Group).String()
}

func canonSet(s paging.Set) string {
	return (&kv{}).s("first", s.First.ID).up("index", s.First.Index).s("last", s.Last).up("count", s.Count).String()
}

func canonDelay(d delay.Delay) string {
	return (&kv{}).j("from", d.From).t("time", d.Time).s("reason", d.Reason).String()
}

func canonKey(k crypto.Key) string {
	return (&kv{}).b("trusted", k.Trusted).x("id", k.KeyID).String()
}

func canonOwned(o crypto.OwnedKeys) string {
	k := (&kv{}).j("owner", o.Owner)
	for _, x := range o.Keys {
		k.sub("key", canonKey(x))
	}
	return k.String()
}

func canonHeader(h http.Header) string {
	var l []string
	for name, vals := range h {
		n := http.CanonicalHeaderKey(name)
		if n != "Authorization" && n != "Cookie" && n != "Expires" {
			continue
		}
		for _, v := range vals {
			l = append(l, fmt.Sprintf("%q:%q", n, v))
		}
	}
	sort.Strings(l)
	return strings.Join(l, ",")
}

func init() {
	// ---- service discovery ------------------------------------------------------
	register(spec[disco.InfoQuery]{name: "disco.InfoQuery",
		gen:        func(g *gen) disco.InfoQuery { return disco.InfoQuery{Node: g.opt()} },
		marshalVal: true, marshalPtr: true,
		tr:    func(v *disco.InfoQuery) xml.TokenReader { return v.TokenReader() },
		wx:    func(v *disco.InfoQuery, w xmlstream.TokenWriter) (int, error) { return v.WriteXML(w) },
		dec:   true,
		canon: func(v *disco.InfoQuery) string { return (&kv{}).s("node", v.Node).String() },
	})
	register(spec[info.Feature]{name: "info.Feature",
		gen:        func(g *gen) info.Feature { return info.Feature{Var: g.text()} },
		marshalVal: true, marshalPtr: true,
		tr:    func(v *info.Feature) xml.TokenReader { return v.TokenReader() },
		wx:    func(v *info.Feature, w xmlstream.TokenWriter) (int, error) { return v.WriteXML(w) },
		dec:   true,
		canon: func(v *info.Feature) string { return (&kv{}).s("var", v.Var).String() },
	})
	register(spec[info.Identity]{name: "info.Identity",
		gen: func(g *gen) info.Identity {
			return info.Identity{Category: g.text(), Type: g.text(), Name: g.opt(), Lang: []string{"", "en", "de-CH", "x<y"}[g.intn(4)]}
		},
		marshalVal: true, marshalPtr: true,
		tr:    func(v *info.Identity) xml.TokenReader { return v.TokenReader() },
		wx:    func(v *info.Identity, w xmlstream.TokenWriter) (int, error) { return v.WriteXML(w) },
		dec:   true,
		canon: func(v *info.Identity) string { return canonIdent(*v) },
	})
	register(spec[disco.Info]{name: "disco.Info",
		witnesses: []disco.Info{{Form: []form.Data{*form.New(form.Result, form.Hidden("FORM_TYPE", form.Value("urn:xmpp:dataforms:softwareinfo")), form.Text("os", form.Value("Linux")))}}},
		gen: func(g *gen) disco.Info {
			i := disco.Info{InfoQuery: disco.InfoQuery{Node: g.opt()}}
			for n := g.count(4); n > 0; n-- {
				i.Identity = append(i.Identity, info.Identity{Category: g.text(), Type: g.text(), Name: g.opt(), Lang: []string{"", "en"}[g.intn(2)]})
			}
			for n := g.count(5); n > 0; n-- {
				i.Features = append(i.Features, info.Feature{Var: g.text()})
			}
			for n := g.count(2); n > 0; n-- {
				fd := genFormDesc(g, false)
				fd.typ = "result"
				i.Form = append(i.Form, *fd.build())
			}
			return i
		},
		marshalVal: true, marshalPtr: true,
		tr:  func(v *disco.Info) xml.TokenReader { return v.TokenReader() },
		wx:  func(v *disco.Info, w xmlstream.TokenWriter) (int, error) { return v.WriteXML(w) },
		dec: true,
		canon: func(v *disco.Info) string {
			k := (&kv{}).s("node", v.Node)
			for _, id := range v.Identity {
				k.sub("identity", canonIdent(id))
			}
			for _, f := range v.Features {
				k.s("feature", f.Var)
			}
			for i := range v.Form {
				k.sub("form", canonForm(&v.Form[i]))
			}
			return k.String()
		},
		norm: func(v disco.Info) disco.Info {
			// forms are normalised by their own codec: compare them in decoded form
			n := v
			n.Form = nil
			for i := range v.Form {
				b, err := xml.Marshal(&v.Form[i])
				var d form.Data
				if err == nil && xml.Unmarshal(b, &d) == nil {
					n.Form = append(n.Form, d)
				}
			}
			return n
		},
	})
	register(spec[disco.ItemsQuery]{name: "disco.ItemsQuery",
		gen:        func(g *gen) disco.ItemsQuery { return disco.ItemsQuery{Node: g.opt()} },
		marshalVal: true, marshalPtr: true,
		tr:    func(v *disco.ItemsQuery) xml.TokenReader { return v.TokenReader() },
		wx:    func(v *disco.ItemsQuery, w xmlstream.TokenWriter) (int, error) { return v.WriteXML(w) },
		dec:   true,
		canon: func(v *disco.ItemsQuery) string { return (&kv{}).s("node", v.Node).String() },
	})
	register(spec[items.Item]{name: "items.Item",
		gen:        func(g *gen) items.Item { return items.Item{JID: g.njid(), Name: g.opt(), Node: g.opt()} },
		marshalVal: true, marshalPtr: true,
		tr:    func(v *items.Item) xml.TokenReader { return v.TokenReader() },
		wx:    func(v *items.Item, w xmlstream.TokenWriter) (int, error) { return v.WriteXML(w) },
		dec:   true,
		canon: func(v *items.Item) string { return (&kv{}).j("jid", v.JID).s("name", v.Name).s("node", v.Node).String() },
	})
	register(spec[disco.Caps]{name: "disco.Caps",
		gen:        func(g *gen) disco.Caps { return disco.Caps{Hash: g.hash(), Node: g.text(), Ver: g.text()} },
		marshalVal: true, marshalPtr: true,
		tr:  func(v *disco.Caps) xml.TokenReader { return v.TokenReader() },
		wx:  func(v *disco.Caps, w xmlstream.TokenWriter) (int, error) { return v.WriteXML(w) },
		dec: true,
		canon: func(v *disco.Caps) string {
			return (&kv{}).s("hash", v.Hash.String()).s("node", v.Node).s("ver", v.Ver).String()
		},
	})

	// ---- result set management --------------------------------------------------
	register(spec[paging.RequestCount]{name: "paging.RequestCount",
		gen:        func(g *gen) paging.RequestCount { return paging.RequestCount{} },
		marshalPtr: true,
		tr:         func(v *paging.RequestCount) xml.TokenReader { return v.TokenReader() },
		wx:         func(v *paging.RequestCount, w xmlstream.TokenWriter) (int, error) { return v.WriteXML(w) },
		dec:        true,
		canon:      func(v *paging.RequestCount) string { return "count" },
	})
	register(spec[paging.RequestNext]{name: "paging.RequestNext",
		gen:        func(g *gen) paging.RequestNext { return paging.RequestNext{Max: g.u64(), After: g.opt()} },
		marshalPtr: true,
		tr:         func(v *paging.RequestNext) xml.TokenReader { return v.TokenReader() },
		wx:         func(v *paging.RequestNext, w xmlstream.TokenWriter) (int, error) { return v.WriteXML(w) },
		dec:        true,
		canon:      func(v *paging.RequestNext) string { return (&kv{}).u("max", v.Max).s("after", v.After).String() },
	})
	register(spec[paging.RequestPrev]{name: "paging.RequestPrev",
		gen:        func(g *gen) paging.RequestPrev { return paging.RequestPrev{Max: g.u64(), Before: g.opt()} },
		marshalPtr: true,
		tr:         func(v *paging.RequestPrev) xml.TokenReader { return v.TokenReader() },
		wx:         func(v *paging.RequestPrev, w xmlstream.TokenWriter) (int, error) { return v.WriteXML(w) },
		dec:        true,
		canon:      func(v *paging.RequestPrev) string { return (&kv{}).u("max", v.Max).s("before", v.Before).String() },
	})
	register(spec[paging.RequestIndex]{name: "paging.RequestIndex",
		gen:        func(g *gen) paging.RequestIndex { return paging.RequestIndex{Max: g.u64(), Index: g.u64()} },
		marshalPtr: true,
		tr:         func(v *paging.RequestIndex) xml.TokenReader { return v.TokenReader() },
		wx:         func(v *paging.RequestIndex, w xmlstream.TokenWriter) (int, error) { return v.WriteXML(w) },
		dec:        true,
		canon:      func(v *paging.RequestIndex) string { return (&kv{}).u("max", v.Max).u("index", v.Index).String() },
	})
	register(spec[paging.Set]{name: "paging.Set",
		gen: func(g *gen) paging.Set {
			var s paging.Set
			s.First.ID, s.First.Index, s.Last, s.Count = g.text(), up(g), g.text(), up(g)
			return s
		},
		marshalPtr: true,
		tr:         func(v *paging.Set) xml.TokenReader { return v.TokenReader() },
		wx:         func(v *paging.Set, w xmlstream.TokenWriter) (int, error) { return v.WriteXML(w) },
		dec:        true,
		canon:      func(v *paging.Set) string { return canonSet(*v) },
	})

	// ---- delay, entity time, forwarding, carbons ---------------------------------------
	register(spec[delay.Delay]{name: "delay.Delay",
		gen: func(g *gen) delay.Delay {
			t := g.time(false)
			if g.chance(1, 40) {
				t = g.farTime()
			}
			return delay.Delay{From: g.jid(), Time: t, Reason: g.opt()}
		},
		marshalVal: true, marshalPtr: true,
		tr:    func(v *delay.Delay) xml.TokenReader { return v.TokenReader() },
		wx:    func(v *delay.Delay, w xmlstream.TokenWriter) (int, error) { return v.WriteXML(w) },
		dec:   true,
		canon: func(v *delay.Delay) string { return canonDelay(*v) },
		rt:    func(v *delay.Delay) bool { return inRange(v.Time) },
		rtNote: "year-outside-0000-9999",
	})
	register(spec[stanza.Delay]{name: "stanza.Delay",
		witnesses: []stanza.Delay{{Stamp: time.Date(2020, 1, 2, 3, 4, 5, 0, time.UTC)}},
		gen: func(g *gen) stanza.Delay {
			t := g.time(false)
			if g.chance(1, 40) {
				t = g.farTime()
			}
			return stanza.Delay{From: g.jid(), Stamp: t, Reason: g.opt()}
		},
		marshalVal: true, marshalPtr: true,
		tr:  func(v *stanza.Delay) xml.TokenReader { return v.TokenReader() },
		wx:  func(v *stanza.Delay, w xmlstream.TokenWriter) (int, error) { return v.WriteXML(w) },
		dec: true,
		canon: func(v *stanza.Delay) string {
			return (&kv{}).j("from", v.From).t("stamp", v.Stamp).s("reason", v.Reason).String()
		},
		rt: func(v *stanza.Delay) bool { return inRange(v.Stamp) },
		rtNote: "year-outside-0000-9999",
	})
	register(spec[xtime.Time]{name: "xtime.Time",
		gen: func(g *gen) xtime.Time {
			t := g.time(false)
			if g.chance(1, 40) {
				t = g.farTime()
			}
			return xtime.Time{Time: t}
		},
		marshalVal: true, marshalPtr: true,
		tr:  func(v *xtime.Time) xml.TokenReader { return v.TokenReader() },
		wx:  func(v *xtime.Time, w xmlstream.TokenWriter) (int, error) { return v.WriteXML(w) },
		dec: true,
		canon: func(v *xtime.Time) string {
			return (&kv{}).t("utc", v.Time).i("tzo-min", int64(offsetMinutes(v.Time))).String()
		},
		rt: func(v *xtime.Time) bool { return inRange(v.Time) },
		rtNote: "year-outside-0000-9999",
	})
	// the attribute form of xtime.Time, through a carrier struct
	type stampAttr struct {
		XMLName xml.Name   `xml:"x"`
		Stamp   xtime.Time `xml:"stamp,attr"`
	}
	register(spec[stampAttr]{name: "xtime.Time(attr)",
		gen:        func(g *gen) stampAttr { return stampAttr{Stamp: xtime.Time{Time: g.time(false)}} },
		marshalVal: true, marshalPtr: true,
		dec:   true,
		canon: func(v *stampAttr) string { return (&kv{}).t("stamp", v.Stamp.Time).String() },
	})
	register(spec[forward.Forwarded]{name: "forward.Forwarded",
		gen: func(g *gen) forward.Forwarded {
			return forward.Forwarded{Delay: delay.Delay{From: g.jid(), Time: g.time(false), Reason: g.opt()}}
		},
		marshalVal: true, marshalPtr: true,
		tr:    func(v *forward.Forwarded) xml.TokenReader { return v.TokenReader() },
		wx:    func(v *forward.Forwarded, w xmlstream.TokenWriter) (int, error) { return v.WriteXML(w) },
		dec:   true,
		canon: func(v *forward.Forwarded) string { return canonDelay(v.Delay) },
	})
	// forward.Wrap / carbons.Wrap* around an arbitrary payload, and their Unwrap
	type wrapped struct {
		Kind    int
		Delay   delay.Delay
		Body    string
		Payload string // text of the wrapped <message><body/></message>
		Msg     stanza.Message
	}
	wrapTR := func(v *wrapped) xml.TokenReader {
		inner := stanza.Message{Type: stanza.ChatMessage, To: v.Msg.To}.Wrap(xmlstream.Wrap(
			xmlstream.Token(xml.CharData(v.Payload)), xml.StartElement{Name: xml.Name{Local: "body"}}))
		switch v.Kind {
		case 0:
			return forward.Forwarded{Delay: v.Delay}.Wrap(inner)
		case 1:
			return carbons.WrapReceived(v.Delay, inner)
		case 2:
			return carbons.WrapSent(v.Delay, inner)
		}
		return forward.Wrap(v.Msg, v.Body, v.Delay.Time, inner)
	}
	register(spec[wrapped]{name: "forward/carbons.Wrap",
		gen: func(g *gen) wrapped {
			return wrapped{Kind: g.intn(4), Delay: delay.Delay{From: g.jid(), Time: g.time(false), Reason: g.opt()},
				Body: g.text(), Payload: g.text(), Msg: stanza.Message{To: g.jid(), Type: stanza.NormalMessage, ID: g.opt()}}
		},
		tr: wrapTR,
	})

	// ---- receipts, styling hint ----------------------------------------------------------
	register(spec[receipts.Requested]{name: "receipts.Requested",
		gen:        func(g *gen) receipts.Requested { return receipts.Requested(g.boolean()) },
		marshalVal: true, marshalPtr: true,
		tr: func(v *receipts.Requested) xml.TokenReader { return v.TokenReader() },
		wx: func(v *receipts.Requested, w xmlstream.TokenWriter) (int, error) { return v.WriteXML(w) },
		// decoding is only defined when an element is present
		dec:   true,
		canon: func(v *receipts.Requested) string { return (&kv{}).b("requested", bool(*v)).String() },
		rt:    func(v *receipts.Requested) bool { return bool(*v) },
		valid: func(v *receipts.Requested) bool { return true },
	})
	register(spec[styling.Unstyled]{name: "styling.Unstyled",
		witnesses: []styling.Unstyled{{Value: false}},
		gen:        func(g *gen) styling.Unstyled { return styling.Unstyled{Value: g.boolean()} },
		marshalVal: true, marshalPtr: true,
		tr:    func(v *styling.Unstyled) xml.TokenReader { return v.TokenReader() },
		wx:    func(v *styling.Unstyled, w xmlstream.TokenWriter) (int, error) { return v.WriteXML(w) },
		dec:   true,
		canon: func(v *styling.Unstyled) string { return (&kv{}).b("value", v.Value).String() },
	})

	// ---- roster, blocklist, bookmarks ----------------------------------------------------
	genRosterItem := func(g *gen) roster.Item {
		return roster.Item{JID: g.jid(), Name: g.opt(), Subscription: []string{"", "none", "to", "from", "both", "remove", "a<b"}[g.intn(7)], Group: g.texts(4)}
	}
	register(spec[roster.Item]{name: "roster.Item",
		gen:        genRosterItem,
		marshalVal: true, marshalPtr: true,
		tr:    func(v *roster.Item) xml.TokenReader { return v.TokenReader() },
		wx:    func(v *roster.Item, w xmlstream.TokenWriter) (int, error) { return v.WriteXML(w) },
		dec:   true,
		canon: func(v *roster.Item) string { return canonRosterItem(*v) },
	})
	register(spec[roster.IQ]{name: "roster.IQ",
		gen: func(g *gen) roster.IQ {
			var q roster.IQ
			q.IQ = iq(g)
			q.Query.Ver = g.opt()
			for n := g.count(4); n > 0; n-- {
				q.Query.Item = append(q.Query.Item, genRosterItem(g))
			}
			return q
		},
		marshalVal: true, marshalPtr: true,
		tr:  func(v *roster.IQ) xml.TokenReader { return v.TokenReader() },
		wx:  func(v *roster.IQ, w xmlstream.TokenWriter) (int, error) { return v.WriteXML(w) },
		dec: true,
		canon: func(v *roster.IQ) string {
			k := (&kv{}).sub("iq", canonIQ(v.IQ)).s("ver", v.Query.Ver)
			for _, it := range v.Query.Item {
				k.sub("item", canonRosterItem(it))
			}
			return k.String()
		},
	})
	register(spec[blocklist.Item]{name: "blocklist.Item",
		gen: func(g *gen) blocklist.Item {
			it := blocklist.Item{JID: g.njid(), Reason: []blocklist.ReportReason{"", blocklist.ReasonSpam, blocklist.ReasonAbuse}[g.intn(3)], Text: g.opt()}
			for n := g.count(3); n > 0; n-- {
				it.StanzaIDs = append(it.StanzaIDs, stanza.ID{ID: g.text(), By: g.njid()})
			}
			return it
		},
		marshalPtr: true,
		tr:         func(v *blocklist.Item) xml.TokenReader { return v.TokenReader() },
		wx:         func(v *blocklist.Item, w xmlstream.TokenWriter) (int, error) { return v.WriteXML(w) },
		dec:        true,
		canon: func(v *blocklist.Item) string {
			k := (&kv{}).j("jid", v.JID).s("reason", string(v.Reason)).s("text", v.Text)
			for _, id := range v.StanzaIDs {
				k.sub("sid", (&kv{}).s("id", id.ID).j("by", id.By).String())
			}
			return k.String()
		},
		norm: func(v blocklist.Item) blocklist.Item {
			// documented: a report without a reason is sent as spam
			if v.Reason == "" && (len(v.StanzaIDs) > 0 || v.Text != "") {
				v.Reason = blocklist.ReasonSpam
			}
			return v
		},
	})
	register(spec[stanza.ID]{name: "stanza.ID",
		gen:        func(g *gen) stanza.ID { return stanza.ID{ID: g.text(), By: g.njid()} },
		marshalVal: true, marshalPtr: true,
		tr:    func(v *stanza.ID) xml.TokenReader { return v.TokenReader() },
		wx:    func(v *stanza.ID, w xmlstream.TokenWriter) (int, error) { return v.WriteXML(w) },
		dec:   true,
		canon: func(v *stanza.ID) string { return (&kv{}).s("id", v.ID).j("by", v.By).String() },
	})
	register(spec[stanza.OriginID]{name: "stanza.OriginID",
		gen:        func(g *gen) stanza.OriginID { return stanza.OriginID{ID: g.text()} },
		marshalVal: true, marshalPtr: true,
		tr:    func(v *stanza.OriginID) xml.TokenReader { return v.TokenReader() },
		wx:    func(v *stanza.OriginID, w xmlstream.TokenWriter) (int, error) { return v.WriteXML(w) },
		dec:   true,
		canon: func(v *stanza.OriginID) string { return (&kv{}).s("id", v.ID).String() },
	})
	register(spec[bookmarks.Channel]{name: "bookmarks.Channel",
		gen: func(g *gen) bookmarks.Channel {
			ext := [][]byte{nil, []byte("<a xmlns=\"urn:x\"/>"), []byte("<a xmlns=\"urn:x\">t&amp;</a><b xmlns=\"urn:y\" k=\"v\"/>")}
			return bookmarks.Channel{Autojoin: g.boolean(), Name: g.opt(), Nick: g.opt(), Password: g.opt(), Extensions: ext[g.intn(len(ext))]}
		},
		marshalVal: true, marshalPtr: true,
		tr:  func(v *bookmarks.Channel) xml.TokenReader { return v.TokenReader() },
		wx:  func(v *bookmarks.Channel, w xmlstream.TokenWriter) (int, error) { return v.WriteXML(w) },
		dec: true,
		canon: func(v *bookmarks.Channel) string {
			// extensions are raw XML: compared as token lists
			ext := ""
			if t, err := reparse(v.Extensions); err == nil {
				ext = encToksShort(t)
			} else {
				ext = "ERR"
			}
			return (&kv{}).b("autojoin", v.Autojoin).s("name", v.Name).s("nick", v.Nick).s("password", v.Password).s("ext", ext).String()
		},
	})

	// ---- message archive management ---------------------------------------------------------
	register(spec[history.Query]{name: "history.Query",
		witnesses: []history.Query{{PageID: "p"}, {PageID: "p", Last: true}, {Start: time.Date(2020, 1, 2, 3, 4, 5, 600000000, time.UTC)}, {End: time.Date(2020, 1, 2, 3, 4, 5, 1, time.UTC)}},
		gen: func(g *gen) history.Query {
			q := history.Query{ID: g.opt(), With: g.jid(), Start: g.time(true), End: g.time(true), BeforeID: g.opt(), AfterID: g.opt(),
				Limit: g.u64(), Last: g.boolean(), PageID: g.opt(), Reverse: g.boolean()}
			if g.chance(1, 40) {
				q.Start = g.farTime()
			}
			if g.chance(1, 40) {
				q.End = g.farTime()
			}
			for n := g.count(3); n > 0; n-- {
				q.IDs = append(q.IDs, g.ntext())
			}
			return q
		},
		marshalPtr: true,
		tr:         func(v *history.Query) xml.TokenReader { return v.TokenReader() },
		wx:         func(v *history.Query, w xmlstream.TokenWriter) (int, error) { return v.WriteXML(w) },
		dec:        true,
		rt:         func(v *history.Query) bool { return inRange(v.Start) && inRange(v.End) },
		rtNote:     "year-outside-0000-9999",
		canon: func(v *history.Query) string {
			return (&kv{}).s("id", v.ID).j("with", v.With).t("start", v.Start).t("end", v.End).s("before-id", v.BeforeID).s("after-id", v.AfterID).
				ss("ids", v.IDs).u("limit", v.Limit).b("last", v.Last).s("page", v.PageID).b("reverse", v.Reverse).String()
		},
		norm: func(v history.Query) history.Query {
			// single-line text fields keep the value as set; list values that are empty are dropped by the form codec
			var ids []string
			for _, s := range v.IDs {
				if s != "" {
					ids = append(ids, s)
				}
			}
			v.IDs = ids
			return v
		},
	})
	register(spec[history.Result]{name: "history.Result",
		gen: func(g *gen) history.Result {
			var s paging.Set
			s.First.ID, s.First.Index, s.Last, s.Count = g.text(), up(g), g.text(), up(g)
			return history.Result{Complete: g.boolean(), Unstable: g.boolean(), Set: s}
		},
		marshalPtr: true,
		tr:         func(v *history.Result) xml.TokenReader { return v.TokenReader() },
		wx:         func(v *history.Result, w xmlstream.TokenWriter) (int, error) { return v.WriteXML(w) },
		dec:        true,
		canon: func(v *history.Result) string {
			return (&kv{}).b("complete", v.Complete).b("unstable", v.Unstable).sub("set", canonSet(v.Set)).String()
		},
	})

	// ---- multi-user chat ---------------------------------------------------------------------
	type mucItemEl struct {
		XMLName xml.Name `xml:"item"`
		muc.Item
	}
	canonMucItem := func(v muc.Item) string {
		return (&kv{}).j("jid", v.JID).s("affiliation", v.Affiliation.String()).s("nick", v.Nick).s("role", v.Role.String()).s("reason", v.Reason).String()
	}
	genMucItem := func(g *gen) muc.Item {
		return muc.Item{JID: g.jid(), Affiliation: muc.Affiliation(g.intn(5)), Nick: g.opt(), Role: muc.Role(g.intn(4)), Reason: g.opt()}
	}
	register(spec[muc.Item]{name: "muc.Item",
		witnesses: []muc.Item{{Affiliation: muc.AffiliationOwner}, {Role: muc.RoleModerator}},
		gen:        genMucItem,
		marshalVal: true, marshalPtr: true,
		dec:   true,
		canon: func(v *muc.Item) string { return canonMucItem(*v) },
	})
	register(spec[mucItemEl]{name: "muc.Item(embedded)",
		gen:        func(g *gen) mucItemEl { return mucItemEl{Item: genMucItem(g)} },
		marshalVal: true, marshalPtr: true,
		dec:   true,
		canon: func(v *mucItemEl) string { return canonMucItem(v.Item) },
	})
	register(spec[muc.Invitation]{name: "muc.Invitation",
		gen: func(g *gen) muc.Invitation {
			i := muc.Invitation{Continue: g.boolean(), JID: g.njid(), Password: g.opt(), Reason: g.opt(), Thread: g.opt()}
			if g.boolean() {
				i.XMLName = xml.Name{Space: muc.NSConf, Local: "x"}
			} else if g.boolean() {
				i.XMLName = xml.Name{Space: muc.NSUser, Local: "x"}
			}
			return i
		},
		marshalVal: true, marshalPtr: true,
		tr:  func(v *muc.Invitation) xml.TokenReader { return v.TokenReader() },
		wx:  func(v *muc.Invitation, w xmlstream.TokenWriter) (int, error) { return v.WriteXML(w) },
		dec: true,
		canon: func(v *muc.Invitation) string {
			return (&kv{}).s("ns", v.XMLName.Space).b("continue", v.Continue).j("jid", v.JID).s("password", v.Password).s("reason", v.Reason).s("thread", v.Thread).String()
		},
		norm: func(v muc.Invitation) muc.Invitation {
			// the namespace selects direct or mediated (default); a thread only exists on a continuation
			if v.XMLName != (xml.Name{Space: muc.NSConf, Local: "x"}) {
				v.XMLName = xml.Name{Space: muc.NSUser, Local: "x"}
			}
			if !v.Continue {
				v.Thread = ""
			}
			return v
		},
	})

	// the two exported writers called directly (whatever XMLName says): MarshalDirect always
	// writes a direct invitation, MarshalMediated always a mediated one
	inviteGen := func(g *gen) muc.Invitation {
		i := muc.Invitation{Continue: g.boolean(), JID: g.njid(), Password: g.opt(), Reason: g.opt(), Thread: g.opt()}
		switch g.intn(3) {
		case 1:
			i.XMLName = xml.Name{Space: muc.NSConf, Local: "x"}
		case 2:
			i.XMLName = xml.Name{Space: muc.NSUser, Local: "x"}
		}
		return i
	}
	inviteCanon := func(v muc.Invitation) string {
		return (&kv{}).s("ns", v.XMLName.Space).b("continue", v.Continue).j("jid", v.JID).s("password", v.Password).s("reason", v.Reason).s("thread", v.Thread).String()
	}
	register(spec[inviteDirect]{name: "muc.Invitation.MarshalDirect",
		witnesses: []inviteDirect{{muc.Invitation{Reason: "r"}}},
		gen:       func(g *gen) inviteDirect { return inviteDirect{inviteGen(g)} },
		tr:        func(v *inviteDirect) xml.TokenReader { return v.Invitation.MarshalDirect() },
		dec:       true,
		canon:     func(v *inviteDirect) string { return inviteCanon(v.Invitation) },
		norm: func(v inviteDirect) inviteDirect {
			v.XMLName = xml.Name{Space: muc.NSConf, Local: "x"}
			if !v.Continue {
				v.Thread = ""
			}
			return v
		},
	})
	register(spec[inviteMediated]{name: "muc.Invitation.MarshalMediated",
		witnesses: []inviteMediated{{muc.Invitation{Reason: "r", XMLName: xml.Name{Space: muc.NSConf, Local: "x"}}}},
		gen:       func(g *gen) inviteMediated { return inviteMediated{inviteGen(g)} },
		tr:        func(v *inviteMediated) xml.TokenReader { return v.Invitation.MarshalMediated() },
		dec:       true,
		canon:     func(v *inviteMediated) string { return inviteCanon(v.Invitation) },
		norm: func(v inviteMediated) inviteMediated {
			v.XMLName = xml.Name{Space: muc.NSUser, Local: "x"}
			if !v.Continue {
				v.Thread = ""
			}
			return v
		},
	})

	// ---- ad-hoc commands ---------------------------------------------------------------------
	register(spec[commands.Command]{name: "commands.Command",
		gen: func(g *gen) commands.Command {
			return commands.Command{JID: g.jid(), Action: []string{"", "execute", "cancel", "next", "prev", "complete", "<x>"}[g.intn(7)], Name: g.opt(), Node: g.text(), SID: g.opt()}
		},
		marshalVal: true, marshalPtr: true,
		tr:  func(v *commands.Command) xml.TokenReader { return v.TokenReader() },
		wx:  func(v *commands.Command, w xmlstream.TokenWriter) (int, error) { return v.WriteXML(w) },
		dec: true,
		canon: func(v *commands.Command) string {
			return (&kv{}).j("jid", v.JID).s("action", v.Action).s("name", v.Name).s("node", v.Node).s("sid", v.SID).String()
		},
	})
	register(spec[commands.Actions]{name: "commands.Actions",
		gen:        func(g *gen) commands.Actions { return commands.Actions(g.intn(64)) },
		marshalVal: true, marshalPtr: true,
		tr:    func(v *commands.Actions) xml.TokenReader { return v.TokenReader() },
		wx:    func(v *commands.Actions, w xmlstream.TokenWriter) (int, error) { return v.WriteXML(w) },
		dec:   true,
		canon: func(v *commands.Actions) string { return fmt.Sprintf("actions=%d", uint8(*v)) },
		norm: func(v commands.Actions) commands.Actions {
			// the default action is one of prev/next/complete or absent
			ex := (v & commands.Execute) >> 3
			if ex != commands.Prev && ex != commands.Next && ex != commands.Complete {
				return v & 7
			}
			return v & 0x3f
		},
	})
	register(spec[commands.Note]{name: "commands.Note",
		gen: func(g *gen) commands.Note {
			return commands.Note{Type: commands.NoteType(g.intn(3)), Value: g.text()}
		},
		marshalVal: true, marshalPtr: true,
		tr:    func(v *commands.Note) xml.TokenReader { return v.TokenReader() },
		wx:    func(v *commands.Note, w xmlstream.TokenWriter) (int, error) { return v.WriteXML(w) },
		dec:   true,
		canon: func(v *commands.Note) string { return (&kv{}).i("type", int64(v.Type)).s("value", v.Value).String() },
	})
	register(spec[commands.Response]{name: "commands.Response",
		gen: func(g *gen) commands.Response {
			return commands.Response{IQ: iq(g), Node: g.text(), SID: g.opt(), Status: []string{"", "executing", "completed", "canceled"}[g.intn(4)]}
		},
		marshalVal: true, marshalPtr: true,
		tr: func(v *commands.Response) xml.TokenReader { return v.TokenReader() },
		wx: func(v *commands.Response, w xmlstream.TokenWriter) (int, error) { return v.WriteXML(w) },
	})

	// ---- out of band data, software version ----------------------------------------------------
	register(spec[oob.Query]{name: "oob.Query",
		gen:        func(g *gen) oob.Query { return oob.Query{URL: g.text(), Desc: g.opt()} },
		marshalVal: true, marshalPtr: true,
		tr:    func(v *oob.Query) xml.TokenReader { return v.TokenReader() },
		wx:    func(v *oob.Query, w xmlstream.TokenWriter) (int, error) { return v.WriteXML(w) },
		dec:   true,
		canon: func(v *oob.Query) string { return (&kv{}).s("url", v.URL).s("desc", v.Desc).String() },
	})
	register(spec[oob.Data]{name: "oob.Data",
		gen:        func(g *gen) oob.Data { return oob.Data{URL: g.text(), Desc: g.opt()} },
		marshalVal: true, marshalPtr: true,
		tr:    func(v *oob.Data) xml.TokenReader { return v.TokenReader() },
		wx:    func(v *oob.Data, w xmlstream.TokenWriter) (int, error) { return v.WriteXML(w) },
		dec:   true,
		canon: func(v *oob.Data) string { return (&kv{}).s("url", v.URL).s("desc", v.Desc).String() },
	})
	register(spec[oob.IQ]{name: "oob.IQ",
		gen: func(g *gen) oob.IQ { return oob.IQ{IQ: iq(g), Query: oob.Query{URL: g.text(), Desc: g.opt()}} },
		tr:  func(v *oob.IQ) xml.TokenReader { return v.TokenReader() },
		wx:  func(v *oob.IQ, w xmlstream.TokenWriter) (int, error) { return v.WriteXML(w) },
	})
	register(spec[version.Query]{name: "version.Query",
		gen:        func(g *gen) version.Query { return version.Query{Name: g.opt(), Version: g.opt(), OS: g.opt()} },
		marshalVal: true, marshalPtr: true,
		tr:    func(v *version.Query) xml.TokenReader { return v.TokenReader() },
		wx:    func(v *version.Query, w xmlstream.TokenWriter) (int, error) { return v.WriteXML(w) },
		dec:   true,
		canon: func(v *version.Query) string { return (&kv{}).s("name", v.Name).s("version", v.Version).s("os", v.OS).String() },
	})

	// ---- HTTP upload ---------------------------------------------------------------------------
	register(spec[upload.File]{name: "upload.File",
		gen: func(g *gen) upload.File {
			sizes := []int{0, 1, -1, 1 << 31, 1<<63 - 1, -1 << 63}
			return upload.File{Name: g.text(), Size: sizes[g.intn(len(sizes))], Type: g.opt()}
		},
		marshalVal: true, marshalPtr: true,
		tr:    func(v *upload.File) xml.TokenReader { return v.TokenReader() },
		wx:    func(v *upload.File, w xmlstream.TokenWriter) (int, error) { return v.WriteXML(w) },
		dec:   true,
		canon: func(v *upload.File) string { return (&kv{}).s("name", v.Name).i("size", int64(v.Size)).s("type", v.Type).String() },
	})
	register(spec[upload.Slot]{name: "upload.Slot",
		gen: func(g *gen) upload.Slot {
			s := upload.Slot{PutURL: g.url(), GetURL: g.url()}
			names := []string{"Authorization", "Cookie", "Expires", "cookie", "X-Other", "authorization"}
			for n := g.count(4); n > 0; n-- {
				if s.Header == nil {
					s.Header = http.Header{}
				}
				name := names[g.intn(len(names))]
				s.Header[name] = append(s.Header[name], g.text())
			}
			return s
		},
		marshalVal: true, marshalPtr: true,
		tr:  func(v *upload.Slot) xml.TokenReader { return v.TokenReader() },
		wx:  func(v *upload.Slot, w xmlstream.TokenWriter) (int, error) { return v.WriteXML(w) },
		dec: true,
		canon: func(v *upload.Slot) string {
			return (&kv{}).s("put", canonURL(v.PutURL)).s("get", canonURL(v.GetURL)).s("header", canonHeader(v.Header)).String()
		},
	})

	// ---- bits of binary, file metadata, hashes, trust messages -----------------------------------
	register(spec[bin.Data]{name: "bin.Data",
		witnesses: []bin.Data{{Data: []byte("A")}, {Data: []byte("AB"), Type: "text/plain"}, {CID: "c", MaxAge: 400 * time.Millisecond}, {CID: "c", MaxAge: math.MaxInt64}},
		gen: func(g *gen) bin.Data {
			// extreme numbers: the largest duration, the largest whole number of seconds, the smallest duration
			ages := []time.Duration{0, time.Second, 90 * time.Second, 86400 * time.Second, 1500 * time.Millisecond, 400 * time.Millisecond, 500 * time.Millisecond, 2500 * time.Millisecond, -time.Second,
				math.MaxInt64, math.MaxInt64 / time.Second * time.Second, math.MinInt64, 1, 1 << 53 * time.Microsecond}
			return bin.Data{CID: g.opt(), MaxAge: ages[g.intn(len(ages))], NoCache: g.chance(1, 4), Type: g.opt(), Data: g.bytes()}
		},
		marshalPtr: true,
		tr:         func(v *bin.Data) xml.TokenReader { return v.TokenReader() },
		wx:         func(v *bin.Data, w xmlstream.TokenWriter) (int, error) { return v.WriteXML(w) },
		dec:        true,
		canon: func(v *bin.Data) string {
			return (&kv{}).s("cid", v.CID).i("max-age-ns", int64(v.MaxAge)).b("nocache", v.NoCache).s("type", v.Type).x("data", v.Data).String()
		},
		norm: func(v bin.Data) bin.Data {
			// documented: MaxAge is rounded to the nearest second; NoCache overrides it
			if v.NoCache || v.MaxAge < 0 {
				// a negative age is no hint at all
				v.MaxAge = 0
			} else {
				// … and an age of more seconds than a Duration holds is the largest Duration
				if sec := math.RoundToEven(v.MaxAge.Seconds()); sec > float64(math.MaxInt64/time.Second) {
					v.MaxAge = math.MaxInt64
				} else {
					v.MaxAge = time.Duration(sec) * time.Second
				}
			}
			return v
		},
	})
	register(spec[file.Meta]{name: "file.Meta",
		witnesses: []file.Meta{{Name: "f"}, {Name: "f", Date: time.Date(2020, 1, 2, 3, 4, 5, 600000000, time.UTC), Hash: crypto.HashOutput{Hash: crypto.SHA256, Out: []byte{1, 2}}}},
		gen: func(g *gen) file.Meta {
			m := file.Meta{MediaType: g.text(), Name: g.text(), Date: g.time(true), Size: g.u64(), Width: g.u64(), Height: g.u64(), Length: g.u64()}
			if g.chance(1, 40) {
				m.Date = g.farTime()
			}
			if !g.chance(1, 6) {
				m.Hash = crypto.HashOutput{Hash: g.hash(), Out: append([]byte{1}, g.bytes()...)}
			}
			return m
		},
		marshalPtr: true,
		tr:         func(v *file.Meta) xml.TokenReader { return v.TokenReader() },
		wx:         func(v *file.Meta, w xmlstream.TokenWriter) (int, error) { return v.WriteXML(w) },
		dec:        true,
		rt:         func(v *file.Meta) bool { return inRange(v.Date) },
		rtNote:     "year-outside-0000-9999",
		canon: func(v *file.Meta) string {
			return (&kv{}).s("media-type", v.MediaType).s("name", v.Name).t("date", v.Date).u("size", v.Size).
				s("hash", hashName(v.Hash.Hash)).x("out", v.Hash.Out).u("width", v.Width).u("height", v.Height).u("length", v.Length).String()
		},
	})
	register(spec[crypto.Hash]{name: "crypto.Hash",
		gen:        func(g *gen) crypto.Hash { return g.hash() },
		marshalVal: true, marshalPtr: true,
		tr:    func(v *crypto.Hash) xml.TokenReader { return v.TokenReader() },
		wx:    func(v *crypto.Hash, w xmlstream.TokenWriter) (int, error) { return v.WriteXML(w) },
		dec:   true,
		canon: func(v *crypto.Hash) string { return (&kv{}).s("hash", v.String()).String() },
	})
	register(spec[crypto.HashOutput]{name: "crypto.HashOutput",
		witnesses: []crypto.HashOutput{{Hash: crypto.SHA1}},
		gen:        func(g *gen) crypto.HashOutput { return crypto.HashOutput{Hash: g.hash(), Out: g.bytes()} },
		marshalVal: true, marshalPtr: true,
		tr:    func(v *crypto.HashOutput) xml.TokenReader { return v.TokenReader() },
		wx:    func(v *crypto.HashOutput, w xmlstream.TokenWriter) (int, error) { return v.WriteXML(w) },
		dec:   true,
		canon: func(v *crypto.HashOutput) string { return (&kv{}).s("hash", v.Hash.String()).x("out", v.Out).String() },
	})
	genKey := func(g *gen) crypto.Key { return crypto.Key{Trusted: g.boolean(), KeyID: g.bytes()} }
	genOwned := func(g *gen) crypto.OwnedKeys {
		o := crypto.OwnedKeys{Owner: g.njid()}
		for n := g.count(4); n > 0; n-- {
			o.Keys = append(o.Keys, genKey(g))
		}
		return o
	}
	register(spec[crypto.Key]{name: "crypto.Key",
		gen:        genKey,
		marshalVal: true, marshalPtr: true,
		tr:    func(v *crypto.Key) xml.TokenReader { return v.TokenReader() },
		wx:    func(v *crypto.Key, w xmlstream.TokenWriter) (int, error) { return v.WriteXML(w) },
		dec:   true,
		canon: func(v *crypto.Key) string { return canonKey(*v) },
	})
	register(spec[crypto.OwnedKeys]{name: "crypto.OwnedKeys",
		gen:        genOwned,
		marshalVal: true, marshalPtr: true,
		tr:    func(v *crypto.OwnedKeys) xml.TokenReader { return v.TokenReader() },
		wx:    func(v *crypto.OwnedKeys, w xmlstream.TokenWriter) (int, error) { return v.WriteXML(w) },
		dec:   true,
		canon: func(v *crypto.OwnedKeys) string { return canonOwned(*v) },
	})
	register(spec[crypto.TrustMessage]{name: "crypto.TrustMessage",
		gen: func(g *gen) crypto.TrustMessage {
			t := crypto.TrustMessage{Usage: g.text(), Encryption: g.text()}
			for n := g.count(3); n > 0; n-- {
				t.Keys = append(t.Keys, genOwned(g))
			}
			return t
		},
		marshalVal: true, marshalPtr: true,
		tr:  func(v *crypto.TrustMessage) xml.TokenReader { return v.TokenReader() },
		wx:  func(v *crypto.TrustMessage, w xmlstream.TokenWriter) (int, error) { return v.WriteXML(w) },
		dec: true,
		canon: func(v *crypto.TrustMessage) string {
			k := (&kv{}).s("usage", v.Usage).s("encryption", v.Encryption)
			for _, o := range v.Keys {
				k.sub("owner", canonOwned(o))
			}
			return k.String()
		},
	})

	// ---- decode-only types ---------------------------------------------------------------------
	register(spec[pubsub.Condition]{name: "pubsub.Condition",
		gen:   func(g *gen) pubsub.Condition { return pubsub.Condition(g.intn(23)) },
		dec:   true,
		canon: func(v *pubsub.Condition) string { return fmt.Sprintf("cond=%d", uint32(*v)) },
	})
	_ = jid.JID{}
}

func hashName(h crypto.Hash) string {
	if h == 0 {
		return ""
	}
	return h.String()
}

func encToksShort(t []xml.Token) string {
	var sb strings.Builder
	for _, x := range t {
		switch x := x.(type) {
		case xml.StartElement:
			fmt.Fprintf(&sb, "<%s %s", x.Name.Space, x.Name.Local)
			for _, a := range x.Attr {
				fmt.Fprintf(&sb, " %s:%s=%q", a.Name.Space, a.Name.Local, a.Value)
			}
			sb.WriteString(">")
		case xml.EndElement:
			sb.WriteString("</>")
		case xml.CharData:
			fmt.Fprintf(&sb, "%q", string(x))
		}
	}
	return sb.String()
}

// inviteDirect / inviteMediated: muc.Invitation written through one of its two exported
// writers called directly; decoding is the type's own UnmarshalXML.
type inviteDirect struct{ muc.Invitation }
type inviteMediated struct{ muc.Invitation }

func (v *inviteDirect) UnmarshalXML(d *xml.Decoder, start xml.StartElement) error {
	return v.Invitation.UnmarshalXML(d, start)
}
func (v *inviteMediated) UnmarshalXML(d *xml.Decoder, start xml.StartElement) error {
	return v.Invitation.UnmarshalXML(d, start)
}

// binContentIDCase: bin.Data.ContentID for every defined hash (and the zero hash): no panic,
// and the result is the cid URL of the hash of the data: `cid:<name>+<hex of the sum>@bob.xmpp.org`.
func binContentIDCase(c *ctx) {
	r := c.r
	line := "val bin.Data.ContentID 0 0"
	r.Line(line, "-")
	lines := []string{r.Prop + " " + line}
	r.Case(line, true, "corpus/bin.Data.ContentID")
	for _, h := range []crypto.Hash{crypto.SHA1, crypto.SHA224, crypto.SHA256, crypto.SHA384, crypto.SHA512, crypto.SHA3_256, crypto.SHA3_512, crypto.BLAKE2b_256, crypto.BLAKE2b_512} {
		for _, data := range [][]byte{nil, []byte("A"), []byte("<&>\x00\xff")} {
			d := &bin.Data{Data: data}
			var got string
			p := guard("ContentID", func() ([]byte, []xml.Token, error) { got = d.ContentID(h); return nil, nil, nil })
			if p.panicked != "" {
				r.Fail("no-panic", "bin.Data/ContentID/"+panicClass(p.panicked), lines, fmt.Sprintf("ContentID(%v) panicked: %s", h, p.panicked))
				continue
			}
			hh := h.New()
			hh.Write(data)
			want := fmt.Sprintf("cid:%s+%x@bob.xmpp.org", strings.ReplaceAll(h.String(), "-", ""), hh.Sum(nil))
			if got != want {
				r.Fail("roundtrip", "bin.Data/ContentID", lines, fmt.Sprintf("ContentID(%v) of %q = %q, want %q", h, data, got, want))
			}
		}
	}
}
