package c19

import (
	"go/ast"
	"go/importer"
	"go/parser"
	"go/token"
	"go/types"
	"sort"
	"strings"
	"testing"

	"verifharness/c09"
)

// The range analysis behind the derived allow entries, on small functions: what must be
// discharged (idioms and their rewrites) and — more important — what must not.
const arithSrc = `package p

import (
	"sort"
	"strings"
)

type T struct {
	items []int
	next  int
	cur   *int
	neg   int
}

type stack []int

func (s *stack) pop() { *s = (*s)[:len(*s)-1] }

func other() {}

// --- must be discharged ---

func okSort(in []int) []int {
	c := make([]int, len(in))
	copy(c, in)
	sort.Slice(c, func(a, b int) bool { return c[a] < c[b] })
	return c
}

func (t *T) okSortField() {
	sort.SliceStable(t.items, func(x, y int) bool {
		switch {
		case t.items[x] != t.items[y]:
			return t.items[x] < t.items[y]
		}
		return false
	})
}

func use(p *int) int { return *p }

func okSortElemAddr(in []int) {
	sort.SliceStable(in, func(a, b int) bool { return use(&in[a]) < use(&in[b]) })
}

func badSortOther(in, other []int) {
	sort.Slice(in, func(a, b int) bool { return other[a] < other[b] })
}

func badSortReassigned(in, other []int) {
	sort.Slice(in, func(a, b int) bool {
		in = other
		return in[a] < in[b]
	})
}

func badSortOffset(in []int) {
	sort.Slice(in, func(a, b int) bool { return in[a+1] < in[b+1] })
}

func okMake(x int) []int {
	a := make([]int, 3)
	a[0] = x
	other()
	a[2] = x
	b := []int{x, x}
	b[1] = a[1]
	return append(a[:3], b[:2]...)
}

func badMake(x int) []int {
	a := make([]int, 3)
	a[3] = x
	return a
}

func badMakeReassigned(x int, c []int) []int {
	a := make([]int, 3)
	a = c
	a[2] = x
	return a
}

func badMakeVar(x, n int) []int {
	a := make([]int, n)
	a[1] = x
	return a
}

func badMakeBranch(x int, c bool) []int {
	a := make([]int, 3)
	if c {
		a = make([]int, 1)
	}
	a[2] = x
	return a
}

func okIndexAny(s string) (out []string) {
	for {
		i := strings.IndexAny(s, "\n\r")
		if i == -1 {
			return append(out, s)
		}
		out = append(out, s[:i])
		s = s[i+1:]
	}
}

func okSwitch(s string) string {
	i := strings.IndexByte(s, ':')
	switch {
	case i < 0:
		return s
	default:
		return s[1+i:]
	}
}

func okFound(t *T, want int) int {
	pos := -1
	for k, v := range t.items {
		if v == want {
			pos = k
			break
		}
	}
	if pos < 0 {
		return 0
	}
	return t.items[pos]
}

func (t *T) okCursor() int {
	for {
		if t.next >= len(t.items) {
			return 0
		}
		v := t.items[t.next]
		t.next++
		if v != 0 {
			return v
		}
	}
}

func (t *T) okNilGuard() int {
	if len(t.items) == 0 && t.cur == nil {
		return 0
	}
	if t.cur == nil {
		v := t.items[0]
		t.items = t.items[1:]
		return v
	}
	return *t.cur
}

func (t *T) find(want int) int {
	for n := range t.items {
		if t.items[n] == want {
			return n
		}
	}
	return -1
}

func okHelper(t *T, want int) int {
	i := t.find(want)
	if i == -1 {
		return 0
	}
	return t.items[i]
}

func okAndAnd(s []int, i int) bool { return i >= 0 && i < len(s) && s[i] == 1 }

// --- must NOT be discharged ---

func badNoGuard(s string) string {
	i := strings.IndexByte(s, ':')
	return s[:i]
}

func badPlusOneEmptySep(s, sep string) string {
	i := strings.Index(s, sep)
	if i < 0 {
		return s
	}
	return s[i+1:]
}

func badReassigned(s string) string {
	i := strings.IndexByte(s, ':')
	if i < 0 {
		return s
	}
	s = strings.TrimSpace(s)
	return s[:i]
}

func (t *T) badCallBetween() int {
	if t.next >= len(t.items) {
		return 0
	}
	other()
	return t.items[t.next]
}

func (t *T) badNegField() int {
	t.neg--
	if t.neg >= len(t.items) {
		return 0
	}
	return t.items[t.neg]
}

func badClosure(s []int) int {
	i := 0
	f := func() { i = -1 }
	if i < len(s) {
		f()
		return s[i]
	}
	return 0
}

func badMethodAddr(st stack) int {
	if len(st) == 0 {
		return 0
	}
	st.pop()
	return st[0]
}

func badLoopCarried(s []int) int {
	i := 0
	for n := 0; n < 3; n++ {
		if i < len(s) {
			_ = s[i]
		}
		i -= 2
	}
	return 0
}

func badAlias(a, b *T) int {
	if a.next >= len(a.items) {
		return 0
	}
	b.items = nil
	return a.items[a.next]
}

func badOrGuard(s []int, i int) int {
	if i < 0 || i < len(s) {
		return s[i]
	}
	return 0
}
`

func TestArith(t *testing.T) {
	fset := token.NewFileSet()
	f, err := parser.ParseFile(fset, "p.go", arithSrc, 0)
	if err != nil {
		t.Fatal(err)
	}
	info := &types.Info{Types: map[ast.Expr]types.TypeAndValue{}, Defs: map[*ast.Ident]types.Object{}, Uses: map[*ast.Ident]types.Object{},
		Implicits: map[ast.Node]types.Object{}, Selections: map[*ast.SelectorExpr]*types.Selection{}}
	pkg, err := (&types.Config{Importer: importer.ForCompiler(fset, "source", nil)}).Check("p", fset, []*ast.File{f}, info)
	if err != nil {
		t.Fatal(err)
	}
	out, err := deriveAllow(fset, []c09.LoadedPackage{{Rel: "p", Name: "p", Files: []*ast.File{f}, Names: []string{"p.go"}, InUse: []bool{true}, Info: info, Pkg: pkg}})
	if err != nil {
		t.Fatal(err)
	}
	t.Log("\n" + out)
	got := map[string][]string{}
	for _, l := range strings.Split(out, "\n") {
		if l == "" {
			continue
		}
		fs := strings.Fields(strings.SplitN(l, "|", 2)[0])
		got[fs[0]] = append(got[fs[0]], strings.Join(fs[2:], " "))
	}
	want := map[string][]string{
		"p.okIndexAny":       {"s[:i]", "s[i + 1:]"},
		"p.okSwitch":         {"s[1 + i:]"},
		"p.okFound":          {"t.items[pos]"},
		"p.(*T).okCursor":    {"t.items[t.next]"},
		"p.(*T).okNilGuard":  {"t.items[0]", "t.items[1:]"},
		"p.(*T).find":        {"t.items[n]"},
		"p.okHelper":         {"t.items[i]"},
		"p.okAndAnd":         {"s[i]"},
		"p.okSort$1":         {"c[a]", "c[b]"},
		"p.okSortElemAddr$1": {"in[a]", "in[b]"},
		"p.(*T).okSortField$1": {"t.items[x]", "t.items[y]"},
		"p.okMake":           {"a[0]", "a[2]", "a[1]", "b[1]", "a[:3]", "b[:2]"},
	}
	for fn, w := range want {
		g := append([]string(nil), got[fn]...)
		sort.Strings(g)
		sort.Strings(w)
		if strings.Join(g, " ; ") != strings.Join(w, " ; ") {
			t.Errorf("%s: derived %q, want %q", fn, g, w)
		}
	}
	for fn, g := range got {
		if strings.Contains(fn, "bad") {
			t.Errorf("%s: %q must not be derived", fn, g)
		}
	}
}
