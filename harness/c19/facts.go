package c19

import (
	"fmt"
	"go/ast"
	"go/parser"
	"go/token"
	"os"
	"path/filepath"
	"sort"
	"strings"
)

// Fact extraction for C19: the combinator skeleton of every writer (a
// function or method whose first result is an xml.TokenReader) of the anchored
// files, as a term of `XmppModel.Payload.Skel`.
//
// The reader is deliberately small and flow-insensitive:
//
//	xmlstream.Wrap(x, start)            -> wrap x
//	xmlstream.MultiReader(a, b, …)      -> seq a (seq b …)
//	xmlstream.MultiReader(s...)         -> many (alt of everything appended to / listed in s)
//	xmlstream.Token(xml.CharData(…))    -> chars        Token(nil) -> empty
//	xmlstream.Token(<anything else>)    -> startTok     (a lone tag: not balanced)
//	nil                                 -> empty
//	v.TokenReader()                     -> ext          (another writer, checked on its own)
//	x.Wrap(r) / x.wrap(r)               -> wrap r       (local wrap methods are inlined)
//	f(…) declared in the same package   -> inlined (parameters bound to the arguments)
//	a parameter of reader type          -> ext          (caller-supplied payload)
//	xml.NewDecoder(…)                   -> ext          (raw XML supplied by the caller)
//	&T{…} / T{…} with a Token method     -> ext          (hand-written reader; see notes)
//	a local variable                    -> alt of every value assigned to it
//	several return statements           -> alt
//	anything else                       -> unknown      (fails the balance theorem)
//
// Functions that take a reader and are not called Wrap/wrap are stream
// transformers (Unwrap, Request, Private, Disable), not writers, and are listed
// separately.

var anchoredDirs = []string{
	"form", "disco", "disco/info", "disco/items", "paging", "delay", "stanza", "xtime", "forward", "carbons", "receipts", "roster",
	"blocklist", "bookmarks", "pubsub", "history", "muc", "commands", "oob", "version", "upload", "bin", "file", "crypto", "styling",
	"internal/saslerr",
}

// only these files of the shared directories belong to the property
var anchoredFiles = map[string][]string{
	"stanza":  {"delay.go", "stanza.go"},
	"muc":     {"types.go", "invites.go", "options.go"},
	"styling": {"disable.go"},
	"disco":   {"info.go", "items.go", "caps.go"},
}

type sk struct {
	kind string // empty chars wrap seq many alt ext startTok stopTok unknown
	a, b *sk
	note string
}

// code is the prefix code of the skeleton for `skel` lines.
func (s *sk) code() string {
	switch s.kind {
	case "empty":
		return "e"
	case "chars":
		return "c"
	case "ext":
		return "x"
	case "startTok":
		return "S"
	case "stopTok":
		return "E"
	case "wrap":
		return "w" + s.a.code()
	case "many":
		return "m" + s.a.code()
	case "seq":
		return "s" + s.a.code() + s.b.code()
	case "alt":
		return "a" + s.a.code() + s.b.code()
	}
	return "u"
}

func (s *sk) lean() string {
	switch s.kind {
	case "wrap", "many":
		return "(." + s.kind + " " + s.a.lean() + ")"
	case "seq", "alt":
		return "(." + s.kind + " " + s.a.lean() + " " + s.b.lean() + ")"
	}
	return "." + s.kind
}

func leaf0(k string) *sk { return &sk{kind: k} }

func alts(l []*sk) *sk {
	// de-duplicate by rendering
	seen := map[string]bool{}
	var u []*sk
	for _, s := range l {
		if r := s.lean(); !seen[r] {
			seen[r] = true
			u = append(u, s)
		}
	}
	if len(u) == 0 {
		return leaf0("empty")
	}
	out := u[len(u)-1]
	for i := len(u) - 2; i >= 0; i-- {
		out = &sk{kind: "alt", a: u[i], b: out}
	}
	return out
}

func seqs(l []*sk) *sk {
	if len(l) == 0 {
		return leaf0("empty")
	}
	out := l[len(l)-1]
	for i := len(l) - 2; i >= 0; i-- {
		out = &sk{kind: "seq", a: l[i], b: out}
	}
	return out
}

type pkgInfo struct {
	name   string
	funcs  map[string][]*ast.FuncDecl // by name (methods and functions)
	tokTyp map[string]bool            // local types with a Token method
}

type fnEnv struct {
	p        *pkgInfo
	fn       *ast.FuncDecl
	params   map[string]*sk
	depth    int
	notes    *[]string
	visiting map[string]bool
}

func mentions(e ast.Expr, name string) bool {
	found := false
	ast.Inspect(e, func(n ast.Node) bool {
		if id, ok := n.(*ast.Ident); ok && id.Name == name {
			found = true
		}
		return !found
	})
	return found
}

func isSel(e ast.Expr, x, sel string) bool {
	s, ok := e.(*ast.SelectorExpr)
	if !ok || s.Sel.Name != sel {
		return false
	}
	id, ok := s.X.(*ast.Ident)
	return ok && id.Name == x
}

func isReaderType(e ast.Expr) bool {
	return isSel(e, "xml", "TokenReader") || isSel(e, "xmlstream", "TokenReadCloser")
}

// inspectNoLit walks the body without entering function literals.
func inspectNoLit(n ast.Node, f func(ast.Node) bool) {
	ast.Inspect(n, func(x ast.Node) bool {
		if _, ok := x.(*ast.FuncLit); ok {
			return false
		}
		return f(x)
	})
}

// assigned returns every expression assigned to the identifier in the function
// (zero says the variable is also declared without a value).
func (e *fnEnv) assigned(name string) (vals []ast.Expr, first []bool, zero bool) {
	inspectNoLit(e.fn.Body, func(n ast.Node) bool {
		switch s := n.(type) {
		case *ast.AssignStmt:
			for i, l := range s.Lhs {
				id, ok := l.(*ast.Ident)
				if !ok || id.Name != name {
					continue
				}
				if len(s.Rhs) == len(s.Lhs) {
					vals = append(vals, s.Rhs[i])
					first = append(first, false)
				} else if len(s.Rhs) == 1 && i == 0 {
					vals = append(vals, s.Rhs[0])
					first = append(first, true)
				}
			}
		case *ast.ValueSpec:
			for i, id := range s.Names {
				if id.Name != name {
					continue
				}
				if i < len(s.Values) {
					vals = append(vals, s.Values[i])
					first = append(first, false)
				} else {
					zero = true
				}
			}
		}
		return true
	})
	return
}

// sliceElems: everything listed in or appended to the slice variable.
func (e *fnEnv) sliceElems(name string) []*sk {
	var out []*sk
	vals, _, _ := e.assigned(name)
	for _, v := range vals {
		switch x := v.(type) {
		case *ast.CompositeLit:
			for _, el := range x.Elts {
				out = append(out, e.expr(el))
			}
		case *ast.CallExpr:
			if id, ok := x.Fun.(*ast.Ident); ok && id.Name == "append" && len(x.Args) > 0 {
				if a0, ok := x.Args[0].(*ast.Ident); ok && a0.Name == name {
					if x.Ellipsis.IsValid() {
						if id2, ok := x.Args[len(x.Args)-1].(*ast.Ident); ok {
							out = append(out, e.sliceElems(id2.Name)...)
						} else {
							out = append(out, leaf0("unknown"))
						}
					} else {
						for _, a := range x.Args[1:] {
							out = append(out, e.expr(a))
						}
					}
				} else {
					out = append(out, leaf0("unknown"))
				}
			} else if id, ok := x.Fun.(*ast.Ident); ok && id.Name == "make" {
				// empty
			} else {
				out = append(out, leaf0("unknown"))
			}
		case *ast.SliceExpr:
			out = append(out, leaf0("unknown"))
		}
	}
	return out
}

func (e *fnEnv) isCharData(x ast.Expr) bool {
	switch t := x.(type) {
	case *ast.CallExpr:
		if isSel(t.Fun, "xml", "CharData") {
			return true
		}
	case *ast.Ident:
		vals, _, _ := e.assigned(t.Name)
		for _, v := range vals {
			if c, ok := v.(*ast.CallExpr); ok {
				if isSel(c.Fun, "xml", "CharData") {
					return true
				}
				if id, ok := c.Fun.(*ast.Ident); ok && id.Name == "make" && len(c.Args) > 0 && isSel(c.Args[0], "xml", "CharData") {
					return true
				}
			}
		}
	}
	return false
}

func (e *fnEnv) expr(x ast.Expr) *sk {
	switch t := x.(type) {
	case *ast.ParenExpr:
		return e.expr(t.X)
	case *ast.Ident:
		if t.Name == "nil" {
			return leaf0("empty")
		}
		if s, ok := e.params[t.Name]; ok {
			return s
		}
		vals, _, zero := e.assigned(t.Name)
		var l []*sk
		if zero {
			l = append(l, leaf0("empty"))
		}
		if e.visiting == nil {
			e.visiting = map[string]bool{}
		}
		if e.visiting[t.Name] {
			// x = f(x, …): the inner occurrence stands for any number of the
			// values that do not mention x (an over-approximation)
			for _, v := range vals {
				if !mentions(v, t.Name) {
					l = append(l, e.expr(v))
				}
			}
			return &sk{kind: "many", a: alts(l)}
		}
		e.visiting[t.Name] = true
		for _, v := range vals {
			l = append(l, e.expr(v))
		}
		delete(e.visiting, t.Name)
		if len(l) == 0 {
			return leaf0("unknown")
		}
		return alts(l)
	case *ast.UnaryExpr:
		if t.Op == token.AND {
			return e.expr(t.X)
		}
	case *ast.CompositeLit:
		if id, ok := t.Type.(*ast.Ident); ok && e.p.tokTyp[id.Name] {
			*e.notes = append(*e.notes, fmt.Sprintf("%s.%s: hand-written reader %s{} taken as ext", e.p.name, e.fn.Name.Name, id.Name))
			return leaf0("ext")
		}
	case *ast.CallExpr:
		switch {
		case isSel(t.Fun, "xmlstream", "Wrap") && len(t.Args) == 2:
			return &sk{kind: "wrap", a: e.expr(t.Args[0])}
		case isSel(t.Fun, "xmlstream", "MultiReader"):
			if t.Ellipsis.IsValid() && len(t.Args) == 1 {
				if id, ok := t.Args[0].(*ast.Ident); ok {
					return &sk{kind: "many", a: alts(e.sliceElems(id.Name))}
				}
				return leaf0("unknown")
			}
			var l []*sk
			for _, a := range t.Args {
				l = append(l, e.expr(a))
			}
			return seqs(l)
		case isSel(t.Fun, "xmlstream", "Token") && len(t.Args) == 1:
			if id, ok := t.Args[0].(*ast.Ident); ok && id.Name == "nil" {
				return leaf0("empty")
			}
			if e.isCharData(t.Args[0]) {
				return leaf0("chars")
			}
			return leaf0("startTok")
		case isSel(t.Fun, "xml", "NewDecoder"):
			return leaf0("ext")
		}
		if s, ok := t.Fun.(*ast.SelectorExpr); ok {
			name := s.Sel.Name
			if (name == "TokenReader" || name == "Submit") && len(t.Args) == 0 {
				// another type's writer (form.Data.Submit returns the submission's TokenReader)
				return leaf0("ext")
			}
			// a method of the same package: inline it
			if decl := e.lookup(name, true); decl != nil && e.depth < 5 {
				return e.call(decl, t.Args)
			}
			if (name == "Wrap" || name == "wrap") && len(t.Args) >= 1 {
				return &sk{kind: "wrap", a: e.expr(t.Args[len(t.Args)-1])}
			}
		}
		if id, ok := t.Fun.(*ast.Ident); ok {
			if decl := e.lookup(id.Name, false); decl != nil && e.depth < 5 {
				return e.call(decl, t.Args)
			}
		}
	}
	return leaf0("unknown")
}

func (e *fnEnv) lookup(name string, method bool) *ast.FuncDecl {
	if name == "TokenReader" {
		return nil
	}
	var found *ast.FuncDecl
	for _, d := range e.p.funcs[name] {
		if (d.Recv != nil) == method && returnsReader(d) {
			if found != nil {
				return nil // ambiguous
			}
			found = d
		}
	}
	return found
}

func returnsReader(d *ast.FuncDecl) bool {
	return d.Type.Results != nil && len(d.Type.Results.List) > 0 && isReaderType(d.Type.Results.List[0].Type) && d.Body != nil
}

func (e *fnEnv) call(decl *ast.FuncDecl, args []ast.Expr) *sk {
	params := map[string]*sk{}
	i := 0
	for _, f := range decl.Type.Params.List {
		for _, n := range f.Names {
			if isReaderType(f.Type) && i < len(args) {
				params[n.Name] = e.expr(args[i])
			}
			i++
		}
	}
	sub := &fnEnv{p: e.p, fn: decl, params: params, depth: e.depth + 1, notes: e.notes}
	return sub.body()
}

func (e *fnEnv) body() *sk {
	var l []*sk
	inspectNoLit(e.fn.Body, func(n ast.Node) bool {
		if r, ok := n.(*ast.ReturnStmt); ok && len(r.Results) > 0 {
			l = append(l, e.expr(r.Results[0]))
		}
		return true
	})
	if len(l) == 0 {
		return leaf0("unknown")
	}
	return alts(l)
}

func recvName(d *ast.FuncDecl) string {
	if d.Recv == nil || len(d.Recv.List) == 0 {
		return ""
	}
	t := d.Recv.List[0].Type
	if s, ok := t.(*ast.StarExpr); ok {
		t = s.X
	}
	if id, ok := t.(*ast.Ident); ok {
		return id.Name
	}
	return "?"
}

// requiredWriters must be found (a renamed or removed writer breaks the theorem).
var requiredWriters = []string{
	"form.Data.TokenReader", "form.field.TokenReader", "disco.Info.TokenReader", "disco.InfoQuery.TokenReader", "disco.ItemsQuery.TokenReader",
	"disco.Caps.TokenReader", "info.Feature.TokenReader", "info.Identity.TokenReader", "items.Item.TokenReader",
	"paging.RequestCount.TokenReader", "paging.RequestNext.TokenReader", "paging.RequestPrev.TokenReader", "paging.RequestIndex.TokenReader", "paging.Set.TokenReader",
	"delay.Delay.TokenReader", "stanza.Delay.TokenReader", "stanza.ID.TokenReader", "stanza.OriginID.TokenReader", "xtime.Time.TokenReader",
	"forward.Forwarded.TokenReader", "forward.Forwarded.Wrap", "forward.Wrap", "carbons.WrapReceived", "carbons.WrapSent",
	"receipts.Requested.TokenReader", "roster.IQ.TokenReader", "roster.Item.TokenReader", "blocklist.Item.TokenReader", "bookmarks.Channel.TokenReader",
	"history.Query.TokenReader", "history.Result.TokenReader", "muc.Invitation.TokenReader", "muc.Invitation.MarshalDirect", "muc.Invitation.MarshalMediated",
	"muc.config.TokenReader", "muc.historyConfig.TokenReader", "commands.Command.TokenReader", "commands.Actions.TokenReader", "commands.Note.TokenReader",
	"commands.Response.TokenReader", "oob.IQ.TokenReader", "oob.Query.TokenReader", "oob.Data.TokenReader", "version.Query.TokenReader",
	"upload.File.TokenReader", "upload.Slot.TokenReader", "bin.Data.TokenReader", "file.Meta.TokenReader", "crypto.Hash.TokenReader",
	"crypto.HashOutput.TokenReader", "crypto.Key.TokenReader", "crypto.OwnedKeys.TokenReader", "crypto.TrustMessage.TokenReader",
	"styling.Unstyled.TokenReader", "saslerr.Condition.TokenReader", "saslerr.Error.TokenReader",
}

type writer struct {
	name string
	s    *sk
}

// Facts regenerates lean/XmppModel/Generated/C19.lean.
func Facts(repo string) (string, error) {
	writers, transformers, notes, err := extract(repo)
	if err != nil {
		return "", err
	}
	out := render(writers, transformers, notes)
	const tail = "end XmppModel.Generated.C19\n"
	body := strings.TrimSuffix(out, tail)
	return body + "\nsection PanicSkeletons\nopen XmppModel.Skeleton XmppModel.Skeleton.Stmt\n" + panicFacts(repo) + "end PanicSkeletons\n\n" + enumFacts(repo) + tail, nil
}

// skeletons returns the prefix code of every writer (for `skel` lines).
func skeletons(repo string) map[string]string {
	m := map[string]string{}
	writers, _, _, err := extract(repo)
	if err != nil {
		return m
	}
	for _, w := range writers {
		m[w.name] = w.s.code()
	}
	return m
}

func extract(repo string) (writers []writer, transformers, notes []string, err error) {
	for _, dir := range anchoredDirs {
		fset := token.NewFileSet()
		ents, err := os.ReadDir(filepath.Join(repo, dir))
		if err != nil {
			notes = append(notes, "missing directory "+dir)
			continue
		}
		p := &pkgInfo{funcs: map[string][]*ast.FuncDecl{}, tokTyp: map[string]bool{}}
		var own []*ast.FuncDecl
		for _, ent := range ents {
			n := ent.Name()
			if ent.IsDir() || !strings.HasSuffix(n, ".go") || strings.HasSuffix(n, "_test.go") {
				continue
			}
			f, err := parser.ParseFile(fset, filepath.Join(repo, dir, n), nil, 0)
			if err != nil {
				return nil, nil, nil, err
			}
			p.name = f.Name.Name
			anch := true
			if l, ok := anchoredFiles[dir]; ok {
				anch = false
				for _, a := range l {
					if a == n {
						anch = true
					}
				}
			}
			for _, d := range f.Decls {
				fd, ok := d.(*ast.FuncDecl)
				if !ok {
					continue
				}
				p.funcs[fd.Name.Name] = append(p.funcs[fd.Name.Name], fd)
				if fd.Name.Name == "Token" && fd.Recv != nil {
					p.tokTyp[recvName(fd)] = true
				}
				if anch && returnsReader(fd) {
					own = append(own, fd)
				}
			}
		}
		for _, fd := range own {
			name := p.name + "."
			if r := recvName(fd); r != "" {
				name += r + "."
			}
			name += fd.Name.Name
			hasReaderParam := false
			params := map[string]*sk{}
			for _, f := range fd.Type.Params.List {
				if isReaderType(f.Type) {
					hasReaderParam = true
					for _, n := range f.Names {
						params[n.Name] = leaf0("ext")
					}
				}
			}
			if fd.Name.Name == "Token" {
				continue
			}
			if fd.Name.Name == "Current" {
				// iterator accessor, not a writer
				transformers = append(transformers, name)
				continue
			}
			if hasReaderParam && !strings.HasPrefix(strings.ToLower(fd.Name.Name), "wrap") {
				transformers = append(transformers, name)
				continue
			}
			env := &fnEnv{p: p, fn: fd, params: params, notes: &notes}
			writers = append(writers, writer{name, env.body()})
		}
	}
	sort.Slice(writers, func(i, j int) bool { return writers[i].name < writers[j].name })
	sort.Strings(transformers)
	return writers, transformers, notes, nil
}

func render(writers []writer, transformers, notes []string) string {
	var sb strings.Builder
	sb.WriteString("-- GENERATED by `harness facts C19` from the anchored files of C19; do not edit.\n")
	sb.WriteString("import XmppModel.Model.Payload\nimport XmppModel.Model.Skeleton\nimport XmppModel.Model.Payloads2\n")
	sb.WriteString("namespace XmppModel.Generated.C19\nopen XmppModel.Payload\n\n")
	for _, n := range notes {
		sb.WriteString("-- note: " + n + "\n")
	}
	sb.WriteString("-- stream transformers (take a reader, not writers): " + strings.Join(transformers, ", ") + "\n\n")
	sb.WriteString("/-- the combinator skeleton of every writer of the anchored files -/\n")
	sb.WriteString("def writers : List (String × Skel) := [\n")
	for i, w := range writers {
		sep := ","
		if i == len(writers)-1 {
			sep = ""
		}
		fmt.Fprintf(&sb, "  (%q, %s)%s\n", w.name, w.s.lean(), sep)
	}
	sb.WriteString("]\n\n/-- the writers the property names, looked up by the extractor: `none` when a writer was\nnot found where the model expects it (renamed, removed, no longer returns a reader) -/\ndef required : List (String × Option Skel) := [\n")
	for i, n := range requiredWriters {
		sep := ","
		if i == len(requiredWriters)-1 {
			sep = ""
		}
		val := "none"
		for _, w := range writers {
			if w.name == n {
				val = "some " + w.s.lean()
			}
		}
		fmt.Fprintf(&sb, "  (%q, %s)%s\n", n, val, sep)
	}
	sb.WriteString("]\n\nend XmppModel.Generated.C19\n")
	return sb.String()
}
