package c19

// modelCases emits the layer-2 correspondence lines of the modelled codecs
// other than data forms.
func modelCases(c *ctx) {}
