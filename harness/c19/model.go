package c19

// modelCases emits the layer-2 correspondence lines of the modelled codecs
// other than data forms.
func modelCases(c *ctx) {}

// Facts regenerates lean/XmppModel/Generated/C19.lean.
func Facts(repo string) (string, error) { return "", nil }
