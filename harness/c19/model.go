package c19

import (
	"encoding/base64"
	"encoding/xml"
	"fmt"
	"strconv"
	"strings"
	"time"

	"mellium.im/xmpp/bin"
	"mellium.im/xmpp/commands"
	"mellium.im/xmpp/crypto"
	"mellium.im/xmpp/delay"
	"mellium.im/xmpp/disco"
	"mellium.im/xmpp/disco/info"
	"mellium.im/xmpp/disco/items"
	"mellium.im/xmpp/muc"
	"mellium.im/xmpp/oob"
	"mellium.im/xmpp/paging"
	"mellium.im/xmpp/receipts"
	"mellium.im/xmpp/roster"
	"mellium.im/xmpp/stanza"
	"mellium.im/xmpp/styling"
	"mellium.im/xmpp/upload"
	"mellium.im/xmpp/version"
	"mellium.im/xmpp/xtime"

	"verifharness/common"
)

// Layer 2 correspondence for the codecs modelled in Model/Payloads.lean: flat
// records (`enc rec` / `dec rec`, one schema per type) and the composite
// payloads (`rset`, `roster`, `info`).  Values travel in wire form: the
// harness formats numbers, JIDs, hashes and times with the real functions.

type fv struct {
	many bool
	s    string
	l    []string
}

func one(s string) fv     { return fv{s: s} }
func manyV(l []string) fv { return fv{many: true, l: l} }

func encFVs(l []fv) string {
	var o []string
	for _, v := range l {
		if v.many {
			o = append(o, "m:"+encList(hxs(v.l)))
		} else {
			o = append(o, "o:"+hx(v.s))
		}
	}
	if len(o) == 0 {
		return "-"
	}
	return encOuter(o)
}

func u64s(v uint64, omitZero bool) string {
	if v == 0 && omitZero {
		return ""
	}
	return strconv.FormatUint(v, 10)
}

// recCase compares one value of a flat record type with the model; a nil
// reader means the type is written by xml.Marshal (struct tags).
func recCase[T any](c *ctx, name string, v T, tr xml.TokenReader, vals func(*T) []fv) {
	r := c.r
	p := guard("TokenReader", func() ([]byte, []xml.Token, error) {
		if tr == nil {
			b, err := xml.Marshal(&v)
			return b, nil, err
		}
		return encodeTokens(tr)
	})
	if p.panicked != "" || p.err != nil {
		return // reported by layer 3
	}
	toks, err := reparse(p.out)
	if err != nil {
		return
	}
	line := "enc rec " + name + " " + encFVs(vals(&v))
	r.Line(line, common.EncToks(canonOrder(toks)))
	r.Case(line, true, "model/"+name)
	var d T
	pan, derr := safeUnmarshal(p.out, &d)
	if pan != "" {
		return
	}
	obs := "ERR"
	if derr == nil {
		obs = encFVs(vals(&d))
	}
	r.Line("dec rec "+name+" "+common.EncToks(toks), obs)
}

func dashS(s string) string {
	if s == "" {
		return "-"
	}
	return hx(s)
}

func optU(p *uint64) string {
	if p == nil {
		return "!"
	}
	return dashS(strconv.FormatUint(*p, 10))
}

func rsetLine(s *paging.Set) string {
	return fmt.Sprintf("%s %s %s %s", dashS(s.First.ID), optU(s.First.Index), dashS(s.Last), optU(s.Count))
}

func rosterItemLine(it roster.Item) string {
	return strings.Join([]string{hx(it.JID.String()), hx(it.Name), hx(it.Subscription), encList(hxs(it.Group))}, "~")
}

func rosterLine(q *roster.IQ) string {
	var l []string
	for _, it := range q.Query.Item {
		l = append(l, rosterItemLine(it))
	}
	items := "-"
	if len(l) > 0 {
		items = encOuter(l)
	}
	return dashS(q.Query.Ver) + " " + items
}

func infoLine(i *disco.Info) (line string, jt string, ok bool) {
	var ids []string
	for _, id := range i.Identity {
		ids = append(ids, strings.Join([]string{hx(id.Category), hx(id.Name), hx(id.Type), hx(id.Lang)}, "~"))
	}
	var feats []string
	for _, f := range i.Features {
		feats = append(feats, hx(f.Var))
	}
	forms := "-"
	ok = true
	var all formDesc
	if len(i.Form) > 0 {
		forms = ""
		for k := range i.Form {
			fd, attributable := descOf(&i.Form[k])
			ok = ok && attributable
			forms += ";" + fd.enc()
			all.fields = append(all.fields, fd.fields...)
		}
	}
	idl, fl := "-", "-"
	if len(ids) > 0 {
		idl = encOuter(ids)
	}
	if len(feats) > 0 {
		fl = encList(feats)
	}
	return dashS(i.Node) + " " + idl + " " + fl + " " + forms, all.jidTab(), ok
}

// modelCases emits the layer-2 correspondence lines of the modelled codecs
// other than data forms.
func modelCases(c *ctx) {
	r := c.r
	n := r.Pick(150, 2000)
	for k := 0; k < n; k++ {
		g := &gen{r: common.NewRand(c.rnd.Uint64())}
		r.Mark("case model %d", k)
		{
			v := disco.InfoQuery{Node: g.opt()}
			recCase(c, "disco.InfoQuery", v, v.TokenReader(), func(v *disco.InfoQuery) []fv { return []fv{one(v.Node)} })
		}
		{
			v := disco.ItemsQuery{Node: g.opt()}
			recCase(c, "disco.ItemsQuery", v, v.TokenReader(), func(v *disco.ItemsQuery) []fv { return []fv{one(v.Node)} })
		}
		{
			v := info.Feature{Var: g.text()}
			recCase(c, "info.Feature", v, v.TokenReader(), func(v *info.Feature) []fv { return []fv{one(v.Var)} })
		}
		{
			v := info.Identity{Category: g.text(), Type: g.text(), Name: g.opt(), Lang: []string{"", "en", "de-CH"}[g.intn(3)]}
			recCase(c, "info.Identity", v, v.TokenReader(), func(v *info.Identity) []fv {
				return []fv{one(v.Category), one(v.Name), one(v.Type), one(v.Lang)}
			})
		}
		{
			v := items.Item{JID: g.njid(), Name: g.opt(), Node: g.opt()}
			recCase(c, "items.Item", v, v.TokenReader(), func(v *items.Item) []fv {
				return []fv{one(v.JID.String()), one(v.Name), one(v.Node)}
			})
		}
		{
			v := disco.Caps{Hash: g.hash(), Node: g.text(), Ver: g.text()}
			recCase(c, "disco.Caps", v, v.TokenReader(), func(v *disco.Caps) []fv {
				return []fv{one(v.Hash.String()), one(v.Node), one(v.Ver)}
			})
		}
		{
			v := paging.RequestNext{Max: g.u64(), After: g.opt()}
			recCase(c, "paging.RequestNext", v, v.TokenReader(), func(v *paging.RequestNext) []fv {
				return []fv{one(u64s(v.Max, true)), one(v.After)}
			})
		}
		{
			v := paging.RequestPrev{Max: g.u64(), Before: g.opt()}
			recCase(c, "paging.RequestPrev", v, v.TokenReader(), func(v *paging.RequestPrev) []fv {
				return []fv{one(v.Before), one(u64s(v.Max, true))}
			})
		}
		{
			v := paging.RequestIndex{Max: g.u64(), Index: g.u64()}
			recCase(c, "paging.RequestIndex", v, v.TokenReader(), func(v *paging.RequestIndex) []fv {
				return []fv{one(u64s(v.Index, false)), one(u64s(v.Max, false))}
			})
		}
		{
			v := roster.Item{JID: g.jid(), Name: g.opt(), Subscription: []string{"", "none", "to", "both", "remove"}[g.intn(5)], Group: g.texts(4)}
			recCase(c, "roster.Item", v, v.TokenReader(), func(v *roster.Item) []fv {
				return []fv{one(v.JID.String()), one(v.Name), one(v.Subscription), manyV(v.Group)}
			})
		}
		{
			v := version.Query{Name: g.opt(), Version: g.opt(), OS: g.opt()}
			recCase(c, "version.Query", v, v.TokenReader(), func(v *version.Query) []fv {
				return []fv{one(v.Name), one(v.Version), one(v.OS)}
			})
		}
		{
			v := oob.Query{URL: g.text(), Desc: g.opt()}
			recCase(c, "oob.Query", v, v.TokenReader(), func(v *oob.Query) []fv { return []fv{one(v.URL), one(v.Desc)} })
		}
		{
			v := oob.Data{URL: g.text(), Desc: g.opt()}
			recCase(c, "oob.Data", v, v.TokenReader(), func(v *oob.Data) []fv { return []fv{one(v.URL), one(v.Desc)} })
		}
		{
			v := stanza.ID{ID: g.text(), By: g.njid()}
			recCase(c, "stanza.ID", v, v.TokenReader(), func(v *stanza.ID) []fv { return []fv{one(v.By.String()), one(v.ID)} })
		}
		{
			v := stanza.OriginID{ID: g.text()}
			recCase(c, "stanza.OriginID", v, v.TokenReader(), func(v *stanza.OriginID) []fv { return []fv{one(v.ID)} })
		}
		{
			v := commands.Command{JID: g.jid(), Action: []string{"", "execute", "cancel", "next"}[g.intn(4)], Name: g.opt(), Node: g.text(), SID: g.opt()}
			recCase(c, "commands.Command", v, v.TokenReader(), func(v *commands.Command) []fv {
				return []fv{one(v.Action), one(v.JID.String()), one(v.Name), one(v.Node), one(v.SID)}
			})
		}
		{
			v := upload.File{Name: g.text(), Size: []int{0, 1, -1, 1 << 40}[g.intn(4)], Type: g.opt()}
			recCase(c, "upload.File", v, v.TokenReader(), func(v *upload.File) []fv {
				return []fv{one(v.Type), one(v.Name), one(strconv.Itoa(v.Size))}
			})
		}
		{
			v := xtime.Time{Time: g.time(false)}
			if _, off := v.Time.Zone(); off%60 != 0 {
				// an offset with a seconds part has no wire form of its own (printed to the minute)
				v.Time = v.Time.UTC()
			}
			recCase(c, "xtime.Time", v, v.TokenReader(), func(v *xtime.Time) []fv {
				return []fv{one(v.Time.Format("Z07:00")), one(v.Time.UTC().Format(time.RFC3339Nano))}
			})
		}
		{
			v := delay.Delay{From: g.jid(), Time: g.time(false), Reason: g.opt()}
			recCase(c, "delay.Delay", v, v.TokenReader(), func(v *delay.Delay) []fv {
				return []fv{one(v.From.String()), one(v.Time.UTC().Format(time.RFC3339Nano)), one(v.Reason)}
			})
		}
		{
			v := stanza.Delay{From: g.jid(), Stamp: g.time(false), Reason: g.opt()}
			recCase(c, "stanza.Delay", v, v.TokenReader(), func(v *stanza.Delay) []fv {
				return []fv{one(v.From.String()), one(v.Stamp.UTC().Format(time.RFC3339Nano)), one(v.Reason)}
			})
		}
		{
			v := commands.Note{Type: commands.NoteType(g.intn(3)), Value: g.text()}
			recCase(c, "commands.Note", v, v.TokenReader(), func(v *commands.Note) []fv {
				return []fv{one(v.Type.String()), one(v.Value)}
			})
		}
		{
			ages := []time.Duration{0, time.Second, 90 * time.Second, 1500 * time.Millisecond, 400 * time.Millisecond}
			v := bin.Data{CID: g.opt(), MaxAge: ages[g.intn(len(ages))], NoCache: g.chance(1, 4), Type: g.opt(), Data: g.bytes()}
			recCase(c, "bin.Data", v, v.TokenReader(), func(v *bin.Data) []fv {
				age := ""
				switch {
				case v.NoCache:
					age = "0"
				case v.MaxAge > 0:
					if a := strconv.FormatFloat(v.MaxAge.Seconds(), 'f', 0, 64); a != "0" {
						age = a
					}
				}
				return []fv{one(v.CID), one(age), one(v.Type), one(base64.StdEncoding.EncodeToString(v.Data))}
			})
		}
		{
			v := g.hash()
			recCase(c, "crypto.Hash", v, v.TokenReader(), func(v *crypto.Hash) []fv { return []fv{one(v.String())} })
		}
		{
			v := crypto.HashOutput{Hash: g.hash(), Out: append([]byte{7}, g.bytes()...)}
			recCase(c, "crypto.HashOutput", v, v.TokenReader(), func(v *crypto.HashOutput) []fv {
				return []fv{one(v.Hash.String()), one(base64.StdEncoding.EncodeToString(v.Out))}
			})
		}
		{
			v := styling.Unstyled{Value: true}
			recCase(c, "styling.Unstyled", v, v.TokenReader(), func(v *styling.Unstyled) []fv { return nil })
		}
		{
			v := receipts.Requested(true)
			recCase(c, "receipts.Requested", v, v.TokenReader(), func(v *receipts.Requested) []fv { return nil })
		}
		{
			v := muc.Invitation{XMLName: xml.Name{Space: muc.NSConf, Local: "x"}, Continue: g.boolean(), JID: g.njid(), Password: g.opt(), Reason: g.opt(), Thread: g.opt()}
			recCase(c, "muc.Invitation(direct)", v, v.TokenReader(), func(v *muc.Invitation) []fv {
				cont, thread := "", ""
				if v.Continue {
					cont, thread = "true", v.Thread
				}
				return []fv{one(cont), one(v.JID.String()), one(v.Password), one(v.Reason), one(thread)}
			})
		}
		{
			type itemEl struct {
				XMLName xml.Name `xml:"item"`
				muc.Item
			}
			v := itemEl{Item: muc.Item{JID: g.jid(), Affiliation: muc.Affiliation(g.intn(5)), Nick: g.opt(), Role: muc.Role(g.intn(4)), Reason: g.opt()}}
			recCase(c, "muc.Item", v, nil, func(v *itemEl) []fv {
				aff, role := "", ""
				if v.Affiliation != muc.AffiliationNone {
					aff = v.Affiliation.String()
				}
				if v.Role != muc.RoleNone {
					role = v.Role.String()
				}
				return []fv{one(aff), one(v.JID.String()), one(v.Nick), one(role), one(v.Reason)}
			})
		}
		// composite payloads
		{
			var s paging.Set
			s.First.ID, s.First.Index, s.Last, s.Count = g.text(), up(g), g.text(), up(g)
			p := guard("TokenReader", func() ([]byte, []xml.Token, error) { return encodeTokens(s.TokenReader()) })
			if toks, err := reparse(p.out); p.panicked == "" && p.err == nil && err == nil {
				line := "enc rset " + rsetLine(&s)
				r.Line(line, common.EncToks(canonOrder(toks)))
				r.Case(line, true, "model/paging.Set")
				var d paging.Set
				if pan, derr := safeUnmarshal(p.out, &d); pan == "" {
					obs := "ERR"
					if derr == nil {
						obs = rsetLine(&d)
					}
					r.Line("dec rset "+common.EncToks(toks), obs)
				}
			}
		}
		{
			var q roster.IQ
			q.IQ = stanza.IQ{Type: stanza.ResultIQ, ID: "id"}
			q.Query.Ver = g.opt()
			for m := g.count(4); m > 0; m-- {
				q.Query.Item = append(q.Query.Item, roster.Item{JID: g.jid(), Name: g.opt(), Subscription: []string{"", "both", "remove"}[g.intn(3)], Group: g.texts(3)})
			}
			p := guard("TokenReader", func() ([]byte, []xml.Token, error) { return encodeTokens(q.TokenReader()) })
			if toks, err := reparse(p.out); p.panicked == "" && p.err == nil && err == nil && len(toks) >= 4 {
				payload := toks[1 : len(toks)-1] // without the <iq/> wrapper (stanza.IQ.Wrap belongs to C13)
				line := "enc roster " + rosterLine(&q)
				r.Line(line, common.EncToks(canonOrder(payload)))
				r.Case(line, true, "model/roster.IQ")
				var d roster.IQ
				if pan, derr := safeUnmarshal(p.out, &d); pan == "" {
					obs := "ERR"
					if derr == nil {
						obs = rosterLine(&d)
					}
					r.Line("dec roster "+common.EncToks(payload), obs)
				}
			}
		}
		{
			i := disco.Info{InfoQuery: disco.InfoQuery{Node: g.opt()}}
			for m := g.count(3); m > 0; m-- {
				i.Identity = append(i.Identity, info.Identity{Category: g.text(), Type: g.text(), Name: g.opt(), Lang: []string{"", "en"}[g.intn(2)]})
			}
			for m := g.count(4); m > 0; m-- {
				i.Features = append(i.Features, info.Feature{Var: g.text()})
			}
			for m := g.count(2); m > 0; m-- {
				fd := genFormDesc(g, false)
				if fd.typ == "cancel" {
					fd.typ = "result"
				}
				i.Form = append(i.Form, *fd.build())
			}
			p := guard("TokenReader", func() ([]byte, []xml.Token, error) { return encodeTokens(i.TokenReader()) })
			if toks, err := reparse(p.out); p.panicked == "" && p.err == nil && err == nil {
				if il, jt, ok := infoLine(&i); ok {
					line := "enc info " + jt + " " + il
					r.Line(line, common.EncToks(canonOrder(toks)))
					r.Case(line, true, "model/disco.Info")
				}
				var d disco.Info
				if pan, derr := safeUnmarshal(p.out, &d); pan == "" {
					obs := "ERR"
					okD := true
					if derr == nil {
						obs, _, okD = infoLine(&d)
					}
					if okD {
						r.Line("dec info "+common.EncToks(toks), obs)
					}
				}
			}
		}
	}
}
