package c19

import (
	"bytes"
	"encoding/hex"
	"encoding/xml"
	"fmt"
	"net/url"
	"sort"
	"strings"
	"time"
	"unicode/utf8"

	"mellium.im/xmpp/jid"

	"verifharness/common"
)

// gen produces the values of the property's quantifier: all optional fields
// present or absent, zero, one or many repeated children, text with
// XML-special, multi-line and non-ASCII characters, extreme numbers and times
// in any zone.  Every choice derives from the run's PRNG.
type gen struct {
	r *common.Rand
	// enumeration mode (small-scope exhaustive): every choice is read from a script of
	// digits (0 beyond its end) and the radix of every choice point is recorded; the value
	// pools shrink to a few representatives (see the enum branches below)
	enum    bool
	script  []int
	pos     int
	radices []int
	// bad allows text that is not representable in XML 1.0 (control
	// characters, invalid UTF-8); such cases are only checked for
	// well-formedness and absence of panics, not for round trip.
	bad bool
}

// choice primitives: every random decision of a generator goes through these three
func (g *gen) intn(n int) int {
	if !g.enum {
		return g.r.Intn(n)
	}
	if n <= 0 {
		n = 1
	}
	d := 0
	if g.pos < len(g.script) {
		d = g.script[g.pos]
	}
	if d >= n {
		d = n - 1
	}
	g.radices = append(g.radices, n)
	g.pos++
	return d
}

func (g *gen) boolean() bool {
	if !g.enum {
		return g.r.Bool()
	}
	return g.intn(2) == 1
}

func (g *gen) chance(num, den int) bool {
	if !g.enum {
		return g.r.Chance(num, den)
	}
	return g.intn(2) == 1
}

// enumText: the four-value text alphabet of the exhaustive part (empty, XML-special,
// multi-line, non-ASCII)
var enumText = []string{"", "a<&>\"'", "l1\nl2", "é"}

var textPool = []string{
	"", "a", "node", "x y", "<&>\"'", "a<b>c</b>&amp;", "]]>", "l1\nl2", "ends\n", "\n", "\r\n", "a\r\nb", "a\rb",
	"\ttab", " lead", "trail ", "é☃𝄞", "日本語", "a b", "<!-- c -->", "<?pi?>", "&#x41;", "\\", "'", "\"", "--",
	"line1\n\nline3", "true", "false", "0", "1", " ", "\ufeffbom",
}

var badPool = []string{"\x00", "a\x01b", "\x1f", "\xff\xfe", "a\xc3", "\ufffe", "\uffff", "\x0b"}

func (g *gen) text() string {
	if g.enum {
		return enumText[g.intn(len(enumText))]
	}
	if g.bad && g.chance(1, 3) {
		return badPool[g.intn(len(badPool))]
	}
	switch g.intn(10) {
	case 0:
		return ""
	case 1, 2, 3, 4, 5:
		return textPool[g.intn(len(textPool))]
	case 6:
		return textPool[g.intn(len(textPool))] + textPool[g.intn(len(textPool))]
	case 7:
		return strings.Repeat(textPool[1+g.intn(len(textPool)-1)], 1+g.intn(40))
	}
	n := 1 + g.intn(6)
	var sb strings.Builder
	alpha := []rune("ab <>&'\"\n\r\té☃z09")
	for i := 0; i < n; i++ {
		sb.WriteRune(alpha[g.intn(len(alpha))])
	}
	return sb.String()
}

// ntext is a non-empty text.
func (g *gen) ntext() string {
	if g.enum {
		return enumText[1+g.intn(len(enumText)-1)]
	}
	for i := 0; i < 8; i++ {
		if s := g.text(); s != "" {
			return s
		}
	}
	return "x"
}

func (g *gen) opt() string {
	if g.enum {
		return g.text()
	}
	if g.boolean() {
		return ""
	}
	return g.text()
}

func (g *gen) texts(max int) []string {
	n := g.count(max)
	var out []string
	for i := 0; i < n; i++ {
		out = append(out, g.text())
	}
	return out
}

// count is 0, 1 or many.
func (g *gen) count(max int) int {
	if g.enum {
		n := g.intn(3)
		if n > max {
			n = max
		}
		return n
	}
	switch g.intn(4) {
	case 0:
		return 0
	case 1:
		return 1
	}
	return g.intn(max + 1)
}

var jidPool = []string{
	"", "example.net", "a@example.net", "a@example.net/res", "example.net/r x", "user@example.net/<&>'\"",
	"ü@example.net/é", "room@conference.example.net/nick\nname", "a.b-c@sub.example.org", "[::1]", "x@example.net/a/b@c",
}

func (g *gen) jid() jid.JID {
	if g.enum {
		return []jid.JID{{}, jid.MustParse("a@example.net"), jid.MustParse("user@example.net/<&>'\"")}[g.intn(3)]
	}
	s := jidPool[g.intn(len(jidPool))]
	if s == "" {
		return jid.JID{}
	}
	j, err := jid.Parse(s)
	if err != nil {
		return jid.JID{}
	}
	return j
}

// njid is a non-zero JID.
func (g *gen) njid() jid.JID {
	if g.enum {
		return []jid.JID{jid.MustParse("a@example.net"), jid.MustParse("user@example.net/<&>'\"")}[g.intn(2)]
	}
	for {
		if j := g.jid(); !j.Equal(jid.JID{}) {
			return j
		}
	}
}

func (g *gen) u64() uint64 {
	if g.enum {
		return []uint64{0, 1, ^uint64(0)}[g.intn(3)]
	}
	switch g.intn(8) {
	case 0:
		return 0
	case 1:
		return 1
	case 2:
		return ^uint64(0)
	case 3:
		return 1 << 63
	case 4:
		return 1<<63 - 1
	}
	return g.r.Uint64() >> uint(g.r.Intn(64))
}

func (g *gen) bytes() []byte {
	if g.enum {
		return [][]byte{nil, {0x41}, {0, 0xff, 0x10, 0x20}}[g.intn(3)]
	}
	switch g.intn(6) {
	case 0:
		return nil
	case 1:
		return []byte{byte(g.intn(256))}
	case 2:
		return []byte{0, 0}
	}
	n := g.intn(40)
	b := make([]byte, n)
	for i := range b {
		b[i] = byte(g.intn(256))
	}
	return b
}

var zones = []*time.Location{
	time.UTC, time.FixedZone("", 0), time.FixedZone("IST", 5*3600+30*60), time.FixedZone("PST", -8*3600),
	time.FixedZone("LMT", 53*60+28), time.FixedZone("", -(12*3600 + 45*60)), time.FixedZone("", 14*3600), time.FixedZone("", -59),
}

// time returns a time in the RFC 3339 representable range (years 0000-9999 in
// UTC and in its own zone) in any zone with any sub-second precision; zero
// says whether the zero time may be returned.
func (g *gen) time(zero bool) time.Time {
	if g.enum {
		ts := []time.Time{time.Date(2020, 1, 2, 3, 4, 5, 0, time.UTC), time.Date(2020, 1, 2, 3, 4, 5, 600000001, zones[2])}
		if zero {
			ts = append([]time.Time{{}}, ts...)
		}
		return ts[g.intn(len(ts))]
	}
	if zero && g.chance(1, 5) {
		return time.Time{}
	}
	loc := zones[g.intn(len(zones))]
	var nanos int
	switch g.intn(5) {
	case 0:
		nanos = 0
	case 1:
		nanos = 500000000
	case 2:
		nanos = 1
	case 3:
		nanos = 999999999
	default:
		nanos = g.intn(1000000000)
	}
	var t time.Time
	switch g.intn(8) {
	case 0:
		t = time.Date(1, 1, 2, 0, 0, 0, nanos, loc)
	case 1:
		t = time.Date(9999, 12, 30, 23, 59, 59, nanos, loc)
	case 2:
		t = time.Date(1970, 1, 1, 0, 0, 0, nanos, loc)
	case 3:
		t = time.Date(2016, 12, 31, 23, 59, 60, nanos, loc) // normalised leap second
	default:
		t = time.Date(1000+g.intn(8000), time.Month(1+g.intn(12)), 1+g.intn(28), g.intn(24), g.intn(60), g.intn(60), nanos, loc)
	}
	return t
}

// farTime is a time whose year is outside 0000-9999.
func (g *gen) farTime() time.Time {
	if g.enum {
		return time.Date(10000, 1, 1, 0, 0, 0, 0, time.UTC)
	}
	if g.boolean() {
		return time.Date(10000+g.intn(5000), 1, 1, 0, 0, 0, 0, time.UTC)
	}
	return time.Date(-1-g.intn(500), 6, 1, 0, 0, 0, 0, time.UTC)
}

// ---- canonical rendering ------------------------------------------------------

// kv builds canonical "field=value" lists; the first differing field of two
// renderings names the defect in the stable key.
type kv struct{ f []string }

func (k *kv) s(name, v string) *kv {
	k.f = append(k.f, name+"="+fmt.Sprintf("%q", v))
	return k
}
func (k *kv) b(name string, v bool) *kv { k.f = append(k.f, name+"="+common.B(v)); return k }
func (k *kv) u(name string, v uint64) *kv {
	k.f = append(k.f, fmt.Sprintf("%s=%d", name, v))
	return k
}
func (k *kv) i(name string, v int64) *kv {
	k.f = append(k.f, fmt.Sprintf("%s=%d", name, v))
	return k
}
func (k *kv) up(name string, v *uint64) *kv {
	if v == nil {
		k.f = append(k.f, name+"=nil")
	} else {
		k.f = append(k.f, fmt.Sprintf("%s=%d", name, *v))
	}
	return k
}
func (k *kv) j(name string, v jid.JID) *kv { return k.s(name, v.String()) }
func (k *kv) x(name string, v []byte) *kv {
	k.f = append(k.f, name+"="+hex.EncodeToString(v))
	return k
}
func (k *kv) ss(name string, v []string) *kv {
	q := make([]string, len(v))
	for i, s := range v {
		q[i] = fmt.Sprintf("%q", s)
	}
	k.f = append(k.f, name+"=["+strings.Join(q, ",")+"]")
	return k
}

// t renders an instant (UTC, nanosecond precision); the zone is rendered
// separately where the type is meant to keep it.
func (k *kv) t(name string, v time.Time) *kv {
	if v.IsZero() {
		k.f = append(k.f, name+"=zero")
	} else {
		k.f = append(k.f, name+"="+v.UTC().Format("2006-01-02T15:04:05.000000000Z"))
	}
	return k
}
func (k *kv) sub(name, v string) *kv { k.f = append(k.f, name+"={"+v+"}"); return k }
func (k *kv) String() string         { return strings.Join(k.f, ";") }

// firstDiff names the first field in which two canonical renderings differ.
func firstDiff(a, b string) string {
	fa, fb := splitTop(a), splitTop(b)
	for i := 0; i < len(fa) || i < len(fb); i++ {
		var x, y string
		if i < len(fa) {
			x = fa[i]
		}
		if i < len(fb) {
			y = fb[i]
		}
		if x != y {
			if c := timeDiffClass(x, y); c != "" {
				return c
			}
			n := x
			if n == "" {
				n = y
			}
			if j := strings.IndexByte(n, '='); j >= 0 {
				n = n[:j]
			}
			return n
		}
	}
	return "-"
}

// splitTop splits a rendering at top-level ';' (not inside {...} or quotes).
func splitTop(s string) []string {
	var out []string
	depth, inq, start := 0, false, 0
	for i := 0; i < len(s); i++ {
		c := s[i]
		switch {
		case inq:
			if c == '\\' {
				i++
			} else if c == '"' {
				inq = false
			}
		case c == '"':
			inq = true
		case c == '{' || c == '[':
			depth++
		case c == '}' || c == ']':
			depth--
		case c == ';' && depth == 0:
			out = append(out, s[start:i])
			start = i + 1
		}
	}
	return append(out, s[start:])
}

// ---- XML helpers ---------------------------------------------------------------

// xmlValid reports whether s survives encoding/xml's printer unchanged: valid
// UTF-8 made of XML 1.0 characters only.
func xmlValid(s string) bool {
	if !utf8.ValidString(s) {
		return false
	}
	for _, r := range s {
		if !(r == 0x09 || r == 0x0A || r == 0x0D || (r >= 0x20 && r <= 0xD7FF) || (r >= 0xE000 && r <= 0xFFFD) || (r >= 0x10000 && r <= 0x10FFFF)) {
			return false
		}
		if r == utf8.RuneError {
			return false
		}
	}
	return true
}

// encodeTokens prints a token stream with the real encoding/xml encoder.
func encodeTokens(r xml.TokenReader) (out []byte, toks []xml.Token, err error) {
	var buf bytes.Buffer
	e := xml.NewEncoder(&buf)
	if r == nil {
		return nil, nil, nil
	}
	for {
		t, terr := r.Token()
		if t != nil {
			t = xml.CopyToken(t)
			toks = append(toks, t)
			if err := e.EncodeToken(t); err != nil {
				return buf.Bytes(), toks, err
			}
		}
		if terr != nil {
			if terr.Error() == "EOF" {
				break
			}
			return buf.Bytes(), toks, terr
		}
		if t == nil {
			break
		}
		if len(toks) > 200000 {
			return buf.Bytes(), toks, fmt.Errorf("token stream does not end")
		}
	}
	if err := e.Flush(); err != nil {
		return buf.Bytes(), toks, err
	}
	return buf.Bytes(), toks, nil
}

// reparse tokenises printed XML with the real decoder and canonicalises what
// is representation only: namespace declarations are dropped (names carry
// their resolved namespace), attributes are sorted.
func reparse(b []byte) ([]xml.Token, error) {
	toks, err := common.Tokenize(b)
	if err != nil {
		return toks, err
	}
	out := make([]xml.Token, 0, len(toks))
	for _, t := range toks {
		if s, ok := t.(xml.StartElement); ok {
			var attrs []xml.Attr
			for _, a := range s.Attr {
				if a.Name.Space == "xmlns" || (a.Name.Space == "" && a.Name.Local == "xmlns") {
					continue
				}
				attrs = append(attrs, a)
			}
			sort.SliceStable(attrs, func(i, j int) bool {
				if attrs[i].Name.Space != attrs[j].Name.Space {
					return attrs[i].Name.Space < attrs[j].Name.Space
				}
				return attrs[i].Name.Local < attrs[j].Name.Local
			})
			s.Attr = attrs
			t = s
		}
		out = append(out, t)
	}
	return out, nil
}

// wellFormed checks that printed XML is one complete, correctly nested
// document fragment (zero or more top-level elements, no stray end tags).
func wellFormed(b []byte) error {
	toks, err := common.Tokenize(b)
	if err != nil {
		return err
	}
	depth := 0
	for _, t := range toks {
		switch t := t.(type) {
		case xml.StartElement:
			depth++
			// encoding/xml's decoder is lenient where XML 1.0 (+ Namespaces) is not: it hands
			// out a start tag that repeats an attribute.  A conforming parser refuses the
			// document ("duplicate attribute"), so does this oracle: the names of the attributes
			// of one start tag (after namespace resolution, declarations included) are distinct.
			if a, dup := dupAttr(t.Attr); dup {
				return fmt.Errorf("start tag <%s> repeats the attribute %q", t.Name.Local, strings.TrimPrefix(a.Space+":"+a.Local, ":"))
			}
			if t.Name.Local == "" {
				return fmt.Errorf("start tag without a name")
			}
		case xml.EndElement:
			depth--
			if depth < 0 {
				return fmt.Errorf("end tag at depth 0")
			}
		}
	}
	if depth != 0 {
		return fmt.Errorf("%d elements left open", depth)
	}
	return nil
}

// dupAttr: the first attribute name that occurs twice in one start tag.
func dupAttr(attrs []xml.Attr) (xml.Name, bool) {
	for i, a := range attrs {
		for _, b := range attrs[:i] {
			if a.Name == b.Name {
				return a.Name, true
			}
		}
	}
	return xml.Name{}, false
}

// balancedToks is the harness' own nesting check of a raw token stream.
func balancedToks(toks []xml.Token) bool {
	depth := 0
	for _, t := range toks {
		switch t.(type) {
		case xml.StartElement:
			depth++
		case xml.EndElement:
			if depth == 0 {
				return false
			}
			depth--
		}
	}
	return depth == 0
}

// timeDiffClass refines the key when the differing field is an instant: the
// same field can fail for different reasons (precision lost, offset lost).
func timeDiffClass(x, y string) string {
	i, j := strings.IndexByte(x, '='), strings.IndexByte(y, '=')
	if i < 0 || j < 0 || x[:i] != y[:j] {
		return ""
	}
	const layout = "2006-01-02T15:04:05.000000000Z"
	a, err1 := time.Parse(layout, x[i+1:])
	b, err2 := time.Parse(layout, y[j+1:])
	if err1 != nil || err2 != nil {
		return ""
	}
	d := a.Sub(b)
	if d < 0 {
		d = -d
	}
	switch {
	case d < time.Second:
		return x[:i] + "/subsecond"
	case d < time.Minute:
		return x[:i] + "/under-a-minute"
	}
	return x[:i] + "/instant"
}

// ---- canonical sibling order -----------------------------------------------------------
//
// The order of differently named children is a writer's free choice, the order
// of equally named children is not: correspondence lines compare token streams
// after a stable sort of every child list by element name (text first); the
// Lean driver does the same (`canonNode`).

type tnode struct {
	start xml.StartElement
	text  xml.CharData
	isEl  bool
	kids  []*tnode
}

func buildTree(toks []xml.Token) ([]*tnode, bool) {
	root := &tnode{}
	stack := []*tnode{root}
	for _, t := range toks {
		top := stack[len(stack)-1]
		switch t := t.(type) {
		case xml.StartElement:
			n := &tnode{start: t, isEl: true}
			top.kids = append(top.kids, n)
			stack = append(stack, n)
		case xml.EndElement:
			if len(stack) == 1 {
				return nil, false
			}
			stack = stack[:len(stack)-1]
		case xml.CharData:
			top.kids = append(top.kids, &tnode{text: t})
		}
	}
	return root.kids, len(stack) == 1
}

func (n *tnode) key() (string, string) {
	if !n.isEl {
		return "", ""
	}
	return n.start.Name.Space, n.start.Name.Local
}

func flattenTree(ns []*tnode, out *[]xml.Token) {
	sort.SliceStable(ns, func(i, j int) bool {
		a1, a2 := ns[i].key()
		b1, b2 := ns[j].key()
		if a1 != b1 {
			return a1 < b1
		}
		return a2 < b2
	})
	for _, n := range ns {
		if !n.isEl {
			*out = append(*out, n.text)
			continue
		}
		*out = append(*out, n.start)
		flattenTree(n.kids, out)
		*out = append(*out, n.start.End())
	}
}

// canonOrder returns the token stream in canonical sibling order (the top
// level keeps its order).
func canonOrder(toks []xml.Token) []xml.Token {
	roots, ok := buildTree(toks)
	if !ok {
		return toks
	}
	var out []xml.Token
	for _, r := range roots {
		if !r.isEl {
			out = append(out, r.text)
			continue
		}
		out = append(out, r.start)
		flattenTree(r.kids, &out)
		out = append(out, r.start.End())
	}
	return out
}

// ---- URLs -------------------------------------------------------------------------------
//
// A URL value is built component by component (RFC 3986: scheme, userinfo, host, port, path,
// query, fragment; plus the opaque and the relative-reference forms) and parsed with
// url.Parse — the way every caller of the exported API obtains a *url.URL.  Every component
// is a choice point of its own, so the exhaustive part enumerates the combinations and a
// codec that treats one component differently on the way in and on the way out (a fragment
// parsed as part of the path, a query that loses its "?", escaped path octets decoded twice,
// credentials dropped) meets a value that shows it.
var (
	urlSchemes   = []string{"https://", "http://", "", "//", "mailto:"}
	urlUsers     = []string{"", "u@", "u:p%40w@", ":@"}
	urlHosts     = []string{"example.net", "[::1]:8080", "xn--bcher-kva.example:443", "EXAMPLE.net.", ""}
	urlPaths     = []string{"/up/a%20b", "", "/", "/é", "/a%2Fb/c", "/a;p=1/..//b", "/x:y@z"}
	urlQueries   = []string{"", "?x=1&y=<2>", "?", "?token=xyz", "?a=b%26c&&=", "?q=é+%2B"}
	urlFragments = []string{"", "#k=0123456789abcdef", "#", "#a%20b/é?x", "#part-1"}
)

// url returns nil (1 in 6) or a parsed URL reference.
func (g *gen) url() *url.URL {
	if g.intn(6) == 1 {
		return nil
	}
	scheme := urlSchemes[g.intn(len(urlSchemes))]
	user := urlUsers[g.intn(len(urlUsers))]
	host := urlHosts[g.intn(len(urlHosts))]
	path := urlPaths[g.intn(len(urlPaths))]
	query := urlQueries[g.intn(len(urlQueries))]
	frag := urlFragments[g.intn(len(urlFragments))]
	var raw string
	switch scheme {
	case "mailto:": // opaque form: no authority
		raw = scheme + "user@example.net" + query + frag
	case "": // relative reference: no authority either
		raw = path + query + frag
	default:
		if host == "" {
			user = ""
		}
		raw = scheme + user + host + path + query + frag
	}
	u, err := url.Parse(raw)
	if err != nil || u == nil {
		u, _ = url.Parse("https://example.net/fallback" + query + frag)
	}
	return u
}

// canonURL renders a URL component by component (nil and the empty reference are the same
// value: both are written as url="" / no URL): two URLs are equivalent when every component
// a client can observe and the printed form agree.
func canonURL(u *url.URL) string {
	if u == nil || *u == (url.URL{}) {
		return ""
	}
	user := ""
	if u.User != nil {
		user = u.User.String() + "@"
	}
	return fmt.Sprintf("%q{scheme=%q opaque=%q user=%q host=%q path=%q escpath=%q forceq=%v query=%q frag=%q escfrag=%q}",
		u.String(), u.Scheme, u.Opaque, user, u.Host, u.Path, u.EscapedPath(), u.ForceQuery, u.RawQuery, u.Fragment, u.EscapedFragment())
}
