package c19

import (
	"bytes"
	"encoding/base64"
	"encoding/xml"
	"fmt"
	"net/http"
	"net/url"
	"strconv"
	"strings"
	"time"

	"mellium.im/xmlstream"
	"mellium.im/xmpp"
	"mellium.im/xmpp/blocklist"
	"mellium.im/xmpp/bookmarks"
	"mellium.im/xmpp/carbons"
	"mellium.im/xmpp/commands"
	"mellium.im/xmpp/crypto"
	"mellium.im/xmpp/delay"
	"mellium.im/xmpp/file"
	"mellium.im/xmpp/forward"
	"mellium.im/xmpp/history"
	"mellium.im/xmpp/jid"
	"mellium.im/xmpp/muc"
	"mellium.im/xmpp/paging"
	"mellium.im/xmpp/pubsub"
	"mellium.im/xmpp/stanza"
	"mellium.im/xmpp/upload"

	"verifharness/common"
)

// Layer 2, second batch (Model/Payloads2.lean): nested payloads.  Values are written in the
// generic syntax of the driver: atom = ~hex, list = [a,b,…], optional = [] / [x], bool = "0"/"1".

func va(s string) string          { return "~" + hx(s) }
func vl(items ...string) string   { return "[" + strings.Join(items, ",") + "]" }
func vbool(b bool) string         { return va(common.B(b)) }
func vlist(items []string) string { return "[" + strings.Join(items, ",") + "]" }
func vas(l []string) []string {
	o := make([]string, len(l))
	for i, s := range l {
		o[i] = va(s)
	}
	return o
}
func vopt(p *uint64) string {
	if p == nil {
		return "[]"
	}
	return vl(va(strconv.FormatUint(*p, 10)))
}

// written prints a writer and returns the re-tokenised output (nil if the path failed: layer 3 reports that).
func written(tr func() xml.TokenReader) (out []byte, toks []xml.Token) {
	p := guard("TokenReader", func() ([]byte, []xml.Token, error) { return encodeTokens(tr()) })
	if p.panicked != "" || p.err != nil {
		return nil, nil
	}
	t, err := reparse(p.out)
	if err != nil {
		return nil, nil
	}
	return p.out, t
}

// pair emits the enc line and the dec line of one value.
func (c *ctx) pair(kind, encArgs string, out []byte, toks []xml.Token, decArgs string, decode func() (string, error)) {
	r := c.r
	line := "enc " + kind + " " + encArgs
	r.Line(line, common.EncToks(canonOrder(toks)))
	r.Case(line, true, "model/"+kind)
	if decode == nil {
		return
	}
	var obs string
	p := guard("decode", func() ([]byte, []xml.Token, error) {
		s, err := decode()
		if err != nil {
			s = "ERR"
		}
		obs = s
		return nil, nil, nil
	})
	if p.panicked != "" {
		return
	}
	pre := ""
	if decArgs != "" {
		pre = decArgs + " "
	}
	r.Line("dec "+kind+" "+pre+common.EncToks(toks), obs)
}

func blockV(it *blocklist.Item) string {
	var ids []string
	for _, id := range it.StanzaIDs {
		ids = append(ids, vl(va(id.By.String()), va(id.ID)))
	}
	return vl(va(it.JID.String()), va(string(it.Reason)), vlist(ids), va(it.Text))
}

func rawToks(b []byte) string {
	t, err := reparse(b)
	if err != nil {
		return "ERR"
	}
	return common.EncToks(t)
}

func mamV(q *history.Query) string {
	ts := func(t time.Time) string {
		if t.IsZero() {
			return ""
		}
		return t.UTC().Format(time.RFC3339Nano)
	}
	lim := ""
	if q.Limit > 0 {
		lim = strconv.FormatUint(q.Limit, 10)
	}
	return vl(va(q.ID), va(q.With.String()), va(ts(q.Start)), va(ts(q.End)), va(q.BeforeID), va(q.AfterID),
		vlist(vas(q.IDs)), va(lim), vbool(q.Last), va(q.PageID), vbool(q.Reverse))
}

func actionsV(a commands.Actions) string {
	ex := ""
	switch e := (a & commands.Execute) >> 3; e {
	case commands.Prev, commands.Next, commands.Complete:
		ex = e.String()
	}
	return vl(va(ex), vbool(a&commands.Prev != 0), vbool(a&commands.Next != 0), vbool(a&commands.Complete != 0))
}

// urlLine: `url <attribute>` -> the components the slot decoder produced for it.
func urlLine(r *common.Run, attr string, u *url.URL) {
	if attr == "" || u == nil {
		return
	}
	d := func(s string) string {
		if s == "" {
			return "-"
		}
		return common.Hex([]byte(s))
	}
	auth := u.Host
	if u.User != nil {
		auth = u.User.String() + "@" + auth
	}
	path := u.EscapedPath()
	if u.Opaque != "" {
		path = u.Opaque
	}
	q := "!"
	if u.RawQuery != "" || u.ForceQuery {
		q = d(u.RawQuery)
	}
	r.Line("url "+d(attr), fmt.Sprintf("%s %s %s %s %s", d(u.Scheme), d(auth), d(path), q, d(u.EscapedFragment())))
}

func urlS(u *url.URL) string {
	if u == nil {
		return ""
	}
	return u.String()
}

func metaV(m *file.Meta, wire bool) string {
	h := "[]"
	if m.Hash.Hash != 0 || len(m.Hash.Out) > 0 {
		h = vl(va(m.Hash.Hash.String()), va(base64.StdEncoding.EncodeToString(m.Hash.Out)))
	}
	u := func(v uint64) string { return va(strconv.FormatUint(v, 10)) }
	return vl(va(m.MediaType), va(m.Name), va(m.Date.Format(time.RFC3339Nano)), u(m.Size), h, u(m.Width), u(m.Height), u(m.Length))
}

func keyV(k crypto.Key) string {
	return vl(vbool(k.Trusted), va(base64.StdEncoding.EncodeToString(k.KeyID)))
}

func trustV(t *crypto.TrustMessage) string {
	var os []string
	for _, o := range t.Keys {
		var ks []string
		for _, k := range o.Keys {
			ks = append(ks, keyV(k))
		}
		os = append(os, vl(va(o.Owner.String()), vlist(ks)))
	}
	return vl(va(t.Usage), va(t.Encryption), vlist(os))
}

func delayV(d *delay.Delay) string {
	return vl(va(d.From.String()), va(d.Time.UTC().Format(time.RFC3339Nano)), va(d.Reason))
}

// modelCases2 emits the correspondence lines of the second batch.
// urlSweep: every combination of scheme x path x query x fragment (and every user-info x
// host) of the URL pools through a real slot: written by TokenReader, decoded by
// UnmarshalXML, components compared with the model's split of the attribute.
func urlSweep(c *ctx) {
	r := c.r
	r.Mark("case url sweep")
	one := func(raw string) {
		u, err := url.Parse(raw)
		if err != nil {
			return
		}
		s := upload.Slot{GetURL: u}
		out, toks := written(func() xml.TokenReader { return s.TokenReader() })
		if toks == nil {
			return
		}
		var d upload.Slot
		if err := xml.Unmarshal(out, &d); err != nil {
			r.Line("url "+common.Hex([]byte(u.String())), "ERR")
			return
		}
		urlLine(r, u.String(), d.GetURL)
	}
	for _, sc := range urlSchemes {
		for _, p := range urlPaths {
			for _, q := range urlQueries {
				for _, f := range urlFragments {
					switch sc {
					case "mailto:":
						one(sc + "user@example.net" + q + f)
					case "":
						one(p + q + f)
					default:
						one(sc + "example.net" + p + q + f)
					}
				}
			}
		}
	}
	for _, us := range urlUsers {
		for _, h := range urlHosts {
			if h != "" {
				one("https://" + us + h + "/p?q#f")
				one("//" + us + h)
			}
		}
	}
}

func modelCases2(c *ctx) {
	urlSweep(c)
	r := c.r
	n := r.Pick(120, 1500)
	for k := 0; k < n; k++ {
		g := &gen{r: common.NewRand(c.rnd.Uint64())}
		r.Mark("case model2 %d", k)
		// blocklist item
		{
			it := blocklist.Item{JID: g.njid(), Reason: []blocklist.ReportReason{"", blocklist.ReasonSpam, blocklist.ReasonAbuse}[g.intn(3)], Text: g.opt()}
			for m := g.count(3); m > 0; m-- {
				it.StanzaIDs = append(it.StanzaIDs, stanza.ID{ID: g.text(), By: g.njid()})
			}
			if out, toks := written(func() xml.TokenReader { return it.TokenReader() }); toks != nil {
				c.pair("block", blockV(&it), out, toks, "", func() (string, error) {
					var d blocklist.Item
					err := xml.Unmarshal(out, &d)
					d.JID = it.JID
					if err == nil {
						var j struct {
							JID jid.JID `xml:"jid,attr"`
						}
						_ = xml.Unmarshal(out, &j)
						d.JID = j.JID
					}
					return blockV(&d), err
				})
			}
		}
		// bookmark
		{
			exts := [][]byte{nil, []byte(`<a xmlns="urn:x"></a>`), []byte(`<a xmlns="urn:x">t&amp;</a><b xmlns="urn:y" k="v"></b>`)}
			ch := bookmarks.Channel{Autojoin: g.boolean(), Name: g.opt(), Nick: g.opt(), Password: g.opt(), Extensions: exts[g.intn(len(exts))]}
			bv := func(c *bookmarks.Channel) string {
				return vl(va(strconv.FormatBool(c.Autojoin)), va(c.Name), va(c.Nick), va(c.Password))
			}
			if out, toks := written(func() xml.TokenReader { return ch.TokenReader() }); toks != nil {
				c.pair("bookmark", bv(&ch)+" "+rawToks(ch.Extensions), out, toks, "", func() (string, error) {
					var d bookmarks.Channel
					err := xml.Unmarshal(out, &d)
					return bv(&d) + " " + rawToks(d.Extensions), err
				})
			}
		}
		// MAM fin
		{
			var s paging.Set
			s.First.ID, s.First.Index, s.Last, s.Count = g.text(), up(g), g.text(), up(g)
			res := history.Result{Complete: g.boolean(), Unstable: g.boolean(), Set: s}
			fv := func(x *history.Result) string {
				return vl(va(strconv.FormatBool(x.Complete)), va(strconv.FormatBool(!x.Unstable)), va(x.Set.First.ID), vopt(x.Set.First.Index), va(x.Set.Last), vopt(x.Set.Count))
			}
			if out, toks := written(func() xml.TokenReader { return res.TokenReader() }); toks != nil {
				c.pair("fin", fv(&res), out, toks, "", func() (string, error) {
					var d history.Result
					err := xml.Unmarshal(out, &d)
					return fv(&d), err
				})
			}
		}
		// MAM query
		{
			q := history.Query{ID: g.opt(), With: g.jid(), Start: g.time(true), End: g.time(true), BeforeID: g.opt(), AfterID: g.opt(),
				Limit: g.u64(), Last: g.boolean(), PageID: g.opt(), Reverse: g.boolean(), IDs: g.texts(3)}
			if inRange(q.Start) && inRange(q.End) {
				if out, toks := written(func() xml.TokenReader { return q.TokenReader() }); toks != nil {
					jt := formDesc{}.jidTab(q.With.String())
					if q.With.Equal(jid.JID{}) {
						jt = "-"
					}
					c.pair("mam", jt+" "+mamV(&q), out, toks, jt, func() (string, error) {
						var d history.Query
						err := xml.Unmarshal(out, &d)
						return mamV(&d), err
					})
				}
			}
		}
		// mediated invitation
		{
			i := muc.Invitation{Continue: g.boolean(), JID: g.njid(), Password: g.opt(), Reason: g.opt(), Thread: g.opt()}
			mv := func(x *muc.Invitation, norm bool) string {
				return vl(va(x.JID.String()), va(x.Reason), vbool(x.Continue), va(x.Thread), va(x.Password))
			}
			if out, toks := written(func() xml.TokenReader { return i.TokenReader() }); toks != nil {
				c.pair("mediated", mv(&i, false), out, toks, "", func() (string, error) {
					var d muc.Invitation
					err := xml.Unmarshal(out, &d)
					return mv(&d, true), err
				})
			}
		}
		// command actions
		{
			a := commands.Actions(g.intn(64))
			if out, toks := written(func() xml.TokenReader { return a.TokenReader() }); toks != nil {
				c.pair("actions", actionsV(a), out, toks, "", func() (string, error) {
					var d commands.Actions
					err := xml.Unmarshal(out, &d)
					return actionsV(d), err
				})
			}
		}
		// upload slot
		{
			s := upload.Slot{PutURL: g.url(), GetURL: g.url()}
			names := []string{"Authorization", "Cookie", "Expires", "cookie", "X-Other"}
			for m := g.count(3); m > 0; m-- {
				if s.Header == nil {
					s.Header = http.Header{}
				}
				name := names[g.intn(len(names))]
				s.Header[name] = append(s.Header[name], g.text())
			}
			if out, toks := written(func() xml.TokenReader { return s.TokenReader() }); toks != nil {
				// the header order is Go's map order: the line lists the headers in the order they were written
				var hs []string
				var cur string
				for i, t := range toks {
					if st, ok := t.(xml.StartElement); ok && st.Name.Local == "header" {
						cur = ""
						for _, a := range st.Attr {
							if a.Name.Local == "name" {
								cur = a.Value
							}
						}
						val := ""
						if i+1 < len(toks) {
							if cd, ok := toks[i+1].(xml.CharData); ok {
								val = string(cd)
							}
						}
						hs = append(hs, vl(va(cur), va(val)))
					}
				}
				type hv struct{ n, v string }
				var order []hv
				for _, h := range hs {
					parts := strings.Split(strings.Trim(h, "[]"), ",")
					nb, _ := common.UnHex(strings.TrimPrefix(parts[0], "~"))
					vb, _ := common.UnHex(strings.TrimPrefix(parts[1], "~"))
					order = append(order, hv{string(nb), string(vb)})
				}
				// decoded headers listed in document order (http.Header.Add keeps per-name order)
				slotDec := func(doc []byte, order []hv) (string, error) {
					var d upload.Slot
					if err := xml.Unmarshal(doc, &d); err != nil {
						return "", err
					}
					idx := map[string]int{}
					var dh []string
					for _, h := range order {
						cn := http.CanonicalHeaderKey(h.n)
						if vals := d.Header[cn]; idx[cn] < len(vals) && (cn == "Authorization" || cn == "Cookie" || cn == "Expires") {
							dh = append(dh, vl(va(h.n), va(vals[idx[cn]])))
							idx[cn]++
						}
					}
					rest := 0
					for n, vals := range d.Header {
						rest += len(vals) - idx[n]
					}
					if rest != 0 {
						return "", fmt.Errorf("%d decoded headers are not in the document order list", rest)
					}
					return vl(va(urlS(d.PutURL)), vlist(dh), va(urlS(d.GetURL))), nil
				}
				c.pair("slot", vl(va(urlS(s.PutURL)), vlist(hs), va(urlS(s.GetURL))), out, toks, "", func() (string, error) {
					return slotDec(out, order)
				})
				// the components the decoder took from the two URL attributes (Model/Url.lean)
				var ds upload.Slot
				if err := xml.Unmarshal(out, &ds); err == nil {
					urlLine(r, urlS(s.PutURL), ds.PutURL)
					urlLine(r, urlS(s.GetURL), ds.GetURL)
				}
				// a slot as a server might send it: with headers the client must ignore
				foreign := []hv{{"X-Other", "v"}, {"Cookie", "c<&>"}, {"Content-Type", "text/plain"}}
				var doc bytes.Buffer
				doc.WriteString(`<slot xmlns="urn:xmpp:http:upload:0"><put url="https://example.net/p">`)
				all := append(append([]hv(nil), order...), foreign...)
				for _, h := range all {
					doc.WriteString(`<header name="`)
					_ = xml.EscapeText(&doc, []byte(h.n))
					doc.WriteString(`">`)
					_ = xml.EscapeText(&doc, []byte(h.v))
					doc.WriteString(`</header>`)
				}
				doc.WriteString(`</put><get url="https://example.net/g"></get></slot>`)
				if ft, err := reparse(doc.Bytes()); err == nil {
					obs, err := slotDec(doc.Bytes(), all)
					if err != nil {
						obs = "ERR"
					}
					r.Line("dec slot "+common.EncToks(ft), obs)
				}
			}
		}
		// file metadata
		{
			m := file.Meta{MediaType: g.text(), Name: g.text(), Date: g.time(false).UTC(), Size: g.u64(), Width: g.u64(), Height: g.u64(), Length: g.u64()}
			if !g.chance(1, 4) {
				m.Hash = crypto.HashOutput{Hash: g.hash(), Out: append([]byte{1}, g.bytes()...)}
			}
			if out, toks := written(func() xml.TokenReader { return m.TokenReader() }); toks != nil {
				c.pair("filemeta", metaV(&m, true), out, toks, "", func() (string, error) {
					var d file.Meta
					err := xml.Unmarshal(out, &d)
					return metaV(&d, false), err
				})
			}
		}
		// trust message
		{
			t := crypto.TrustMessage{Usage: g.text(), Encryption: g.text()}
			for m := g.count(3); m > 0; m-- {
				o := crypto.OwnedKeys{Owner: g.njid()}
				for j := g.count(3); j > 0; j-- {
					o.Keys = append(o.Keys, crypto.Key{Trusted: g.boolean(), KeyID: g.bytes()})
				}
				t.Keys = append(t.Keys, o)
			}
			if out, toks := written(func() xml.TokenReader { return t.TokenReader() }); toks != nil {
				c.pair("trust", trustV(&t), out, toks, "", func() (string, error) {
					var d crypto.TrustMessage
					err := xml.Unmarshal(out, &d)
					return trustV(&d), err
				})
			}
		}
		// forwarding / carbons
		{
			kind := g.intn(3)
			d := delay.Delay{From: g.jid(), Time: g.time(false), Reason: g.opt()}
			body := g.text()
			inner := func() xml.TokenReader {
				return stanza.Message{XMLName: xml.Name{Space: stanza.NSClient, Local: "message"}, Type: stanza.ChatMessage, ID: "m1"}.Wrap(xmlstream.Wrap(
					xmlstream.Token(xml.CharData(body)), xml.StartElement{Name: xml.Name{Local: "body"}}))
			}
			innerBytes, _, err := encodeTokens(inner())
			if err == nil {
				tr := func() xml.TokenReader {
					switch kind {
					case 0:
						return forward.Forwarded{Delay: d}.Wrap(inner())
					case 1:
						return carbons.WrapReceived(d, inner())
					}
					return carbons.WrapSent(d, inner())
				}
				if out, toks := written(tr); toks != nil {
					c.pair("fwd", fmt.Sprintf("%d %s %s", kind, delayV(&d), rawToks(innerBytes)), out, toks, fmt.Sprint(kind), func() (string, error) {
						var got delay.Delay
						dec := xml.NewDecoder(bytes.NewReader(out))
						var rd xml.TokenReader
						var err error
						pre := ""
						if kind == 0 {
							rd, err = forward.Unwrap(&got, dec)
						} else {
							var st xml.StartElement
							rd, st, err = carbons.Unwrap(&got, dec)
							pre = common.B(st.Name.Local == "sent") + " "
						}
						if err != nil {
							return "", err
						}
						ts, err := common.ReadAllTokens(rd)
						if err != nil {
							return "", err
						}
						var buf bytes.Buffer
						e := xml.NewEncoder(&buf)
						for _, t := range ts {
							if err := e.EncodeToken(t); err != nil {
								return "", err
							}
						}
						if err := e.Flush(); err != nil {
							return "", err
						}
						return pre + delayV(&got) + " " + rawToks(buf.Bytes()), nil
					})
				}
			}
		}
	}
	// internal/saslerr and the MUC join payload (through the export hooks)
	tbl := saslTable(repoDir())
	if tbl.ok {
		r.Mark("case model2 sasl")
		for _, n := range saslValues {
			w := saslCondW{N: n}
			out, toks := written(func() xml.TokenReader { return xmpp.VerifSASLCondition(n).TokenReader() })
			if out == nil && toks == nil {
				// nothing written is a legal output here: re-tokenising the empty document gives no tokens
				if p := guard("TokenReader", func() ([]byte, []xml.Token, error) { return encodeTokens(xmpp.VerifSASLCondition(n).TokenReader()) }); p.panicked != "" || p.err != nil {
					continue
				}
			}
			line := fmt.Sprintf("enc saslcond %s %d", tbl.v(), n)
			r.Line(line, common.EncToks(toks))
			r.Case(line, true, "model/saslcond")
			if len(toks) > 0 {
				var d saslCondW
				if pan, err := safeUnmarshal(out, &d); pan == "" {
					obs := "ERR"
					if err == nil {
						obs = fmt.Sprint(d.N)
					}
					r.Line("dec saslcond "+tbl.v()+" "+common.EncToks(toks), obs)
				}
			}
			_ = w
		}
		for k := 0; k < r.Pick(120, 1500); k++ {
			g := &gen{r: common.NewRand(c.rnd.Uint64())}
			e := saslErrW{Cond: saslValues[g.intn(len(saslValues))], Lang: []string{"", "en", "de-CH"}[g.intn(3)], Text: g.opt()}
			ev := func(x *saslErrW) string { return vl(va(fmt.Sprint(x.Cond)), va(x.Lang), va(x.Text)) }
			if !xmlValid(e.Text) {
				continue
			}
			if out, toks := written(func() xml.TokenReader { return xmpp.VerifSASLError(e.Cond, e.Lang, e.Text).TokenReader() }); toks != nil {
				c.pair("saslerr", tbl.v()+" "+ev(&e), out, toks, tbl.v(), func() (string, error) {
					var d saslErrW
					err := xml.Unmarshal(out, &d)
					return ev(&d), err
				})
			}
		}
	} else {
		r.Notes = append(r.Notes, "saslerr table not found: "+tbl.why)
		r.Line("enc saslcond - 0", "table-not-found")
	}
	for k := 0; k < r.Pick(150, 2000); k++ {
		g := &gen{r: common.NewRand(c.rnd.Uint64())}
		var w mucJoinW
		if g.boolean() {
			v := g.u64()
			w.MaxStanzas = &v
		}
		if g.boolean() {
			v := g.u64()
			w.MaxChars = &v
		}
		if g.boolean() {
			d := []time.Duration{0, time.Second, -90 * time.Second, 1500 * time.Millisecond}[g.intn(4)]
			w.Duration = &d
		}
		if g.boolean() {
			t := g.time(false)
			if !inRange(t) {
				continue
			}
			w.Since = &t
		}
		w.Password = g.opt()
		if !xmlValid(w.Password) {
			continue
		}
		ou := func(p *uint64) string {
			if p == nil {
				return "[]"
			}
			return vl(va(strconv.FormatUint(*p, 10)))
		}
		os := func(p *string) string {
			if p == nil {
				return "[]"
			}
			return vl(va(*p))
		}
		jv := func(x *mucJoinW) string { return vl(ou(x.MaxStanzas), ou(x.MaxChars), ou(x.seconds()), os(x.since()), va(x.Password)) }
		if out, toks := written(func() xml.TokenReader { return muc.VerifJoinConfig(w.opts()...).TokenReader() }); toks != nil {
			c.pair("mucjoin", jv(&w), out, toks, "", func() (string, error) {
				var d mucJoinW
				err := xml.Unmarshal(out, &d)
				return jv(&d), err
			})
		}
	}

	// pubsub payloads: what Publish / Delete put on the wire (inside the <iq/>)
	for k := 0; k < r.Pick(25, 200); k++ {
		g := &gen{r: common.NewRand(c.rnd.Uint64())}
		node, id, text := g.text(), g.opt(), g.text()
		if !xmlValid(node) || !xmlValid(id) || !xmlValid(text) {
			continue
		}
		retract := g.boolean()
		notify := g.boolean()
		rs, err := common.NewRawSession(0, "jabber:client", jid.MustParse("me@example.net/r"), jid.MustParse("example.net"))
		if err != nil {
			continue
		}
		item := func() xml.TokenReader {
			return xmlstream.Wrap(xmlstream.Token(xml.CharData(text)), xml.StartElement{Name: xml.Name{Space: "urn:x", Local: "entry"}})
		}
		p := guard("pubsub", func() ([]byte, []xml.Token, error) {
			ctx, cancel := contextTimeout(15 * time.Millisecond)
			defer cancel()
			if retract {
				_ = pubsub.Delete(ctx, rs.S, node, id, notify)
			} else {
				_, _ = pubsub.Publish(ctx, rs.S, node, id, item())
			}
			return rs.Out.Bytes(), nil, nil
		})
		_ = rs.In.Close()
		if p.panicked != "" || len(p.out) == 0 {
			continue
		}
		toks, err := reparse(p.out)
		if err != nil || len(toks) < 4 {
			continue
		}
		payload := toks[1 : len(toks)-1]
		r.Mark("case model2 pubsub %d", k)
		if retract {
			c.pair("retract", vl(va(node), va(id), vbool(notify)), nil, payload, "", nil)
		} else {
			ib, _, _ := encodeTokens(item())
			c.pair("publish", vl(va(node), va(id))+" "+rawToks(ib), nil, payload, "", nil)
			// the publish response has the shape of the request: the real response decoder reads the id
			var buf bytes.Buffer
			enc := xml.NewEncoder(&buf)
			okEnc := true
			for _, t := range payload {
				if err := enc.EncodeToken(t); err != nil {
					okEnc = false
					break
				}
			}
			if okEnc && enc.Flush() == nil {
				var d pubRespW
				obs := "ERR"
				if pan, err := safeUnmarshal(buf.Bytes(), &d); pan == "" && err == nil {
					obs = dashS(d.ID)
				}
				r.Line("dec pubid "+common.EncToks(payload), obs)
			}
		}
	}
}
