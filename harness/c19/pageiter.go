package c19

import (
	"bytes"
	"encoding/xml"
	"fmt"
	"sort"
	"strings"

	"mellium.im/xmpp/paging"

	"verifharness/common"
)

// paging.Iter (paging/rsm.go): a stream decoder of the anchored files.  It iterates over the
// children of a response, hands every child to the caller except top-level <set/> elements of
// the RSM namespace, which become the current page and the requests for the next / previous
// page.  Model: lean/XmppModel/Model/PagingIter.lean; tie: `piter <tokens of the children>`.
//
// Replay line: `udoc piter <max> <hex of the document>`.

const rsmNS = "http://jabber.org/protocol/rsm"

var pageAlphabet = []string{
	`<item xmlns="urn:x" id="1"/>`,
	`<item xmlns="urn:x"><sub k="v">t&lt;</sub>tail</item>`,
	`text`,
	`<set xmlns="` + rsmNS + `"><first index="0">a</first><last>b</last><count>2</count></set>`,
	`<set xmlns="` + rsmNS + `"/>`,
	`<set xmlns="` + rsmNS + `"><last>z&amp;</last></set>`,
	`<set xmlns="` + rsmNS + `"><first>f</first><count>18446744073709551615</count></set>`,
	`<set xmlns="` + rsmNS + `"><first>a</first><first index="3">b</first><last>l1</last><last>l2</last></set>`,
	`<set xmlns="` + rsmNS + `"><count>x</count></set>`,
	`<set xmlns="` + rsmNS + `"><first index="-1">a</first></set>`,
	`<set xmlns="urn:other"><last>q</last></set>`,
	`<item xmlns="urn:x"><set xmlns="` + rsmNS + `"><last>nested</last></set></item>`,
	`<set xmlns="` + rsmNS + `"><unknown/><last>u</last>text</set>`,
}

// canonToks: tokens as the models see them (declarations dropped, attributes sorted).
func canonToks(toks []xml.Token) []xml.Token {
	out := make([]xml.Token, 0, len(toks))
	for _, t := range toks {
		if s, ok := t.(xml.StartElement); ok {
			var attrs []xml.Attr
			for _, a := range s.Attr {
				if a.Name.Space == "xmlns" || (a.Name.Space == "" && a.Name.Local == "xmlns") {
					continue
				}
				attrs = append(attrs, a)
			}
			sort.SliceStable(attrs, func(i, j int) bool {
				if attrs[i].Name.Space != attrs[j].Name.Space {
					return attrs[i].Name.Space < attrs[j].Name.Space
				}
				return attrs[i].Name.Local < attrs[j].Name.Local
			})
			s.Attr = attrs
			t = s
		}
		out = append(out, t)
	}
	return out
}

func pageIterDoc(c *ctx, max uint64, doc []byte, class string) {
	r := c.r
	caseLine := fmt.Sprintf("udoc piter %d %s", max, common.Hex(doc))
	r.Mark("case piter")
	r.Line(caseLine, "-")
	lines := []string{r.Prop + " " + caseLine}
	r.Case(caseLine, true, class+"/paging.Iter")
	var items []xml.Token
	var iterErr error
	var np *paging.RequestNext
	var pp *paging.RequestPrev
	var cp *paging.Set
	p := guard("Iter", func() ([]byte, []xml.Token, error) {
		dec := xml.NewDecoder(bytes.NewReader(doc))
		if _, err := dec.Token(); err != nil {
			return nil, nil, err
		}
		it := paging.NewIter(dec, max)
		for n := 0; it.Next() && n < 10000; n++ {
			start, tr := it.Current()
			if start != nil {
				items = append(items, start.Copy())
			}
			for k := 0; tr != nil && k < 100000; k++ {
				t, err := tr.Token()
				if t != nil {
					items = append(items, xml.CopyToken(t))
				}
				if err != nil || t == nil {
					break
				}
			}
		}
		iterErr = it.Err()
		np, pp, cp = it.NextPage(), it.PreviousPage(), it.CurrentPage()
		return nil, nil, it.Close()
	})
	if p.panicked != "" {
		r.Fail("unmarshal-total", "paging.Iter/"+panicClass(p.panicked), lines, fmt.Sprintf("iterating over %q panicked: %s", doc, p.panicked))
		return
	}
	// the children as the model sees them
	all, err := common.Tokenize(doc)
	if err != nil || len(all) < 2 {
		return
	}
	kids := canonToks(all[1 : len(all)-1])
	obs := "ERR"
	if iterErr == nil && p.err == nil {
		// value or error: what was handed out is a forest
		if !balancedToks(items) {
			r.Fail("unmarshal-total", "paging.Iter/neither-value-nor-error", lines, fmt.Sprintf("no error, but the children handed out are not a forest: %s\n%q", common.EncToks(items), doc))
		}
		cur, next, prev := "-", "!", "!"
		if cp != nil {
			cur = strings.ReplaceAll(rsetLine(cp), " ", ",")
		}
		if np != nil {
			next = dashS(np.After)
			if np.Max != max {
				r.Fail("roundtrip", "paging.Iter/max", lines, fmt.Sprintf("NextPage().Max = %d, the iterator was made with %d", np.Max, max))
			}
		}
		if pp != nil {
			prev = dashS(pp.Before)
			if pp.Max != max {
				r.Fail("roundtrip", "paging.Iter/max", lines, fmt.Sprintf("PreviousPage().Max = %d, the iterator was made with %d", pp.Max, max))
			}
		}
		obs = fmt.Sprintf("%s %s %s %s", common.EncToks(canonToks(items)), cur, next, prev)
		// the oracle's own reading of the response: every child that is not a top-level RSM set
		// is handed out unchanged and in order; the page requests follow the last such set
		var want, lastSet []xml.Token
		depth, inSet := 0, false
		for _, t := range kids {
			st, isStart := t.(xml.StartElement)
			if isStart && depth == 0 && st.Name.Space == rsmNS && st.Name.Local == "set" {
				inSet, lastSet = true, nil
			}
			if inSet {
				lastSet = append(lastSet, t)
			} else {
				want = append(want, t)
			}
			switch t.(type) {
			case xml.StartElement:
				depth++
			case xml.EndElement:
				depth--
				if depth == 0 {
					inSet = false
				}
			}
		}
		if common.EncToks(want) != common.EncToks(canonToks(items)) {
			r.Fail("roundtrip", "paging.Iter/items", lines, fmt.Sprintf("children handed out %s\nwant %s\n%q", common.EncToks(canonToks(items)), common.EncToks(want), doc))
		}
		wantNext, wantPrev := "!", "!"
		if lastSet != nil {
			var ps paging.Set
			if pan, err := safeUnmarshal(printToks(lastSet), &ps); pan == "" && err == nil {
				if ps.Last != "" {
					wantNext = dashS(ps.Last)
				}
				if ps.First.ID != "" {
					wantPrev = dashS(ps.First.ID)
				}
			}
		}
		if next != wantNext {
			r.Fail("roundtrip", "paging.Iter/next-page", lines, fmt.Sprintf("NextPage after %s, the last <set/> of the response says %s\n%q", next, wantNext, doc))
		}
		if prev != wantPrev {
			r.Fail("roundtrip", "paging.Iter/previous-page", lines, fmt.Sprintf("PreviousPage before %s, the last <set/> of the response says %s\n%q", prev, wantPrev, doc))
		}
	}
	r.Line("piter "+common.EncToks(kids), obs)
}

func pageIterReplay(c *ctx, f []string) {
	// f = C19 udoc piter <max> <hex>
	if len(f) < 5 {
		return
	}
	var max uint64
	fmt.Sscan(f[3], &max)
	if doc, err := common.UnHex(f[4]); err == nil {
		pageIterDoc(c, max, doc, "replay")
	}
}

func pageIterCases(c *ctx) {
	r := c.r
	r.Mark("case paging-iter")
	maxLen := r.Pick(2, 3)
	level := []string{""}
	seqs := []string{""}
	for l := 1; l <= maxLen; l++ {
		var next []string
		for _, p := range level {
			for _, ch := range pageAlphabet {
				if strings.HasSuffix(p, "text") && ch == "text" {
					continue // adjacent character data is one token
				}
				next = append(next, p+ch)
			}
		}
		seqs = append(seqs, next...)
		level = next
	}
	for i, s := range seqs {
		pageIterDoc(c, []uint64{0, 10}[i%2], []byte(`<query xmlns="urn:x">`+s+`</query>`), "exhaustive")
	}
	// random longer responses
	rnd := c.rnd.Fork()
	for k := r.Pick(60, 600); k > 0; k-- {
		var b strings.Builder
		last := ""
		for n := rnd.Intn(7); n > 0; n-- {
			ch := pageAlphabet[rnd.Intn(len(pageAlphabet))]
			if ch == "text" && last == "text" {
				continue
			}
			b.WriteString(ch)
			last = ch
		}
		pageIterDoc(c, rnd.Uint64()%1000, []byte(`<query xmlns="urn:x">`+b.String()+`</query>`), "random")
	}
}
