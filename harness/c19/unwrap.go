package c19

import (
	"bytes"
	"encoding/xml"
	"fmt"

	"mellium.im/xmlstream"
	"mellium.im/xmpp/carbons"
	"mellium.im/xmpp/delay"
	"mellium.im/xmpp/forward"
	"mellium.im/xmpp/stanza"

	"verifharness/common"
)

// unwrapCase: forwarding and carbons are wrappers, their decoding direction is
// Unwrap.  Wrap a message, print it, Unwrap what a decoder reads: the delay and
// the inner stanza must come back.
func unwrapCase(c *ctx, sub uint64, class string) {
	r := c.r
	g := &gen{r: common.NewRand(sub)}
	kind := g.intn(3)
	d := delay.Delay{From: g.jid(), Time: g.time(false), Reason: g.opt()}
	body := g.text()
	name := []string{"forward.Unwrap", "carbons.Unwrap(received)", "carbons.Unwrap(sent)"}[kind]
	line := fmt.Sprintf("val %s %d 0", name, sub)
	r.Line(line, "-")
	lines := []string{r.Prop + " " + line}
	r.Case(line, true, class+"/"+name)
	if !xmlValid(body) || !xmlValid(d.Reason) {
		return
	}
	inner := func() xml.TokenReader {
		// a forwarded stanza carries its own namespace (XEP-0297); without one it would
		// inherit the wrapper's, which is a property of the test value, not of Unwrap
		return stanza.Message{XMLName: xml.Name{Space: stanza.NSClient, Local: "message"}, Type: stanza.ChatMessage, ID: "m1"}.Wrap(xmlstream.Wrap(
			xmlstream.Token(xml.CharData(body)), xml.StartElement{Name: xml.Name{Local: "body"}}))
	}
	var tr xml.TokenReader
	switch kind {
	case 0:
		tr = forward.Forwarded{Delay: d}.Wrap(inner())
	case 1:
		tr = carbons.WrapReceived(d, inner())
	default:
		tr = carbons.WrapSent(d, inner())
	}
	p := guard("Wrap", func() ([]byte, []xml.Token, error) { return encodeTokens(tr) })
	if p.panicked != "" || p.err != nil || wellFormed(p.out) != nil {
		return // reported by the writer cases
	}
	wantInner, _, err := encodeTokens(inner())
	if err != nil {
		return
	}
	var got delay.Delay
	var gotToks []xml.Token
	u := guard("Unwrap", func() ([]byte, []xml.Token, error) {
		dec := xml.NewDecoder(bytes.NewReader(p.out))
		var out xml.TokenReader
		var err error
		if kind == 0 {
			out, err = forward.Unwrap(&got, dec)
		} else {
			out, _, err = carbons.Unwrap(&got, dec)
		}
		if err != nil {
			return nil, nil, err
		}
		toks, err := common.ReadAllTokens(out)
		gotToks = toks
		return nil, toks, err
	})
	detail := fmt.Sprintf("wrapped: %q", p.out)
	switch {
	case u.panicked != "":
		r.Fail("unmarshal-total", name+"/"+panicClass(u.panicked), lines, "Unwrap panicked: "+u.panicked+"\n"+detail)
		return
	case u.err != nil:
		r.Fail("roundtrip", name+"/decode-error/"+errClass(u.err), lines, "Unwrap failed on the package's own output: "+u.err.Error()+"\n"+detail)
		return
	}
	if canonDelay(got) != canonDelay(d) {
		r.Fail("roundtrip", name+"/delay/"+firstDiff(canonDelay(d), canonDelay(got)), lines, "delay "+canonDelay(got)+" want "+canonDelay(d)+"\n"+detail)
	}
	// the inner stanza: compare as printed and re-tokenised XML
	var buf bytes.Buffer
	e := xml.NewEncoder(&buf)
	ok := true
	for _, t := range gotToks {
		if err := e.EncodeToken(t); err != nil {
			ok = false
			break
		}
	}
	if ok && e.Flush() == nil {
		a, err1 := reparse(buf.Bytes())
		b, err2 := reparse(wantInner)
		if err1 != nil || err2 != nil || common.EncToks(a) != common.EncToks(b) {
			r.Fail("roundtrip", name+"/inner", lines, fmt.Sprintf("unwrapped %q want %q\n%s", buf.Bytes(), wantInner, detail))
		}
	} else {
		r.Fail("roundtrip", name+"/inner-unbalanced", lines, fmt.Sprintf("the unwrapped stream cannot be printed: %v\n%s", common.EncToks(gotToks), detail))
	}
}
